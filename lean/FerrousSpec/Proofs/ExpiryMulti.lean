/-
  C02 helper lemmas (6): a multi-member write made as ONE storage call is atomic with respect to the deadline.
-/
import FerrousSpec.Proofs.ExpirySweep
set_option linter.unusedSimpArgs false
set_option linter.unusedVariables false
namespace Ferrous.Exp
open Ferrous

/-- what ONE modify-or-create call does under the key, in terms of the entry the lazy test hands it -/
theorem update_result (c : Cfg) (fn : String) (k : Key) (tag : Tag) (n now : Nat) (s : Shard) :
    (∃ e, (enter c fn now s k).2 = some e ∧ e.tag = tag ∧
        lookup (step c (.update fn k tag n) now s).1.data k = some { e with val := e.val + n } ∧
        (step c (.update fn k tag n) now s).2 = .num (e.val + n)) ∨
    ((enter c fn now s k).2 = none ∧
        lookup (step c (.update fn k tag n) now s).1.data k = some ⟨tag, n, none⟩ ∧
        (step c (.update fn k tag n) now s).2 = .num n) ∨
    (∃ e, (enter c fn now s k).2 = some e ∧ e.tag ≠ tag ∧ (step c (.update fn k tag n) now s).2 = .wrongType ∧
        (step c (.update fn k tag n) now s).1 = (enter c fn now s k).1) := by
  simp only [step]
  generalize enter c fn now s k = r
  obtain ⟨s1, cur⟩ := r
  cases cur with
  | none => right; left; simp [lookup_insert_self]
  | some e =>
    by_cases ht : e.tag = tag
    · left; exact ⟨e, rfl, ht, by simp [ht, lookup_insert_self], by simp [ht]⟩
    · right; right; exact ⟨e, rfl, ht, by simp [ht], by simp [ht]⟩

/-- the per-member loop on a key that stays live throughout (no reading past the deadline) adds every member to it -/
theorem perMemberRun_live (c : Cfg) (fn : String) (k : Key) (times : List Nat) (s : Shard) (e : Stored)
    (hl : lookup s.data k = some e) (ht : e.tag = .zset) (hv : ∀ t ∈ times, expired t e = false) :
    lookup (perMemberRun c fn k times s).1.data k = some { e with val := e.val + times.length } ∧
    (perMemberRun c fn k times s).2 = times.length := by
  induction times generalizing s e with
  | nil => simp [perMemberRun, hl]
  | cons t r ih =>
    have he := hv t (by simp)
    have hstep : step c (.update fn k .zset 1) t s =
        (⟨insert s.data k { e with val := e.val + 1 }, s.expiring⟩, .num (e.val + 1)) := by
      simp [step, enter_live c fn t s k e hl he, ht]
    have hl' : lookup (⟨insert s.data k { e with val := e.val + 1 }, s.expiring⟩ : Shard).data k = some { e with val := e.val + 1 } :=
      lookup_insert_self _ _ _
    have := ih ⟨insert s.data k { e with val := e.val + 1 }, s.expiring⟩ { e with val := e.val + 1 } hl' ht
      (fun t' h' => by have := hv t' (List.mem_cons_of_mem _ h'); simpa [expired] using this)
    simp only [perMemberRun, hstep]
    refine ⟨?_, by simp [this.2]⟩
    rw [this.1]
    simp only [List.length_cons]
    congr 1
    simp only [Stored.mk.injEq, true_and, and_true]
    omega

/-! ### Blocks (scripts, transactions) under a frozen clock -/

/-- every storage call of the block has a lazy test -/
def blockLazy (c : Cfg) : List (Op × Nat) → Bool
  | [] => true
  | (o, _) :: r => lazyOp c o && blockLazy c r

/-- FROZEN CLOCK = ONE INSTANT: a block whose calls all read the clock frozen at its start returns, call by call, what the
    prescribed store returns when the whole block happens at that instant, and leaves the same visible entries. -/
theorem blockRun_frozen_refines (c : Cfg) (t0 : Nat) (ops : List (Op × Nat)) (s : Shard) (d : Db)
    (hl : blockLazy c ops = true) (hn : NodupKeys s.data) (hv : Spec.purge t0 s.data = Spec.purge t0 d) :
    (blockRun c true t0 ops s).2 = (Spec.blockRun t0 ops d).2 ∧
    Spec.purge t0 (blockRun c true t0 ops s).1.data = Spec.purge t0 (Spec.blockRun t0 ops d).1 := by
  induction ops generalizing s d with
  | nil => exact ⟨rfl, hv⟩
  | cons p r ih =>
    obtain ⟨o, t⟩ := p
    simp only [blockLazy, Bool.and_eq_true] at hl
    have href := step_refines c o t0 s hn (Or.inl hl.1)
    have hcg := Spec.step_congr o t0 _ _ hv
    have hv' : Spec.purge t0 (step c o t0 s).1.data = Spec.purge t0 (Spec.step o t0 d).1 := by
      rw [← hcg, ← href.1, purge_idem]
    have := ih (step c o t0 s).1 (Spec.step o t0 d).1 hl.2 (step_nodup c o t0 s hn) hv'
    simp only [blockRun, Spec.blockRun, if_true]
    exact ⟨by rw [href.2, hcg, this.1], this.2⟩

/-- a call that is not about `k` leaves what is VISIBLE under `k` (at the call's own clock reading) unchanged -/
theorem step_frame_view (c : Cfg) (o : Op) (now : Nat) (s : Shard) (k : Key) (hn : NodupKeys s.data) (h : touches o k = false) :
    lookup (Spec.purge now (step c o now s).1.data) k = lookup (Spec.purge now s.data) k := by
  rw [lookup_purge now _ k (step_nodup c o now s hn), lookup_purge now _ k hn, step_frame c o now s k h]

/-- the calls of a block that are not about `k` -/
def blockAvoids (k : Key) : List (Op × Nat) → Bool
  | [] => true
  | (o, _) :: r => !touches o k && blockAvoids k r

theorem blockRun_frozen_frame (c : Cfg) (t0 : Nat) (ops : List (Op × Nat)) (s : Shard) (k : Key) (hn : NodupKeys s.data)
    (ha : blockAvoids k ops = true) :
    lookup (Spec.purge t0 (blockRun c true t0 ops s).1.data) k = lookup (Spec.purge t0 s.data) k ∧
    NodupKeys (blockRun c true t0 ops s).1.data := by
  induction ops generalizing s with
  | nil => exact ⟨rfl, hn⟩
  | cons p r ih =>
    obtain ⟨o, t⟩ := p
    simp only [blockAvoids, Bool.and_eq_true, Bool.not_eq_true'] at ha
    have := ih (step c o t0 s).1 (step_nodup c o t0 s hn) ha.2
    simp only [blockRun, if_true]
    exact ⟨by rw [this.1, step_frame_view c o t0 s k hn ha.1], this.2⟩

end Ferrous.Exp
