/-
  Blocking pops — the invariant of DESIGN Appendix D3 and the three generic ways a step can keep it:
  a client leaves the line and is unblocked (`Inv.remove`), a client joins the line and is blocked
  (`Inv.add`), nobody's blocked state changes and the line is only permuted (`Inv.same`).
-/
import FerrousSpec.Proofs.BlockingBasic
namespace Ferrous.Blk

/-- length of the list stored at `k` -/
def cntL (s : State) (k : Key) : Nat := s.store.countP (keyIs k)
/-- wake-up requests under way for `k` -/
def cntW (s : State) (k : Key) : Nat := s.wakeQ.countP fun w => w.key == k
/-- registered waiters of `k` -/
def cntR (s : State) (k : Key) : Nat := s.registry.countP (keyIs k)

/-- Every client named by the registry or by a queued wake-up request. -/
def line (s : State) : List Conn := s.registry.map (·.2.conn) ++ s.wakeQ.map (·.conn)

structure Inv (s : State) : Prop where
  /-- a registry entry names a connection blocked on exactly that key, with the entry's deadline and operation -/
  regOk : ∀ k w, (k, w) ∈ s.registry → (s.conns w.conn).blocked = some ⟨[k], w.deadline, w.op⟩
  /-- so does a queued wake-up request -/
  wakeOk : ∀ w, w ∈ s.wakeQ → ∃ dl, (s.conns w.conn).blocked = some ⟨[w.key], dl, w.op⟩
  /-- a blocked connection is in at most one of {registry, wake queue}, once -/
  nodup : (line s).Nodup
  /-- and in at least one -/
  cover : ∀ c, (s.conns c).blocked ≠ none → c ∈ line s
  /-- blocked connections exist and their peer is there -/
  alive : ∀ c, (s.conns c).blocked ≠ none → c ≠ 0 ∧ (s.conns c).gone = false ∧ (s.conns c).peerClosed = false
  /-- every queued wake-up has its element; a key with waiters holds nothing else -/
  counts : ∀ k, cntW s k ≤ cntL s k ∧ (0 < cntR s k → cntL s k = cntW s k)
  lost : s.lost = []

theorem Inv_init : Inv init := by
  refine ⟨?_, ?_, ?_, ?_, ?_, ?_, rfl⟩
  · intro k w h; cases h
  · intro w h; cases h
  · exact List.nodup_nil
  · intro c h; exact absurd rfl h
  · intro c h; exact absurd rfl h
  · intro k; exact ⟨Nat.le_refl _, fun _ => rfl⟩

theorem mem_line_reg {s : State} {k : Key} {w : Waiter} (h : (k, w) ∈ s.registry) : w.conn ∈ line s := by
  unfold line
  exact List.mem_append_left _ (List.mem_map.mpr ⟨(k, w), h, rfl⟩)

theorem mem_line_wake {s : State} {w : Wake} (h : w ∈ s.wakeQ) : w.conn ∈ line s := by
  unfold line
  exact List.mem_append_right _ (List.mem_map.mpr ⟨w, h, rfl⟩)

theorem mem_line_iff {s : State} {c : Conn} :
    c ∈ line s ↔ (∃ k w, (k, w) ∈ s.registry ∧ w.conn = c) ∨ (∃ w, w ∈ s.wakeQ ∧ w.conn = c) := by
  unfold line
  simp only [List.mem_append, List.mem_map]
  constructor
  · rintro (⟨⟨k, w⟩, h, rfl⟩ | ⟨w, h, rfl⟩)
    · exact .inl ⟨k, w, h, rfl⟩
    · exact .inr ⟨w, h, rfl⟩
  · rintro (⟨k, w, h, rfl⟩ | ⟨w, h, rfl⟩)
    · exact .inl ⟨(k, w), h, rfl⟩
    · exact .inr ⟨w, h, rfl⟩

/-- Who is in line is blocked. -/
theorem Inv.blocked_of_mem_line {s : State} (hI : Inv s) {c : Conn} (h : c ∈ line s) :
    (s.conns c).blocked ≠ none := by
  rcases mem_line_iff.mp h with ⟨k, w, hw, rfl⟩ | ⟨w, hw, rfl⟩
  · rw [hI.regOk k w hw]; simp
  · obtain ⟨dl, hb⟩ := hI.wakeOk w hw; rw [hb]; simp

theorem line_sublist {s t : State} (h1 : t.registry.Sublist s.registry) (h2 : t.wakeQ.Sublist s.wakeQ) :
    (line t).Sublist (line s) :=
  List.Sublist.append (h1.map _) (h2.map _)

/-- A client `x` leaves the line and is unblocked; nothing else changes for the other clients. -/
theorem Inv.remove {s t : State} (x : Conn) (hI : Inv s)
    (hreg : t.registry.Sublist s.registry) (hwk : t.wakeQ.Sublist s.wakeQ)
    (hline : ∀ c, c ∈ line s → c ≠ x → c ∈ line t)
    (hx : x ∉ line t)
    (hconn : ∀ c, c ≠ x → t.conns c = s.conns c)
    (hxb : (t.conns x).blocked = none)
    (hcounts : ∀ k, cntW t k ≤ cntL t k ∧ (0 < cntR t k → cntL t k = cntW t k))
    (hlost : t.lost = []) : Inv t := by
  refine ⟨?_, ?_, ?_, ?_, ?_, hcounts, hlost⟩
  · intro k w h
    have hne : w.conn ≠ x := fun e => hx (e ▸ mem_line_reg h)
    rw [hconn _ hne]
    exact hI.regOk k w (hreg.subset h)
  · intro w h
    have hne : w.conn ≠ x := fun e => hx (e ▸ mem_line_wake h)
    rw [hconn _ hne]
    exact hI.wakeOk w (hwk.subset h)
  · exact (line_sublist hreg hwk).nodup hI.nodup
  · intro c hc
    have hne : c ≠ x := fun e => hc (e ▸ hxb)
    rw [hconn _ hne] at hc
    exact hline c (hI.cover c hc) hne
  · intro c hc
    have hne : c ≠ x := fun e => hc (e ▸ hxb)
    rw [hconn _ hne] at hc ⊢
    exact hI.alive c hc

/-- Nobody's blocked state changes; the line is permuted (a waiter turned into a wake-up request) or unchanged. -/
theorem Inv.same {s t : State} (hI : Inv s)
    (hreg : ∀ k w, (k, w) ∈ t.registry → (k, w) ∈ s.registry)
    (hwk : ∀ w, w ∈ t.wakeQ → w ∈ s.wakeQ ∨ ∃ k' w', (k', w') ∈ s.registry ∧ w = ⟨w'.conn, k', w'.op⟩)
    (hline : (line t).Perm (line s))
    (hblocked : ∀ c, (t.conns c).blocked = (s.conns c).blocked)
    (halive : ∀ c, (s.conns c).blocked ≠ none →
      (t.conns c).gone = (s.conns c).gone ∧ (t.conns c).peerClosed = (s.conns c).peerClosed)
    (hcounts : ∀ k, cntW t k ≤ cntL t k ∧ (0 < cntR t k → cntL t k = cntW t k))
    (hlost : t.lost = []) : Inv t := by
  refine ⟨?_, ?_, ?_, ?_, ?_, hcounts, hlost⟩
  · intro k w h
    rw [hblocked]; exact hI.regOk k w (hreg k w h)
  · intro w h
    rw [hblocked]
    rcases hwk w h with h' | ⟨k', w', h', rfl⟩
    · exact hI.wakeOk w h'
    · exact ⟨w'.deadline, hI.regOk k' w' h'⟩
  · exact hline.nodup_iff.mpr hI.nodup
  · intro c hc
    rw [hblocked] at hc
    exact hline.symm.subset (hI.cover c hc)
  · intro c hc
    rw [hblocked] at hc
    obtain ⟨h1, h2⟩ := halive c hc
    rw [h1, h2]
    exact hI.alive c hc

/-- A live, unblocked client `x` registers on the single key `k` and becomes blocked. -/
theorem Inv.add {s t : State} (x : Conn) (k : Key) (w : Waiter) (hI : Inv s)
    (hwx : w.conn = x)
    (hreg : t.registry = s.registry ++ [(k, w)]) (hwk : t.wakeQ = s.wakeQ)
    (hx0 : x ≠ 0) (hxg : (s.conns x).gone = false) (hxp : (s.conns x).peerClosed = false)
    (hxn : (s.conns x).blocked = none)
    (hconn : ∀ c, c ≠ x → t.conns c = s.conns c)
    (hxb : (t.conns x).blocked = some ⟨[k], w.deadline, w.op⟩)
    (hxg' : (t.conns x).gone = (s.conns x).gone) (hxp' : (t.conns x).peerClosed = (s.conns x).peerClosed)
    (hcounts : ∀ k, cntW t k ≤ cntL t k ∧ (0 < cntR t k → cntL t k = cntW t k))
    (hlost : t.lost = []) : Inv t := by
  have hxl : x ∉ line s := fun h => hI.blocked_of_mem_line h hxn
  have hperm : (line t).Perm (x :: line s) := by
    unfold line
    rw [hreg, hwk, List.map_append, List.append_assoc]
    simp only [List.map_cons, List.map_nil, hwx, List.singleton_append]
    exact List.perm_middle
  refine ⟨?_, ?_, ?_, ?_, ?_, hcounts, hlost⟩
  · intro k' w' h
    rw [hreg] at h
    rcases List.mem_append.mp h with h | h
    · have hne : w'.conn ≠ x := fun e => hxl (e ▸ mem_line_reg h)
      rw [hconn _ hne]; exact hI.regOk k' w' h
    · simp only [List.mem_singleton, Prod.mk.injEq] at h
      obtain ⟨rfl, rfl⟩ := h
      rw [hwx]; exact hxb
  · intro w' h
    rw [hwk] at h
    have hne : w'.conn ≠ x := fun e => hxl (e ▸ mem_line_wake h)
    rw [hconn _ hne]; exact hI.wakeOk w' h
  · exact hperm.nodup_iff.mpr (List.nodup_cons.mpr ⟨hxl, hI.nodup⟩)
  · intro c hc
    apply hperm.symm.subset
    by_cases hcx : c = x
    · simp [hcx]
    · rw [hconn _ hcx] at hc
      exact List.mem_cons_of_mem _ (hI.cover c hc)
  · intro c hc
    by_cases hcx : c = x
    · subst hcx
      rw [hxg', hxp']; exact ⟨hx0, hxg, hxp⟩
    · rw [hconn _ hcx] at hc ⊢
      exact hI.alive c hc

/-! ## Counting -/

theorem countP_remove {α : Type} (p : α → Bool) (a b : List α) (e : α) :
    (a ++ e :: b).countP p = (a ++ b).countP p + (if p e = true then 1 else 0) := by
  simp only [List.countP_append, List.countP_cons]
  omega

theorem cntL_zero_of_popElem_none {op : Op} {k : Key} {st : List (Key × Elem)} (h : popElem op k st = none) :
    st.countP (keyIs k) = 0 := by
  apply List.countP_eq_zero.mpr
  intro y hy
  simp [keyIs_false_iff.mpr (popElem_none h y hy)]

theorem cntW_zero_of_noWakeFor {s : State} {k : Key} (h : noWakeFor s k = true) : cntW s k = 0 := by
  unfold cntW
  apply List.countP_eq_zero.mpr
  intro w hw
  have := List.all_eq_true.mp h w hw
  simpa using this

theorem cntR_zero_of_popFirst_none {s : State} {k : Key} (h : popFirst (keyIs k) s.registry = none) : cntR s k = 0 := by
  unfold cntR
  apply List.countP_eq_zero.mpr
  intro y hy
  simp [popFirst_none h y hy]

end Ferrous.Blk
