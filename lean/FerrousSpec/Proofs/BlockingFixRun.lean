/-
  Blocking pops, repaired tree — every event of an `AllowedFixed` history keeps `InvB`
  (the multi-key invariant, with an empty wake queue between commands), and what follows from it.
-/
import FerrousSpec.Proofs.BlockingFixExec
namespace Ferrous.Blk

/-! ## The drain after a command -/

theorem InvB_drain (q : Quirks) (hq : Repaired q) (s : State) (hI : InvF s) (hcalm : Calm s)
    (hlen : q.drainAll = true ∨ s.wakeQ.length ≤ wakeBatch) : InvB (drain q s) := by
  obtain ⟨_, hwap, huas, _, _⟩ := hq
  unfold drain
  simp only [hwap, if_true]
  obtain ⟨h1, h2, h3⟩ := InvF_iter_wakeOne q huas (if q.drainAll = true then s.wakeQ.length + s.registry.length else wakeBatch) s hI hcalm (by
    split
    · omega
    · next h =>
      rcases hlen with h' | h'
      · exact absurd h' h
      · exact h')
  exact ⟨h1, h3, h2⟩

/-! ## The handlers -/

theorem cntL_zero_of_firstNonEmpty_none {op : Op} {st : List (Key × Elem)} {keys : List Key}
    (h : firstNonEmpty op st keys = none) {k : Key} (hk : k ∈ keys) : st.countP (keyIs k) = 0 :=
  cntL_zero_of_popElem_none (firstNonEmpty_none h k hk)

theorem Calm_setConn_tx {s : State} (hc : Calm s) (c : Conn) (f : ConnSt → ConnSt)
    (hf : ∀ cs, (f cs).blocked = cs.blocked ∧ (f cs).gone = cs.gone ∧ (f cs).peerClosed = cs.peerClosed) :
    Calm (setConn s c f) := by
  intro c' hb
  by_cases h : c' = c
  · simp only [setConn, h, if_true] at hb ⊢
    rw [(hf _).1] at hb; rw [(hf _).2.2]; exact hc c (by simpa using hb)
  · simp only [setConn, h, if_false] at hb ⊢
    exact hc c' hb

theorem Calm_of_conns {s t : State} (h : t.conns = s.conns) (hc : Calm s) : Calm t := by
  unfold Calm; rw [h]; exact hc

/-- A handler blocks nobody but the connection it runs for, which has a peer. -/
theorem Calm_dataCore (q : Quirks) (now : Nat) (c cid : Conn) (s : State) (cmd : Cmd)
    (hcalm : Calm s) (ho : Open s c) (hcid : cid = c ∨ cid = 0) : Calm (dataCore q now c cid s cmd) := by
  have hsb : ∀ (t : State) (b : Option Blocked), t.conns = s.conns → Calm (setBlocked t cid b) := by
    intro t b ht c' hb
    rw [setBlocked_peerClosed, ht]
    rcases hcid with h | h
    · by_cases hcc : c' = cid
      · rw [hcc, h]; exact ho.2.2
      · rw [setBlocked_conns_ne _ _ _ _ hcc, ht] at hb; exact hcalm c' hb
    · have e : setBlocked t cid b = t := by unfold setBlocked; simp [h]
      rw [e, ht] at hb; exact hcalm c' hb
  cases cmd with
  | push op k vs =>
    simp only [dataCore]
    split
    · exact Calm_of_conns (by simp) hcalm
    · split
      · exact Calm_of_conns (by simp) hcalm
      · exact Calm_of_conns (by simp) hcalm
  | pop op k =>
    simp only [dataCore]
    split
    · exact Calm_of_conns (by simp) hcalm
    · exact Calm_of_conns (by simp) hcalm
  | bpop op keys t =>
    simp only [dataCore]
    split
    · exact Calm_of_conns (by simp) hcalm
    · split
      · exact Calm_of_conns (by simp) hcalm
      · split
        · exact Calm_of_conns (by simp) hcalm
        · exact hsb _ _ rfl
  | multi => exact hcalm
  | exec => exact hcalm

theorem InvF_dataCore (q : Quirks) (hq : Repaired q) (now : Nat) (c cid : Conn) (s : State) (cmd : Cmd)
    (hnx : ¬ (q.execAtomic = true ∧ cid = 0))
    (hB : InvB s) (ho : Open s c) (hcid : cid = c ∨ cid = 0) (hok : dataOkF q s cid cmd = true) :
    InvF (dataCore q now c cid s cmd) ∧
      (q.drainAll = true ∨ (dataCore q now c cid s cmd).wakeQ.length ≤ wakeBatch) := by
  obtain ⟨hI, hquiet, _⟩ := hB
  obtain ⟨hc0, hcg, hcp⟩ := ho
  obtain ⟨hnpe, _, _, hrit, hddk⟩ := hq
  have hlen0 : ∀ (t : State), t.wakeQ = s.wakeQ → (q.drainAll = true ∨ t.wakeQ.length ≤ wakeBatch) := by
    intro t ht; right; rw [ht, hquiet]; exact Nat.zero_le _
  cases cmd with
  | push op k vs =>
    simp only [dataCore]
    split
    · exact ⟨InvG_emit hI hcp _, hlen0 _ (by simp)⟩
    · have h1 : InvG (slackAt k vs.length) noStale
          (emit { s with store := pushElems op k vs s.store, pushed := (s.pushed ++ vs.map fun v => (k, v)) } c
            (.int (listOf (pushElems op k vs s.store) k).length)) := by
        apply InvG_pushStore hI k vs.length
        · simp
        · simp
        · unfold emit; simp [hcp, hI.lost]
        · intro c'; simp
        · intro k'
          show (emit _ c _).store.countP (keyIs k') = _
          rw [emit_store]
          show (pushElems op k vs s.store).countP (keyIs k') = cntL s k' + _
          rw [countP_pushElems]; rfl
      have hwq : (emit { s with store := pushElems op k vs s.store, pushed := (s.pushed ++ vs.map fun v => (k, v)) } c
            (.int (listOf (pushElems op k vs s.store) k).length)).wakeQ = [] := by
        rw [emit_wakeQ]; exact hquiet
      obtain ⟨g1, g2⟩ := InvG_notifyN k vs.length _ h1 (by rw [hwq]; intro w hw; cases hw)
      refine ⟨g1, ?_⟩
      simp only [dataOkF, Bool.or_eq_true, decide_eq_true_eq] at hok
      rcases hok with h | h
      · exact .inl h
      · right; rw [hwq] at g2; simp only [List.length_nil, Nat.zero_add] at g2; omega
  | pop op k =>
    simp only [dataCore]
    split
    · next e st' hp =>
      exact ⟨InvG_emit (InvF_pop hI hquiet hp) hcp _, hlen0 _ (by simp)⟩
    · exact ⟨InvG_emit hI hcp _, hlen0 _ (by simp)⟩
  | bpop op keys t =>
    simp only [dataCore]
    split
    · exact ⟨InvG_emit hI hcp _, hlen0 _ (by simp)⟩
    · next hne =>
      split
      · next e st' hp =>
        obtain ⟨k, _, hp'⟩ := firstNonEmpty_some hp
        exact ⟨InvG_emit (InvF_pop hI hquiet hp') hcp _, hlen0 _ (by simp)⟩
      · next hp =>
        split
        · exact ⟨InvG_emit hI hcp _, hlen0 _ (by simp)⟩
        · next hnot =>
          have hcid0 : cid ≠ 0 := by
            intro h0; exact hnot ⟨h0, hrit⟩
          have hcc : cid = c := by
            rcases hcid with h | h
            · exact h
            · exact absurd h hcid0
          subst hcc
          simp only [dataOkF, Bool.or_eq_true, beq_iff_eq, Option.isNone_iff_eq_none] at hok
          have hnb : (s.conns cid).blocked = none := by
            rcases hok with h | h
            · exact absurd h hcid0
            · exact h
          have hkeys : keys ≠ [] := by
            intro h; rw [h] at hne; simp at hne
          have hrk : regKeys q keys = dedupL keys := by simp [regKeys, hddk]
          rw [hrk]
          refine ⟨InvG_register hI cid (dedupL keys) _ op (nodup_dedupL keys) (dedupL_ne_nil hkeys) hcid0 hcg hcp hnb ?_, hlen0 _ (by simp)⟩
          intro k hk
          exact cntL_zero_of_firstNonEmpty_none hp (mem_dedupL.mp hk)
  | multi => exact ⟨hI, hlen0 _ rfl⟩
  | exec => exact ⟨hI, hlen0 _ rfl⟩

theorem InvB_dataCmd (q : Quirks) (hq : Repaired q) (now : Nat) (c cid : Conn) (s : State) (cmd : Cmd)
    (hnx : ¬ (q.execAtomic = true ∧ cid = 0))
    (hB : InvB s) (ho : Open s c) (hcid : cid = c ∨ cid = 0) (hok : dataOkF q s cid cmd = true) :
    InvB (dataCmd q now c cid s cmd) := by
  obtain ⟨h1, h2⟩ := InvF_dataCore q hq now c cid s cmd hnx hB ho hcid hok
  unfold dataCmd
  exact InvB_drain q hq _ h1 (Calm_dataCore q now c cid s cmd hB.calm ho hcid) h2

theorem InvB_foldl_dataCmd (q : Quirks) (hq : Repaired q) (now : Nat) (c cid : Conn) (hcid : cid = c ∨ cid = 0)
    (hnx : ¬ (q.execAtomic = true ∧ cid = 0)) (cmds : List Cmd) :
    ∀ s, InvB s → Open s c → dataSeqOkF q now c cid s cmds = true → InvB (cmds.foldl (dataCmd q now c cid) s) := by
  induction cmds with
  | nil => intro s h _ _; exact h
  | cons cmd r ih =>
    intro s h ho hok
    simp only [dataSeqOkF, Bool.and_eq_true] at hok
    exact ih _ (InvB_dataCmd q hq now c cid s cmd hnx h ho hcid hok.1) (Open_dataCmd ho) hok.2

/-! ## Frames, batches, events -/

theorem InvB_tx {s : State} (hB : InvB s) (ho : Open s c) (f : ConnSt → ConnSt) (r : Reply)
    (hf : ∀ cs, (f cs).blocked = cs.blocked ∧ (f cs).gone = cs.gone ∧ (f cs).peerClosed = cs.peerClosed) :
    InvB (emit (setConn s c f) c r) :=
  ⟨InvG_emit (InvG_setConn_tx hB.inv c f hf) (Open_setConn_tx ho c f hf).2.2 r, by simp [hB.quiet],
    Calm_of_conns (by simp) (Calm_setConn_tx hB.calm c f hf)⟩

theorem InvB_topCmd (q : Quirks) (hq : Repaired q) (now : Nat) (c : Conn) (s : State) (cmd : Cmd)
    (hB : InvB s) (ho : Open s c) (hok : topOkF q now c s cmd = true) : InvB (topCmd q now c s cmd) := by
  have hemit : ∀ r, InvB (emit s c r) := fun r => ⟨InvG_emit hB.inv ho.2.2 r, by simp [hB.quiet], Calm_of_conns (by simp) hB.calm⟩
  have hqo : ∀ (f : ConnSt → ConnSt) r,
      (∀ cs, (f cs).blocked = cs.blocked ∧ (f cs).gone = cs.gone ∧ (f cs).peerClosed = cs.peerClosed) →
      Open (emit (setConn s c f) c r) c := fun f r hf => Open_emit (Open_setConn_tx ho c f hf) c r
  cases cmd with
  | multi =>
    simp only [topCmd]; split
    · exact hemit _
    · exact InvB_tx hB ho _ _ (fun _ => ⟨rfl, rfl, rfl⟩)
  | exec =>
    simp only [topCmd]
    simp only [topOkF] at hok
    split
    · next hin =>
      simp only [hin, if_true] at hok
      have hB1 : InvB (emit (setConn s c fun cs => { cs with inTx := false, queue := [] }) c (.arrHdr (s.conns c).queue.length)) :=
        InvB_tx hB ho _ _ (fun _ => ⟨rfl, rfl, rfl⟩)
      have hO1 := hqo (fun cs => { cs with inTx := false, queue := [] }) (.arrHdr (s.conns c).queue.length) (fun _ => ⟨rfl, rfl, rfl⟩)
      by_cases hx : q.execAtomic = true
      · -- atomic EXEC: no notification, no wake-up inside; the pushed keys are served afterwards
        simp only [hx, if_true]
        have h2 := InvX_foldl q hx hq.2.2.2.1 now c (s.conns c).queue _ hB1.toX hO1.2.2
        have h3 := serveKeys_spec q hq.2.2.1 (pushKeys (s.conns c).queue) _ _ h2
        apply h3.toB
        intro k hR
        by_cases hk : k ∈ pushKeys (s.conns c).queue
        · exact h3.clean k (fun h => h.2 hk) hR
        · refine h3.clean k (fun h => ?_) hR
          rcases h.1 with h' | h'
          · exact h'
          · exact hk h'
      · simp only [hx]
        exact InvB_foldl_dataCmd q hq now c 0 (.inr rfl) (fun h => hx h.1) _ _ hB1 hO1 hok
    · exact hemit _
  | push op k vs =>
    simp only [topCmd]; simp only [topOkF] at hok
    split
    · exact InvB_tx hB ho _ _ (fun _ => ⟨rfl, rfl, rfl⟩)
    · next hin => simp only [hin] at hok; exact InvB_dataCmd q hq now c c s _ (fun h => ho.1 h.2) hB ho (.inl rfl) hok
  | pop op k =>
    simp only [topCmd]; simp only [topOkF] at hok
    split
    · exact InvB_tx hB ho _ _ (fun _ => ⟨rfl, rfl, rfl⟩)
    · next hin => simp only [hin] at hok; exact InvB_dataCmd q hq now c c s _ (fun h => ho.1 h.2) hB ho (.inl rfl) hok
  | bpop op keys t =>
    simp only [topCmd]; simp only [topOkF] at hok
    split
    · exact InvB_tx hB ho _ _ (fun _ => ⟨rfl, rfl, rfl⟩)
    · next hin => simp only [hin] at hok; exact InvB_dataCmd q hq now c c s _ (fun h => ho.1 h.2) hB ho (.inl rfl) hok

theorem InvB_setConn_tx {s : State} (hB : InvB s) (c : Conn) (f : ConnSt → ConnSt)
    (hf : ∀ cs, (f cs).blocked = cs.blocked ∧ (f cs).gone = cs.gone ∧ (f cs).peerClosed = cs.peerClosed) :
    InvB (setConn s c f) :=
  ⟨InvG_setConn_tx hB.inv c f hf, by simp [hB.quiet], Calm_setConn_tx hB.calm c f hf⟩

theorem InvB_runBatch (q : Quirks) (hq : Repaired q) (now : Nat) (c : Conn) (cmds : List Cmd) :
    ∀ s, InvB s → Open s c → batchOkF q now c cmds s = true → InvB (runBatch q now c cmds s) := by
  induction cmds with
  | nil => intro s h _ _; exact h
  | cons cmd r ih =>
    intro s h ho hok
    simp only [batchOkF, Bool.and_eq_true] at hok
    simp only [runBatch]
    split
    · exact InvB_setConn_tx (InvB_topCmd q hq now c s cmd h ho hok.1) c _ (fun _ => ⟨rfl, rfl, rfl⟩)
    · next hd =>
      have h2 := hok.2
      simp only [hd, if_false] at h2
      exact ih _ (InvB_topCmd q hq now c s cmd h ho hok.1) (Open_topCmd ho) h2

/-- With an empty wake queue, `calmReg` says that who is blocked has a peer. -/
theorem Calm_of_calmReg {s : State} (hR : InvR s) (h : calmReg s = true) : Calm s := by
  intro c hb
  cases hbc : (s.conns c).blocked with
  | none => exact absurd hbc hb
  | some b =>
    obtain ⟨k, hk⟩ := List.exists_mem_of_ne_nil _ (hR.inv.keysNe c b hbc)
    rcases mem_slots_iff.mp (hR.inv.cover c b hbc k hk) with ⟨w, hw, hwc⟩ | ⟨w, hw, _, _⟩
    · have := List.all_eq_true.mp h (k, w) hw
      simp only [hwc, hbc, Option.isSome_some, Bool.and_true, Bool.not_eq_true'] at this
      exact this
    · rw [hR.quiet] at hw; cases hw

theorem InvR_step (q : Quirks) (hq : Repaired q) (s : State) (e : Event) (hR : InvR s) (hok : eventOkF q s e = true) :
    InvR (step q s e) := by
  cases e with
  | wakeups =>
    show InvR (iter (wakeOne q) wakeBatch s)
    rw [iter_wakeOne_nil q _ s hR.quiet]; exact hR
  | conn c now cmds =>
    simp only [step]
    simp only [eventOkF, Bool.and_eq_true] at hok
    split
    · next hcr =>
      have hok2 := hok.2
      simp only [hcr, if_true] at hok2
      have hB : InvB s := ⟨hR.inv, hR.quiet, Calm_of_calmReg hR hok.1⟩
      exact (InvB_runBatch q hq now c _ _ (InvB_setConn_tx hB c (fun cs => { cs with pending := [] }) (fun _ => ⟨rfl, rfl, rfl⟩))
        (Open_setConn_tx (Open_of_canRun hcr) c (fun cs => { cs with pending := [] }) (fun _ => ⟨rfl, rfl, rfl⟩)) hok2).toR
    · next hcr =>
      have hok2 := hok.2
      simp only [hcr, Bool.false_eq_true, if_false, Bool.not_eq_true'] at hok2
      simp only [hok2, Bool.false_eq_true, if_false]
      exact hR
  | timeouts now =>
    exact ⟨InvF_timeouts now s hR.inv hR.quiet, by
      show (iter (expireOne now) s.registry.length s).wakeQ = []
      rw [iter_expireOne_wakeQ]; exact hR.quiet⟩
  | hangup c =>
    simp only [step]
    split
    · exact ⟨InvF_hangup s c hR.inv, by simp [hR.quiet]⟩
    · exact hR
  | reap c =>
    simp only [step]
    split
    · cases hb : (s.conns c).blocked with
      | none => exact ⟨InvF_reap s c hR.inv hb, hR.quiet⟩
      | some b => exact ⟨InvF_reap_blocked s c hR.inv hR.quiet, hR.quiet⟩
    · exact hR
  | kill c =>
    simp only [step]
    simp only [eventOkF, Option.isNone_iff_eq_none] at hok
    split
    · exact ⟨InvF_setConn_life s c _ hR.inv (by rw [hok]) rfl, by simp [hR.quiet]⟩
    · exact hR
  | hangupDirty c =>
    simp only [step]
    split
    · exact ⟨InvF_setConn_life s c _ hR.inv rfl rfl, by simp [hR.quiet]⟩
    · exact hR

theorem InvR_runFrom (q : Quirks) (hq : Repaired q) (evs : List Event) :
    ∀ s, InvR s → allowedFixedFrom q s evs = true → InvR (runFrom q s evs) := by
  induction evs with
  | nil => intro s h _; exact h
  | cons e r ih =>
    intro s h hok
    simp only [allowedFixedFrom, Bool.and_eq_true] at hok
    exact ih _ (InvR_step q hq s e h hok.1) hok.2

theorem InvR_run (q : Quirks) (hq : Repaired q) (evs : List Event) (h : AllowedFixed q evs) : InvR (run q evs) :=
  InvR_runFrom q hq evs init InvB_init.toR h

/-! ## Consequences -/

theorem mem_line_iff' {s : State} {c : Conn} :
    c ∈ line s ↔ (∃ k w, (k, w) ∈ s.registry ∧ w.conn = c) ∨ (∃ w, w ∈ s.wakeQ ∧ w.conn = c) := mem_line_iff

theorem InvR.not_stranded {s : State} (hB : InvR s) {c : Conn} {k : Key} (hb : blockedOn s c k) :
    listOf s.store k = [] := by
  obtain ⟨b, hb, hk⟩ := hb
  rcases mem_slots_iff.mp (hB.inv.cover c b hb k hk) with ⟨w, hw, _⟩ | ⟨w, hw, _, _⟩
  · have hR : 0 < cntR s k := by
      unfold cntR
      exact List.countP_pos_iff.mpr ⟨(k, w), hw, by simp [keyIs]⟩
    have hc := (hB.inv.counts k).2 hR
    have hW : cntW s k = 0 := by unfold cntW; rw [hB.quiet]; rfl
    simp only [hW, noSlack, Nat.add_zero] at hc
    unfold listOf
    have : s.store.filter (keyIs k) = [] := by
      apply List.filter_eq_nil_iff.mpr
      intro y hy
      have := List.countP_eq_zero.mp hc y hy
      simpa using this
    rw [this]; rfl
  · rw [hB.quiet] at hw; cases hw

theorem InvR.registry_iff {s : State} (hB : InvR s) (c : Conn) (k : Key) :
    inRegistry s k c ↔ blockedOn s c k := by
  constructor
  · rintro ⟨w, hw, rfl⟩
    obtain ⟨b, hb, hk, _⟩ := hB.inv.reg_blocked hw
    exact ⟨b, hb, hk⟩
  · rintro ⟨b, hb, hk⟩
    rcases mem_slots_iff.mp (hB.inv.cover c b hb k hk) with ⟨w, hw, hwc⟩ | ⟨w, hw, _, _⟩
    · exact ⟨w, hw, hwc⟩
    · rw [hB.quiet] at hw; cases hw

theorem InvR.no_leftover {s : State} (hB : InvR s) {c : Conn} (hc : (s.conns c).blocked = none) : c ∉ line s := by
  intro h
  rcases mem_line_iff.mp h with ⟨k, w, hw, hwc⟩ | ⟨w, hw, hwc⟩
  · exact hB.inv.no_reg_of_unblocked hc hw hwc
  · exact hB.inv.no_wake_of_unblocked hc hw hwc

/-- One step of the scan releases `c` only if the deadline of the call `c` is blocked in has passed. -/
theorem expireOne_blocked_scan (now : Nat) (s : State) (hI : InvG noSlack (staleAt now) s) (c : Conn) (b : Blocked)
    (hb : (s.conns c).blocked = some b) :
    ((expireOne now s).conns c).blocked = some b ∨ ∃ d, b.deadline = some d ∧ d ≤ now := by
  unfold expireOne
  split
  · exact .inl hb
  · next e reg' hp =>
    obtain ⟨a, b', h1, _, h3, _⟩ := popFirst_some hp
    by_cases hc : c = e.2.conn
    · right
      have hemem : (e.1, e.2) ∈ s.registry := by rw [h1]; simp
      rcases hI.regOk e.1 e.2 hemem with ⟨b0, hb0, _, hdl, _⟩ | ⟨hn, _⟩
      · rw [← hc, hb] at hb0
        obtain rfl := Option.some.inj hb0
        unfold isExpired at h3
        split at h3
        · next d hd => exact ⟨d, by rw [← hdl, hd], by simpa using h3⟩
        · cases h3
      · rw [← hc, hb] at hn; cases hn
    · left
      rw [timeoutConn_conns_ne _ _ _ hc]; exact hb

theorem iter_expireOne_blocked_scan (now : Nat) (c : Conn) (b : Blocked) :
    ∀ n s, InvG noSlack (staleAt now) s → s.wakeQ = [] → (s.conns c).blocked = some b →
      ((iter (expireOne now) n s).conns c).blocked = none → ∃ d, b.deadline = some d ∧ d ≤ now := by
  intro n
  induction n with
  | zero => intro s _ _ hb hn; simp only [iter] at hn; rw [hb] at hn; cases hn
  | succ n ih =>
    intro s hI hq hb hn
    rcases expireOne_blocked_scan now s hI c b hb with h | h
    · exact ih _ (InvScan_expireOne now s hI hq) (by rw [expireOne_wakeQ]; exact hq) h hn
    · exact h

theorem InvR.never_early_nil {s : State} (hB : InvR s) (now : Nat) (c : Conn) (b : Blocked)
    (hb : (s.conns c).blocked = some b)
    (hn : ((iter (expireOne now) s.registry.length s).conns c).blocked = none) : ∃ d, b.deadline = some d ∧ d ≤ now :=
  iter_expireOne_blocked_scan now c b _ s (hB.inv.toScan now) hB.quiet hb hn

theorem InvR.timeout_fires {s : State} (hB : InvR s) (now : Nat) (c : Conn) (b : Blocked) (d : Nat)
    (hb : (s.conns c).blocked = some b) (hd : b.deadline = some d) (hle : d ≤ now) :
    ((iter (expireOne now) s.registry.length s).conns c).blocked = none := by
  rcases iter_expireOne_blocked_or_none now c s.registry.length s with h | h
  · exfalso
    have hI' : InvF (iter (expireOne now) s.registry.length s) := InvF_timeouts now s hB.inv hB.quiet
    have hq' : (iter (expireOne now) s.registry.length s).wakeQ = [] := by rw [iter_expireOne_wakeQ]; exact hB.quiet
    have hb' : ((iter (expireOne now) s.registry.length s).conns c).blocked = some b := h.trans hb
    obtain ⟨k, hk⟩ := List.exists_mem_of_ne_nil _ (hI'.keysNe c b hb')
    rcases mem_slots_iff.mp (hI'.cover c b hb' k hk) with ⟨w, hw, hwc⟩ | ⟨w, hw, _, _⟩
    · obtain ⟨b1, hb1, _, hdl, _⟩ := hI'.reg_blocked hw
      rw [hwc, hb'] at hb1
      obtain rfl := Option.some.inj hb1
      have hexp : isExpired now (k, w) = true := by
        unfold isExpired
        show (match w.deadline with | some d => decide (d ≤ now) | none => false) = true
        rw [hdl, hd]
        simpa using hle
      have h0 := iter_expireOne_count now s.registry.length s List.countP_le_length
      have := List.countP_eq_zero.mp h0 (k, w) hw
      exact this hexp
    · rw [hq'] at hw; cases hw
  · exact h

end Ferrous.Blk
