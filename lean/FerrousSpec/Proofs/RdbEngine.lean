/-
  RDB codec, part 2: algebra of the modelled engine operations (`findKey`, `putEntry`, `eraseKey`,
  `upsertAll`, `insertAll`, `lastId`) and of the store (`getDb`, `setDb`).
-/
import FerrousSpec.Proofs.RdbPrim
set_option linter.unusedSimpArgs false
set_option linter.unusedVariables false
namespace Ferrous.Rdb
open Ferrous

/-! ### one database -/

def keys (db : Db) : List Bytes := db.map (·.key)

theorem findKey_none_iff (db : Db) (k : Bytes) : findKey db k = none ↔ k ∉ keys db := by
  unfold findKey keys
  rw [List.find?_eq_none]
  simp only [List.mem_map, not_exists, not_and]
  constructor
  · intro h x hx hk
    have := h x hx
    simp [hk] at this
  · intro h x hx
    have := h x hx
    simp
    exact this

theorem findKey_putEntry_same (db : Db) (e : Entry) : findKey (putEntry db e) e.key = some e := by
  induction db with
  | nil => simp [putEntry, findKey]
  | cons x xs ih =>
    unfold putEntry
    split
    · simp [findKey]
    · rename_i hne
      unfold findKey at ih ⊢
      simp [List.find?_cons, hne, ih]

theorem putEntry_putEntry (db : Db) (e e' : Entry) (h : e.key = e'.key) :
    putEntry (putEntry db e) e' = putEntry db e' := by
  induction db with
  | nil => simp [putEntry, h]
  | cons x xs ih =>
    by_cases hx : x.key = e.key
    · have hx' : x.key = e'.key := by rw [hx, h]
      simp [putEntry, hx, hx', h]
    · have hx' : ¬ x.key = e'.key := by rw [← h]; exact hx
      simp [putEntry, hx, hx', ih]

theorem putEntry_fresh (db : Db) (e : Entry) (h : e.key ∉ keys db) : putEntry db e = db ++ [e] := by
  induction db with
  | nil => rfl
  | cons x xs ih =>
    simp only [keys, List.map_cons, List.mem_cons, not_or] at h
    have hx : ¬ x.key = e.key := fun hh => h.1 hh.symm
    simp [putEntry, hx, ih (by simpa [keys] using h.2)]

theorem eraseKey_fresh (db : Db) (k : Bytes) (h : k ∉ keys db) : eraseKey db k = db := by
  unfold eraseKey
  rw [List.filter_eq_self]
  intro x hx
  have : x.key ≠ k := fun hk => h (by simp [keys]; exact ⟨x, hx, hk⟩)
  simp [this]

theorem eraseKey_append_single (db : Db) (e : Entry) (h : e.key ∉ keys db) :
    eraseKey (db ++ [e]) e.key = db := by
  have := eraseKey_fresh db e.key h
  unfold eraseKey at this ⊢
  simp [List.filter_append, this]

theorem keys_append (a b : Db) : keys (a ++ b) = keys a ++ keys b := by simp [keys]

/-! ### maps and sets without duplicates load as they were written -/

def mkeys {β : Type} (m : List (Bytes × β)) : List Bytes := m.map (·.1)

theorem upsert_fresh {β : Type} (m : List (Bytes × β)) (k : Bytes) (v : β) (h : k ∉ mkeys m) :
    upsert m k v = m ++ [(k, v)] := by
  induction m with
  | nil => rfl
  | cons p m ih =>
    obtain ⟨k', v'⟩ := p
    simp only [mkeys, List.map_cons, List.mem_cons, not_or] at h
    have hk : ¬ k' = k := fun hh => h.1 hh.symm
    simp [upsert, hk, ih (by simpa [mkeys] using h.2)]

theorem upsertAll_nodup {β : Type} (m kvs : List (Bytes × β)) (h : (mkeys (m ++ kvs)).Nodup) :
    upsertAll m kvs = m ++ kvs := by
  induction kvs generalizing m with
  | nil => simp [upsertAll]
  | cons p kvs ih =>
    have hp : p.1 ∉ mkeys m := by
      intro hm
      simp only [mkeys, List.map_append, List.map_cons] at h hm
      rw [List.nodup_append] at h
      exact h.2.2 _ hm _ (by simp) rfl
    have h' : (mkeys ((m ++ [p]) ++ kvs)).Nodup := by simpa using h
    have := ih (m ++ [p]) h'
    unfold upsertAll at this ⊢
    simp only [List.foldl_cons]
    rw [upsert_fresh m p.1 p.2 hp]
    simpa using this

theorem insertAll_nodup (xs ys : List Bytes) (h : (xs ++ ys).Nodup) : insertAll xs ys = xs ++ ys := by
  induction ys generalizing xs with
  | nil => simp [insertAll]
  | cons y ys ih =>
    have hy : y ∉ xs := by
      intro hm
      rw [List.nodup_append] at h
      exact h.2.2 _ hm _ (by simp) rfl
    have h' : ((xs ++ [y]) ++ ys).Nodup := by simpa using h
    have := ih (xs ++ [y]) h'
    unfold insertAll at this ⊢
    simp only [List.foldl_cons]
    rw [show insertNew xs y = xs ++ [y] by simp [insertNew, hy]]
    simpa using this

theorem lastId_append_single (acc : List SEntry) (e : SEntry) : lastId (acc ++ [e]) = (e.ms, e.seq) := by
  induction acc with
  | nil => rfl
  | cons a acc ih =>
    cases acc with
    | nil => rfl
    | cons b acc => simpa [lastId] using ih

/-! ### the store: databases by index -/

def indices (s : Store) : List Nat := s.map (·.1)

/-- the store `s` followed by database `i` holding `db` (nothing when `db` is empty) -/
def withDb (s : Store) (i : Nat) (db : Db) : Store := if db.isEmpty then s else s ++ [(i, db)]

theorem getDb_absent (s : Store) (i : Nat) (h : i ∉ indices s) : getDb s i = [] := by
  induction s with
  | nil => rfl
  | cons p s ih =>
    obtain ⟨j, x⟩ := p
    simp only [indices, List.map_cons, List.mem_cons, not_or] at h
    have hj : (i == j) = false := by simp; exact h.1
    have := ih (by simpa [indices] using h.2)
    unfold getDb at this ⊢
    simp [List.lookup, hj, this]

theorem getDb_withDb (s : Store) (i : Nat) (db : Db) (h : i ∉ indices s) : getDb (withDb s i db) i = db := by
  unfold withDb
  split
  · rename_i he
    rw [getDb_absent s i h]
    cases db with
    | nil => rfl
    | cons a b => simp at he
  · induction s with
    | nil => simp [getDb, List.lookup]
    | cons p s ih =>
      obtain ⟨j, x⟩ := p
      simp only [indices, List.map_cons, List.mem_cons, not_or] at h
      have hj : (i == j) = false := by simp; exact h.1
      have := ih (by simpa [indices] using h.2)
      unfold getDb at this ⊢
      simp [List.lookup, hj, this]

theorem setDb_absent (s : Store) (i : Nat) (db : Db) (h : i ∉ indices s) : setDb s i db = withDb s i db := by
  induction s with
  | nil => unfold withDb setDb; split <;> simp
  | cons p s ih =>
    obtain ⟨j, x⟩ := p
    simp only [indices, List.map_cons, List.mem_cons, not_or] at h
    have hj : ¬ j = i := fun hh => h.1 hh.symm
    have := ih (by simpa [indices] using h.2)
    unfold withDb at this ⊢
    unfold setDb
    simp only [hj, if_false, this]
    split <;> simp

theorem setDb_withDb (s : Store) (i : Nat) (db db' : Db) (h : i ∉ indices s) :
    setDb (withDb s i db) i db' = withDb s i db' := by
  by_cases he : db.isEmpty
  · simp only [withDb, he, if_true]
    exact setDb_absent s i db' h
  · have hne : db.isEmpty = false := by simpa using he
    unfold withDb
    rw [hne]
    simp only [Bool.false_eq_true, if_false]
    induction s with
    | nil =>
      by_cases hd : db'.isEmpty <;> simp [setDb, hd]
    | cons p s ih =>
      obtain ⟨j, x⟩ := p
      simp only [indices, List.map_cons, List.mem_cons, not_or] at h
      have hj : ¬ j = i := fun hh => h.1 hh.symm
      have := ih (by simpa [indices] using h.2)
      by_cases hd : db'.isEmpty <;> simp [setDb, hj, hd] at this ⊢ <;> exact this

theorem indices_withDb (s : Store) (i : Nat) (db : Db) :
    indices (withDb s i db) = if db.isEmpty then indices s else indices s ++ [i] := by
  unfold withDb
  split <;> simp [indices]

end Ferrous.Rdb
