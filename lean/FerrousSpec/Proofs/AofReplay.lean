import FerrousSpec.Model.Aof
import FerrousSpec.Proofs.AofNorm
import FerrousSpec.Proofs.AofFrames
import FerrousSpec.Proofs.AofRandom
import FerrousSpec.Proofs.Decimal
set_option linter.unusedSimpArgs false
set_option linter.unusedVariables false
namespace Ferrous.Aof
open Ferrous Ferrous.KS

/-! ## Stores: agreement on values and TTL presence -/

def normStore (s : Store) : Store := s.map normDb

/-- the two servers hold the same keys, in the same order, with the same values, and a key has a deadline on one
    side iff it has one on the other — in every database -/
def Agree (s1 s2 : Store) : Prop := normStore s1 = normStore s2

instance (s1 s2 : Store) : Decidable (Agree s1 s2) := inferInstanceAs (Decidable (normStore s1 = normStore s2))

theorem Agree.refl (s : Store) : Agree s s := rfl
theorem Agree.symm {s1 s2 : Store} (h : Agree s1 s2) : Agree s2 s1 := Eq.symm h
theorem Agree.trans {s1 s2 s3 : Store} (h : Agree s1 s2) (h' : Agree s2 s3) : Agree s1 s3 := Eq.trans h h'

theorem getDb_normStore (s : Store) (i : Nat) : getDb (normStore s) i = normDb (getDb s i) := by
  unfold getDb normStore
  induction s generalizing i with
  | nil => simp
  | cons d t ih =>
    cases i with
    | zero => simp
    | succ i => simpa using ih i

theorem normStore_setDb (s : Store) (i : Nat) (db : Db) : normStore (setDb s i db) = setDb (normStore s) i (normDb db) := by
  unfold setDb normStore
  simp [List.map_set]

theorem Agree.getDb {s1 s2 : Store} (h : Agree s1 s2) (i : Nat) : normDb (getDb s1 i) = normDb (getDb s2 i) := by
  rw [← getDb_normStore, ← getDb_normStore, h]

theorem Agree.setDb {s1 s2 : Store} (h : Agree s1 s2) (i : Nat) {d1 d2 : Db} (hd : normDb d1 = normDb d2) :
    Agree (setDb s1 i d1) (setDb s2 i d2) := by
  unfold Agree
  rw [normStore_setDb, normStore_setDb, h, hd]

theorem Agree.length {s1 s2 : Store} (h : Agree s1 s2) : s1.length = s2.length := by
  have := congrArg List.length h
  simpa [normStore] using this

theorem map_const_eq_replicate {α β : Type} (l : List α) (b : β) : l.map (fun _ => b) = List.replicate l.length b := by
  induction l with
  | nil => rfl
  | cons a t ih => simp [List.replicate_succ, ih]

theorem Agree.flush {s1 s2 : Store} (h : Agree s1 s2) : Agree (s1.map fun _ => ([] : Db)) (s2.map fun _ => ([] : Db)) := by
  unfold Agree
  rw [map_const_eq_replicate, map_const_eq_replicate, h.length]

theorem setDb_getDb_self (s : Store) (i : Nat) : setDb s i (getDb s i) = s := by
  unfold setDb getDb
  induction s generalizing i with
  | nil => simp
  | cons d t ih =>
    cases i with
    | zero => simp
    | succ i =>
      have := ih i
      simp only [List.getD_eq_getElem?_getD] at this
      simp [this]

/-! ## One command on the store -/

/-- the name `KS.step` dispatches on -/
theorem step_cons (q : Quirks) (s : Store) (i now : Nat) (n : Bytes) (args : List Bytes) (obs : Option (List Bytes)) :
    (step q s i now (n :: args) obs).1 =
      if nameOf (n :: args) = "FLUSHALL" then (if args.isEmpty then (s.map fun _ => ([] : Db)) else s)
      else setDb s i (stepDb q (purge now (getDb s i)) now (nameOf (n :: args)) args obs).1 := by
  unfold step nameOf
  simp only []
  split
  · split <;> rfl
  · rfl

/-- no deadline has passed ⇒ a read-only command leaves the store as it is -/
theorem step_readonly (q : Quirks) (s : Store) (i now : Nat) (cmd : List Bytes) (obs : Option (List Bytes))
    (hq : purge now (getDb s i) = getDb s i) (hr : ¬ nameOf cmd ∈ Spec.writeNames) :
    (step q s i now cmd obs).1 = s := by
  cases cmd with
  | nil => rfl
  | cons n args =>
    rw [step_cons]
    have hne : nameOf (n :: args) ≠ "FLUSHALL" := by
      intro h; rw [h] at hr; exact hr (by decide)
    simp only [hne, if_false]
    rw [hq, stepDb_readonly q _ now _ args obs hr, setDb_getDb_self]

/-- the same command on two agreeing stores, at any two instants at which no deadline has passed, with any two draws
    unless it is SPOP: the stores agree afterwards -/
theorem step_sim (q : Quirks) (s1 s2 : Store) (hA : Agree s1 s2) (i now1 now2 : Nat) (cmd : List Bytes)
    (obs1 obs2 : Option (List Bytes))
    (hq1 : purge now1 (getDb s1 i) = getDb s1 i) (hq2 : purge now2 (getDb s2 i) = getDb s2 i)
    (hdet : nameOf cmd ≠ "SPOP" ∨ obs1 = obs2) :
    Agree (step q s1 i now1 cmd obs1).1 (step q s2 i now2 cmd obs2).1 := by
  cases cmd with
  | nil => exact hA
  | cons n args =>
    rw [step_cons, step_cons]
    by_cases hf : nameOf (n :: args) = "FLUSHALL"
    · simp only [hf, if_true]
      split
      · exact hA.flush
      · exact hA
    · simp only [hf, if_false]
      rw [hq1, hq2]
      apply hA.setDb
      have hobs : (stepDb q (getDb s2 i) now2 (nameOf (n :: args)) args obs2).1 =
          (stepDb q (getDb s2 i) now2 (nameOf (n :: args)) args obs1).1 := by
        rcases hdet with h | h
        · exact stepDb_obs_irrelevant_db q _ now2 _ args obs2 obs1 h
        · rw [h]
      rw [hobs]
      exact stepDb_sim q _ _ (hA.getDb i) now1 now2 _ args obs1

/-! ## SPOP logged by its effect -/

theorem step_cons_snd (q : Quirks) (s : Store) (i now : Nat) (n : Bytes) (args : List Bytes) (obs : Option (List Bytes))
    (hf : nameOf (n :: args) ≠ "FLUSHALL") :
    (step q s i now (n :: args) obs).2 = (stepDb q (purge now (getDb s i)) now (nameOf (n :: args)) args obs).2 := by
  unfold step nameOf at *
  simp only [] at hf ⊢
  simp only [hf, if_false]

theorem step_cons_ne (q : Quirks) (s : Store) (i now : Nat) (n : Bytes) (args : List Bytes) (obs : Option (List Bytes))
    (hf : nameOf (n :: args) ≠ "FLUSHALL") :
    (step q s i now (n :: args) obs).1 = setDb s i (stepDb q (purge now (getDb s i)) now (nameOf (n :: args)) args obs).1 := by
  rw [step_cons]
  simp only [hf, if_false]

def sremCmd (key : Bytes) (got : List Bytes) : List Bytes := [83, 82, 69, 77] :: key :: got

theorem nameOf_sremCmd (key : Bytes) (got : List Bytes) : nameOf (sremCmd key got) = "SREM" := by
  simp only [sremCmd, nameOf]
  decide

/-- a SPOP that took `m…` and the SREM of `m…`, on the same store at the same instant -/
theorem step_spop_drawn (q : Quirks) (s : Store) (i now : Nat) (n key : Bytes) (rest : List Bytes) (m : Bytes) (ms : List Bytes)
    (o' : Option (List Bytes))
    (hname : nameOf (n :: key :: rest) = "SPOP")
    (hok : isErrReply (step q s i now (n :: key :: rest) (some (m :: ms))).2 = false) :
    (step q s i now (n :: key :: rest) (some (m :: ms))).1 = (step q s i now (sremCmd key (m :: ms)) o').1 := by
  have hf : nameOf (n :: key :: rest) ≠ "FLUSHALL" := by rw [hname]; decide
  have hs := nameOf_sremCmd key (m :: ms)
  have hf2 : nameOf (sremCmd key (m :: ms)) ≠ "FLUSHALL" := by rw [hs]; decide
  rw [step_cons_snd q s i now n (key :: rest) _ hf, hname, isErrReply_eq] at hok
  rw [step_cons_ne q s i now n (key :: rest) _ hf, hname]
  unfold sremCmd at hs hf2 ⊢
  rw [step_cons_ne q s i now _ (key :: m :: ms) _ hf2, hs]
  congr 1
  have h1 : stepDb q (purge now (getDb s i)) now "SPOP" (key :: rest) (some (m :: ms)) =
      cmdSpop (purge now (getDb s i)) (key :: rest) (some (m :: ms)) := rfl
  have h2 : stepDb q (purge now (getDb s i)) now "SREM" (key :: m :: ms) o' = cmdSrem (purge now (getDb s i)) (key :: m :: ms) := rfl
  rw [h1] at hok ⊢
  rw [h2]
  exact spop_as_srem _ key rest (m :: ms) (by simp) hok

/-- a SPOP that took nothing leaves a well-formed store as it is (no deadline having passed) -/
theorem step_spop_nodraw (q : Quirks) (s : Store) (hs : StoreOk s) (i now : Nat) (raw : List Bytes) (obs : Option (List Bytes))
    (hname : nameOf raw = "SPOP") (hq : purge now (getDb s i) = getDb s i)
    (hno : obs.getD [] = [] ∨ raw.length < 2) : (step q s i now raw obs).1 = s := by
  cases raw with
  | nil => simp [nameOf] at hname
  | cons n args =>
    have hf : nameOf (n :: args) ≠ "FLUSHALL" := by rw [hname]; decide
    rw [step_cons_ne q s i now n args obs hf, hname, hq]
    have h1 : stepDb q (getDb s i) now "SPOP" args obs = cmdSpop (getDb s i) args obs := rfl
    have hno' : obs.getD [] = [] ∨ args = [] := by
      rcases hno with h | h
      · exact Or.inl h
      · right
        cases args with
        | nil => rfl
        | cons a t => simp at h; omega
    rw [h1, cmdSpop_nodraw (getDb s i) (getDb_ok hs i) args obs hno', setDb_getDb_self]

/-- how the entry of a command of the table is formed -/
theorem entryOf_cases (eff : Bool) (raw : List Bytes) (obs : Option (List Bytes)) :
    (entryOf eff raw obs = some raw ∧ ¬ (eff = true ∧ nameOf raw = "SPOP")) ∨
    (eff = true ∧ nameOf raw = "SPOP" ∧
      ((∃ n key rest m ms, raw = n :: key :: rest ∧ obs = some (m :: ms) ∧ entryOf eff raw obs = some (sremCmd key (m :: ms))) ∨
       (entryOf eff raw obs = none ∧ (obs.getD [] = [] ∨ raw.length < 2)))) ∨
    (eff = true ∧ nameOf raw = "XADD" ∧ raw[2]? = some [42]) := by
  unfold entryOf
  by_cases h1 : eff = true ∧ nameOf raw = "SPOP"
  · right; left
    refine ⟨h1.1, h1.2, ?_⟩
    simp only [h1, and_self, if_true]
    rcases raw with _ | ⟨n, _ | ⟨key, rest⟩⟩
    · right; simp
    · right; simp
    · cases obs with
      | none => right; simp
      | some got =>
        cases got with
        | nil => right; simp
        | cons m ms => left; exact ⟨n, key, rest, m, ms, rfl, rfl, rfl⟩
  · by_cases h2 : eff = true ∧ nameOf raw = "XADD" ∧ raw[2]? = some [42]
    · right; right; exact h2
    · left
      refine ⟨?_, h1⟩
      simp only [h1, if_false, h2]

/-! ## Entries of the log and what replaying them does -/

theorem nameOf_selectCmd (d : Nat) : nameOf (selectCmd d) = "SELECT" := by
  simp only [selectCmd, nameOf]
  decide

theorem selTarget_selectCmd (cur d : Nat) (hd : d < 16) : selTarget cur (selectCmd d) = d := by
  unfold selTarget selectCmd
  simp [parseU64_natDigits d (by omega), hd]

theorem nameOf_popCmd (left : Bool) (key : Bytes) : nameOf (popCmd left key) = if left then "LPOP" else "RPOP" := by
  cases left
  · simp only [popCmd, nameOf, Bool.false_eq_true, if_false]; decide
  · simp only [popCmd, nameOf, if_true]; decide

theorem unwrap_of_name_ne (raw : List Bytes) (h : nameOf raw ≠ "EVAL") : unwrap raw = none := by
  unfold unwrap; simp [h]

theorem nameOf_effCmd (raw : List Bytes) : nameOf (effCmd raw) = effName raw := by
  unfold effCmd effName; cases unwrap raw <;> rfl

theorem execRaw_not_select (q : Quirks) (c : Conn) (now : Nat) (obs : Option (List Bytes)) (raw : List Bytes)
    (h : nameOf raw ≠ "SELECT") :
    execRaw q c now obs raw = { c with store := (KS.step q c.store c.cur now (effCmd raw) obs).1 } := by
  unfold execRaw effCmd
  simp only [h, if_false]
  cases unwrap raw <;> rfl

theorem execRaw_select (q : Quirks) (c : Conn) (now : Nat) (obs : Option (List Bytes)) (raw : List Bytes)
    (h : nameOf raw = "SELECT") : execRaw q c now obs raw = { c with cur := selTarget c.cur raw } := by
  unfold execRaw; simp [h]

theorem quietStep_eq {c : Conn} {db now : Nat} (h : quietStep c db now = true) : purge now (getDb c.store db) = getDb c.store db := by
  unfold quietStep at h
  exact of_decide_eq_true h

/-- what the log's tracking knows about the reader of the file: where it stands — or, right after a restart on an
    inherited file, nothing (`unknownDb`), which is sound only if a SELECT is then emitted before the next entry -/
def FileOk (cfg : Cfg) (st : LogSt) (cR : Conn) : Prop := st.file = cR.cur ∨ (cfg.logSelect = true ∧ 16 ≤ st.file)

/-- Replaying the entries written for one command `c` that ran in database `d` (an optional SELECT, then `c`):
    the replayed store agrees with the live one after `c`, and the reader is where the tracking says. -/
theorem replay_entries_sim_gen (q : Quirks) (cfg : Cfg) (st : LogSt) (d : Nat) (hd : d < 16)
    (c : List Bytes) (hns : nameOf c ≠ "SELECT")
    (hdb : cfg.logSelect = true ∨ d = st.file)
    (sL' : Store)
    (cR : Conn) (hfile : FileOk cfg st cR)
    (hsim : ∀ (nowR : Nat) (obsR : Option (List Bytes)), purge nowR (getDb cR.store d) = getDb cR.store d →
      Agree sL' (KS.step q cR.store d nowR (effCmd c) obsR).1)
    (es : List REntry) (hes : es.map (·.cmd) = selFor cfg st d ++ [c]) (hqR : quietReplay q cR es = true) :
    Agree sL' (replayFrom q cR es).store ∧
      (replayFrom q cR es).cur = fileAfter cfg st d := by
  by_cases hsel : cfg.logSelect = true ∧ st.file ≠ d
  · -- a SELECT is emitted first
    have hsf : selFor cfg st d = [selectCmd d] := by unfold selFor; simp [hsel]
    rw [hsf] at hes
    rcases es with _ | ⟨e1, _ | ⟨e2, _ | ⟨e3, t⟩⟩⟩
    · simp at hes
    · simp at hes
    · simp only [List.map_cons, List.map_nil, List.cons_append, List.nil_append, List.cons.injEq, and_true] at hes
      obtain ⟨h1, h2⟩ := hes
      simp only [quietReplay, Bool.and_true, Bool.and_eq_true] at hqR
      simp only [replayFrom, List.foldl_cons, List.foldl_nil]
      rw [h1] at hqR
      rw [h1, h2]
      rw [execRaw_select q cR e1.now e1.obs _ (nameOf_selectCmd d), selTarget_selectCmd _ d hd] at hqR ⊢
      rw [execRaw_not_select q _ e2.now e2.obs c hns]
      have hq2 := quietStep_eq hqR.2
      simp only at hq2 ⊢
      refine ⟨hsim e2.now e2.obs hq2, ?_⟩
      unfold fileAfter; simp [hsel.1]
    · simp at hes
  · -- the reader already is in database `d`
    have hsf : selFor cfg st d = [] := by unfold selFor; simp [hsel]
    have hfile : st.file = cR.cur := by
      rcases hfile with h | ⟨hl, h16⟩
      · exact h
      · exact absurd ⟨hl, by omega⟩ hsel
    have hcur : cR.cur = d := by
      rw [← hfile]
      rcases hdb with h | h
      · by_cases hfd : st.file = d
        · exact hfd
        · exact absurd ⟨h, hfd⟩ hsel
      · exact h.symm
    rw [hsf] at hes
    rcases es with _ | ⟨e1, _ | ⟨e2, t⟩⟩
    · simp at hes
    · simp only [List.map_cons, List.map_nil, List.nil_append, List.cons.injEq, and_true] at hes
      simp only [quietReplay, Bool.and_true] at hqR
      simp only [replayFrom, List.foldl_cons, List.foldl_nil]
      rw [hes]
      rw [execRaw_not_select q _ e1.now e1.obs c hns]
      have hq2 := quietStep_eq hqR
      rw [hcur] at hq2
      simp only [hcur]
      refine ⟨hsim e1.now e1.obs hq2, ?_⟩
      unfold fileAfter
      split
      · rfl
      · rw [hfile, hcur]
    · simp at hes

/-- (the usual instance: the live side ran the same command) -/
theorem replay_entries_sim (q : Quirks) (cfg : Cfg) (st : LogSt) (d : Nat) (hd : d < 16)
    (c : List Bytes) (hns : nameOf c ≠ "SELECT") (hnr : effName c ≠ "SPOP")
    (hdb : cfg.logSelect = true ∨ d = st.file)
    (sL : Store) (nowL : Nat) (obsL : Option (List Bytes)) (hqL : purge nowL (getDb sL d) = getDb sL d)
    (cR : Conn) (hfile : FileOk cfg st cR) (hA : Agree sL cR.store)
    (es : List REntry) (hes : es.map (·.cmd) = selFor cfg st d ++ [c]) (hqR : quietReplay q cR es = true) :
    Agree (KS.step q sL d nowL (effCmd c) obsL).1 (replayFrom q cR es).store ∧
      (replayFrom q cR es).cur = fileAfter cfg st d := by
  have hname : nameOf (effCmd c) ≠ "SPOP" := by rw [nameOf_effCmd]; exact hnr
  exact replay_entries_sim_gen q cfg st d hd c hns hdb _ cR hfile
    (fun nowR obsR hq2 => step_sim q sL cR.store hA d nowL nowR (effCmd c) obsL obsR hqL hq2 (Or.inl hname)) es hes hqR

theorem nameOf_delCmd (key : Bytes) : nameOf (delCmd key) = "DEL" := by
  simp only [delCmd, nameOf]
  decide

theorem erase_of_lookup_none {db : Db} {k : Bytes} (h : lookup db k = none) : erase db k = db := by
  induction db with
  | nil => rfl
  | cons p t ih =>
    obtain ⟨k', e⟩ := p
    simp only [lookup] at h
    simp only [erase]
    by_cases hk : k' = k
    · simp [hk] at h
    · simp only [hk, if_false] at h ⊢
      rw [ih h]

/-- `DEL key` removes the key if it is there — whenever it runs -/
theorem step_del_single (q : Quirks) (s : Store) (i now : Nat) (key : Bytes) (obs : Option (List Bytes)) :
    (step q s i now (delCmd key) obs).1 = setDb s i (erase (purge now (getDb s i)) key) := by
  have hn := nameOf_delCmd key
  have hf : nameOf (delCmd key) ≠ "FLUSHALL" := by rw [hn]; decide
  unfold delCmd at hn hf ⊢
  rw [step_cons_ne q s i now _ [key] obs hf, hn]
  congr 1
  have h1 : stepDb q (purge now (getDb s i)) now "DEL" [key] obs = cmdDel (purge now (getDb s i)) [key] := rfl
  rw [h1]
  unfold cmdDel
  simp only [List.isEmpty_cons, Bool.false_eq_true, if_false, delKeys]
  cases hl : lookup (purge now (getDb s i)) key with
  | none => simp [erase_of_lookup_none hl]
  | some e => simp

/-! ## One event, then a whole history -/

/-- what the induction carries: the stores agree, and the log's tracking state describes the two connections -/
structure Inv (cfg : Cfg) (cL : Conn) (st : LogSt) (cR : Conn) : Prop where
  agree : Agree cL.store cR.store
  conn : st.conn = cL.cur
  file : FileOk cfg st cR
  lt : cL.cur < 16

theorem selTarget_lt (cur : Nat) (raw : List Bytes) (h : cur < 16) : selTarget cur raw < 16 := by
  unfold selTarget
  repeat' split
  all_goals first | assumption | omega

theorem map_eq_nil' {α β : Type} {f : α → β} {l : List α} (h : l.map f = []) : l = [] := by
  cases l with
  | nil => rfl
  | cons a t => simp at h

theorem ev_sim (q : Quirks) (cfg : Cfg) (hwf : cfg.wf = true) (ev : Ev) (cL cR : Conn) (st : LogSt)
    (hI : Inv cfg cL st cR) (es : List REntry) (hes : es.map (·.cmd) = (logEv cfg st ev).1)
    (hin : inModel ev = true) (hcov : covered cfg st ev = true)
    (hqL : quietEv cL ev = true) (hqR : quietReplay q cR es = true)
    (hok : StoreOk cL.store) (hdraw : drawOk q cL ev = true) :
    Inv cfg (execEv q cL ev) (logEv cfg st ev).2 (replayFrom q cR es) := by
  have hselw : isWrite cfg.writes "SELECT" = false := by
    unfold Cfg.wf at hwf
    unfold isWrite
    simpa using hwf
  cases ev with
  | cmd ve now obs raw =>
    have hqL' := quietStep_eq (show quietStep cL (evDb cL (.cmd ve now obs raw)) (evNow (.cmd ve now obs raw)) = true from hqL)
    simp only [evDb, evNow] at hqL'
    by_cases hs : nameOf raw = "SELECT"
    · -- SELECT: connection state only, never an entry
      have hnw : isWrite cfg.writes (nameOf raw) = false := by rw [hs]; exact hselw
      simp only [logEv, hnw, Bool.false_eq_true, if_false] at hes ⊢
      have hnil := map_eq_nil' hes
      subst hnil
      simp only [replayFrom, List.foldl_nil]
      simp only [execEv, hs, if_true]
      rw [execRaw_select q cL now obs raw hs]
      refine ⟨hI.agree, ?_, hI.file, selTarget_lt _ _ hI.lt⟩
      simp only [hI.conn]
    · have hexec : execEv q cL (.cmd ve now obs raw) = { cL with store := (KS.step q cL.store cL.cur now (effCmd raw) obs).1 } := by
        simp only [execEv]
        exact execRaw_not_select q cL now obs raw hs
      rw [hexec]
      simp only [covered, hs, false_or, decide_eq_true_eq, Bool.decide_and, Bool.and_eq_true, Bool.decide_eq_true,
        Bool.not_eq_true', Bool.not_eq_eq_eq_not, Bool.not_true, decide_eq_false_iff_not] at hcov
      by_cases hw : isWrite cfg.writes (nameOf raw) = true
      · -- in the table
        simp only [logEv, hw, if_true, hs, if_false] at hes ⊢
        have hdb : cfg.logSelect = true ∨ st.conn = st.file := by
          rcases hcov.2.2 hw with h | h
          · exact Or.inl h
          · exact Or.inr h
        rw [hI.conn] at hdb hes ⊢
        rcases entryOf_cases cfg.byEffect raw obs with ⟨he, hne⟩ | ⟨heff, hsp, hcase⟩ | ⟨heff, hx, hstar⟩
        · -- appended verbatim before dispatch; replayed in the database it ran in
          rw [he] at hes ⊢
          simp only at hes ⊢
          have hnr : effName raw ≠ "SPOP" := by
            intro h
            rcases hcov.2.1 with h' | h'
            · rw [h] at h'; exact absurd h' (by decide)
            · exact hne h'
          have := replay_entries_sim q cfg st cL.cur hI.lt raw hs hnr hdb cL.store now obs hqL' cR hI.file hI.agree es hes hqR
          exact ⟨this.1, rfl, Or.inl this.2.symm, hI.lt⟩
        · -- SPOP logged by its effect
          have hne : nameOf raw ≠ "EVAL" := by rw [hsp]; decide
          have heffc : effCmd raw = raw := by unfold effCmd; rw [unwrap_of_name_ne raw hne]; rfl
          rw [heffc]
          rcases hcase with ⟨n, key, rest, m, ms, hraw, hobs, he⟩ | ⟨he, hno⟩
          · -- it took `m :: ms`: the entry is `SREM key m…`
            rw [he] at hes ⊢
            simp only at hes ⊢
            subst hraw hobs
            have hd : isErrReply (KS.step q cL.store cL.cur now (n :: key :: rest) (some (m :: ms))).2 = false := by
              simp only [drawOk, hsp, Option.getD_some, decide_eq_true_eq] at hdraw
              exact hdraw trivial (by simp)
            rw [step_spop_drawn q cL.store cL.cur now n key rest m ms none hsp hd]
            have hsn := nameOf_sremCmd key (m :: ms)
            have hns2 : nameOf (sremCmd key (m :: ms)) ≠ "SELECT" := by rw [hsn]; decide
            have hne2 : nameOf (sremCmd key (m :: ms)) ≠ "EVAL" := by rw [hsn]; decide
            have hun : unwrap (sremCmd key (m :: ms)) = none := unwrap_of_name_ne _ hne2
            have heff2 : effCmd (sremCmd key (m :: ms)) = sremCmd key (m :: ms) := by unfold effCmd; rw [hun]; rfl
            have hnr2 : effName (sremCmd key (m :: ms)) ≠ "SPOP" := by
              unfold effName; rw [hun]; simp only; rw [hsn]; decide
            have := replay_entries_sim q cfg st cL.cur hI.lt (sremCmd key (m :: ms)) hns2 hnr2 hdb cL.store now none hqL' cR
              hI.file hI.agree es hes hqR
            rw [heff2] at this
            exact ⟨this.1, rfl, Or.inl this.2.symm, hI.lt⟩
          · -- it took nothing: no entry, and nothing changed
            rw [he] at hes ⊢
            simp only at hes ⊢
            have hnil := map_eq_nil' hes
            subst hnil
            simp only [replayFrom, List.foldl_nil]
            rw [step_spop_nodraw q cL.store hok cL.cur now raw obs hsp hqL' hno]
            exact ⟨hI.agree, rfl, hI.file, hI.lt⟩
        · -- `XADD key * …`: an id drawn from the clock is outside the model
          exfalso
          have hne : nameOf raw ≠ "EVAL" := by rw [hx]; decide
          have hun : unwrap raw = none := unwrap_of_name_ne raw hne
          simp only [inModel, effName, effCmd, hun, Option.getD_none, hx, hstar, decide_eq_true_eq] at hin
          rcases hin with h | h
          · exact absurd h (by decide)
          · exact h.2 ⟨trivial, trivial⟩
      · -- not in the table: it must be read-only, and then it changed nothing
        have hw' : isWrite cfg.writes (nameOf raw) = false := by simpa using hw
        simp only [logEv, hw', Bool.false_eq_true, if_false, hs] at hes ⊢
        have hnil := map_eq_nil' hes
        subst hnil
        simp only [replayFrom, List.foldl_nil]
        have hro : ¬ nameOf (effCmd raw) ∈ Spec.writeNames := by
          rw [nameOf_effCmd]
          intro hmem
          have : Spec.writeNames.contains (effName raw) = true := by simpa using hmem
          exact hw (hcov.1 this)
        rw [step_readonly q cL.store cL.cur now (effCmd raw) obs hqL' hro]
        exact ⟨hI.agree, hI.conn, hI.file, hI.lt⟩
  | wake db now left key =>
    have hqL' := quietStep_eq (show quietStep cL (evDb cL (.wake db now left key)) (evNow (.wake db now left key)) = true from hqL)
    simp only [evDb, evNow] at hqL'
    simp only [covered, Bool.decide_and, Bool.and_eq_true, decide_eq_true_eq, Bool.decide_or, Bool.or_eq_true] at hcov
    simp only [inModel, decide_eq_true_eq] at hin
    obtain ⟨hlw, hdb⟩ := hcov
    simp only [logEv, hlw, if_true] at hes ⊢
    have hname : nameOf (popCmd left key) = if left then "LPOP" else "RPOP" := nameOf_popCmd left key
    have hns : nameOf (popCmd left key) ≠ "SELECT" := by rw [hname]; cases left <;> decide
    have hne : nameOf (popCmd left key) ≠ "EVAL" := by rw [hname]; cases left <;> decide
    have hun : unwrap (popCmd left key) = none := unwrap_of_name_ne _ hne
    have heff : effCmd (popCmd left key) = popCmd left key := by unfold effCmd; rw [hun]; rfl
    have hnr : effName (popCmd left key) ≠ "SPOP" := by
      unfold effName; rw [hun]; simp only; rw [hname]; cases left <;> decide
    have := replay_entries_sim q cfg st db hin (popCmd left key) hns hnr hdb cL.store now none hqL' cR hI.file hI.agree es hes hqR
    rw [heff] at this
    simp only [execEv]
    exact ⟨this.1, hI.conn, Or.inl this.2.symm, hI.lt⟩
  | expire db now key =>
    -- time has passed: the live server dropped `key`; the file says `DEL key`, which does the same whenever it is replayed
    simp only [covered, Bool.decide_and, Bool.and_eq_true, decide_eq_true_eq, Bool.decide_or, Bool.or_eq_true] at hcov
    simp only [inModel, decide_eq_true_eq] at hin
    obtain ⟨hle, hdb⟩ := hcov
    simp only [logEv, hle, if_true] at hes ⊢
    have hname : nameOf (delCmd key) = "DEL" := nameOf_delCmd key
    have hns : nameOf (delCmd key) ≠ "SELECT" := by rw [hname]; decide
    have hne : nameOf (delCmd key) ≠ "EVAL" := by rw [hname]; decide
    have hun : unwrap (delCmd key) = none := unwrap_of_name_ne _ hne
    have heff : effCmd (delCmd key) = delCmd key := by unfold effCmd; rw [hun]; rfl
    have hsim : ∀ (nowR : Nat) (obsR : Option (List Bytes)), purge nowR (getDb cR.store db) = getDb cR.store db →
        Agree (setDb cL.store db (erase (getDb cL.store db) key)) (KS.step q cR.store db nowR (effCmd (delCmd key)) obsR).1 := by
      intro nowR obsR hq
      rw [heff, step_del_single q cR.store db nowR key obsR, hq]
      apply hI.agree.setDb
      rw [normDb_erase, normDb_erase, hI.agree.getDb db]
    have := replay_entries_sim_gen q cfg st db hin (delCmd key) hns hdb _ cR hI.file hsim es hes hqR
    simp only [execEv]
    exact ⟨this.1, hI.conn, Or.inl this.2.symm, hI.lt⟩

theorem quietReplay_append (q : Quirks) (c : Conn) (a b : List REntry) :
    quietReplay q c (a ++ b) = (quietReplay q c a && quietReplay q (replayFrom q c a) b) := by
  induction a generalizing c with
  | nil => simp [quietReplay, replayFrom]
  | cons e t ih =>
    simp only [List.cons_append, quietReplay, ih, replayFrom, List.foldl_cons, Bool.and_assoc]

theorem replayFrom_append (q : Quirks) (c : Conn) (a b : List REntry) :
    replayFrom q c (a ++ b) = replayFrom q (replayFrom q c a) b := by
  simp [replayFrom, List.foldl_append]

theorem execEv_ok (q : Quirks) (c : Conn) (ev : Ev) (h : StoreOk c.store) : StoreOk (execEv q c ev).store := by
  cases ev with
  | cmd ve now obs raw =>
    simp only [execEv, execRaw]
    split
    · exact h
    · split <;> exact step_pres q _ _ _ _ _ h
  | wake db now left key =>
    simp only [execEv]
    exact step_pres q _ _ _ _ _ h
  | expire db now key =>
    simp only [execEv]
    exact setDb_ok h db (DbOk_erase key (getDb_ok h db))

theorem inv_init (cfg : Cfg) : Inv cfg {} {} {} := ⟨rfl, rfl, Or.inl rfl, by decide⟩

/-- the tracking state after a history -/
def stAfter (cfg : Cfg) (st : LogSt) : List Ev → LogSt
  | [] => st
  | ev :: h => stAfter cfg (logEv cfg st ev).2 h

theorem liveFrom_ok (q : Quirks) (h : List Ev) (c : Conn) (hok : StoreOk c.store) : StoreOk (liveFrom q c h).store := by
  induction h generalizing c with
  | nil => exact hok
  | cons ev t ih =>
    simp only [liveFrom, List.foldl_cons]
    exact ih _ (execEv_ok q c ev hok)

/-- MAIN LEMMA: from agreeing states, a history every event of which the log covers, and any replay of the entries it
    leaves (at any instants, with any draws) end in agreeing stores, with the tracking state describing the two
    connections again — provided no deadline passes on either side (and the draws reported for SPOPs logged by their
    effect are what those commands took). -/
theorem replay_sim_inv (q : Quirks) (cfg : Cfg) (hwf : cfg.wf = true) :
    ∀ (h : List Ev) (cL cR : Conn) (st : LogSt) (es : List REntry),
      Inv cfg cL st cR → StoreOk cL.store → es.map (·.cmd) = logFrom cfg st h → (∀ ev ∈ h, inModel ev = true) →
      coveredFrom cfg st h = true → quietLive q cL h = true → quietReplay q cR es = true → drawsOk q cL h = true →
      Inv cfg (liveFrom q cL h) (stAfter cfg st h) (replayFrom q cR es) := by
  intro h
  induction h with
  | nil =>
    intro cL cR st es hI _ hes _ _ _ _ _
    simp only [logFrom] at hes
    have := map_eq_nil' hes
    subst this
    exact hI
  | cons ev t ih =>
    intro cL cR st es hI hok hes hin hcov hqL hqR hdr
    simp only [logFrom] at hes
    obtain ⟨es1, es2, rfl, h1, h2⟩ := List.map_eq_append_iff.mp hes
    simp only [coveredFrom, Bool.and_eq_true] at hcov
    simp only [quietLive, Bool.and_eq_true] at hqL
    simp only [drawsOk, Bool.and_eq_true] at hdr
    rw [quietReplay_append, Bool.and_eq_true] at hqR
    have hI' := ev_sim q cfg hwf ev cL cR st hI es1 h1 (hin ev (by simp)) hcov.1 hqL.1 hqR.1 hok hdr.1
    rw [replayFrom_append]
    simp only [liveFrom, List.foldl_cons, stAfter]
    exact ih (execEv q cL ev) (replayFrom q cR es1) (logEv cfg st ev).2 es2 hI' (execEv_ok q cL ev hok) h2
      (fun e he => hin e (by simp [he])) hcov.2 hqL.2 hqR.2 hdr.2

theorem replay_sim (q : Quirks) (cfg : Cfg) (hwf : cfg.wf = true)
    (h : List Ev) (cL cR : Conn) (st : LogSt) (es : List REntry)
    (hI : Inv cfg cL st cR) (hok : StoreOk cL.store) (hes : es.map (·.cmd) = logFrom cfg st h) (hin : ∀ ev ∈ h, inModel ev = true)
    (hcov : coveredFrom cfg st h = true) (hqL : quietLive q cL h = true) (hqR : quietReplay q cR es = true)
    (hdr : drawsOk q cL h = true) :
    Agree (liveFrom q cL h).store (replayFrom q cR es).store :=
  (replay_sim_inv q cfg hwf h cL cR st es hI hok hes hin hcov hqL hqR hdr).agree

/-- ACROSS A RESTART (with SELECT tracking): the first run leaves the entries of `h1`; the server is restarted on the same
    file with its dataset back (every connection new: database 0; the engine knows nothing of where a reader of the
    inherited file stands: `LogSt.restarted`); the second run appends the entries of `h2`.  Replaying the WHOLE file
    still ends in a store that agrees with the live one. -/
theorem replay_sim_restart (q : Quirks) (cfg : Cfg) (hwf : cfg.wf = true) (hsel : cfg.logSelect = true)
    (h1 h2 : List Ev) (es1 es2 : List REntry)
    (hes1 : es1.map (·.cmd) = logFrom cfg {} h1) (hes2 : es2.map (·.cmd) = logFrom cfg LogSt.restarted h2)
    (hin1 : ∀ ev ∈ h1, inModel ev = true) (hin2 : ∀ ev ∈ h2, inModel ev = true)
    (hcov1 : coveredFrom cfg {} h1 = true) (hcov2 : coveredFrom cfg LogSt.restarted h2 = true)
    (hqL1 : quietLive q {} h1 = true) (hqL2 : quietLive q (liveFrom q {} h1).restarted h2 = true)
    (hqR1 : quietReplay q {} es1 = true) (hqR2 : quietReplay q (replayFrom q {} es1) es2 = true)
    (hdr1 : drawsOk q {} h1 = true) (hdr2 : drawsOk q (liveFrom q {} h1).restarted h2 = true) :
    Agree (liveFrom q (liveFrom q {} h1).restarted h2).store (replayFrom q {} (es1 ++ es2)).store := by
  have hI1 := replay_sim_inv q cfg hwf h1 {} {} {} es1 (inv_init cfg) StoreOk_empty hes1 hin1 hcov1 hqL1 hqR1 hdr1
  have hI2 : Inv cfg (liveFrom q {} h1).restarted LogSt.restarted (replayFrom q {} es1) :=
    ⟨hI1.agree, rfl, Or.inr ⟨hsel, Nat.le_refl 16⟩, by show (0 : Nat) < 16; decide⟩
  rw [replayFrom_append]
  exact replay_sim q cfg hwf h2 _ _ _ es2 hI2 (liveFrom_ok q h1 {} StoreOk_empty) hes2 hin2 hcov2 hqL2 hqR2 hdr2

/-- without SPOP in the history the draws are trivially sound -/
theorem drawsOk_of_no_spop (q : Quirks) : ∀ (h : List Ev) (c : Conn),
    (∀ raw ∈ rawsOf h, nameOf raw ≠ "SPOP") → drawsOk q c h = true := by
  intro h
  induction h with
  | nil => intro c _; rfl
  | cons ev t ih =>
    intro c hn
    simp only [drawsOk, Bool.and_eq_true]
    constructor
    · cases ev with
      | cmd ve now obs raw =>
        have := hn raw (by simp [rawsOf])
        simp [drawOk, this]
      | wake db now left key => rfl
      | expire db now key => rfl
    · apply ih
      intro raw hraw
      apply hn
      cases ev with
      | cmd ve now obs raw' => simp [rawsOf, hraw]
      | wake db now left key => simpa [rawsOf] using hraw
      | expire db now key => simpa [rawsOf] using hraw

/-! ## Corollaries used by the property theorems -/



/-- with SELECT tracking, pops made for blocking clients logged and a table that contains every mutating name and
    EVAL, every event is covered except a random write logged verbatim (SPOP inside a script; any SPOP without
    by-effect logging) -/
def isExpire : Ev → Bool
  | .expire _ _ _ => true
  | _ => false

theorem coveredFrom_tracked (w : List String) (eff exp : Bool) (hall : ∀ n ∈ Spec.writeNames, n ∈ w) (heval : "EVAL" ∈ w) :
    ∀ (h : List Ev) (st : LogSt),
      (∀ raw, raw ∈ rawsOf h → ¬ Spec.randomWrites.contains (effName raw) = true ∨ (eff = true ∧ nameOf raw = "SPOP")) →
      (∀ ev ∈ h, isExpire ev = true → exp = true) →
      coveredFrom (Cfg.treeX w true true eff exp) st h = true := by
  intro h
  induction h with
  | nil => intro st _ _; rfl
  | cons ev t ih =>
    intro st hr hx
    simp only [coveredFrom, Bool.and_eq_true]
    refine ⟨?_, ih _ (fun raw hraw => hr raw ?_) (fun e he => hx e (by simp [he]))⟩
    · cases ev with
      | cmd ve now obs raw =>
        simp only [covered, Cfg.treeX, decide_eq_true_eq]
        by_cases hs : nameOf raw = "SELECT"
        · exact Or.inl hs
        · right
          refine ⟨?_, ?_, fun _ => Or.inl trivial⟩
          · intro hc
            have hmem : effName raw ∈ Spec.writeNames := by simpa using hc
            unfold isWrite
            simp only [List.contains_eq_mem, decide_eq_true_eq]
            unfold effName at hmem
            cases hu : unwrap raw with
            | none => rw [hu] at hmem; exact hall _ hmem
            | some inner =>
              have : nameOf raw = "EVAL" := by
                unfold unwrap at hu
                by_cases he : nameOf raw = "EVAL"
                · exact he
                · simp [he] at hu
              rw [this]; exact heval
          · have := hr raw (by simp [rawsOf])
            rcases this with h | h
            · left; simpa using h
            · right; exact h
      | wake db now left key =>
        simp [covered, Cfg.treeX]
      | expire db now key =>
        have := hx (.expire db now key) (by simp) rfl
        simp [covered, Cfg.treeX, this]
    · cases ev with
      | cmd ve now obs raw => simp [rawsOf, hraw]
      | wake db now left key => simpa [rawsOf] using hraw
      | expire db now key => simpa [rawsOf] using hraw

theorem fixed_eq_treeX (w : List String) : Cfg.fixed w = Cfg.treeX w true true true true := rfl

end Ferrous.Aof
