/-
  C04 helper lemmas (3): rank-range index arithmetic of `StorageEngine::zrange` against Redis'
  rule, for all `len > 0` and all `start, stop : Int`; list-level slicing lemmas.
-/
import FerrousSpec.Model.ZSet
namespace Ferrous.ZSet
open Ferrous

/-- What `range_by_rank(a, b)` selects on a chain of `len` nodes, as a canonical interval
    (`none` = nothing; otherwise `a ≤ b < len`). -/
def normIv (len : Nat) : Option (Nat × Nat) → Option (Nat × Nat)
  | none => none
  | some (a, b) => if a ≥ len ∨ a > b then none else some (a, min b (len - 1))
/-- Mirror an interval of the reversed list onto the forward list. -/
def flipIv (len : Nat) (p : Nat × Nat) : Nat × Nat := (len - 1 - p.2, len - 1 - p.1)

theorem normIdx_spec (len : Nat) (i : Int) : ∃ n : Nat, Code.normIdx len i = n ∧
    ((0 ≤ i ∧ (n : Int) = i) ∨ (i < 0 ∧ 0 ≤ (len : Int) + i ∧ (n : Int) = len + i) ∨ (i < 0 ∧ (len : Int) + i < 0 ∧ n = 0)) := by
  refine ⟨_, rfl, ?_⟩
  unfold Code.normIdx
  simp only [Int.max_def]
  repeat' split
  all_goals omega

/-- Redis' rule expressed with the code's own normalised indices. -/
theorem rangeIdx_norm (len : Nat) (start stop : Int) :
    Spec.rangeIdx len start stop =
      if (stop < 0 ∧ (len : Int) + stop < 0) ∨ Code.normIdx len start > Code.normIdx len stop ∨ Code.normIdx len start ≥ len
      then none else some (Code.normIdx len start, min (Code.normIdx len stop) (len - 1)) := by
  obtain ⟨sa, hsa, hsa'⟩ := normIdx_spec len start
  obtain ⟨so, hso, hso'⟩ := normIdx_spec len stop
  rw [hsa, hso]
  unfold Spec.rangeIdx
  simp only
  repeat' split
  all_goals first
    | rfl
    | omega
    | (simp only [Option.some.injEq, Prod.mk.injEq, reduceCtorEq]; omega)

theorem normIdx_stopOut {len : Nat} {stop : Int} (h : stop < 0 ∧ (len : Int) + stop < 0) :
    Code.normIdx len stop = 0 := by
  unfold Code.normIdx
  simp only [Int.max_def]
  repeat' split
  all_goals omega

macro "iv_arith" : tactic => `(tactic| (
  simp only [Nat.min_def]
  repeat' split
  all_goals try simp only [normIv, Nat.min_def]
  all_goals repeat' split
  all_goals first
    | rfl
    | omega
    | (simp only [Option.some.injEq, Prod.mk.injEq, reduceCtorEq, Option.map_some, Option.map_none,
         true_iff, false_iff, iff_true, iff_false, not_true_eq_false, not_false_eq_true]; first | done | omega)))

theorem zrangeIdx_fwd_fixed (len : Nat) (hl : 0 < len) (start stop : Int) :
    normIv len (Code.zrangeIdx true false len start stop) = Spec.rangeIdx len start stop := by
  rw [rangeIdx_norm]
  unfold Code.zrangeIdx
  generalize Code.normIdx len start = sa
  generalize Code.normIdx len stop = so
  simp only [Bool.true_and, Bool.or_eq_true, decide_eq_true_eq, Bool.false_eq_true, if_false]
  iv_arith

theorem zrangeIdx_fwd_iff (len : Nat) (hl : 0 < len) (start stop : Int) :
    normIv len (Code.zrangeIdx false false len start stop) = Spec.rangeIdx len start stop ↔
      Code.zrangeDev false len start stop = false := by
  rw [rangeIdx_norm]
  unfold Code.zrangeIdx Code.zrangeDev
  rw [if_neg (Nat.ne_of_gt hl)]
  have hz := @normIdx_stopOut len stop
  generalize Code.normIdx len start = sa at *
  generalize Code.normIdx len stop = so at *
  simp only [Bool.false_and, Bool.false_eq_true, if_false, Bool.and_eq_false_iff, decide_eq_false_iff_not]
  by_cases hp : stop < 0 ∧ (len : Int) + stop < 0
  · have := hz hp
    simp only [hp, true_or, if_true, not_true_eq_false, false_or, and_self]
    all_goals iv_arith
  · simp only [hp, false_or, not_false_eq_true, true_or]
    iv_arith

theorem zrangeIdx_rev_fixed (len : Nat) (hl : 0 < len) (start stop : Int) :
    normIv len (Code.zrangeIdx true true len start stop) = (Spec.rangeIdx len start stop).map (flipIv len) := by
  rw [rangeIdx_norm]
  unfold Code.zrangeIdx flipIv
  generalize Code.normIdx len start = sa
  generalize Code.normIdx len stop = so
  simp only [Bool.true_and, Bool.or_eq_true, decide_eq_true_eq, if_true]
  iv_arith

theorem zrangeIdx_rev_iff (len : Nat) (hl : 0 < len) (start stop : Int) :
    normIv len (Code.zrangeIdx false true len start stop) = (Spec.rangeIdx len start stop).map (flipIv len) ↔
      Code.zrangeDev true len start stop = false := by
  rw [rangeIdx_norm]
  unfold Code.zrangeIdx Code.zrangeDev flipIv
  rw [if_neg (Nat.ne_of_gt hl)]
  have hz := @normIdx_stopOut len stop
  generalize Code.normIdx len start = sa at *
  generalize Code.normIdx len stop = so at *
  simp only [Bool.false_and, Bool.false_eq_true, if_false, if_true, Bool.and_eq_false_iff, Bool.or_eq_false_iff,
    decide_eq_false_iff_not]
  by_cases hp : stop < 0 ∧ (len : Int) + stop < 0
  · have := hz hp
    simp only [hp, true_or, if_true, not_true_eq_false, false_or, and_self]
    all_goals iv_arith
  · simp only [hp, false_or, not_false_eq_true, true_or, true_and]
    iv_arith

theorem rangeIdx_wf {len : Nat} {start stop : Int} {a b : Nat}
    (h : Spec.rangeIdx len start stop = some (a, b)) : a ≤ b ∧ b < len := by
  rw [rangeIdx_norm] at h
  split at h
  · simp at h
  · simp only [Option.some.injEq, Prod.mk.injEq] at h
    omega

/-! ### Lists -/

/-- `range_by_rank` in terms of the canonical interval. -/
theorem rangeByRank_norm (sl : Code.SkipList) (hlen : sl.length = (Code.level0 sl).length) (a b : Nat) :
    Code.rangeByRank a b sl =
      match normIv sl.length (some (a, b)) with
      | none => []
      | some (a', b') => slice (Code.level0 sl) a' b' := by
  unfold Code.rangeByRank normIv slice
  by_cases h1 : a ≥ sl.length
  · simp [h1]
  · by_cases h2 : a > b
    · have : min (b + 1) sl.length - a = 0 := by omega
      simp [h1, h2, this]
    · have : min (b + 1) sl.length - a = min b (sl.length - 1) + 1 - a := by omega
      simp [h1, h2, this]

/-- Reading ranks `a..b` of the reversed list = reversing ranks `len-1-b .. len-1-a`. -/
theorem slice_reverse {α : Type} (l : List α) {a b : Nat} (hab : a ≤ b) (hb : b < l.length) :
    slice l.reverse a b = (slice l (l.length - 1 - b) (l.length - 1 - a)).reverse := by
  unfold slice
  rw [List.drop_reverse, List.take_reverse, List.length_take, List.drop_take]
  have e1 : l.length - a - (min (l.length - a) l.length - (b + 1 - a)) = l.length - 1 - a + 1 - (l.length - 1 - b) := by omega
  have e2 : min (l.length - a) l.length - (b + 1 - a) = l.length - 1 - b := by omega
  rw [e1, e2]

theorem slice_full {α : Type} (l : List α) (h : 0 < l.length) : slice l 0 (l.length - 1) = l := by
  unfold slice
  have : l.length - 1 + 1 - 0 = l.length := by omega
  simp [this]

end Ferrous.ZSet
