/-
  C16 helper lemmas, part 3: exactly-once delivery under `>`.
  (a) an invariant of `Spec.run` by induction over arbitrary histories (adds, deletes, reads by any consumer with
      any COUNT / NOACK, acknowledgements, claims, consumer deletions in between);
  (b) `Code.run` delivers exactly what `Spec.run` delivers on every history that avoids the deviations the
      quirk switches describe (simulation).
-/
import FerrousSpec.Proofs.GroupsAgree
namespace Ferrous.Grp

abbrev IdSorted (l : List Id) : Prop := l.Pairwise (fun a b => idLt a b = true)

theorem IdSorted.le_getLast {l : List Id} (hs : IdSorted l) {m : Id} (hm : l.getLast? = some m) :
    ∀ x ∈ l, idLe x m = true := by
  induction l with
  | nil => intro x hx; cases hx
  | cons y t ih =>
    rw [IdSorted, List.pairwise_cons] at hs
    intro x hx
    cases t with
    | nil =>
      simp only [List.getLast?_singleton, Option.some.injEq] at hm
      simp only [List.mem_singleton] at hx
      subst hm; subst hx; exact idLe_refl _
    | cons z t' =>
      rw [List.getLast?_cons_cons] at hm
      have hmem : m ∈ z :: t' := List.mem_of_getLast? hm
      rcases List.mem_cons.mp hx with hx | hx
      · subst hx; exact idLe_of_lt (hs.1 m hmem)
      · exact ih hs.2 hm x hx

/-- a prefix of a sorted list contains everything below any of its members -/
theorem IdSorted.take_closed {l : List Id} (hs : IdSorted l) (n : Nat) {x y : Id} (hx : x ∈ l) (hy : y ∈ l.take n)
    (hxy : idLe x y = true) : x ∈ l.take n := by
  induction l generalizing n with
  | nil => cases hx
  | cons z t ih =>
    rw [IdSorted, List.pairwise_cons] at hs
    cases n with
    | zero => simp at hy
    | succ n =>
      simp only [List.take_succ_cons, List.mem_cons] at hy ⊢
      rcases List.mem_cons.mp hx with hx' | hx'
      · exact Or.inl hx'
      · right
        rcases hy with hy' | hy'
        · rw [hy'] at hxy
          have := idLt_of_lt_of_le (hs.1 x hx') hxy
          rw [idLt_irrefl] at this; cases this
        · exact ih hs.2 n hx' hy'

theorem rangeAfter_eq_take (s : List Id) (a : Id) (count : Option Nat) :
    ∃ k, rangeAfter s a count = (s.filter (fun x => idLt a x)).take k := by
  cases count with
  | none => exact ⟨(s.filter (fun x => idLt a x)).length, by simp [rangeAfter]⟩
  | some n => exact ⟨n, rfl⟩

theorem mem_rangeAfter {s : List Id} {a : Id} {count : Option Nat} {x : Id} (h : x ∈ rangeAfter s a count) :
    x ∈ s ∧ idLt a x = true := by
  obtain ⟨k, hk⟩ := rangeAfter_eq_take s a count
  rw [hk] at h
  have := List.mem_of_mem_take h
  simpa using this

theorem sorted_rangeAfter {s : List Id} (hs : IdSorted s) (a : Id) (count : Option Nat) :
    IdSorted (rangeAfter s a count) := by
  obtain ⟨k, hk⟩ := rangeAfter_eq_take s a count
  rw [hk]
  exact (hs.filter _).sublist (List.take_sublist _ _)

/-- nothing between the cursor and the last returned id is skipped -/
theorem rangeAfter_closed {s : List Id} (hs : IdSorted s) (a : Id) (count : Option Nat) {x y : Id}
    (hx : x ∈ s) (hax : idLt a x = true) (hy : y ∈ rangeAfter s a count) (hxy : idLe x y = true) :
    x ∈ rangeAfter s a count := by
  obtain ⟨k, hk⟩ := rangeAfter_eq_take s a count
  rw [hk] at hy ⊢
  exact IdSorted.take_closed (hs.filter _) k (by simp [hx, hax]) hy hxy

/-- an unbounded read returns everything after the cursor -/
theorem rangeAfter_none (s : List Id) (a : Id) : rangeAfter s a none = s.filter (fun x => idLt a x) := rfl

/-! ### the invariant of the prescribed behaviour -/

structure OnceInv (start : Id) (σ : Spec.Sys) : Prop where
  sorted : IdSorted σ.stream
  below : ∀ x ∈ σ.stream, idLe x σ.lastId = true
  logSorted : IdSorted (σ.log.map (·.1))
  logAfter : ∀ d ∈ σ.log, idLt start d.1 = true
  logBelowCur : ∀ d ∈ σ.log, idLe d.1 σ.grp.cursor = true
  logBelowLast : ∀ d ∈ σ.log, idLe d.1 σ.lastId = true
  curOrigin : σ.grp.cursor = start ∨ ∃ d ∈ σ.log, d.1 = σ.grp.cursor
  noSkip : ∀ x ∈ σ.stream, idLt start x = true → idLe x σ.grp.cursor = true → x ∈ σ.log.map (·.1)

theorem OnceInv.start_le_cursor {start : Id} {σ : Spec.Sys} (h : OnceInv start σ) :
    idLe start σ.grp.cursor = true := by
  rcases h.curOrigin with hc | ⟨d, hd, hc⟩
  · rw [hc]; exact idLe_refl _
  · rw [← hc]; exact idLe_of_lt (h.logAfter d hd)

/-- histories for exactly-once: everything except XGROUP SETID (which re-positions the group) -/
def HOp.noSetId : HOp → Bool
  | .g (.setid _) => false
  | _ => true

theorem onceInv_init {s : List Id} {lastId : Id} (start : Id) (hs : IdSorted s)
    (hb : ∀ x ∈ s, idLe x lastId = true) : OnceInv start (Spec.init s lastId start) := by
  refine { sorted := hs, below := hb, logSorted := List.Pairwise.nil, logAfter := ?_, logBelowCur := ?_,
           logBelowLast := ?_, curOrigin := Or.inl rfl, noSkip := ?_ }
  · intro d hd; cases hd
  · intro d hd; cases hd
  · intro d hd; cases hd
  · intro x _ h1 h2
    have : idLt start start = true := idLt_of_lt_of_le h1 h2
    rw [idLt_irrefl] at this; cases this

theorem onceInv_read {start : Id} {σ : Spec.Sys} (h : OnceInv start σ) (c : Name) (count : Option Nat) (noack : Bool) :
    OnceInv start
      { σ with grp := (Spec.readNew σ.stream σ.grp c count noack).1,
               log := σ.log ++ (Spec.readNew σ.stream σ.grp c count noack).2.map (fun i => (i, c)) } := by
  have hes_mem : ∀ x ∈ rangeAfter σ.stream σ.grp.cursor count, x ∈ σ.stream ∧ idLt σ.grp.cursor x = true :=
    fun x hx => mem_rangeAfter hx
  have hes_sorted := sorted_rangeAfter h.sorted σ.grp.cursor count
  have hmap : ((Spec.readNew σ.stream σ.grp c count noack).2.map (fun i => (i, c))).map (·.1) =
      rangeAfter σ.stream σ.grp.cursor count := by
    simp [Spec.readNew, List.map_map, Function.comp_def]
  have hcur : (Spec.readNew σ.stream σ.grp c count noack).1.cursor =
      ((rangeAfter σ.stream σ.grp.cursor count).getLast?).getD σ.grp.cursor := rfl
  refine { sorted := h.sorted, below := h.below, logSorted := ?_, logAfter := ?_, logBelowCur := ?_,
           logBelowLast := ?_, curOrigin := ?_, noSkip := ?_ }
  · show IdSorted ((σ.log ++ _).map (·.1))
    rw [List.map_append, hmap, IdSorted, List.pairwise_append]
    refine ⟨h.logSorted, hes_sorted, ?_⟩
    intro a ha b hb
    obtain ⟨d, hd, rfl⟩ := List.mem_map.mp ha
    exact idLt_of_le_of_lt (h.logBelowCur d hd) (hes_mem b hb).2
  · intro d hd
    rcases List.mem_append.mp hd with hd | hd
    · exact h.logAfter d hd
    · have : d.1 ∈ rangeAfter σ.stream σ.grp.cursor count := by
        rw [← hmap]; exact List.mem_map.mpr ⟨d, hd, rfl⟩
      exact idLt_of_le_of_lt h.start_le_cursor (hes_mem _ this).2
  · intro d hd
    show idLe d.1 (Spec.readNew σ.stream σ.grp c count noack).1.cursor = true
    rw [hcur]
    cases hl : (rangeAfter σ.stream σ.grp.cursor count).getLast? with
    | none =>
      simp only [Option.getD_none]
      rcases List.mem_append.mp hd with hd | hd
      · exact h.logBelowCur d hd
      · have : d.1 ∈ rangeAfter σ.stream σ.grp.cursor count := by
          rw [← hmap]; exact List.mem_map.mpr ⟨d, hd, rfl⟩
        rw [List.getLast?_eq_none_iff] at hl; rw [hl] at this; cases this
    | some m =>
      simp only [Option.getD_some]
      have hm : m ∈ rangeAfter σ.stream σ.grp.cursor count := List.mem_of_getLast? hl
      rcases List.mem_append.mp hd with hd | hd
      · exact idLe_of_lt (idLt_of_le_of_lt (h.logBelowCur d hd) (hes_mem m hm).2)
      · have : d.1 ∈ rangeAfter σ.stream σ.grp.cursor count := by
          rw [← hmap]; exact List.mem_map.mpr ⟨d, hd, rfl⟩
        exact hes_sorted.le_getLast hl _ this
  · intro d hd
    rcases List.mem_append.mp hd with hd | hd
    · exact h.logBelowLast d hd
    · have : d.1 ∈ rangeAfter σ.stream σ.grp.cursor count := by
        rw [← hmap]; exact List.mem_map.mpr ⟨d, hd, rfl⟩
      exact h.below _ (hes_mem _ this).1
  · show (Spec.readNew σ.stream σ.grp c count noack).1.cursor = start ∨ _
    rw [hcur]
    cases hl : (rangeAfter σ.stream σ.grp.cursor count).getLast? with
    | none =>
      simp only [Option.getD_none]
      rcases h.curOrigin with hc | ⟨d, hd, hc⟩
      · exact Or.inl hc
      · exact Or.inr ⟨d, List.mem_append_left _ hd, hc⟩
    | some m =>
      simp only [Option.getD_some]
      have hm : m ∈ rangeAfter σ.stream σ.grp.cursor count := List.mem_of_getLast? hl
      refine Or.inr ⟨(m, c), List.mem_append_right _ ?_, rfl⟩
      exact List.mem_map.mpr ⟨m, hm, rfl⟩
  · intro x hx hsx hxc
    show x ∈ (σ.log ++ _).map (·.1)
    rw [List.map_append, hmap, List.mem_append]
    change idLe x (Spec.readNew σ.stream σ.grp c count noack).1.cursor = true at hxc
    rw [hcur] at hxc
    rcases idLt_total σ.grp.cursor x with hlt | heq | hgt
    · right
      cases hl : (rangeAfter σ.stream σ.grp.cursor count).getLast? with
      | none =>
        rw [hl] at hxc; simp only [Option.getD_none] at hxc
        have := idLt_of_lt_of_le hlt hxc; rw [idLt_irrefl] at this; cases this
      | some m =>
        rw [hl] at hxc; simp only [Option.getD_some] at hxc
        exact rangeAfter_closed h.sorted _ _ hx hlt (List.mem_of_getLast? hl) hxc
    · left; exact h.noSkip x hx hsx (by rw [heq]; exact idLe_refl _)
    · left; exact h.noSkip x hx hsx (idLe_of_lt hgt)

theorem onceInv_sameCursor {start : Id} {σ : Spec.Sys} (h : OnceInv start σ) (g' : Spec.Group)
    (hc : g'.cursor = σ.grp.cursor) : OnceInv start { σ with grp := g', log := σ.log ++ [] } := by
  rw [List.append_nil]
  exact { sorted := h.sorted, below := h.below, logSorted := h.logSorted, logAfter := h.logAfter,
          logBelowCur := by intro d hd; show idLe d.1 g'.cursor = true; rw [hc]; exact h.logBelowCur d hd,
          logBelowLast := h.logBelowLast,
          curOrigin := by show g'.cursor = start ∨ ∃ d ∈ σ.log, d.1 = g'.cursor; rw [hc]; exact h.curOrigin,
          noSkip := by intro x hx h1 h2; exact h.noSkip x hx h1 (by rw [← hc]; exact h2) }

theorem onceInv_hstep {start : Id} {σ : Spec.Sys} (h : OnceInv start σ) (op : HOp) (hop : op.noSetId = true) :
    OnceInv start (Spec.hstep σ op) := by
  cases op with
  | add id =>
    simp only [Spec.hstep]
    split
    · exact h
    · rename_i hle
      have hlt : idLt σ.lastId id = true := by
        rcases idLt_total σ.lastId id with h1 | h1 | h1
        · exact h1
        · rw [h1, idLe_refl] at hle; exact absurd rfl hle
        · rw [idLe_of_lt h1] at hle; exact absurd rfl hle
      refine { sorted := ?_, below := ?_, logSorted := h.logSorted, logAfter := h.logAfter,
               logBelowCur := h.logBelowCur, logBelowLast := ?_, curOrigin := h.curOrigin, noSkip := ?_ }
      · show IdSorted (σ.stream ++ [id])
        rw [IdSorted, List.pairwise_append]
        refine ⟨h.sorted, List.pairwise_singleton _ _, ?_⟩
        intro a ha b hb
        simp only [List.mem_singleton] at hb; subst hb
        exact idLt_of_le_of_lt (h.below a ha) hlt
      · intro x hx
        show idLe x id = true
        rcases List.mem_append.mp hx with hx | hx
        · exact idLe_of_lt (idLt_of_le_of_lt (h.below x hx) hlt)
        · simp only [List.mem_singleton] at hx; subst hx; exact idLe_refl _
      · intro d hd
        show idLe d.1 id = true
        exact idLe_of_lt (idLt_of_le_of_lt (h.logBelowLast d hd) hlt)
      · intro x hx hsx hxc
        rcases List.mem_append.mp hx with hx | hx
        · exact h.noSkip x hx hsx hxc
        · simp only [List.mem_singleton] at hx; subst hx
          exfalso
          rcases h.curOrigin with hc | ⟨d, hd, hc⟩
          · rw [hc] at hxc
            have := idLt_of_lt_of_le hsx hxc; rw [idLt_irrefl] at this; cases this
          · rw [← hc] at hxc
            have := idLt_of_lt_of_le hlt (idLe_trans hxc (h.logBelowLast d hd))
            rw [idLt_irrefl] at this; cases this
  | del ids =>
    exact { sorted := h.sorted.filter _, below := fun x hx => h.below x (List.mem_filter.mp hx).1,
            logSorted := h.logSorted, logAfter := h.logAfter, logBelowCur := h.logBelowCur,
            logBelowLast := h.logBelowLast, curOrigin := h.curOrigin,
            noSkip := fun x hx => h.noSkip x (List.mem_filter.mp hx).1 }
  | g op =>
    cases op with
    | setid id => cases hop
    | read c frm count noack =>
      cases frm with
      | none => exact onceInv_read h c count noack
      | some a => exact onceInv_sameCursor h _ rfl
    | createc c => exact onceInv_sameCursor h _ rfl
    | delc c => exact onceInv_sameCursor h _ rfl
    | ack ids => exact onceInv_sameCursor h _ rfl
    | claim c elig ids =>
      refine onceInv_sameCursor h _ ?_
      simp only [Spec.gstep, Spec.claim]; split <;> rfl
    | autoclaim c elig s n => exact onceInv_sameCursor h _ rfl
    | pending => exact onceInv_sameCursor h _ rfl
    | prange s e n c => exact onceInv_sameCursor h _ rfl

theorem onceInv_run {start : Id} (ops : List HOp) : ∀ {σ : Spec.Sys}, OnceInv start σ →
    (∀ op ∈ ops, op.noSetId = true) → OnceInv start (Spec.run σ ops) := by
  induction ops with
  | nil => intro σ h _; exact h
  | cons op ops ih =>
    intro σ h hops
    exact ih (onceInv_hstep h op (hops op List.mem_cons_self)) (fun o ho => hops o (List.mem_cons_of_mem _ ho))

/-! ### the code delivers what the specification delivers, outside the deviations -/

/-- operations on which the code (with the given repairs) follows the prescribed cursor discipline -/
def HOp.plainFor (q : Quirks) : HOp → Bool
  | .g (.setid _) => false
  | .g (.read _ (some _) _ _) => q.histFix
  | .g (.read _ none _ true) => q.noackFix
  | _ => true

theorem foldl_addEntry_last (c : Name) (ids : List Id) (g : Group) :
    (ids.foldl (Code.addEntry c) g).lastDelivered = g.lastDelivered := by
  induction ids generalizing g with
  | nil => rfl
  | cons id ids ih => simp only [List.foldl_cons, ih]; rfl

theorem addPending_last (g : Group) (c : Name) (ids : List Id) :
    (Code.addPending g c ids).lastDelivered =
      match ids.getLast? with
      | some l => if idLt g.lastDelivered l then l else g.lastDelivered
      | none => g.lastDelivered := by
  unfold Code.addPending
  simp only
  have hl : (ids.foldl (Code.addEntry c) (Code.createConsumer g c)).lastDelivered = g.lastDelivered := by
    rw [foldl_addEntry_last]; rfl
  cases ids.getLast? with
  | none => first | rfl | exact hl
  | some l =>
    simp only [hl]
    split
    · rfl
    · first | rfl | exact hl

theorem addPendingQ_last (q : Quirks) (g : Group) (c : Name) (ids : List Id) :
    (Code.addPendingQ q g c ids).lastDelivered =
      match ids.getLast? with
      | some l => if idLt g.lastDelivered l then l else g.lastDelivered
      | none => g.lastDelivered := by
  unfold Code.addPendingQ
  split
  · exact addPendingFixed_last g c ids
  · exact addPending_last g c ids

theorem ackLoop_last (g : Group) (ids : List Id) (n : Nat) :
    (Code.ackLoop g ids n).1.lastDelivered = g.lastDelivered := by
  induction ids generalizing g n with
  | nil => rfl
  | cons id ids ih => simp only [Code.ackLoop, ih, (ackOne_fields g id).2]

theorem claimLoop_last (c : Name) (elig : Bool) (g : Group) (ids : List Id) :
    (Code.claimLoop c elig g ids).1.lastDelivered = g.lastDelivered := by
  induction ids generalizing g with
  | nil => rfl
  | cons id ids ih => simp only [Code.claimLoop, ih, (claimOne_fields c elig g id).2.1]

theorem claim_last (g : Group) (c : Name) (elig : Bool) (ids : List Id) :
    (Code.claim g c elig ids).1.lastDelivered = g.lastDelivered := by
  unfold Code.claim; rw [claimLoop_last]; rfl

theorem deleteConsumer_last (g : Group) (c : Name) : (Code.deleteConsumer g c).1.lastDelivered = g.lastDelivered := by
  unfold Code.deleteConsumer
  split
  · simp only [Code.removeConsumerEntries]
    split <;> rfl
  · rfl

/-- what `read_group` under `>` returns and where it leaves the cursor, when the code follows the discipline -/
theorem readGroup_new (q : Quirks) (stream : List Id) (g : Group) (c : Name) (count : Option Nat) (noack : Bool)
    (hq : noack = true → q.noackFix = true) :
    (Code.readGroup q stream g c none count noack).2 = rangeAfter stream g.lastDelivered count ∧
    (Code.readGroup q stream g c none count noack).1.lastDelivered =
      ((rangeAfter stream g.lastDelivered count).getLast?).getD g.lastDelivered := by
  have hlast : ∀ l, (rangeAfter stream g.lastDelivered count).getLast? = some l → idLt g.lastDelivered l = true :=
    fun l hl => (mem_rangeAfter (List.mem_of_getLast? hl)).2
  simp only [Code.readGroup]
  split
  · rename_i hcond
    refine ⟨rfl, ?_⟩
    rw [addPendingQ_last]
    cases hl : (rangeAfter stream g.lastDelivered count).getLast? with
    | none => rfl
    | some l => simp [hlast l hl]
  · rename_i hcond
    cases noack with
    | false =>
      -- the list is empty
      have hemp : rangeAfter stream g.lastDelivered count = [] := by
        simpa using hcond
      simp only [hemp]
      split <;> exact ⟨rfl, rfl⟩
    | true =>
      simp only [hq rfl, if_true]
      cases hl : (rangeAfter stream g.lastDelivered count).getLast? with
      | none => exact ⟨rfl, rfl⟩
      | some l => simp [hlast l hl]

/-- the simulation relation -/
structure Sim (σc : Code.Sys) (σs : Spec.Sys) : Prop where
  stream : σc.stream = σs.stream
  lastId : σc.lastId = σs.lastId
  cursor : σc.grp.lastDelivered = σs.grp.cursor
  log : σc.log = σs.log

theorem sim_hstep (q : Quirks) {σc : Code.Sys} {σs : Spec.Sys} (h : Sim σc σs) (op : HOp)
    (hop : op.plainFor q = true) : Sim (Code.hstep q σc op) (Spec.hstep σs op) := by
  obtain ⟨h1, h2, h3, h4⟩ := h
  cases op with
  | add id =>
    simp only [Code.hstep, Spec.hstep, h2]
    split
    · exact ⟨h1, h2, h3, h4⟩
    · exact ⟨by simp [h1], rfl, h3, h4⟩
  | del ids => exact ⟨by simp [Code.hstep, Spec.hstep, h1], h2, h3, h4⟩
  | g op =>
    cases op with
    | setid id => cases hop
    | createc c => exact ⟨h1, h2, h3, by simp [Code.hstep, Spec.hstep, Code.gstep, Spec.gstep, h4]⟩
    | delc c =>
      exact ⟨h1, h2, by simp only [Code.hstep, Spec.hstep, Code.gstep, Spec.gstep, deleteConsumer_last, h3, Spec.delConsumer],
             by simp [Code.hstep, Spec.hstep, Code.gstep, Spec.gstep, h4]⟩
    | ack ids =>
      refine ⟨h1, h2, ?_, by simp [Code.hstep, Spec.hstep, Code.gstep, Spec.gstep, h4]⟩
      simp only [Code.hstep, Spec.hstep, Code.gstep, Spec.gstep, Code.acknowledge, Spec.ack]
      rw [ackLoop_last]; exact h3
    | claim c elig ids =>
      refine ⟨h1, h2, ?_, by simp [Code.hstep, Spec.hstep, Code.gstep, Spec.gstep, h4]⟩
      simp only [Code.hstep, Spec.hstep, Code.gstep, Spec.gstep, claim_last, Spec.claim]
      split <;> exact h3
    | autoclaim c elig s n =>
      refine ⟨h1, h2, ?_, by simp [Code.hstep, Spec.hstep, Code.gstep, Spec.gstep, Code.autoClaim, h4]⟩
      simp only [Code.hstep, Spec.hstep, Code.gstep, Spec.gstep, Code.autoClaim, claim_last]; exact h3
    | pending => exact ⟨h1, h2, h3, by simp [Code.hstep, Spec.hstep, Code.gstep, Spec.gstep, h4]⟩
    | prange s e n c => exact ⟨h1, h2, h3, by simp [Code.hstep, Spec.hstep, Code.gstep, Spec.gstep, h4]⟩
    | read c frm count noack =>
      cases frm with
      | some a =>
        have hq : q.histFix = true := hop
        refine ⟨h1, h2, ?_, by simp [Code.hstep, Spec.hstep, Code.gstep, Spec.gstep, h4]⟩
        simp only [Code.hstep, Spec.hstep, Code.gstep, Spec.gstep, Code.readGroup, hq, if_true]; exact h3
      | none =>
        have hq : noack = true → q.noackFix = true := by
          intro hn; subst hn; exact hop
        obtain ⟨hr, hc⟩ := readGroup_new q σc.stream σc.grp c count noack hq
        refine ⟨h1, h2, ?_, ?_⟩
        · simp only [Code.hstep, Spec.hstep, Code.gstep, Spec.gstep, Spec.readNew]
          rw [hc, h1, h3]
        · simp only [Code.hstep, Spec.hstep, Code.gstep, Spec.gstep, Spec.readNew]
          rw [hr, h1, h3, h4]

theorem sim_run (q : Quirks) (ops : List HOp) : ∀ {σc : Code.Sys} {σs : Spec.Sys}, Sim σc σs →
    (∀ op ∈ ops, op.plainFor q = true) → Sim (Code.run q σc ops) (Spec.run σs ops) := by
  induction ops with
  | nil => intro _ _ h _; exact h
  | cons op ops ih =>
    intro σc σs h hops
    exact ih (sim_hstep q h op (hops op List.mem_cons_self)) (fun o ho => hops o (List.mem_cons_of_mem _ ho))

theorem plainFor_noSetId {q : Quirks} {op : HOp} (h : op.plainFor q = true) : op.noSetId = true := by
  cases op with
  | add _ => rfl
  | del _ => rfl
  | g op => cases op <;> first | rfl | cases h

end Ferrous.Grp
