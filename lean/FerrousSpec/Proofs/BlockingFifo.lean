/-
  Blocking pops — the service line of a key is FIFO: whatever happens, clients already in line keep
  their relative order and newcomers join behind them (`fifo_runFrom`), and a wake-up delivery goes to
  the head of the line (`wakeOne_serves_head`).  Unconditional in the event sequence and in the quirk switches.
-/
import FerrousSpec.Proofs.BlockingBasic
namespace Ferrous.Blk

/-- `l'` arises from `l` by removing some clients and appending newcomers at the tail. -/
def FifoStep (l l' : List Conn) : Prop := ∃ keep new, keep.Sublist l ∧ l' = keep ++ new

theorem FifoStep.refl (l : List Conn) : FifoStep l l := ⟨l, [], List.Sublist.refl l, by simp⟩

theorem FifoStep.of_eq {l l' : List Conn} (h : l' = l) : FifoStep l l' := h ▸ FifoStep.refl l

theorem FifoStep.of_sublist {l l' : List Conn} (h : l'.Sublist l) : FifoStep l l' := ⟨l', [], h, by simp⟩

theorem FifoStep.of_append {l new : List Conn} : FifoStep l (l ++ new) := ⟨l, new, List.Sublist.refl l, rfl⟩

theorem FifoStep.trans {l₁ l₂ l₃ : List Conn} (h₁ : FifoStep l₁ l₂) (h₂ : FifoStep l₂ l₃) : FifoStep l₁ l₃ := by
  obtain ⟨k₁, n₁, hs₁, rfl⟩ := h₁
  obtain ⟨k₂, n₂, hs₂, rfl⟩ := h₂
  obtain ⟨a, b, rfl, ha, hb⟩ := List.sublist_append_iff.mp hs₂
  exact ⟨a, b ++ n₂, ha.trans hs₁, by simp⟩

theorem lineOf_congr {s t : State} (h1 : t.wakeQ = s.wakeQ) (h2 : t.registry = s.registry) (k : Key) :
    lineOf t k = lineOf s k := by
  simp [lineOf, h1, h2]

theorem lineOf_sublist {s t : State} (h1 : t.wakeQ.Sublist s.wakeQ) (h2 : t.registry.Sublist s.registry) (k : Key) :
    (lineOf t k).Sublist (lineOf s k) := by
  unfold lineOf
  exact List.Sublist.append ((h1.filter _).map _) ((h2.filter _).map _)

theorem lineOf_notify (k k' : Key) (s : State) : lineOf (notify k s) k' = lineOf s k' := by
  unfold notify
  split
  · rfl
  · next e reg' hp =>
    obtain ⟨a, b, h1, h2, h3, h4⟩ := popFirst_some hp
    have hek : e.1 = k := keyIs_iff.mp h3
    simp only [lineOf, h1, h2, List.filter_append, List.map_append, List.filter_cons, List.filter_nil]
    by_cases hk : k' = k
    · subst hk
      have ha : a.filter (keyIs k') = [] := by
        apply List.filter_eq_nil_iff.mpr
        intro y hy; simp [h4 y hy]
      simp [ha, h3]
    · have h5 : keyIs k' e = false := by
        apply keyIs_false_iff.mpr; rw [hek]; exact fun h => hk h.symm
      have h6 : (k == k') = false := by
        simp; exact fun h => hk h.symm
      simp [h5, h6]

theorem lineOf_notifyN (n : Nat) (k k' : Key) (s : State) : lineOf (notifyN n k s) k' = lineOf s k' := by
  induction n generalizing s with
  | zero => rfl
  | succ n ih => simp [notifyN, ih, lineOf_notify]

theorem lineOf_emit (s : State) (c : Conn) (r : Reply) (k : Key) : lineOf (emit s c r) k = lineOf s k :=
  lineOf_congr (by simp) (by simp) k

theorem lineOf_setBlocked (s : State) (c : Conn) (b) (k : Key) : lineOf (setBlocked s c b) k = lineOf s k :=
  lineOf_congr (by simp) (by simp) k

theorem fifo_wakeOne (q : Quirks) (s : State) (k : Key) :
    FifoStep (lineOf s k) (lineOf (wakeOne q s) k) := by
  unfold wakeOne
  split
  · exact .refl _
  · next w rest hw =>
    have hsub : rest.Sublist s.wakeQ := by rw [hw]; exact List.sublist_cons_self w rest
    simp only []
    split
    · split
      · exact (FifoStep.of_sublist (lineOf_sublist (t := { s with wakeQ := rest }) hsub (List.Sublist.refl _) k)).trans
          (.of_eq (lineOf_notify w.key k _))
      · exact .of_sublist (lineOf_sublist (t := { s with wakeQ := rest }) hsub (List.Sublist.refl _) k)
    split
    · have hd : (lineOf { (setBlocked { s with wakeQ := rest } w.conn none) with
          registry := (setBlocked { s with wakeQ := rest } w.conn none).registry.filter fun x => x.2.conn != w.conn } k).Sublist (lineOf s k) := by
        apply lineOf_sublist
        · simpa using hsub
        · simp only [setBlocked_registry]; exact List.filter_sublist
      split
      · exact (FifoStep.of_sublist hd).trans (.of_eq (lineOf_notify w.key k _))
      · exact .of_sublist hd
    split
    · exact .of_sublist (lineOf_sublist (t := { s with wakeQ := rest }) hsub (List.Sublist.refl _) k)
    · next e st' hp =>
      split
      · split
        · apply FifoStep.of_sublist
          apply lineOf_sublist
          · simpa using hsub
          · simp only [setBlocked_registry, emit_registry]
            exact List.filter_sublist
        · apply FifoStep.of_sublist
          apply lineOf_sublist
          · simpa using hsub
          · simp
      · exact .of_sublist (lineOf_sublist (t := { s with wakeQ := rest, store := st', lost := s.lost ++ [e] })
          hsub (List.Sublist.refl _) k)

theorem fifo_iter {f : State → State} {k : Key} (hf : ∀ s, FifoStep (lineOf s k) (lineOf (f s) k)) :
    ∀ n s, FifoStep (lineOf s k) (lineOf (iter f n s) k) := by
  intro n
  induction n with
  | zero => intro s; exact .refl _
  | succ n ih => intro s; exact (hf s).trans (ih _)

theorem fifo_drain (q : Quirks) (s : State) (k : Key) : FifoStep (lineOf s k) (lineOf (drain q s) k) := by
  unfold drain
  split
  · exact fifo_iter (fifo_wakeOne q · k) _ _
  · exact .refl _

theorem fifo_dataCore (q : Quirks) (now : Nat) (c cid : Conn) (s : State) (cmd : Cmd) (k : Key) :
    FifoStep (lineOf s k) (lineOf (dataCore q now c cid s cmd) k) := by
  cases cmd with
  | push op k' vs =>
    simp only [dataCore]
    split
    · exact .of_eq (lineOf_emit ..)
    · split
      · apply FifoStep.of_eq
        rw [lineOf_emit]
        exact lineOf_congr rfl rfl k
      · apply FifoStep.of_eq
        rw [lineOf_notifyN, lineOf_emit]
        exact lineOf_congr rfl rfl k
  | pop op k' =>
    simp only [dataCore]
    split
    · apply FifoStep.of_eq; rw [lineOf_emit]; exact lineOf_congr rfl rfl k
    · exact .of_eq (lineOf_emit ..)
  | bpop op keys t =>
    simp only [dataCore]
    split
    · exact .of_eq (lineOf_emit ..)
    · split
      · apply FifoStep.of_eq; rw [lineOf_emit]; exact lineOf_congr rfl rfl k
      · split
        · exact .of_eq (lineOf_emit ..)
        · rw [lineOf_setBlocked]
          simp only [lineOf, List.filter_append, List.map_append, ← List.append_assoc]
          exact .of_append
  | multi => exact .refl _
  | exec => exact .refl _

theorem fifo_dataCmd (q : Quirks) (now : Nat) (c cid : Conn) (s : State) (cmd : Cmd) (k : Key) :
    FifoStep (lineOf s k) (lineOf (dataCmd q now c cid s cmd) k) := by
  unfold dataCmd
  exact (fifo_dataCore q now c cid s cmd k).trans (fifo_drain q _ k)

theorem fifo_serveKey (q : Quirks) (k' k : Key) : ∀ n s, FifoStep (lineOf s k) (lineOf (serveKey q k' n s) k) := by
  intro n
  induction n with
  | zero => intro s; exact .refl _
  | succ n ih =>
    intro s
    simp only [serveKey]
    split
    · split
      · exact ((FifoStep.of_eq (lineOf_notify k' k s)).trans (fifo_iter (fifo_wakeOne q · k) _ _)).trans (ih _)
      · exact ((FifoStep.of_eq (lineOf_notify k' k s)).trans (fifo_wakeOne q _ k)).trans (ih _)
    · exact .refl _

theorem fifo_serveKeys (q : Quirks) (k : Key) (ks : List Key) : ∀ s, FifoStep (lineOf s k) (lineOf (serveKeys q ks s) k) := by
  unfold serveKeys
  induction ks with
  | nil => intro s; exact .refl _
  | cons k' r ih => intro s; exact (fifo_serveKey q k' k _ s).trans (ih _)

theorem fifo_foldl_dataCmd (q : Quirks) (now : Nat) (c cid : Conn) (k : Key) (cmds : List Cmd) :
    ∀ s, FifoStep (lineOf s k) (lineOf (cmds.foldl (dataCmd q now c cid) s) k) := by
  induction cmds with
  | nil => intro s; exact .refl _
  | cons cmd r ih => intro s; exact (fifo_dataCmd q now c cid s cmd k).trans (ih _)

theorem lineOf_setConn (s : State) (c : Conn) (f) (k : Key) : lineOf (setConn s c f) k = lineOf s k :=
  lineOf_congr rfl rfl k

theorem fifo_topCmd (q : Quirks) (now : Nat) (c : Conn) (s : State) (cmd : Cmd) (k : Key) :
    FifoStep (lineOf s k) (lineOf (topCmd q now c s cmd) k) := by
  have hq : ∀ f r, FifoStep (lineOf s k) (lineOf (emit (setConn s c f) c r) k) := by
    intro f r; apply FifoStep.of_eq; rw [lineOf_emit, lineOf_setConn]
  cases cmd with
  | multi =>
    simp only [topCmd]; split
    · exact .of_eq (lineOf_emit ..)
    · exact hq _ _
  | exec =>
    simp only [topCmd]; split
    · have h2 := (hq (fun cs => { cs with inTx := false, queue := [] }) (.arrHdr (s.conns c).queue.length)).trans
        (fifo_foldl_dataCmd q now c 0 k (s.conns c).queue _)
      split
      · exact h2.trans (fifo_serveKeys q k _ _)
      · exact h2
    · exact .of_eq (lineOf_emit ..)
  | push op k' vs =>
    simp only [topCmd]; split
    · exact hq _ _
    · exact fifo_dataCmd ..
  | pop op k' =>
    simp only [topCmd]; split
    · exact hq _ _
    · exact fifo_dataCmd ..
  | bpop op keys t =>
    simp only [topCmd]; split
    · exact hq _ _
    · exact fifo_dataCmd ..

theorem fifo_timeoutConn (s : State) (c : Conn) (k : Key) : lineOf (timeoutConn s c) k = lineOf s k := by
  unfold timeoutConn
  split
  · rw [lineOf_setBlocked, lineOf_emit]
  · rfl

theorem fifo_expireOne (now : Nat) (s : State) (k : Key) :
    FifoStep (lineOf s k) (lineOf (expireOne now s) k) := by
  unfold expireOne
  split
  · exact .refl _
  · next e reg' hp =>
    obtain ⟨a, b, h1, h2, _, _⟩ := popFirst_some hp
    rw [fifo_timeoutConn]
    apply FifoStep.of_sublist
    have hreg : reg'.Sublist s.registry := by
      rw [h1, h2]
      exact List.Sublist.append (List.Sublist.refl _) (List.sublist_cons_self e b)
    exact lineOf_sublist (s := s) (t := { s with registry := reg' }) (List.Sublist.refl _) hreg k

theorem fifo_runBatch (q : Quirks) (now : Nat) (c : Conn) (k : Key) (cmds : List Cmd) :
    ∀ s, FifoStep (lineOf s k) (lineOf (runBatch q now c cmds s) k) := by
  induction cmds with
  | nil => intro s; exact .refl _
  | cons cmd r ih =>
    intro s
    simp only [runBatch]
    split
    · exact (fifo_topCmd q now c s cmd k).trans (.of_eq (lineOf_setConn ..))
    · exact (fifo_topCmd q now c s cmd k).trans (ih _)

theorem fifo_step (q : Quirks) (s : State) (e : Event) (k : Key) :
    FifoStep (lineOf s k) (lineOf (step q s e) k) := by
  cases e with
  | wakeups => exact fifo_iter (fifo_wakeOne q · k) _ _
  | conn c now cmds =>
    simp only [step]
    split
    · exact (FifoStep.of_eq (lineOf_setConn ..)).trans (fifo_runBatch q now c k _ _)
    · split
      · exact (FifoStep.of_eq (lineOf_setConn ..)).trans (fifo_runBatch q now c k _ _)
      · exact .refl _
  | timeouts now => exact fifo_iter (fifo_expireOne now · k) _ _
  | hangup c =>
    simp only [step]; split
    · exact .of_eq (lineOf_setConn ..)
    · exact .refl _
  | reap c =>
    simp only [step]; split
    · apply FifoStep.of_sublist
      refine lineOf_sublist (s := s) ?_ ?_ k
      · exact List.Sublist.refl _
      · exact List.filter_sublist
    · exact .refl _
  | kill c =>
    simp only [step]; split
    · exact .of_eq (lineOf_setConn ..)
    · exact .refl _
  | hangupDirty c =>
    simp only [step]; split
    · exact .of_eq (lineOf_setConn ..)
    · exact .refl _

theorem fifo_runFrom (q : Quirks) (k : Key) (evs : List Event) :
    ∀ s, FifoStep (lineOf s k) (lineOf (runFrom q s evs) k) := by
  induction evs with
  | nil => intro s; exact .refl _
  | cons e r ih => intro s; exact (fifo_step q s e k).trans (ih _)

/-- A wake-up delivery (`pair k v` written to `c`) goes to the head of the line of `k`. -/
theorem wakeOne_serves_head (q : Quirks) (s : State) (c : Conn) (k : Key) (v : Elem)
    (h : (wakeOne q s).out = s.out ++ [(c, .pair k v)]) : (lineOf s k).head? = some c := by
  have hne : ∀ (l : List (Conn × Reply)) x, l ≠ l ++ [x] := by
    intro l x hh
    have := congrArg List.length hh
    simp at this
  unfold wakeOne at h
  split at h
  · exact absurd h (hne _ _)
  · next w rest hw =>
    simp only [] at h
    split at h
    · split at h
      · rw [notify_out] at h; exact absurd h (hne _ _)
      · exact absurd h (hne _ _)
    split at h
    · split at h
      · rw [notify_out] at h; simp only [setBlocked_out] at h; exact absurd h (hne _ _)
      · simp only [setBlocked_out] at h; exact absurd h (hne _ _)
    split at h
    · exact absurd h (hne _ _)
    · next e st' hp =>
      obtain ⟨_, _, _, _, hek⟩ := popElem_some hp
      have hout : (emit { s with wakeQ := rest, store := st' } w.conn (.pair e.1 e.2)).out = s.out ++ [(c, .pair k v)] := by
        split at h
        · split at h
          · simpa using h
          · simpa using h
        · exact absurd h (hne _ _)
      unfold emit at hout
      split at hout
      · exact absurd hout (hne _ _)
      · simp only [List.append_cancel_left_eq, List.cons.injEq, Prod.mk.injEq, Reply.pair.injEq, and_true] at hout
        obtain ⟨hc, hk, _⟩ := hout
        have hwk : w.key = k := by rw [← hek, hk]
        simp [lineOf, hw, hwk, hc]

end Ferrous.Blk
