/-
  The connection-side map of the code represents the flat set of subscriptions of the spec
  (`Rel`), every call keeps it that way and returns the spec's acknowledgements.
-/
import FerrousSpec.Proofs.PubSubInv
set_option linter.unusedSimpArgs false
namespace Ferrous.PubSub

/-! ### Spec-side facts -/

namespace Spec

theorem mem_heldBy (s : State) (c : ConnId) (k : Kind) (x : Bytes) : x ∈ heldBy s c k ↔ (⟨c, k, x⟩ : Sub) ∈ s := by
  unfold heldBy
  simp only [List.mem_map, List.mem_filter, decide_eq_true_eq]
  constructor
  · rintro ⟨e, ⟨he, h1, h2⟩, h3⟩
    obtain ⟨ec, ek, en⟩ := e
    simp only at h1 h2 h3
    subst h1; subst h2; subst h3
    exact he
  · intro h
    exact ⟨⟨c, k, x⟩, ⟨h, rfl, rfl⟩, rfl⟩

theorem heldBy_nil (c : ConnId) (k : Kind) : heldBy [] c k = [] := rfl

theorem heldBy_append (s t : State) (c : ConnId) (k : Kind) : heldBy (s ++ t) c k = heldBy s c k ++ heldBy t c k := by
  simp [heldBy]

theorem heldBy_singleton (e : Sub) (c : ConnId) (k : Kind) :
    heldBy [e] c k = if c = e.conn ∧ k = e.kind then [e.name] else [] := by
  unfold heldBy
  by_cases h : e.conn = c ∧ e.kind = k
  · obtain ⟨h1, h2⟩ := h
    simp [List.filter, h1, h2]
  · have h' : ¬ (c = e.conn ∧ k = e.kind) := fun ⟨a, b⟩ => h ⟨a.symm, b.symm⟩
    simp [List.filter, h, h']

theorem heldBy_filter_ne (s : State) (c : ConnId) (k : Kind) (x : Bytes) (c' : ConnId) (k' : Kind) :
    heldBy (s.filter (fun e => decide (e ≠ ⟨c, k, x⟩))) c' k' =
      if c' = c ∧ k' = k then srem (heldBy s c k) x else heldBy s c' k' := by
  unfold heldBy
  rw [List.filter_filter]
  by_cases hck : c' = c ∧ k' = k
  · obtain ⟨h1, h2⟩ := hck
    subst h1; subst h2
    simp only [and_self, if_true, srem]
    rw [List.filter_map, List.filter_filter]
    congr 1
    apply List.filter_congr
    intro e _
    obtain ⟨ec, ek, en⟩ := e
    simp only [Function.comp]
    by_cases h : ec = c' ∧ ek = k'
    · obtain ⟨h1, h2⟩ := h
      subst h1; subst h2
      simp
    · simp [h]
  · simp only [hck, if_false]
    congr 1
    apply List.filter_congr
    intro e _
    obtain ⟨ec, ek, en⟩ := e
    by_cases h : ec = c' ∧ ek = k'
    · obtain ⟨h1, h2⟩ := h
      subst h1; subst h2
      have : ¬ (ec = c ∧ ek = k) := hck
      simp
      by_cases a : ec = c
      · by_cases b : ek = k
        · exact absurd ⟨a, b⟩ this
        · exact Or.inr (Or.inl b)
      · exact Or.inl a
    · simp [h]

theorem heldBy_disconnect (s : State) (c c' : ConnId) (k : Kind) :
    heldBy (disconnect s c) c' k = if c' = c then [] else heldBy s c' k := by
  unfold disconnect heldBy
  rw [List.filter_filter]
  by_cases hc : c' = c
  · subst hc
    simp only [if_true, List.map_eq_nil_iff, List.filter_eq_nil_iff]
    intro e _
    simp only [ne_eq, Bool.and_eq_true, decide_eq_true_eq, not_and]
    intro h1 h2
    exact absurd h1.1 h2
  · simp only [hc, if_false]
    congr 1
    apply List.filter_congr
    intro e _
    by_cases h : e.conn = c'
    · have : ¬ e.conn = c := fun e' => hc (h ▸ e')
      simp [h, this, hc]
    · simp [h]

theorem count_eq (s : State) (c : ConnId) :
    count s c = (heldBy s c .chan).length + (heldBy s c .pat).length := by
  unfold count heldBy
  induction s with
  | nil => rfl
  | cons e s ih =>
    simp only [List.filter, List.length_map] at ih ⊢
    by_cases h : e.conn = c
    · cases hk : e.kind <;> simp [h, hk, ih] <;> omega
    · simp [h, ih]

theorem nodup_disconnect {s : State} (h : s.Nodup) (c : ConnId) : (disconnect s c).Nodup :=
  h.sublist List.filter_sublist

end Spec

/-! ### The representation relation -/

structure Rel (st : State) (s : Spec.State) : Prop where
  nodup : s.Nodup
  heldEq : ∀ c k, Spec.heldBy s c k = held st c k

theorem Rel.init : Rel {} [] := by
  constructor
  · exact List.nodup_nil
  · intro c k; cases k <;> rfl

theorem Rel.count {st : State} {s : Spec.State} (h : Rel st s) (c : ConnId) : Spec.count s c = (info st c).total := by
  rw [Spec.count_eq, h.heldEq, h.heldEq, total_eq]; rfl

theorem Rel.mem {st : State} {s : Spec.State} (h : Rel st s) (c : ConnId) (k : Kind) (x : Bytes) :
    (⟨c, k, x⟩ : Spec.Sub) ∈ s ↔ x ∈ held st c k := by
  rw [← h.heldEq, Spec.mem_heldBy]

/-- Changing only what `info` does not see keeps the relation. -/
theorem Rel.of_info_eq {st st' : State} {s : Spec.State} (h : Rel st s) (hi : ∀ c, info st' c = info st c) : Rel st' s :=
  ⟨h.nodup, fun c k => by rw [h.heldEq]; simp [held, hi]⟩

/-! ### One iteration of (P)SUBSCRIBE -/

theorem sub1_ack (k : Kind) (c : ConnId) (st : State) (x : Bytes) :
    (sub1 k c st x).2 = ⟨k, false, x, (info (sub1 k c st x).1 c).total, decide (x ∉ held st c k)⟩ := by
  by_cases h : x ∈ held st c k
  · rw [sub1_dup h]; simp [h]
  · have hi := info_sub1 k c st x c
    rw [sub1_new h] at hi ⊢
    simp only [if_true, sins_of_not_mem h] at hi
    simp [h, hi]

theorem Rel.sub1 {st : State} {s : Spec.State} (h : Rel st s) (k : Kind) (c : ConnId) (x : Bytes) :
    Rel (sub1 k c st x).1 (Spec.sub1 k c s x).1 ∧ (sub1 k c st x).2 = (Spec.sub1 k c s x).2 := by
  have hrel : Rel (PubSub.sub1 k c st x).1 (Spec.sub1 k c s x).1 := by
    unfold Spec.sub1
    simp only
    by_cases hm : (⟨c, k, x⟩ : Spec.Sub) ∈ s
    · have hx : x ∈ held st c k := (h.mem c k x).1 hm
      simp only [hm, not_true_eq_false, decide_false, Bool.false_eq_true, if_false]
      rw [sub1_dup hx]
      exact h
    · have hx : x ∉ held st c k := fun e => hm ((h.mem c k x).2 e)
      simp only [hm, not_false_eq_true, decide_true, if_true]
      constructor
      · rw [List.nodup_append]
        refine ⟨h.nodup, by simp, ?_⟩
        intro a ha b hb
        simp only [List.mem_singleton] at hb
        subst hb
        exact fun e => hm (e ▸ ha)
      · intro c' k'
        rw [held_sub1, Spec.heldBy_append, Spec.heldBy_singleton, h.heldEq]
        by_cases hck : c' = c ∧ k' = k
        · obtain ⟨h1, h2⟩ := hck
          subst h1; subst h2
          simp [sins_of_not_mem hx]
        · simp [hck]
  refine ⟨hrel, ?_⟩
  rw [sub1_ack, ← hrel.count]
  unfold Spec.sub1
  simp only [Ack.mk.injEq, true_and, decide_eq_decide]
  exact not_congr (h.mem c k x).symm

/-! ### One iteration of (P)UNSUBSCRIBE -/

theorem unsub1_ack (k : Kind) (c : ConnId) (st : State) (x : Bytes) :
    (unsub1 k c st x).2 = ⟨k, true, x, (info (unsub1 k c st x).1 c).total, false⟩ := by
  have hi := info_unsub1 k c st x c
  simp only [if_true] at hi
  rw [hi]
  rfl

theorem Rel.unsub1 {st : State} {s : Spec.State} (h : Rel st s) (k : Kind) (c : ConnId) (x : Bytes) :
    Rel (unsub1 k c st x).1 (Spec.unsub1 k c s x).1 ∧ (unsub1 k c st x).2 = (Spec.unsub1 k c s x).2 := by
  have hrel : Rel (PubSub.unsub1 k c st x).1 (Spec.unsub1 k c s x).1 := by
    unfold Spec.unsub1
    simp only
    constructor
    · exact h.nodup.sublist List.filter_sublist
    · intro c' k'
      rw [held_unsub1, Spec.heldBy_filter_ne, h.heldEq, h.heldEq]
  refine ⟨hrel, ?_⟩
  rw [unsub1_ack, ← hrel.count]
  rfl

/-! ### Loops in lock-step -/

theorem loop_rel {R : State → Spec.State → Prop} {f : State → Bytes → State × Ack}
    {g : Spec.State → Bytes → Spec.State × Ack}
    (hstep : ∀ st s x, R st s → R (f st x).1 (g s x).1 ∧ (f st x).2 = (g s x).2) :
    ∀ (xs : List Bytes) (st : State) (s : Spec.State), R st s →
      R (loop f st xs).1 (loop g s xs).1 ∧ (loop f st xs).2 = (loop g s xs).2 := by
  intro xs
  induction xs with
  | nil => intro st s h; exact ⟨h, rfl⟩
  | cons x xs ih =>
    intro st s h
    obtain ⟨h1, h2⟩ := hstep st s x h
    obtain ⟨h3, h4⟩ := ih _ _ h1
    exact ⟨h3, by simp only [loop, h2, h4]⟩

theorem Rel.subscribe {st : State} {s : Spec.State} (h : Rel st s) (k : Kind) (c : ConnId) (xs : List Bytes) :
    Rel (subscribe k c st xs).1 (Spec.subscribe k c s xs).1 ∧ (subscribe k c st xs).2 = (Spec.subscribe k c s xs).2 :=
  loop_rel (R := Rel) (fun _ _ x hr => hr.sub1 k c x) xs _ _ (h.of_info_eq (info_ensure st c))

/-- Removing names from a connection that holds nothing changes nothing that is recorded. -/
theorem Rel.spec_unsub_idle {st : State} (k : Kind) (c : ConnId) (hidle : ∀ k', held st c k' = []) :
    ∀ (xs : List Bytes) (s : Spec.State), Rel st s → Rel st (loop (Spec.unsub1 k c) s xs).1 := by
  intro xs
  induction xs with
  | nil => intro s h; exact h
  | cons x xs ih =>
    intro s h
    apply ih
    unfold Spec.unsub1
    simp only
    constructor
    · exact h.nodup.sublist List.filter_sublist
    · intro c' k'
      rw [Spec.heldBy_filter_ne]
      split
      · rename_i e
        obtain ⟨e1, e2⟩ := e
        subst e1; subst e2
        rw [h.heldEq, hidle]; rfl
      · exact h.heldEq c' k'

theorem Rel.unsubscribe {st : State} {s : Spec.State} (h : Rel st s) (k : Kind) (c : ConnId) (xs : Option (List Bytes)) :
    Rel (unsubscribe k c st xs).1 (Spec.unsubscribe k c s xs).1 ∧
      (unsubscribe k c st xs).2 = if (aget st.subs c).isNone then [] else (Spec.unsubscribe k c s xs).2 := by
  unfold PubSub.unsubscribe Spec.unsubscribe
  cases ha : aget st.subs c with
  | none =>
    simp only [Option.isNone_none, if_true, and_true]
    apply Rel.spec_unsub_idle k c _ _ _ h
    intro k'
    simp [held, info, ha]
    cases k' <;> rfl
  | some i =>
    simp only [Option.isNone_some, Bool.false_eq_true, if_false]
    have hsel : i.sel k = Spec.heldBy s c k := by
      rw [h.heldEq]; simp [held, info, ha]
    rw [hsel]
    obtain ⟨h1, h2⟩ := loop_rel (R := Rel) (fun _ _ x hr => hr.unsub1 k c x) (xs.getD (Spec.heldBy s c k)) _ _ h
    exact ⟨h1.of_info_eq (info_cleanup _ c), h2⟩

theorem Rel.unsubscribeAll {st : State} {s : Spec.State} (h : Rel st s) (c : ConnId) :
    Rel (unsubscribeAll st c) (Spec.disconnect s c) := by
  constructor
  · exact Spec.nodup_disconnect h.nodup c
  · intro c' k
    rw [held_unsubscribeAll, Spec.heldBy_disconnect, h.heldEq]

/-! ### Histories -/

theorem Rel.next {st : State} {s : Spec.State} (h : Rel st s) (op : Op) :
    Rel (Code.next st op) (Spec.next s op) ∧
      (Code.apply st op).2 = if Code.silent st op then [] else (Spec.apply s op).2 := by
  cases op with
  | subscribe c k xs => exact h.subscribe k c xs
  | unsubscribe c k xs => exact h.unsubscribe k c xs
  | disconnect c => exact ⟨h.unsubscribeAll c, rfl⟩
  | publish c ch msg => exact ⟨h, rfl⟩

theorem Rel.after {st : State} {s : Spec.State} (h : Rel st s) (ops : List Op) :
    Rel (Code.after st ops) (Spec.after s ops) := by
  induction ops generalizing st s with
  | nil => exact h
  | cons op ops ih => exact ih (h.next op).1

end Ferrous.PubSub
