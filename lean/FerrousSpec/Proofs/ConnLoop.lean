import FerrousSpec.Model.Conn
import FerrousSpec.Proofs.RespRoundtrip
import FerrousSpec.Proofs.RespStream
set_option linter.unusedSimpArgs false
set_option linter.unusedVariables false
namespace Ferrous.Conn
open Ferrous

variable {σ : Type}

theorem applyEvs_append_frames (h : σ → Frame → σ × Frame) (s : σ) (fs : List Frame) (evs : List Ev) :
    applyEvs h s (fs.map Ev.frame ++ evs) =
      ((applyEvs h (execAll h s fs).1 evs).1, (execAll h s fs).2 ++ (applyEvs h (execAll h s fs).1 evs).2) := by
  induction fs generalizing s with
  | nil => simp [execAll]
  | cons f r ih =>
    simp only [List.map_cons, List.cons_append, applyEvs, execAll]
    rw [ih]

/-- events without an error -/
def noErr : List Ev → Bool
  | [] => true
  | .frame _ :: r => noErr r
  | .err :: _ => false

theorem applyEvs_append (h : σ → Frame → σ × Frame) (s : σ) (a b : List Ev) (ha : noErr a = true) :
    applyEvs h s (a ++ b) = ((applyEvs h (applyEvs h s a).1 b).1, (applyEvs h s a).2 ++ (applyEvs h (applyEvs h s a).1 b).2) := by
  induction a generalizing s with
  | nil => simp [applyEvs]
  | cons e r ih =>
    cases e with
    | frame f =>
      simp only [noErr] at ha
      simp only [List.cons_append, applyEvs]
      rw [ih _ ha]
    | err => simp [noErr] at ha

/-- a drain that did not fail produced no error event; one that failed ends with the error event -/
theorem drainF_events (n : Nat) (x : Bytes) :
    ((drainF true n x).2.2 = false → noErr (drainF true n x).1 = true) ∧
    ((drainF true n x).2.2 = true → ∃ fs, (drainF true n x).1 = fs ++ [Ev.err] ∧ noErr fs = true) := by
  induction n generalizing x with
  | zero => simp [drainF, noErr]
  | succ n ih =>
    cases hp : parserParse true x with
    | mk res b =>
      cases res with
      | none => rw [drainF_none hp]; simp [noErr]
      | err => rw [drainF_err hp]; simp [noErr]
      | frame f =>
        rw [drainF_frame hp]
        simp only [noErr]
        refine ⟨(ih b).1, fun he => ?_⟩
        obtain ⟨fs, h1, h2⟩ := (ih b).2 he
        exact ⟨.frame f :: fs, by simp [h1], by simpa [noErr] using h2⟩

/-- The replies of the connection loop are the handler applied, in order, to the events the
    incremental parser yields for the same chunks. -/
theorem connRun_replies (h : σ → Frame → σ × Frame) (cs : List Bytes) :
    ∀ (s : σ) (buf : Bytes),
      (connRun h s buf cs).replies = (applyEvs h s (runChunks true buf cs)).2 ∧
      (connRun h s buf cs).state = (applyEvs h s (runChunks true buf cs)).1 := by
  induction cs with
  | nil => intro s buf; simp [connRun, runChunks, applyEvs]
  | cons c cs ih =>
    intro s buf
    unfold connRun runChunks
    simp only
    cases hd : drain true (buf ++ c) with
    | mk evs rest =>
      obtain ⟨b', e⟩ := rest
      simp only
      cases e with
      | true => simp
      | false =>
        have hne : noErr evs = true := by
          have := (drainF_events ((buf ++ c).length + 1) (buf ++ c)).1
          unfold drain at hd
          rw [hd] at this
          exact this rfl
        simp only [Bool.false_eq_true, if_false]
        rw [applyEvs_append h s evs _ hne]
        simp [(ih (applyEvs h s evs).1 b').1, (ih (applyEvs h s evs).1 b').2]

theorem noErr_append (a b : List Ev) (ha : noErr a = true) : noErr (a ++ b) = noErr b := by
  induction a with
  | nil => rfl
  | cons e r ih =>
    cases e with
    | frame f => simp only [noErr] at ha; simp [noErr, ih ha]
    | err => simp [noErr] at ha

theorem noErr_ends_err (fs : List Ev) : noErr (fs ++ [Ev.err]) = false := by
  induction fs with
  | nil => rfl
  | cons e r ih => cases e <;> simp [noErr, ih]

/-- The connection is closed exactly when the parser reported a protocol error. -/
theorem connRun_closed (h : σ → Frame → σ × Frame) (cs : List Bytes) :
    ∀ (s : σ) (buf : Bytes), (connRun h s buf cs).closed = !(noErr (runChunks true buf cs)) := by
  induction cs with
  | nil => intro s buf; simp [connRun, runChunks, noErr]
  | cons c cs ih =>
    intro s buf
    unfold connRun runChunks
    simp only
    have hev := drainF_events ((buf ++ c).length + 1) (buf ++ c)
    cases hd : drain true (buf ++ c) with
    | mk evs rest =>
      obtain ⟨b', e⟩ := rest
      unfold drain at hd
      rw [hd] at hev
      simp only at hev ⊢
      cases e with
      | true =>
        obtain ⟨fs, h1, h2⟩ := hev.2 rfl
        simp [h1, noErr_ends_err]
      | false =>
        simp only [Bool.false_eq_true, if_false]
        rw [ih, noErr_append _ _ (hev.1 rfl)]

/-! ### what the parser yields for a stream of serialised commands -/

/-- the bytes are empty or begin with `*` -/
def StartsStar (l : Bytes) : Prop := l = [] ∨ ∃ t, l = 42 :: t

/-- command frames: well-formed arrays (what every client sends) -/
def isCmd : Frame → Bool
  | .array xs => wf (.array xs) && decide ((Frame.array xs).depth ≤ maxNesting + 1)
  | _ => false

theorem ser_cmd_head (f : Frame) (hf : isCmd f = true) : ∃ t, ser f = 42 :: t := by
  cases f with
  | array xs => exact ⟨natDigits xs.length ++ crlf ++ serList xs, by simp only [ser]⟩
  | _ => simp [isCmd] at hf

theorem serList_cmds_startsStar (fs : List Frame) (hfs : ∀ f ∈ fs, isCmd f = true) : StartsStar (serList fs) := by
  cases fs with
  | nil => left; rfl
  | cons f r =>
    right
    obtain ⟨t, ht⟩ := ser_cmd_head f (hfs f (List.mem_cons_self ..))
    exact ⟨t ++ serList r, by simp [serList, ht]⟩

/-- one `parse` call on a serialised command followed by bytes that do not start with a line break -/
theorem parserParse_cmd (f : Frame) (hf : isCmd f = true) (rest : Bytes) (hrest : rest.dropWhile isNl = rest) :
    parserParse true (ser f ++ rest) = (.frame f, rest) := by
  obtain ⟨t, ht⟩ := ser_cmd_head f hf
  have hwf : wf f = true ∧ f.depth ≤ maxNesting + 1 := by
    cases f <;> simp [isCmd] at hf ⊢
    exact hf
  have hrt := parseBytes_ser f hwf.1 hwf.2 rest
  unfold parserParse
  rw [ht] at hrt ⊢
  simp only [List.cons_append]
  have hws : (42 :: (t ++ rest)).dropWhile isWs = 42 :: (t ++ rest) := by
    simp [List.dropWhile_cons, isWs]
  rw [hws]
  have hsp : stripPing (42 :: (t ++ rest)) = none := by
    simp [stripPing, pingBytes]
  have hpp : isPingProperPrefix (42 :: (t ++ rest)) = false := by
    simp [isPingProperPrefix]
  simp only [List.isEmpty_cons, Bool.false_eq_true, if_false, hsp, hpp, Bool.and_false]
  simp only [List.cons_append] at hrt
  rw [hrt]
  simp only [hrest]

theorem startsStar_dropNl (l : Bytes) (h : StartsStar l) : l.dropWhile isNl = l := by
  rcases h with h | ⟨t, h⟩
  · subst h; rfl
  · subst h; simp [List.dropWhile_cons, isNl]

/-- Draining a stream of serialised commands followed by `tail` yields the commands, then whatever
    `tail` yields. -/
theorem drainF_cmds (fs : List Frame) (hfs : ∀ f ∈ fs, isCmd f = true) (tail : Bytes)
    (htail : tail.dropWhile isNl = tail ∧ (fs ≠ [] → tail = [] ∨ ∀ f ∈ fs, True)) :
    ∀ n, (serList fs ++ tail).length < n →
      drainF true n (serList fs ++ tail) =
        (fs.map Ev.frame ++ (drainF true (tail.length + 1) tail).1,
         (drainF true (tail.length + 1) tail).2.1, (drainF true (tail.length + 1) tail).2.2) := by
  induction fs with
  | nil =>
    intro n hn
    simp only [serList, List.nil_append, List.map_nil] at hn ⊢
    rw [drainF_fuel n (tail.length + 1) tail hn (by omega)]
  | cons f r ih =>
    intro n hn
    cases n with
    | zero => omega
    | succ n =>
      have hf := hfs f (List.mem_cons_self ..)
      have hr : ∀ g ∈ r, isCmd g = true := fun g hg => hfs g (List.mem_cons_of_mem _ hg)
      have hrest : (serList r ++ tail).dropWhile isNl = serList r ++ tail := by
        cases r with
        | nil => simpa [serList] using htail.1
        | cons g r' =>
          obtain ⟨t, ht⟩ := ser_cmd_head g (hr g (List.mem_cons_self ..))
          simp [serList, ht, List.dropWhile_cons, isNl]
      have hp := parserParse_cmd f hf (serList r ++ tail) hrest
      simp only [serList, List.append_assoc] at hn ⊢
      rw [drainF_frame hp]
      have hlen : (serList r ++ tail).length < n := by
        have := depth_le_ser f
        have hpos : 0 < (ser f).length := by
          obtain ⟨t, ht⟩ := ser_cmd_head f hf
          simp [ht]
        simp at hn ⊢
        omega
      rw [ih hr ⟨htail.1, fun _ => Or.inr (fun _ _ => trivial)⟩ n hlen]
      simp

end Ferrous.Conn
