/-
  The glob matcher of MATCH: the fuel of the model is never the reason for an answer, and the
  basic laws (`*`, `?`, literal patterns, literal prefix followed by `*`), for all texts.
-/
import FerrousSpec.Model.Scan
namespace Ferrous.Scan
open Code

/-! ### One step -/

theorem classWalk_length (c : Nat) : ∀ (l : List Nat) (st : CState) (m : Bool), (classWalk c st m l).2.length ≤ l.length
  | [], st, m => by cases st <;> simp [classWalk]
  | x :: r, .member, m => by
    have ih := fun st m => classWalk_length c r st m
    simp only [classWalk]
    split
    · have := ih .esc m; simp only [List.length_cons]; omega
    · split
      · simp
      · split
        · have := ih (.dash x) m; simp only [List.length_cons]; omega
        · have := ih .member (m || x == c); simp only [List.length_cons]; omega
  | x :: r, .esc, m => by
    have := classWalk_length c r .member (m || x == c)
    simp only [classWalk, List.length_cons]; omega
  | x :: r, .dash lo, m => by
    have := classWalk_length c r (.hi lo) m
    simp only [classWalk, List.length_cons]; omega
  | x :: r, .hi lo, m => by
    have := classWalk_length c r .member (m || (decide (min lo x ≤ c) && decide (c ≤ max lo x)))
    simp only [classWalk, List.length_cons]; omega

theorem classStep_adv_length {q p' : List Nat} {c : Nat} (h : classStep q c = .adv p') : p'.length ≤ q.length := by
  unfold classStep at h
  dsimp only at h
  have hb : (if (q.head? == some 94) = true then q.tail else q).length ≤ q.length := by split <;> simp
  generalize (if (q.head? == some 94) = true then q.tail else q) = body at h hb
  split at h
  · simp only [GStep.adv.injEq] at h
    subst h
    exact Nat.le_trans (classWalk_length c _ .member false) hb
  · simp at h

theorem classStep_ne_star {q p' : List Nat} {c : Nat} : classStep q c ≠ .star p' := by
  unfold classStep
  dsimp only
  generalize (if (q.head? == some 94) = true then q.tail else q) = body
  intro h
  split at h <;> simp at h

theorem globStep_adv_length {p p' : List Nat} {c : Nat} (h : globStep p c = .adv p') : p'.length < p.length := by
  unfold globStep at h
  split at h
  · simp at h
  · rename_i x q
    split at h
    · simp at h; simp [← h]
    · split at h
      · simp at h
      · split at h
        · have := classStep_adv_length h
          simp only [List.length_cons]; omega
        · split at h
          · split at h
            · split at h
              · simp at h; simp [← h]; omega
              · simp at h
            · split at h
              · simp at h; simp [← h]
              · simp at h
          · split at h
            · simp at h; simp [← h]
            · simp at h

theorem globStep_star_length {p p' : List Nat} {c : Nat} (h : globStep p c = .star p') : p.length = p'.length + 1 := by
  unfold globStep at h
  split at h
  · simp at h
  · rename_i x q
    split at h
    · simp at h
    · split at h
      · simp at h; simp [← h]
      · split at h
        · exact absurd h classStep_ne_star
        · split at h
          · split at h
            · split at h <;> simp at h
            · split at h <;> simp at h
          · split at h <;> simp at h

/-! ### Fuel -/

theorem globLoop_cons (f : Nat) (p : List Nat) (c : Nat) (t : List Nat) (s : Option (List Nat × List Nat)) :
    globLoop (f + 1) p (c :: t) s =
      match globStep p c with
      | .adv p' => globLoop f p' t s
      | .star p' => globLoop f p' (c :: t) (some (p', c :: t))
      | .fail =>
        match s with
        | none => some false
        | some (ps, ts) => globLoop f ps ts.tail (some (ps, ts.tail)) := by
  simp only [globLoop]
  rfl

theorem globLoop_succ : ∀ (f : Nat) (p t : List Nat) (s : Option (List Nat × List Nat)) (b : Bool),
    globLoop f p t s = some b → globLoop (f + 1) p t s = some b
  | 0, _, _, _, _, h => by simp [globLoop] at h
  | f + 1, p, [], s, b, h => by
    simp only [globLoop] at h ⊢
    exact h
  | f + 1, p, c :: t, s, b, h => by
    rw [globLoop_cons] at h ⊢
    cases hgs : globStep p c with
    | adv p' =>
      simp only [hgs] at h ⊢
      exact globLoop_succ f p' t s b h
    | star p' =>
      simp only [hgs] at h ⊢
      exact globLoop_succ f p' (c :: t) _ b h
    | fail =>
      simp only [hgs] at h ⊢
      cases s with
      | none => exact h
      | some st =>
        obtain ⟨ps, ts⟩ := st
        simp only at h ⊢
        exact globLoop_succ f ps ts.tail _ b h

theorem globLoop_mono {f f' : Nat} (hle : f ≤ f') {p t : List Nat} {s : Option (List Nat × List Nat)} {b : Bool}
    (h : globLoop f p t s = some b) : globLoop f' p t s = some b := by
  induction hle with
  | refl => exact h
  | step _ ih => exact globLoop_succ _ _ _ _ _ ih

/-- The measure that decreases with every pass through the loop: the pattern position, and
    `(P+1)` times the number of text positions the saved star can still be moved over. -/
def globMeasure (P : Nat) (p t : List Nat) (s : Option (List Nat × List Nat)) : Nat :=
  p.length + (P + 1) * (match s with
    | none => t.length + 1
    | some (_, ts) => ts.length)

theorem globLoop_isSome (P : Nat) : ∀ (f : Nat) (p t : List Nat) (s : Option (List Nat × List Nat)),
    p.length ≤ P → (∀ ps ts, s = some (ps, ts) → ps.length ≤ P ∧ t.length ≤ ts.length) →
    globMeasure P p t s < f → (globLoop f p t s).isSome = true
  | 0, _, _, _, _, _, h => by omega
  | f + 1, p, [], s, _, _, _ => by simp [globLoop]
  | f + 1, p, c :: t, s, hp, hs, hμ => by
    rw [globLoop_cons]
    cases hgs : globStep p c with
    | adv p' =>
      simp only
      have hl := globStep_adv_length hgs
      apply globLoop_isSome P f p' t s (by omega)
      · intro ps ts h
        have := hs ps ts h
        simp only [List.length_cons] at this
        exact ⟨this.1, by omega⟩
      · unfold globMeasure at hμ ⊢
        cases s with
        | none =>
          simp only [List.length_cons] at hμ ⊢
          have : (P + 1) * (t.length + 1) ≤ (P + 1) * (t.length + 1 + 1) := Nat.mul_le_mul_left _ (by omega)
          omega
        | some st => obtain ⟨ps, ts⟩ := st; simp only at hμ ⊢; omega
    | star p' =>
      simp only
      have hl := globStep_star_length hgs
      apply globLoop_isSome P f p' (c :: t) _ (by omega)
      · intro ps ts h
        simp only [Option.some.injEq, Prod.mk.injEq] at h
        obtain ⟨rfl, rfl⟩ := h
        exact ⟨by omega, Nat.le_refl _⟩
      · unfold globMeasure at hμ ⊢
        simp only
        cases s with
        | none =>
          simp only at hμ
          have : (P + 1) * (c :: t).length ≤ (P + 1) * ((c :: t).length + 1) := Nat.mul_le_mul_left _ (by omega)
          omega
        | some st =>
          obtain ⟨ps, ts⟩ := st
          simp only at hμ
          have := (hs ps ts rfl).2
          have : (P + 1) * (c :: t).length ≤ (P + 1) * ts.length := Nat.mul_le_mul_left _ this
          omega
    | fail =>
      simp only
      cases s with
      | none => simp
      | some st =>
        obtain ⟨ps, ts⟩ := st
        simp only
        have hst := hs ps ts rfl
        apply globLoop_isSome P f ps ts.tail _ hst.1
        · intro ps' ts' h
          simp only [Option.some.injEq, Prod.mk.injEq] at h
          obtain ⟨rfl, rfl⟩ := h
          exact ⟨hst.1, Nat.le_refl _⟩
        · unfold globMeasure at hμ ⊢
          simp only [List.length_tail] at hμ ⊢
          have hpos : 1 ≤ ts.length := by
            have := hst.2; simp only [List.length_cons] at this; omega
          have : (P + 1) * ts.length = (P + 1) * (ts.length - 1) + (P + 1) := by
            rw [← Nat.mul_succ]; congr 1; omega
          omega

/-- The fuel of `globChars` always suffices: the model's answer is the loop's answer. -/
theorem globLoop_fuel_enough (p t : List Nat) : (globLoop (globFuel p t) p t none).isSome = true := by
  apply globLoop_isSome p.length _ p t none (Nat.le_refl _)
  · intro ps ts h; simp at h
  · unfold globMeasure globFuel; simp only; omega

/-- Any run of the loop that ends, with whatever fuel, gives the verdict of `globChars`. -/
theorem globChars_of_run {f : Nat} {p t : List Nat} {b : Bool} (h : globLoop f p t none = some b) :
    globChars p t = b := by
  unfold globChars
  have hs := globLoop_fuel_enough p t
  cases hr : globLoop (globFuel p t) p t none with
  | none => simp [hr] at hs
  | some b' =>
    have h1 := globLoop_mono (Nat.le_max_left f (globFuel p t)) h
    have h2 := globLoop_mono (Nat.le_max_right f (globFuel p t)) hr
    rw [h1] at h2
    simp only [Option.some.injEq] at h2
    simp [h2]

/-! ### Laws -/

theorem star_run : ∀ (t : List Nat), globLoop (t.length + 1) [] t (some ([], t)) = some true
  | [] => by simp [globLoop]
  | c :: t => by
    rw [show (c :: t).length + 1 = (t.length + 1) + 1 by simp, globLoop_cons]
    simp only [globStep, List.tail_cons]
    exact star_run t

/-- `*` matches every text. -/
theorem globChars_star (t : List Nat) : globChars [42] t = true := by
  cases t with
  | nil => exact globChars_of_run (f := 1) (by simp [globLoop])
  | cons c t =>
    apply globChars_of_run (f := (c :: t).length + 1 + 1)
    rw [globLoop_cons]
    simp only [globStep]
    simp only [show (42 : Nat) ≠ 63 by decide, if_false, if_true]
    exact star_run (c :: t)

/-- No metacharacter of the matcher (`*` `?` `[` `\`). -/
def plain (x : Nat) : Prop := x ≠ 42 ∧ x ≠ 63 ∧ x ≠ 91 ∧ x ≠ 92

theorem globStep_plain {x : Nat} (hx : plain x) (p : List Nat) (c : Nat) :
    globStep (x :: p) c = if x = c then .adv p else .fail := by
  obtain ⟨h1, h2, h3, h4⟩ := hx
  simp [globStep, h1, h2, h3, h4]

theorem literal_run : ∀ (p t : List Nat), (∀ x ∈ p, plain x) →
    globLoop (p.length + 1) p t none = some (decide (t = p))
  | [], [], _ => by simp [globLoop]
  | [], c :: t, _ => by simp [globLoop, globStep]
  | x :: p, [], h => by
    have hx : (x == 42) = false := by simp [(h x (by simp)).1]
    simp [globLoop, List.dropWhile, hx]
  | x :: p, c :: t, h => by
    rw [show (x :: p).length + 1 = (p.length + 1) + 1 by simp, globLoop_cons, globStep_plain (h x (by simp))]
    by_cases hxc : x = c
    · subst hxc
      simp only [if_true]
      rw [literal_run p t (fun y hy => h y (by simp [hy]))]
      simp
    · simp only [hxc, if_false]
      have : ¬ (c :: t = x :: p) := by
        intro heq; exact hxc (List.cons.inj heq).1.symm
      simp [this]

/-- A pattern without metacharacters matches exactly itself. -/
theorem globChars_literal (p t : List Nat) (hp : ∀ x ∈ p, plain x) : globChars p t = true ↔ t = p := by
  rw [globChars_of_run (literal_run p t hp)]
  simp

/-- `?` matches exactly the one-character texts. -/
theorem globChars_question (t : List Nat) : globChars [63] t = true ↔ t.length = 1 := by
  cases t with
  | nil =>
    rw [globChars_of_run (f := 1) (b := false) (by simp [globLoop, List.dropWhile])]
    simp
  | cons c t =>
    cases t with
    | nil =>
      rw [globChars_of_run (f := 2) (b := true) (by simp [globLoop, globStep])]
      simp
    | cons d t =>
      rw [globChars_of_run (f := 2) (b := false) (by simp [globLoop, globStep])]
      simp

theorem prefix_star_run : ∀ (p t : List Nat), (∀ x ∈ p, plain x) →
    globLoop (p.length + t.length + 3) (p ++ [42]) t none = some (p.isPrefixOf t)
  | [], t, _ => by
    cases t with
    | nil => simp [globLoop, List.dropWhile]
    | cons c t =>
      have h1 : globLoop ((c :: t).length + 1 + 1) [42] (c :: t) none = some true := by
        rw [globLoop_cons]
        simp only [globStep]
        simp only [show (42 : Nat) ≠ 63 by decide, if_false, if_true]
        exact star_run (c :: t)
      have := globLoop_mono (f' := ([] : List Nat).length + (c :: t).length + 3) (by simp) h1
      simpa using this
  | x :: p, [], h => by
    have hx : (x == 42) = false := by simp [(h x (by simp)).1]
    simp [globLoop, hx]
  | x :: p, c :: t, h => by
    rw [show (x :: p).length + (c :: t).length + 3 = (p.length + t.length + 3 + 1) + 1 by simp; omega]
    rw [globLoop_cons]
    simp only [List.cons_append, globStep_plain (h x (by simp))]
    by_cases hxc : x = c
    · subst hxc
      simp only [if_true]
      have ih := prefix_star_run p t (fun y hy => h y (by simp [hy]))
      rw [globLoop_mono (Nat.le_succ _) ih]
      simp
    · simp only [hxc, if_false]
      simp [List.isPrefixOf, hxc]

/-- A literal prefix followed by `*` (`user:*`) matches exactly the texts that begin with it. -/
theorem globChars_prefix_star (p t : List Nat) (hp : ∀ x ∈ p, plain x) :
    globChars (p ++ [42]) t = p.isPrefixOf t := by
  rw [globChars_of_run (prefix_star_run p t hp)]

/-! ### Lossy decoding -/

theorem decodeAux_ascii : ∀ (bs : Bytes), (∀ b ∈ bs, b < 128) → decodeAux .idle bs = bs
  | [], _ => rfl
  | b :: r, h => by
    have hb : b < 128 := h b (by simp)
    simp only [decodeAux, startByte, hb, if_true, emit]
    rw [decodeAux_ascii r (fun x hx => h x (by simp [hx]))]

/-- ASCII text is decoded to itself. -/
theorem decodeLossy_ascii (bs : Bytes) (h : ∀ b ∈ bs, b < 128) : decodeLossy bs = bs :=
  decodeAux_ascii bs h

end Ferrous.Scan
