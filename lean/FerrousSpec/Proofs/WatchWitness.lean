/-
  C08: the concrete histories used by the witness lemmas and examples of Props/C08.lean, built with the
  marking facts of the regenerated table `Gen.storageFns`; and a fold that runs the Spec judge next to
  the code model (what the driver does line by line).
-/
import FerrousSpec.Proofs.WatchSound
import FerrousSpec.Gen.Watch
namespace Ferrous.Watch

/-- does the table say that storage function `fn` passes its key parameter `param` to `mark_modified`? -/
def marksOf (fn param : String) : Bool :=
  match Gen.storageFns.find? (fun f => f.name == fn) with
  | some f => f.marked.contains param
  | none => false

/-- does the table say that `flush_db` marks the keys it removes? -/
def flushMarks : Bool :=
  match Gen.storageFns.find? (fun f => f.name == "flush_db") with
  | some f => f.marksAll
  | none => false

/-- a key operation whose marking is read from the table -/
def tableOp (fn param : String) (k : Key) (e : Eff) : Op := .key ⟨fn, k, marksOf fn param, e⟩

/-- the operation could have been built by the driver from the table: a key operation that reaches no mutating
    path, or one of a mutating row whose `marks` is the row's fact for one of its key parameters; a flush with the
    row's `marksAll` -/
def isTableOp : Op → Bool
  | .key ko => !ko.eff.reaches ||
      Gen.storageFns.any (fun f => f.mutates && f.name == ko.fn && f.keyParams.any (fun p => marksOf f.name p == ko.marks))
  | .flush _ m => m == flushMarks

/-- every operation the event executes comes from the table, and a sweep has the sweeper row's fact -/
def evFromTable (q : Q) (s : State) (now : Nat) (ev : Ev) : Bool :=
  (executed q s now ev).all (fun p => isTableOp p.2) &&
    (match ev with
     | .sweep _ _ m => m == marksOf "expiration_cleanup_loop" "key"
     | _ => true)

/-- the watched key `wk` -/
def kWk : Key := [119, 107]
/-- another key -/
def kOther : Key := [111]

def setOp (k : Key) (v : Nat) : Op := tableOp "set_value" "key" k (.put ⟨v, none⟩)

/-- B: SET wk; A: WATCH wk; B: <op>; A: MULTI -/
def oneChange (ops : List Op) : List (Nat × Ev) :=
  [(1000, .cmd 1 [setOp kWk 1]), (1001, .watch 0 [kWk]), (1002, .cmd 1 ops), (1003, .multi 0)]

def hSet : List (Nat × Ev) := oneChange [setOp kWk 2]
def hOtherKey : List (Nat × Ev) := oneChange [setOp kOther 2]
def hExpire : List (Nat × Ev) := oneChange [tableOp "expire" "key" kWk (.put ⟨1, some 600000⟩)]
def hPexpire : List (Nat × Ev) := oneChange [tableOp "pexpire" "key" kWk (.put ⟨1, some 600000⟩)]
def hRenameSrc : List (Nat × Ev) :=
  oneChange [tableOp "rename" "old_key" kWk .del, tableOp "rename" "new_key" kOther (.put ⟨1, none⟩)]
def hRenameDst : List (Nat × Ev) :=
  [(1000, .cmd 1 [setOp kOther 1]), (1001, .watch 0 [kWk]),
   (1002, .cmd 1 [tableOp "rename" "old_key" kOther .del, tableOp "rename" "new_key" kWk (.put ⟨1, none⟩)]), (1003, .multi 0)]
def hFlush : List (Nat × Ev) := oneChange [.flush false flushMarks]
def hFlushAll : List (Nat × Ev) := oneChange [.flush true flushMarks]
/-- PERSIST needs a deadline to remove -/
def hPersist : List (Nat × Ev) :=
  [(1000, .cmd 1 [tableOp "set_value" "key" kWk (.put ⟨1, some 600000⟩)]), (1001, .watch 0 [kWk]),
   (1002, .cmd 1 [tableOp "persist" "key" kWk (.put ⟨1, none⟩)]), (1003, .multi 0)]
/-- WATCH wk; change; WATCH wk again; MULTI -/
def hRewatch : List (Nat × Ev) :=
  [(1000, .cmd 1 [setOp kWk 1]), (1001, .watch 0 [kWk]), (1002, .cmd 1 [setOp kWk 2]), (1003, .watch 0 [kWk]), (1004, .multi 0)]
/-- A: WATCH wk (db 0); A: SELECT 1; B: SET wk (db 0); A: MULTI -/
def hSelectExec : List (Nat × Ev) :=
  [(1000, .watch 0 [kWk]), (1001, .select 0 1), (1002, .cmd 1 [setOp kWk 2]), (1003, .multi 0)]
/-- A: WATCH wk (db 0, never touched); A: SELECT 1; C: SELECT 1, WATCH wk; B: SELECT 1, SET wk (db 1); A: MULTI -/
def hSelectFalseAbort : List (Nat × Ev) :=
  [(1000, .watch 0 [kWk]), (1001, .select 0 1), (1002, .select 2 1), (1003, .watch 2 [kWk]),
   (1004, .select 1 1), (1005, .cmd 1 [setOp kWk 2]), (1006, .multi 0)]
/-- A: SELECT 1, WATCH wk; C: WATCH wk (db 0), SELECT 1, UNWATCH; B: SELECT 1, SET wk; A: MULTI -/
def hUnwatchSteals : List (Nat × Ev) :=
  [(1000, .select 0 1), (1001, .watch 0 [kWk]), (1002, .watch 2 [kWk]), (1003, .select 2 1), (1004, .unwatch 2),
   (1005, .select 1 1), (1006, .cmd 1 [setOp kWk 2]), (1007, .multi 0)]
/-- C: WATCH wk (db 0), SELECT 1, UNWATCH (db 1's count wraps to usize::MAX); A: SELECT 1, WATCH wk (wraps to 0);
    B: SELECT 1, SET wk; A: MULTI -/
def hUnwatchWraps : List (Nat × Ev) :=
  [(1000, .watch 2 [kWk]), (1001, .select 2 1), (1002, .unwatch 2), (1003, .select 0 1), (1004, .watch 0 [kWk]),
   (1005, .select 1 1), (1006, .cmd 1 [setOp kWk 2]), (1007, .multi 0)]
/-- B: SET wk with a deadline of 1040; at 1100: A: WATCH wk; A: MULTI (nothing else happens) -/
def hExpiredAtWatch : List (Nat × Ev) :=
  [(1000, .cmd 1 [tableOp "set_value" "key" kWk (.put ⟨1, some 1040⟩)]), (1100, .watch 0 [kWk]), (1101, .multi 0)]
/-- the deadline (1150) passes between WATCH (1001) and EXEC -/
def hExpires : List (Nat × Ev) :=
  [(1000, .cmd 1 [tableOp "set_value" "key" kWk (.put ⟨1, some 1150⟩)]), (1001, .watch 0 [kWk]), (1002, .multi 0)]

/-! the same histories with the table rows as they were before the fixes (the function does not mark) -/

def oldOp (fn : String) (k : Key) (e : Eff) : Op := .key ⟨fn, k, false, e⟩
def hExpireOld : List (Nat × Ev) := oneChange [oldOp "expire" kWk (.put ⟨1, some 600000⟩)]
def hRenameSrcOld : List (Nat × Ev) := oneChange [oldOp "rename" kWk .del, tableOp "rename" "new_key" kOther (.put ⟨1, none⟩)]
def hFlushOld : List (Nat × Ev) := oneChange [.flush false false]
def hFlushAllOld : List (Nat × Ev) := oneChange [.flush true false]
def hPersistOld : List (Nat × Ev) :=
  [(1000, .cmd 1 [tableOp "set_value" "key" kWk (.put ⟨1, some 600000⟩)]), (1001, .watch 0 [kWk]),
   (1002, .cmd 1 [oldOp "persist" kWk (.put ⟨1, none⟩)]), (1003, .multi 0)]

/-- the watch-list switches of the tree after commits 180a098 and 3ed7039, before a purge at WATCH time -/
def Q.noPurge : Q := ⟨true, true, false, false⟩

/-- A: WATCH wk; MULTI; UNWATCH (inside MULTI); B: SET wk -/
def hUnwatchInMulti : List (Nat × Ev) :=
  [(1000, .cmd 1 [setOp kWk 1]), (1001, .watch 0 [kWk]), (1002, .multi 0), (1003, .unwatch 0), (1004, .cmd 1 [setOp kWk 2])]
/-- A: WATCH wk; a refused UNWATCH / a MULTI + refused EXEC + refused DISCARD (surplus arguments); B: SET wk -/
def hRefused : List (Nat × Ev) :=
  [(1000, .cmd 1 [setOp kWk 1]), (1001, .watch 0 [kWk]), (1002, .refused 0), (1003, .multi 0), (1004, .refused 0),
   (1005, .refused 0), (1006, .cmd 1 [setOp kWk 2])]
/-- the tree's watch list before 7dd14e2 (UNWATCH inside MULTI ran at once) -/
def Q.unwatchAtOnce : Q := ⟨true, true, true, false⟩

/-- reply of A's EXEC (at time `now`) after the history -/
def execAfter (q : Q) (h : List (Nat × Ev)) (now : Nat) : Reply :=
  (step q (run q State.init h) now (.exec 0 [setOp [112] 1])).2

/-- run the Spec judge next to the code model: the verdicts of all EXECs inside MULTI, in order -/
def judge (q : Q) : State → Spec.SState → List (Nat × Ev) → List (Reply × Spec.Verdict)
  | _, _, [] => []
  | s, ss, (now, ev) :: r =>
    let (ss', v) := Spec.step q s now ss ev
    let (s', rep) := step q s now ev
    match v with
    | some x => (rep, x) :: judge q s' ss' r
    | none => judge q s' ss' r

/-- the history followed by A's EXEC, judged -/
def judged (q : Q) (h : List (Nat × Ev)) (now : Nat) : List (Reply × Spec.Verdict) :=
  judge q State.init [] (h ++ [(now, .exec 0 [setOp [112] 1])])

end Ferrous.Watch
