import FerrousSpec.Model.WriteBuf
namespace Ferrous.WBuf

/-- the offset never passes the end of the buffer -/
def Inv (w : W) : Prop := w.off ≤ w.buf.length

theorem pending_length (w : W) : (pending w).length = w.buf.length - w.off := by simp [pending]

theorem step_write_eq (w : W) (n : Nat) :
    step true w (.write n) =
      (if w.off + min n (pending w).length ≥ w.buf.length then { buf := [], off := 0 }
       else { w with off := w.off + min n (pending w).length }, (pending w).take (min n (pending w).length)) := by
  simp [step]

theorem step_inv (w : W) (e : Ev) (h : Inv w) : Inv (step true w e).1 := by
  unfold Inv at *
  cases e with
  | send bs => simp [step]; omega
  | write n =>
    rw [step_write_eq]
    by_cases hc : w.off + min n (pending w).length ≥ w.buf.length
    · simp [hc]
    · simp only [hc, if_false]; omega

/-- one step: what goes out followed by what is still pending is what was pending followed by what was added -/
theorem step_conserves (w : W) (e : Ev) (h : Inv w) :
    (step true w e).2 ++ pending (step true w e).1 = pending w ++ sent [e] := by
  unfold Inv at h
  cases e with
  | send bs =>
    simp [step, pending, sent, List.drop_append_of_le_length h]
  | write n =>
    rw [step_write_eq]
    simp only [sent, List.append_nil]
    have hlen := pending_length w
    by_cases hc : w.off + min n (pending w).length ≥ w.buf.length
    · -- everything has gone out
      have hk : min n (pending w).length = (pending w).length := by omega
      rw [if_pos hc, hk, List.take_length]
      simp [pending]
    · rw [if_neg hc]
      have : pending { buf := w.buf, off := w.off + min n (pending w).length } = (pending w).drop (min n (pending w).length) := by
        simp [pending, List.drop_drop]
      rw [this]
      exact List.take_append_drop _ _

theorem run_conserves (evs : List Ev) : ∀ (w : W), Inv w →
    (run true w evs).2 ++ pending (run true w evs).1 = pending w ++ sent evs ∧ Inv (run true w evs).1 := by
  induction evs with
  | nil => intro w h; simp [run, sent, h]
  | cons e r ih =>
    intro w h
    have h1 := step_conserves w e h
    have hi := step_inv w e h
    obtain ⟨h2, h3⟩ := ih (step true w e).1 hi
    refine ⟨?_, h3⟩
    simp only [run]
    have hs : sent (e :: r) = sent [e] ++ sent r := by cases e <;> simp [sent]
    rw [hs, List.append_assoc, h2, ← List.append_assoc, h1, List.append_assoc]

end Ferrous.WBuf
