import FerrousSpec.Model.Bytes
namespace Ferrous

theorem decVal_append_single (xs : Bytes) (d : Nat) : decVal (xs ++ [d]) = decVal xs * 10 + (d - 48) := by
  simp [decVal, List.foldl_append]

theorem natDigitsF_spec : ∀ (f n : Nat), n ≤ f →
    (natDigitsF f n).all isDigit = true ∧ decVal (natDigitsF f n) = n ∧ natDigitsF f n ≠ [] := by
  intro f
  induction f with
  | zero =>
    intro n h
    have : n = 0 := by omega
    subst this
    decide
  | succ f ih =>
    intro n h
    unfold natDigitsF
    split
    · rename_i hlt
      refine ⟨?_, ?_, by simp⟩
      · simp [isDigit]; omega
      · simp [decVal]
    · rename_i hge
      have h10 : n / 10 ≤ f := by omega
      obtain ⟨h1, h2, h3⟩ := ih (n / 10) h10
      refine ⟨?_, ?_, by simp⟩
      · rw [List.all_append, h1]; simp [isDigit]; omega
      · rw [decVal_append_single, h2]; omega

theorem natDigits_all (n : Nat) : (natDigits n).all isDigit = true := (natDigitsF_spec n n (Nat.le_refl _)).1
theorem natDigits_val (n : Nat) : decVal (natDigits n) = n := (natDigitsF_spec n n (Nat.le_refl _)).2.1
theorem natDigits_ne_nil (n : Nat) : natDigits n ≠ [] := (natDigitsF_spec n n (Nat.le_refl _)).2.2

theorem digitsVal_natDigits (n : Nat) : digitsVal (natDigits n) = some n := by
  unfold digitsVal
  have h := natDigits_ne_nil n
  cases hd : natDigits n with
  | nil => exact absurd hd h
  | cons a t => simp [← hd, natDigits_all, natDigits_val, h]

theorem natDigits_head (n : Nat) : ∃ h t, natDigits n = h :: t ∧ 48 ≤ h ∧ h ≤ 57 := by
  have hne := natDigits_ne_nil n
  have hall := natDigits_all n
  cases hd : natDigits n with
  | nil => exact absurd hd hne
  | cons a t =>
    rw [hd] at hall
    simp [isDigit] at hall
    exact ⟨a, t, rfl, hall.1.1, hall.1.2⟩

theorem parseU64_natDigits (n : Nat) (h : n ≤ 18446744073709551615) : parseU64 (natDigits n) = some n := by
  obtain ⟨a, t, hd, h1, h2⟩ := natDigits_head n
  have hv := digitsVal_natDigits n
  rw [hd] at hv ⊢
  have ha : a ≠ 43 := by omega
  simp [parseU64, ha, hv, h]

theorem parseI64_natDigits (n : Nat) (h : n ≤ 9223372036854775807) : parseI64 (natDigits n) = some (n : Int) := by
  obtain ⟨a, t, hd, h1, h2⟩ := natDigits_head n
  have hv := digitsVal_natDigits n
  rw [hd] at hv ⊢
  have ha : a ≠ 43 := by omega
  have hb : a ≠ 45 := by omega
  simp [parseI64, ha, hb, hv, h]

theorem parseI64_intDigits (i : Int) (h1 : -9223372036854775808 ≤ i) (h2 : i ≤ 9223372036854775807) :
    parseI64 (intDigits i) = some i := by
  unfold intDigits
  split
  · rename_i hneg
    have hv := digitsVal_natDigits i.natAbs
    have hle : i.natAbs ≤ 9223372036854775808 := by omega
    simp [parseI64, hv, hle]
    omega
  · rename_i hpos
    have hle : i.natAbs ≤ 9223372036854775807 := by omega
    rw [parseI64_natDigits _ hle]
    congr 1
    omega

end Ferrous
