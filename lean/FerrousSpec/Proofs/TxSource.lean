/-
  The variant of the MULTI/EXEC model that the CURRENT source prescribes (C07): the quirk switches
  read off /repo/src by translator/tx_facts.py (Gen/Tx.lean, regenerated on every check run).
  `drv_tx` runs this variant against the server; Props/C07.lean proves that it lies between the
  prescribed behaviour (`Quirks.spec`) and the tree as found (`Quirks.code`).
-/
import FerrousSpec.Model.Tx
import FerrousSpec.Gen.Tx
namespace Ferrous.Tx

def Quirks.ofSource : Quirks :=
  { immediate := Gen.preQueue.filter fun n => !Gen.txPassThrough.contains n
    selectInExecIgnored := Gen.execSelectIgnored
    blockingInExecNoResponse := Gen.blockingInExecUnguarded }

end Ferrous.Tx
