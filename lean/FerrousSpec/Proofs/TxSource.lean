/-
  The variant of the MULTI/EXEC model that the CURRENT source prescribes (C07): the quirk switches
  read off /repo/src by translator/tx_facts.py (Gen/Tx.lean, regenerated on every check run).
  `drv_tx` runs this variant against the server; Props/C07.lean proves that it lies between the
  prescribed behaviour (`Quirks.spec`) and the tree as found (`Quirks.code`).
-/
import FerrousSpec.Model.Tx
import FerrousSpec.Gen.Tx
namespace Ferrous.Tx

/-- names the source executes at once between MULTI and EXEC although they are not transaction-control
    commands proper: handled before the queue test, or refused by `should_queue_command` -/
def immediateOfSource : List String :=
  (Gen.preQueue ++ Gen.txPassThrough.filter fun n => !Gen.preQueue.contains n).filter fun n => !controlNames.contains n

def Quirks.ofSource : Quirks :=
  { immediate := immediateOfSource
    selectInExecIgnored := Gen.execSelectIgnored
    blockingInExecNoResponse := Gen.blockingInExecUnguarded
    controlArityUnchecked := Gen.controlArityUnchecked
    connCommandsUnderConnZero := Gen.execClientUnderConnZero }

end Ferrous.Tx
