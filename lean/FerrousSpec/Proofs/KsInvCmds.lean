import FerrousSpec.Proofs.KsInv
set_option linter.unusedSimpArgs false
set_option linter.unusedVariables false
namespace Ferrous.KS

/-- the command keeps the database well-formed -/
def Pres (f : Db × Frame) (db : Db) : Prop := DbOk db → DbOk f.1

theorem DbOk_insert_same {db : Db} {k : Bytes} {e : Entry} (d : Option Nat) (hdb : DbOk db)
    (h : lookup db k = some e) : DbOk (insert db k { val := e.val, deadline := d }) :=
  DbOk_insert _ _ hdb (by have := lookup_valOk hdb h; exact this)

macro "pres_close" : tactic =>
  `(tactic| (first
      | assumption
      | exact DbOk_insert_same _ (by assumption) (by assumption)
      | (apply DbOk_insert _ _ (by assumption); first | (simp [valOk, mkStr]; done) | exact lookup_valOk (by assumption) (by assumption))
      | exact DbOk_erase _ (by assumption)
      | (apply DbOk_insert _ _ (DbOk_erase _ (by assumption)); first | (simp [valOk, mkStr]; done) | exact lookup_valOk (by assumption) (by assumption))))

macro "pres_basic" : tactic =>
  `(tactic| (
    intro hdb
    repeat' split
    all_goals (try simp only [])
    all_goals (repeat' split)
    all_goals (try simp only [])
    all_goals (repeat' split)
    all_goals (try pres_close)))

theorem cmdSet_pres (db : Db) (now : Nat) (args : List Bytes) : Pres (cmdSet db now args) db := by
  unfold Pres cmdSet; pres_basic
theorem cmdGet_pres (db : Db) (args : List Bytes) : Pres (cmdGet db args) db := by
  unfold Pres cmdGet; pres_basic
theorem cmdMget_pres (db : Db) (args : List Bytes) : Pres (cmdMget db args) db := by
  unfold Pres cmdMget; pres_basic
theorem msetPairs_ok : ∀ (k : Nat) (db : Db) (ps : List Bytes), ps.length ≤ k → DbOk db → DbOk (msetPairs db ps) := by
  intro k
  induction k with
  | zero => intro db ps hk h; have : ps = [] := by cases ps <;> simp at hk ⊢
            subst this; simpa [msetPairs] using h
  | succ k ih =>
    intro db ps hk h
    match ps, hk with
    | [], _ => simpa [msetPairs] using h
    | [x], _ => simpa [msetPairs] using h
    | a :: b :: r, hk =>
      unfold msetPairs
      exact ih _ r (by simp at hk; omega) (DbOk_insert _ _ h (by simp [valOk, mkStr]))
theorem cmdMset_pres (db : Db) (args : List Bytes) : Pres (cmdMset db args) db := by
  unfold Pres cmdMset
  intro hdb
  split
  · exact hdb
  · exact msetPairs_ok _ _ _ (Nat.le_refl _) hdb
theorem cmdGetset_pres (db : Db) (args : List Bytes) : Pres (cmdGetset db args) db := by
  unfold Pres cmdGetset; pres_basic
theorem cmdSetnx_pres (db : Db) (args : List Bytes) : Pres (cmdSetnx db args) db := by
  unfold Pres cmdSetnx; pres_basic
theorem cmdSetex_pres (db : Db) (now u : Nat) (args : List Bytes) : Pres (cmdSetex db now u args) db := by
  unfold Pres cmdSetex; pres_basic
theorem cmdAppend_pres (db : Db) (args : List Bytes) : Pres (cmdAppend db args) db := by
  unfold Pres cmdAppend; pres_basic
theorem cmdStrlen_pres (db : Db) (args : List Bytes) : Pres (cmdStrlen db args) db := by
  unfold Pres cmdStrlen; pres_basic
theorem cmdGetrange_pres (db : Db) (args : List Bytes) : Pres (cmdGetrange db args) db := by
  unfold Pres cmdGetrange; pres_basic
theorem cmdSetrange_pres (db : Db) (args : List Bytes) : Pres (cmdSetrange db args) db := by
  unfold Pres cmdSetrange; pres_basic
theorem incrBy_pres (db : Db) (k : Bytes) (d : Int) : Pres (incrBy db k d) db := by
  unfold Pres incrBy; pres_basic
theorem cmdIncrDecr_pres (db : Db) (sg : Int) (args : List Bytes) : Pres (cmdIncrDecr db sg args) db := by
  unfold cmdIncrDecr
  split
  · exact incrBy_pres _ _ _
  · exact fun h => h
theorem cmdIncrbyDecrby_pres (db : Db) (sg : Int) (args : List Bytes) : Pres (cmdIncrbyDecrby db sg args) db := by
  unfold cmdIncrbyDecrby
  repeat' split
  all_goals first | exact incrBy_pres _ _ _ | exact fun h => h
theorem delKeys_ok : ∀ (ks : List Bytes) (db : Db) (n : Nat), DbOk db → DbOk (delKeys db ks n).1 := by
  intro ks
  induction ks with
  | nil => intro db n h; simpa [delKeys] using h
  | cons k r ih =>
    intro db n h
    unfold delKeys
    split
    · exact ih _ _ (DbOk_erase _ h)
    · exact ih _ _ h
theorem cmdDel_pres (db : Db) (args : List Bytes) : Pres (cmdDel db args) db := by
  unfold Pres cmdDel
  intro hdb
  split
  · exact hdb
  · exact delKeys_ok _ _ _ hdb
theorem cmdExists_pres (db : Db) (args : List Bytes) : Pres (cmdExists db args) db := by
  unfold Pres cmdExists; pres_basic
theorem cmdType_pres (db : Db) (args : List Bytes) : Pres (cmdType db args) db := by
  unfold Pres cmdType; pres_basic
theorem cmdRename_pres (db : Db) (nx : Bool) (args : List Bytes) : Pres (cmdRename db nx args) db := by
  unfold Pres cmdRename; pres_basic
theorem cmdKeys_pres (db : Db) (args : List Bytes) : Pres (cmdKeys db args) db := by
  unfold Pres cmdKeys; pres_basic
theorem cmdDbsize_pres (db : Db) (args : List Bytes) : Pres (cmdDbsize db args) db := by
  unfold Pres cmdDbsize; pres_basic
theorem cmdRandomkey_pres (db : Db) (args : List Bytes) (o : Option (List Bytes)) : Pres (cmdRandomkey db args o) db := by
  unfold Pres cmdRandomkey; pres_basic
theorem cmdExpire_pres (db : Db) (now u : Nat) (args : List Bytes) : Pres (cmdExpire db now u args) db := by
  unfold Pres cmdExpire; pres_basic
theorem cmdTtl_pres (db : Db) (now u : Nat) (args : List Bytes) : Pres (cmdTtl db now u args) db := by
  unfold Pres cmdTtl; pres_basic
theorem cmdPersist_pres (db : Db) (args : List Bytes) : Pres (cmdPersist db args) db := by
  unfold Pres cmdPersist; pres_basic

/-! ### lists -/

macro "putcoll_close" : tactic =>
  `(tactic| (first
      | assumption
      | (apply DbOk_putColl _ _ _ (by assumption) <;> simp [valPre]; done)))

theorem cmdPush_pres (db : Db) (l : Bool) (args : List Bytes) : Pres (cmdPush db l args) db := by
  unfold Pres cmdPush
  intro hdb
  repeat' split
  all_goals (try simp only [])
  all_goals first
    | exact hdb
    | (apply DbOk_insert _ _ hdb; simp only [valOk]; split <;> simp; done)
    | (apply DbOk_insert _ _ hdb; simp [valOk]; done)

theorem cmdPop_pres (db : Db) (l : Bool) (args : List Bytes) : Pres (cmdPop db l args) db := by
  unfold Pres cmdPop
  intro hdb
  repeat' split
  all_goals (try putcoll_close)
theorem cmdLlen_pres (db : Db) (args : List Bytes) : Pres (cmdLlen db args) db := by
  unfold Pres cmdLlen; pres_basic
theorem cmdLrange_pres (db : Db) (args : List Bytes) : Pres (cmdLrange db args) db := by
  unfold Pres cmdLrange; pres_basic
theorem cmdLindex_pres (db : Db) (args : List Bytes) : Pres (cmdLindex db args) db := by
  unfold Pres cmdLindex; pres_basic
theorem cmdLset_pres (db : Db) (args : List Bytes) : Pres (cmdLset db args) db := by
  unfold Pres cmdLset
  intro hdb
  repeat' split
  all_goals first
    | exact hdb
    | skip
  all_goals (
    rename_i hl _ _ _
    have hv := lookup_valOk hdb hl
    apply DbOk_insert _ _ hdb
    simp only [valOk] at hv ⊢
    intro hc
    apply hv
    have := congrArg List.length hc
    simpa using this)
theorem cmdLtrim_pres (db : Db) (args : List Bytes) : Pres (cmdLtrim db args) db := by
  unfold Pres cmdLtrim
  intro hdb
  repeat' split
  all_goals (try putcoll_close)
theorem cmdLrem_pres (db : Db) (args : List Bytes) : Pres (cmdLrem db args) db := by
  unfold Pres cmdLrem
  intro hdb
  repeat' split
  all_goals (try simp only [])
  all_goals (try putcoll_close)

/-! ### sets -/

theorem set_nodup {db : Db} {k : Bytes} {xs : List Bytes} {d : Option Nat} (hdb : DbOk db)
    (h : lookup db k = some ⟨.set xs, d⟩) : xs.Nodup := by
  have := lookup_valOk hdb h
  exact this.2

theorem cmdSadd_pres (db : Db) (args : List Bytes) : Pres (cmdSadd db args) db := by
  unfold Pres cmdSadd
  intro hdb
  repeat' split
  all_goals (try simp only [])
  all_goals first
    | exact hdb
    | (apply DbOk_insert _ _ hdb
       exact ⟨addAll_ne_nil _ _ (Or.inr (by simp)), addAll_nodup _ _ (by simp)⟩)
    | (rename_i hl
       apply DbOk_insert _ _ hdb
       exact ⟨addAll_ne_nil _ _ (Or.inr (by simp)), addAll_nodup _ _ (set_nodup hdb hl)⟩)

theorem cmdSrem_pres (db : Db) (args : List Bytes) : Pres (cmdSrem db args) db := by
  unfold Pres cmdSrem
  intro hdb
  repeat' split
  all_goals (try simp only [])
  all_goals first
    | exact hdb
    | (rename_i hl
       apply DbOk_putColl _ _ _ hdb
       · exact removeAll_nodup _ _ (set_nodup hdb hl)
       · simp)
theorem cmdSmembers_pres (db : Db) (args : List Bytes) : Pres (cmdSmembers db args) db := by
  unfold Pres cmdSmembers; pres_basic
theorem cmdSismember_pres (db : Db) (args : List Bytes) : Pres (cmdSismember db args) db := by
  unfold Pres cmdSismember; pres_basic
theorem cmdScard_pres (db : Db) (args : List Bytes) : Pres (cmdScard db args) db := by
  unfold Pres cmdScard; pres_basic
theorem cmdSetAlgebra_pres (db : Db) (op : SetOp) (args : List Bytes) : Pres (cmdSetAlgebra db op args) db := by
  unfold Pres cmdSetAlgebra; pres_basic
theorem cmdSpop_pres (db : Db) (args : List Bytes) (o : Option (List Bytes)) : Pres (cmdSpop db args o) db := by
  unfold Pres cmdSpop
  intro hdb
  simp only []
  repeat' split
  all_goals first
    | exact hdb
    | (apply DbOk_putColl _ _ _ hdb
       · exact List.Nodup.sublist List.filter_sublist (set_nodup hdb (by assumption))
       · simp)
theorem cmdSrandmember_pres (db : Db) (args : List Bytes) (o : Option (List Bytes)) : Pres (cmdSrandmember db args o) db := by
  unfold Pres cmdSrandmember; pres_basic

/-! ### hashes -/

theorem hash_nodup {db : Db} {k : Bytes} {fs : List (Bytes × Bytes)} {d : Option Nat} (hdb : DbOk db)
    (h : lookup db k = some ⟨.hash fs, d⟩) : (fs.map (·.1)).Nodup := by
  have := lookup_valOk hdb h
  exact this.2

theorem cmdHset_pres (db : Db) (m : Bool) (args : List Bytes) : Pres (cmdHset db m args) db := by
  unfold Pres cmdHset
  intro hdb
  split
  · rename_i k pairs
    split
    · exact hdb
    · rename_i hp
      have h2 : 2 ≤ pairs.length := by
        cases pairs with
        | nil => simp at hp
        | cons a t => cases t with
          | nil => simp at hp
          | cons b t' => simp
      split
      · simp only []
        apply DbOk_insert _ _ hdb
        exact ⟨hsetPairs_ne_nil _ _ _ (Or.inr h2), hsetPairs_nodup _ _ _ (by simp)⟩
      · rename_i hl
        simp only []
        apply DbOk_insert _ _ hdb
        exact ⟨hsetPairs_ne_nil _ _ _ (Or.inr h2), hsetPairs_nodup _ _ _ (hash_nodup hdb hl)⟩
      · exact hdb
  · exact hdb
theorem cmdHget_pres (db : Db) (args : List Bytes) : Pres (cmdHget db args) db := by
  unfold Pres cmdHget; pres_basic
theorem cmdHmget_pres (db : Db) (args : List Bytes) : Pres (cmdHmget db args) db := by
  unfold Pres cmdHmget; pres_basic
theorem cmdHall_pres (db : Db) (w : Nat) (args : List Bytes) : Pres (cmdHall db w args) db := by
  unfold Pres cmdHall; pres_basic
theorem cmdHdel_pres (db : Db) (args : List Bytes) : Pres (cmdHdel db args) db := by
  unfold Pres cmdHdel
  intro hdb
  repeat' split
  all_goals (try simp only [])
  all_goals first
    | exact hdb
    | (rename_i hl
       apply DbOk_putColl _ _ _ hdb
       · exact hdelFields_nodup _ _ _ (hash_nodup hdb hl)
       · simp)
theorem cmdHlen_pres (db : Db) (args : List Bytes) : Pres (cmdHlen db args) db := by
  unfold Pres cmdHlen; pres_basic
theorem cmdHexists_pres (db : Db) (args : List Bytes) : Pres (cmdHexists db args) db := by
  unfold Pres cmdHexists; pres_basic
theorem cmdHincrby_pres (db : Db) (args : List Bytes) : Pres (cmdHincrby db args) db := by
  unfold Pres cmdHincrby
  intro hdb
  repeat' split
  all_goals (try simp only [])
  all_goals (repeat' split)
  all_goals first
    | exact hdb
    | (apply DbOk_insert _ _ hdb
       exact ⟨hput_ne_nil _ _ _, hput_nodup _ _ _ (by simp)⟩)
    | (apply DbOk_insert _ _ hdb
       exact ⟨hput_ne_nil _ _ _, hput_nodup _ _ _ (hash_nodup hdb (by assumption))⟩)
theorem cmdZaddSetup_pres (db : Db) (args : List Bytes) : Pres (cmdZaddSetup db args) db := by
  unfold Pres cmdZaddSetup; pres_basic
theorem cmdXaddSetup_pres (db : Db) (args : List Bytes) : Pres (cmdXaddSetup db args) db := by
  unfold Pres cmdXaddSetup; pres_basic

theorem stepDb_pres (q : Quirks) (db : Db) (now : Nat) (name : String) (args : List Bytes) (obs : Option (List Bytes))
    (hdb : DbOk db) : DbOk (stepDb q db now name args obs).1 := by
  unfold stepDb
  split
  next => exact (cmdSet_pres db now args) hdb
  next => exact (cmdGet_pres db args) hdb
  next => exact (cmdMget_pres db args) hdb
  next => exact (cmdMset_pres db args) hdb
  next => exact (cmdGetset_pres db args) hdb
  next => exact (cmdSetnx_pres db args) hdb
  next => exact (cmdSetex_pres db now 1000 args) hdb
  next => exact (cmdSetex_pres db now 1 args) hdb
  next => exact (cmdAppend_pres db args) hdb
  next => exact (cmdStrlen_pres db args) hdb
  next => exact (cmdGetrange_pres db args) hdb
  next => exact (cmdSetrange_pres db args) hdb
  next => exact (cmdIncrDecr_pres db 1 args) hdb
  next => exact (cmdIncrDecr_pres db (-1) args) hdb
  next => exact (cmdIncrbyDecrby_pres db 1 args) hdb
  next => exact (cmdIncrbyDecrby_pres db (-1) args) hdb
  next => exact (cmdDel_pres db args) hdb
  next => exact (cmdExists_pres db args) hdb
  next => exact (cmdType_pres db args) hdb
  next => exact (cmdRename_pres db false args) hdb
  next => exact (cmdRename_pres db true args) hdb
  next => exact (cmdKeys_pres db args) hdb
  next => exact (cmdDbsize_pres db args) hdb
  next => exact (cmdRandomkey_pres db args obs) hdb
  next => split <;> first | exact hdb | (simp [DbOk]; done)
  next => exact (cmdExpire_pres db now 1000 args) hdb
  next => exact (cmdExpire_pres db now 1 args) hdb
  next => exact (cmdTtl_pres db now 1000 args) hdb
  next => exact (cmdTtl_pres db now 1 args) hdb
  next => exact (cmdPersist_pres db args) hdb
  next => exact (cmdPush_pres db true args) hdb
  next => exact (cmdPush_pres db false args) hdb
  next => exact (cmdPop_pres db true args) hdb
  next => exact (cmdPop_pres db false args) hdb
  next => exact (cmdLlen_pres db args) hdb
  next => exact (cmdLrange_pres db args) hdb
  next => exact (cmdLindex_pres db args) hdb
  next => exact (cmdLset_pres db args) hdb
  next => exact (cmdLtrim_pres db args) hdb
  next => exact (cmdLrem_pres db args) hdb
  next => exact (cmdSadd_pres db args) hdb
  next => exact (cmdSrem_pres db args) hdb
  next => exact (cmdSmembers_pres db args) hdb
  next => exact (cmdSismember_pres db args) hdb
  next => exact (cmdScard_pres db args) hdb
  next => exact (cmdSetAlgebra_pres db .union args) hdb
  next => exact (cmdSetAlgebra_pres db .inter args) hdb
  next => exact (cmdSetAlgebra_pres db .diff args) hdb
  next => exact (cmdSpop_pres db args obs) hdb
  next => exact (cmdSrandmember_pres db args obs) hdb
  next => exact (cmdHset_pres db false args) hdb
  next => exact (cmdHset_pres db true args) hdb
  next => exact (cmdHget_pres db args) hdb
  next => exact (cmdHmget_pres db args) hdb
  next => exact (cmdHall_pres db 0 args) hdb
  next => exact (cmdHall_pres db 1 args) hdb
  next => exact (cmdHall_pres db 2 args) hdb
  next => exact (cmdHdel_pres db args) hdb
  next => exact (cmdHlen_pres db args) hdb
  next => exact (cmdHexists_pres db args) hdb
  next => exact (cmdHincrby_pres db args) hdb
  next => exact (cmdZaddSetup_pres db args) hdb
  next => exact (cmdXaddSetup_pres db args) hdb
  next => exact hdb

def StoreOk (s : Store) : Prop := ∀ db ∈ s, DbOk db

theorem StoreOk_empty : StoreOk emptyStore := by
  intro db h
  simp [emptyStore] at h
  rw [h]
  simp [DbOk]

theorem getDb_ok {s : Store} (hs : StoreOk s) (i : Nat) : DbOk (getDb s i) := by
  unfold getDb
  by_cases h : i < s.length
  · simp [List.getD, h]
    exact hs _ (List.getElem_mem h)
  · simp [List.getD, h, DbOk]

theorem setDb_ok {s : Store} (hs : StoreOk s) (i : Nat) {db : Db} (hdb : DbOk db) : StoreOk (setDb s i db) := by
  intro d hd
  unfold setDb at hd
  rcases List.mem_or_eq_of_mem_set hd with h | h
  · exact hs d h
  · rw [h]; exact hdb

/-- Every command keeps every database well-formed: keys unique, set members and hash fields unique,
    no empty list/set/hash stored. -/
theorem step_pres (q : Quirks) (s : Store) (i now : Nat) (cmd : List Bytes) (obs : Option (List Bytes))
    (hs : StoreOk s) : StoreOk (step q s i now cmd obs).1 := by
  unfold step
  cases cmd with
  | nil => exact hs
  | cons n args =>
    simp only
    split
    · split
      · intro d hd
        simp at hd
        rw [hd.2]; simp [DbOk]
      · exact hs
    · exact setDb_ok hs i (stepDb_pres q _ now _ _ obs (DbOk_purge now (getDb_ok hs i)))

end Ferrous.KS
