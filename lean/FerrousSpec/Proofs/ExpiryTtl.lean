/-
  C02 helper lemmas (5): the reply arithmetic of TTL / PTTL.
-/
import FerrousSpec.Model.Expiry
set_option linter.unusedSimpArgs false
set_option linter.unusedVariables false
namespace Ferrous.Exp
open Ferrous

/-! ### The reply arithmetic of TTL / PTTL -/

/-- from one millisecond of remaining time on, `handle_ttl` answers the remaining time in seconds ROUNDED UP -/
theorem ttlOfRemaining_ceil (ns : Nat) (h : nsPerMs ≤ ns) : ttlOfRemaining ns = Spec.ttlSeconds ns := by
  unfold ttlOfRemaining Spec.ttlSeconds nsPerSec nsPerMs at *
  simp only []
  split
  · omega
  · split
    · omega
    · split <;> omega

/-- below one millisecond (and at zero) it answers −2 -/
theorem ttlOfRemaining_sub_ms (ns : Nat) (h : ns < nsPerMs) : ttlOfRemaining ns = -2 := by
  unfold ttlOfRemaining nsPerSec nsPerMs at *
  simp only []
  split
  · rfl
  · omega

theorem ttlOfRemaining_pos (ns : Nat) (h : nsPerMs ≤ ns) : 1 ≤ ttlOfRemaining ns := by
  rw [ttlOfRemaining_ceil ns h]
  unfold Spec.ttlSeconds nsPerSec nsPerMs at *
  omega

/-- on a whole number of milliseconds (Redis's clock) the code's TTL is Redis's `(ms + 500) / 1000`, plus one when the
    fractional part is below half a second: ⌈·⌉ against round-to-nearest -/
theorem ttl_vs_redis (ms : Nat) (h : 1 ≤ ms) :
    ttlOfRemaining (ms * nsPerMs) = Spec.redisTtl ms + (if 0 < ms % 1000 ∧ ms % 1000 < 500 then 1 else 0) := by
  rw [ttlOfRemaining_ceil _ (by unfold nsPerMs; omega)]
  unfold Spec.ttlSeconds Spec.redisTtl nsPerSec nsPerMs
  split <;> omega

/-- with the repaired first arm, TTL is the remaining time in seconds rounded up for EVERY positive remaining time -/
theorem ttlOfRemainingWith_fixed_ceil (ns : Nat) (h : 0 < ns) : ttlOfRemainingWith true ns = Spec.ttlSeconds ns := by
  unfold ttlOfRemainingWith Spec.ttlSeconds nsPerSec at *
  simp only [if_true]
  split
  · omega
  · split
    · omega
    · split <;> omega

theorem ttlOfRemainingWith_unfixed (ns : Nat) : ttlOfRemainingWith false ns = ttlOfRemaining ns := by
  simp [ttlOfRemainingWith]

end Ferrous.Exp
