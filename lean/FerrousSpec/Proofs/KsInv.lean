import FerrousSpec.Model.Keyspace
set_option linter.unusedSimpArgs false
set_option linter.unusedVariables false
namespace Ferrous.KS

/-! ## The typing / uniqueness / no-empty-collection invariant -/

/-- a stored value is well-formed: collections are non-empty, sets have no duplicate member,
    hashes no duplicate field -/
def valOk : Val → Prop
  | .list xs => xs ≠ []
  | .set xs => xs ≠ [] ∧ xs.Nodup
  | .hash fs => fs ≠ [] ∧ (fs.map (·.1)).Nodup
  | _ => True

/-- the same without non-emptiness (what `putColl` needs: it removes the key when the collection is empty) -/
def valPre : Val → Prop
  | .set xs => xs.Nodup
  | .hash fs => (fs.map (·.1)).Nodup
  | _ => True

def DbOk (db : Db) : Prop := (db.map (·.1)).Nodup ∧ ∀ p ∈ db, valOk p.2.val

theorem lookup_mem {db : Db} {k : Bytes} {e : Entry} (h : lookup db k = some e) : (k, e) ∈ db := by
  induction db with
  | nil => simp [lookup] at h
  | cons p t ih =>
    obtain ⟨k', e'⟩ := p
    unfold lookup at h
    split at h
    · rename_i hk; simp at h; subst hk; subst h; simp
    · simp [ih h]

theorem lookup_valOk {db : Db} {k : Bytes} {e : Entry} (hdb : DbOk db) (h : lookup db k = some e) : valOk e.val :=
  hdb.2 (k, e) (lookup_mem h)

theorem keys_insert (db : Db) (k : Bytes) (e : Entry) :
    ∀ x, x ∈ (insert db k e).map (·.1) ↔ x = k ∨ x ∈ db.map (·.1) := by
  induction db with
  | nil => intro x; simp [insert]
  | cons p t ih =>
    obtain ⟨k', e'⟩ := p
    intro x
    unfold insert
    split
    · rename_i hk; subst hk; simp
    · simp [ih x]; constructor
      · rintro (h | h | h) <;> simp [h]
      · rintro (h | h | h) <;> simp [h]

theorem DbOk_insert {db : Db} (k : Bytes) (e : Entry) (hdb : DbOk db) (he : valOk e.val) : DbOk (insert db k e) := by
  induction db with
  | nil => simp [insert, DbOk, he]
  | cons p t ih =>
    obtain ⟨k', e'⟩ := p
    have ht : DbOk t := ⟨(List.nodup_cons.mp hdb.1).2, fun q hq => hdb.2 q (List.mem_cons_of_mem _ hq)⟩
    unfold insert
    split
    · rename_i hk
      subst hk
      refine ⟨?_, ?_⟩
      · simpa using hdb.1
      · intro q hq
        simp at hq
        rcases hq with h | h
        · subst h; exact he
        · exact hdb.2 q (List.mem_cons_of_mem _ h)
    · rename_i hk
      have iht := ih ht
      refine ⟨?_, ?_⟩
      · simp only [List.map_cons, List.nodup_cons]
        refine ⟨?_, iht.1⟩
        intro hmem
        rcases (keys_insert t k e k').mp hmem with h | h
        · exact hk h
        · exact (List.nodup_cons.mp hdb.1).1 h
      · intro q hq
        simp at hq
        rcases hq with h | h
        · subst h; exact hdb.2 _ (List.mem_cons_self ..)
        · exact iht.2 q h

theorem erase_sub (db : Db) (k : Bytes) : ∀ p, p ∈ erase db k → p ∈ db := by
  induction db with
  | nil => intro p h; simp [erase] at h
  | cons q t ih =>
    obtain ⟨k', e'⟩ := q
    intro p h
    unfold erase at h
    split at h
    · exact List.mem_cons_of_mem _ h
    · simp at h
      rcases h with h | h
      · subst h; simp
      · exact List.mem_cons_of_mem _ (ih p h)

theorem DbOk_erase {db : Db} (k : Bytes) (hdb : DbOk db) : DbOk (erase db k) := by
  induction db with
  | nil => simpa [erase] using hdb
  | cons p t ih =>
    obtain ⟨k', e'⟩ := p
    have ht : DbOk t := ⟨(List.nodup_cons.mp hdb.1).2, fun q hq => hdb.2 q (List.mem_cons_of_mem _ hq)⟩
    unfold erase
    split
    · exact ht
    · have iht := ih ht
      refine ⟨?_, ?_⟩
      · simp only [List.map_cons, List.nodup_cons]
        refine ⟨?_, iht.1⟩
        intro hmem
        obtain ⟨q, hq, hqk⟩ := List.mem_map.mp hmem
        have := erase_sub t k q hq
        exact (List.nodup_cons.mp hdb.1).1 (List.mem_map.mpr ⟨q, this, hqk⟩)
      · intro q hq
        simp at hq
        rcases hq with h | h
        · subst h; exact hdb.2 _ (List.mem_cons_self ..)
        · exact iht.2 q h

theorem DbOk_putColl {db : Db} (k : Bytes) (old : Entry) (v : Val) (hdb : DbOk db) (hv : valPre v)
    (hstr : ∀ b, v ≠ .str b) : DbOk (putColl db k old v) := by
  unfold putColl
  cases v with
  | str b => exact absurd rfl (hstr b)
  | list xs =>
    cases xs with
    | nil => simpa using DbOk_erase k hdb
    | cons x t => simpa using DbOk_insert k _ hdb (by simp [valOk])
  | set xs =>
    cases xs with
    | nil => simpa using DbOk_erase k hdb
    | cons x t => simpa using DbOk_insert k _ hdb (by simpa [valOk, valPre] using hv)
  | hash fs =>
    cases fs with
    | nil => simpa using DbOk_erase k hdb
    | cons x t => simpa using DbOk_insert k _ hdb (by simpa [valOk, valPre] using hv)
  | zset zs => simpa using DbOk_insert k _ hdb (by simp [valOk])
  | stream n => simpa using DbOk_insert k _ hdb (by simp [valOk])

theorem DbOk_purge (now : Nat) {db : Db} (hdb : DbOk db) : DbOk (purge now db) := by
  unfold purge
  refine ⟨?_, fun p hp => hdb.2 p (List.mem_filter.mp hp).1⟩
  exact List.Nodup.sublist (List.Sublist.map _ List.filter_sublist) hdb.1

/-! ### Set and hash helpers keep members / fields unique -/

theorem contains_iff (s : List Bytes) (m : Bytes) : s.contains m = true ↔ m ∈ s := by
  simp

theorem addAll_nodup : ∀ (ms s : List Bytes), s.Nodup → (addAll s ms).1.Nodup := by
  intro ms
  induction ms with
  | nil => intro s h; simpa [addAll] using h
  | cons m r ih =>
    intro s h
    unfold addAll
    split
    · exact ih s h
    · rename_i hc
      simp only
      apply ih
      rw [List.nodup_append]
      refine ⟨h, by simp, ?_⟩
      intro a ha b hb
      simp at hb
      subst hb
      intro hab
      subst hab
      simp at hc
      exact hc ha

theorem addAll_ne_nil : ∀ (ms s : List Bytes), (s ≠ [] ∨ ms ≠ []) → (addAll s ms).1 ≠ [] := by
  intro ms
  induction ms with
  | nil => intro s h; simpa [addAll] using h
  | cons m r ih =>
    intro s h
    unfold addAll
    split
    · rename_i hc
      apply ih
      left
      intro hs; subst hs; simp at hc
    · simp only
      apply ih
      left; simp

theorem removeAll_nodup : ∀ (ms s : List Bytes), s.Nodup → (removeAll s ms).1.Nodup := by
  intro ms
  induction ms with
  | nil => intro s h; simpa [removeAll] using h
  | cons m r ih =>
    intro s h
    unfold removeAll
    split
    · simp only
      exact ih _ (List.Nodup.sublist List.filter_sublist h)
    · exact ih s h

theorem hput_keys (fs : List (Bytes × Bytes)) (f v : Bytes) :
    ∀ x, x ∈ (hput fs f v).map (·.1) ↔ x = f ∨ x ∈ fs.map (·.1) := by
  induction fs with
  | nil => intro x; simp [hput]
  | cons p t ih =>
    obtain ⟨f', v'⟩ := p
    intro x
    unfold hput
    split
    · rename_i hk; subst hk; simp
    · simp [ih x]; constructor
      · rintro (h | h | h) <;> simp [h]
      · rintro (h | h | h) <;> simp [h]

theorem hput_nodup (fs : List (Bytes × Bytes)) (f v : Bytes) (h : (fs.map (·.1)).Nodup) :
    ((hput fs f v).map (·.1)).Nodup := by
  induction fs with
  | nil => simp [hput]
  | cons p t ih =>
    obtain ⟨f', v'⟩ := p
    unfold hput
    split
    · rename_i hk; subst hk; simpa using h
    · rename_i hk
      simp only [List.map_cons, List.nodup_cons] at h ⊢
      refine ⟨?_, ih h.2⟩
      intro hmem
      rcases (hput_keys t f v f').mp hmem with h1 | h1
      · exact hk h1
      · exact h.1 h1

theorem hput_ne_nil (fs : List (Bytes × Bytes)) (f v : Bytes) : hput fs f v ≠ [] := by
  cases fs with
  | nil => simp [hput]
  | cons p t => obtain ⟨f', v'⟩ := p; unfold hput; split <;> simp

theorem hsetPairs_nodup (fs : List (Bytes × Bytes)) (ps : List Bytes) (n : Nat)
    (h : (fs.map (·.1)).Nodup) : ((hsetPairs fs ps n).1.map (·.1)).Nodup := by
  fun_induction hsetPairs fs ps n with
  | case1 fs f v r n hc ih => exact ih (hput_nodup fs f v h)
  | case2 fs f v r n hc ih => exact ih (hput_nodup fs f v h)
  | case3 fs ps n hne => exact h

theorem hsetPairs_ne_nil_aux : ∀ (k : Nat) (fs : List (Bytes × Bytes)) (ps : List Bytes) (n : Nat),
    ps.length ≤ k → (fs ≠ [] ∨ 2 ≤ ps.length) → (hsetPairs fs ps n).1 ≠ [] := by
  intro k
  induction k with
  | zero =>
    intro fs ps n hk h
    have : ps = [] := by cases ps <;> simp at hk ⊢
    subst this
    rcases h with h | h
    · simpa [hsetPairs] using h
    · simp at h
  | succ k ih =>
    intro fs ps n hk h
    match ps, hk, h with
    | [], _, h =>
      rcases h with h | h
      · simpa [hsetPairs] using h
      · simp at h
    | [x], _, h =>
      rcases h with h | h
      · simpa [hsetPairs] using h
      · simp at h
    | f :: v :: r, hk, _ =>
      unfold hsetPairs
      split
      · exact ih _ r _ (by simp at hk; omega) (Or.inl (hput_ne_nil fs f v))
      · exact ih _ r _ (by simp at hk; omega) (Or.inl (hput_ne_nil fs f v))

theorem hsetPairs_ne_nil (fs : List (Bytes × Bytes)) (ps : List Bytes) (n : Nat)
    (h : fs ≠ [] ∨ 2 ≤ ps.length) : (hsetPairs fs ps n).1 ≠ [] :=
  hsetPairs_ne_nil_aux ps.length fs ps n (Nat.le_refl _) h

theorem hdelFields_nodup (fs : List (Bytes × Bytes)) (ds : List Bytes) (n : Nat)
    (h : (fs.map (·.1)).Nodup) : ((hdelFields fs ds n).1.map (·.1)).Nodup := by
  fun_induction hdelFields fs ds n with
  | case1 fs n => exact h
  | case2 fs f r n hc ih =>
    exact ih (List.Nodup.sublist (List.Sublist.map _ List.filter_sublist) h)
  | case3 fs f r n hc ih => exact ih h

end Ferrous.KS
