/-
  Blocking pops — list primitives, field lemmas of the state primitives and the unconditional
  accounting invariant `pushed ~ delivered ++ lost ++ store` (every event, every quirk setting).
-/
import FerrousSpec.Model.Blocking
namespace Ferrous.Blk

/-! ## popFirst / popLast / popElem -/

theorem popFirst_some {α : Type} {p : α → Bool} : ∀ {l : List α} {x : α} {l' : List α},
    popFirst p l = some (x, l') →
    ∃ a b, l = a ++ x :: b ∧ l' = a ++ b ∧ p x = true ∧ ∀ y ∈ a, p y = false := by
  intro l
  induction l with
  | nil => intro x l' h; simp [popFirst] at h
  | cons z r ih =>
    intro x l' h
    unfold popFirst at h
    by_cases hz : p z = true
    · simp only [hz, if_true, Option.some.injEq, Prod.mk.injEq] at h
      obtain ⟨rfl, rfl⟩ := h
      exact ⟨[], r, rfl, rfl, hz, by simp⟩
    · simp only [hz] at h
      cases hr : popFirst p r with
      | none => simp [hr] at h
      | some yr =>
        obtain ⟨y, r'⟩ := yr
        simp only [hr] at h
        obtain ⟨rfl, rfl⟩ := h
        obtain ⟨a, b, h1, h2, h3, h4⟩ := ih hr
        refine ⟨z :: a, b, by simp [h1], by simp [h2], h3, ?_⟩
        intro w hw
        cases hw with
        | head => simpa using hz
        | tail _ hw' => exact h4 w hw'

theorem popFirst_none {α : Type} {p : α → Bool} : ∀ {l : List α},
    popFirst p l = none → ∀ y ∈ l, p y = false := by
  intro l
  induction l with
  | nil => intro _ y hy; cases hy
  | cons z r ih =>
    intro h y hy
    unfold popFirst at h
    by_cases hz : p z = true
    · simp [hz] at h
    · simp only [hz] at h
      cases hr : popFirst p r with
      | some yr => simp [hr] at h
      | none =>
        cases hy with
        | head => simpa using hz
        | tail _ hy' => exact ih hr y hy'

theorem popLast_some {α : Type} {p : α → Bool} {l : List α} {x : α} {l' : List α}
    (h : popLast p l = some (x, l')) :
    ∃ a b, l = a ++ x :: b ∧ l' = a ++ b ∧ p x = true ∧ ∀ y ∈ b, p y = false := by
  unfold popLast at h
  cases hr : popFirst p l.reverse with
  | none => simp [hr] at h
  | some yr =>
    obtain ⟨y, r⟩ := yr
    simp only [hr, Option.some.injEq, Prod.mk.injEq] at h
    obtain ⟨rfl, rfl⟩ := h
    obtain ⟨a, b, h1, h2, h3, h4⟩ := popFirst_some hr
    refine ⟨b.reverse, a.reverse, ?_, ?_, h3, ?_⟩
    · have := congrArg List.reverse h1
      simpa using this
    · simp [h2]
    · intro w hw; exact h4 w (by simpa using hw)

theorem popLast_none {α : Type} {p : α → Bool} {l : List α}
    (h : popLast p l = none) : ∀ y ∈ l, p y = false := by
  unfold popLast at h
  cases hr : popFirst p l.reverse with
  | some yr => simp [hr] at h
  | none =>
    intro y hy
    exact popFirst_none hr y (by simpa using hy)

theorem keyIs_iff {α : Type} {k : Key} {e : Key × α} : keyIs k e = true ↔ e.1 = k := by
  simp [keyIs]

theorem keyIs_false_iff {α : Type} {k : Key} {e : Key × α} : keyIs k e = false ↔ e.1 ≠ k := by
  simp [keyIs]

/-- A successful pop takes one entry of key `k` out of the store and leaves the rest in place. -/
theorem popElem_some {op : Op} {k : Key} {st st' : List (Key × Elem)} {e : Key × Elem}
    (h : popElem op k st = some (e, st')) :
    ∃ a b, st = a ++ e :: b ∧ st' = a ++ b ∧ e.1 = k := by
  cases op with
  | left =>
    obtain ⟨a, b, h1, h2, h3, _⟩ := popFirst_some (p := keyIs k) h
    exact ⟨a, b, h1, h2, keyIs_iff.mp h3⟩
  | right =>
    obtain ⟨a, b, h1, h2, h3, _⟩ := popLast_some (p := keyIs k) h
    exact ⟨a, b, h1, h2, keyIs_iff.mp h3⟩

theorem popElem_none {op : Op} {k : Key} {st : List (Key × Elem)}
    (h : popElem op k st = none) : ∀ y ∈ st, y.1 ≠ k := by
  intro y hy
  cases op with
  | left => exact keyIs_false_iff.mp (popFirst_none (p := keyIs k) h y hy)
  | right => exact keyIs_false_iff.mp (popLast_none (p := keyIs k) h y hy)

theorem popElem_perm {op : Op} {k : Key} {st st' : List (Key × Elem)} {e : Key × Elem}
    (h : popElem op k st = some (e, st')) : st.Perm (e :: st') := by
  obtain ⟨a, b, rfl, rfl, _⟩ := popElem_some h
  exact List.perm_middle

theorem firstNonEmpty_some {op : Op} {st st' : List (Key × Elem)} {e : Key × Elem} :
    ∀ {keys : List Key}, firstNonEmpty op st keys = some (e, st') →
      ∃ k, k ∈ keys ∧ popElem op k st = some (e, st') := by
  intro keys
  induction keys with
  | nil => intro h; simp [firstNonEmpty] at h
  | cons k ks ih =>
    intro h
    unfold firstNonEmpty at h
    cases hp : popElem op k st with
    | some r =>
      simp only [hp, Option.some.injEq] at h
      subst h
      exact ⟨k, by simp, hp⟩
    | none =>
      simp only [hp] at h
      obtain ⟨k', hk', h'⟩ := ih h
      exact ⟨k', by simp [hk'], h'⟩

theorem firstNonEmpty_none {op : Op} {st : List (Key × Elem)} :
    ∀ {keys : List Key}, firstNonEmpty op st keys = none → ∀ k ∈ keys, popElem op k st = none := by
  intro keys
  induction keys with
  | nil => intro _ k hk; cases hk
  | cons k ks ih =>
    intro h k' hk'
    unfold firstNonEmpty at h
    cases hp : popElem op k st with
    | some r => simp [hp] at h
    | none =>
      simp only [hp] at h
      cases hk' with
      | head => exact hp
      | tail _ hk'' => exact ih h k' hk''

/-! ## Field lemmas -/

@[simp] theorem setConn_store (s : State) (c : Conn) (f) : (setConn s c f).store = s.store := rfl
@[simp] theorem setConn_registry (s : State) (c : Conn) (f) : (setConn s c f).registry = s.registry := rfl
@[simp] theorem setConn_wakeQ (s : State) (c : Conn) (f) : (setConn s c f).wakeQ = s.wakeQ := rfl
@[simp] theorem setConn_out (s : State) (c : Conn) (f) : (setConn s c f).out = s.out := rfl
@[simp] theorem setConn_pushed (s : State) (c : Conn) (f) : (setConn s c f).pushed = s.pushed := rfl
@[simp] theorem setConn_lost (s : State) (c : Conn) (f) : (setConn s c f).lost = s.lost := rfl
theorem setConn_conns (s : State) (c : Conn) (f) (c' : Conn) :
    (setConn s c f).conns c' = if c' = c then f (s.conns c') else s.conns c' := rfl

@[simp] theorem setBlocked_store (s : State) (c : Conn) (b) : (setBlocked s c b).store = s.store := by
  unfold setBlocked; split <;> rfl
@[simp] theorem setBlocked_registry (s : State) (c : Conn) (b) : (setBlocked s c b).registry = s.registry := by
  unfold setBlocked; split <;> rfl
@[simp] theorem setBlocked_wakeQ (s : State) (c : Conn) (b) : (setBlocked s c b).wakeQ = s.wakeQ := by
  unfold setBlocked; split <;> rfl
@[simp] theorem setBlocked_out (s : State) (c : Conn) (b) : (setBlocked s c b).out = s.out := by
  unfold setBlocked; split <;> rfl
@[simp] theorem setBlocked_pushed (s : State) (c : Conn) (b) : (setBlocked s c b).pushed = s.pushed := by
  unfold setBlocked; split <;> rfl
@[simp] theorem setBlocked_lost (s : State) (c : Conn) (b) : (setBlocked s c b).lost = s.lost := by
  unfold setBlocked; split <;> rfl

@[simp] theorem emit_store (s : State) (c : Conn) (r) : (emit s c r).store = s.store := by
  unfold emit; split
  · split <;> rfl
  · rfl
@[simp] theorem emit_registry (s : State) (c : Conn) (r) : (emit s c r).registry = s.registry := by
  unfold emit; split
  · split <;> rfl
  · rfl
@[simp] theorem emit_wakeQ (s : State) (c : Conn) (r) : (emit s c r).wakeQ = s.wakeQ := by
  unfold emit; split
  · split <;> rfl
  · rfl
@[simp] theorem emit_conns (s : State) (c : Conn) (r) : (emit s c r).conns = s.conns := by
  unfold emit; split
  · split <;> rfl
  · rfl
@[simp] theorem emit_pushed (s : State) (c : Conn) (r) : (emit s c r).pushed = s.pushed := by
  unfold emit; split
  · split <;> rfl
  · rfl

@[simp] theorem notify_store (k : Key) (s : State) : (notify k s).store = s.store := by
  unfold notify; split <;> rfl
@[simp] theorem notify_out (k : Key) (s : State) : (notify k s).out = s.out := by
  unfold notify; split <;> rfl
@[simp] theorem notify_pushed (k : Key) (s : State) : (notify k s).pushed = s.pushed := by
  unfold notify; split <;> rfl
@[simp] theorem notify_lost (k : Key) (s : State) : (notify k s).lost = s.lost := by
  unfold notify; split <;> rfl
@[simp] theorem notify_conns (k : Key) (s : State) : (notify k s).conns = s.conns := by
  unfold notify; split <;> rfl

@[simp] theorem notifyN_store (n : Nat) (k : Key) (s : State) : (notifyN n k s).store = s.store := by
  induction n generalizing s with
  | zero => rfl
  | succ n ih => simp [notifyN, ih]
@[simp] theorem notifyN_out (n : Nat) (k : Key) (s : State) : (notifyN n k s).out = s.out := by
  induction n generalizing s with
  | zero => rfl
  | succ n ih => simp [notifyN, ih]
@[simp] theorem notifyN_pushed (n : Nat) (k : Key) (s : State) : (notifyN n k s).pushed = s.pushed := by
  induction n generalizing s with
  | zero => rfl
  | succ n ih => simp [notifyN, ih]
@[simp] theorem notifyN_lost (n : Nat) (k : Key) (s : State) : (notifyN n k s).lost = s.lost := by
  induction n generalizing s with
  | zero => rfl
  | succ n ih => simp [notifyN, ih]
@[simp] theorem notifyN_conns (n : Nat) (k : Key) (s : State) : (notifyN n k s).conns = s.conns := by
  induction n generalizing s with
  | zero => rfl
  | succ n ih => simp [notifyN, ih]

/-! ## Accounting: `pushed ~ delivered ++ lost ++ store`, unconditionally -/

/-- Everything that has left a list (handed to a live client, or lost) followed by what is still stored. -/
def total (s : State) : List (Key × Elem) := delivered s ++ s.lost ++ s.store

def Acc (s : State) : Prop := s.pushed.Perm (total s)

theorem total_congr {s t : State} (h1 : t.out = s.out) (h2 : t.lost = s.lost) (h3 : t.store = s.store) :
    total t = total s := by
  simp [total, delivered, h1, h2, h3]

theorem Acc_congr {s t : State} (h0 : t.pushed = s.pushed) (h1 : t.out = s.out) (h2 : t.lost = s.lost)
    (h3 : t.store = s.store) : Acc s → Acc t := by
  intro h; unfold Acc; rw [h0, total_congr h1 h2 h3]; exact h

/-- Emitting a value that carries no element does not move the accounts. -/
theorem total_emit_none {s : State} {c : Conn} {r : Reply} (hr : r.elem? = none) :
    total (emit s c r) = total s := by
  unfold emit
  split
  · simp [hr]
  · simp [total, delivered, List.filterMap_append, hr]

/-- Emitting an element moves it from wherever it was to `delivered` or to `lost`. -/
theorem total_emit_some {s : State} {c : Conn} {r : Reply} {e : Key × Elem} (hr : r.elem? = some e) :
    (total (emit s c r)).Perm (e :: total s) := by
  unfold emit
  split
  · simp only [hr, total]
    -- delivered ++ (lost ++ [e]) ++ store
    have : (delivered s ++ (s.lost ++ [e]) ++ s.store) = (delivered s ++ s.lost) ++ e :: s.store := by simp
    show (delivered s ++ (s.lost ++ [e]) ++ s.store).Perm (e :: (delivered s ++ s.lost ++ s.store))
    rw [this]
    exact List.perm_middle
  · simp only [total, delivered, List.filterMap_append, List.filterMap_cons, hr, List.filterMap_nil]
    have : (List.filterMap (fun x => x.2.elem?) s.out ++ [e] ++ s.lost ++ s.store)
        = List.filterMap (fun x => x.2.elem?) s.out ++ e :: (s.lost ++ s.store) := by simp
    rw [this]
    have h2 : (List.filterMap (fun x => x.2.elem?) s.out ++ s.lost ++ s.store)
        = List.filterMap (fun x => x.2.elem?) s.out ++ (s.lost ++ s.store) := by simp
    rw [h2]
    exact List.perm_middle

theorem Acc_emit_none {s : State} {c : Conn} {r : Reply} (hr : r.elem? = none) (h : Acc s) :
    Acc (emit s c r) := by
  unfold Acc; rw [emit_pushed, total_emit_none hr]; exact h

/-- Popping `e` from the store and emitting it keeps the accounts. -/
theorem Acc_pop_emit {s : State} {c : Conn} {r : Reply} {e : Key × Elem} {st' : List (Key × Elem)}
    (hr : r.elem? = some e) (hp : s.store.Perm (e :: st')) (h : Acc s) :
    Acc (emit { s with store := st' } c r) := by
  unfold Acc
  rw [emit_pushed]
  refine h.trans ?_
  refine List.Perm.trans ?_ (total_emit_some hr).symm
  show (delivered s ++ s.lost ++ s.store).Perm (e :: (delivered s ++ s.lost ++ st'))
  exact (List.Perm.append_left _ hp).trans List.perm_middle

theorem Acc_pop_lost {s : State} {e : Key × Elem} {st' : List (Key × Elem)}
    (hp : s.store.Perm (e :: st')) (h : Acc s) :
    Acc { s with store := st', lost := s.lost ++ [e] } := by
  unfold Acc
  refine h.trans ?_
  show (delivered s ++ s.lost ++ s.store).Perm (delivered s ++ (s.lost ++ [e]) ++ st')
  have : (delivered s ++ (s.lost ++ [e]) ++ st') = (delivered s ++ s.lost) ++ e :: st' := by simp
  rw [this]
  exact List.Perm.append_left _ hp

theorem pushElems_perm (op : Op) (k : Key) (vs : List Elem) (st : List (Key × Elem)) :
    (pushElems op k vs st).Perm (st ++ vs.map fun v => (k, v)) := by
  cases op with
  | left =>
    show ((vs.reverse.map fun v => (k, v)) ++ st).Perm _
    refine List.perm_append_comm.trans (List.Perm.append_left _ ?_)
    rw [List.map_reverse]
    exact List.reverse_perm _
  | right => exact List.Perm.refl _

theorem Acc_setBlocked {s : State} {c : Conn} {b} (h : Acc s) : Acc (setBlocked s c b) :=
  Acc_congr (by simp) (by simp) (by simp) (by simp) h

theorem Acc_notify (k : Key) (s : State) (h : Acc s) : Acc (notify k s) :=
  Acc_congr (notify_pushed _ _) (notify_out _ _) (notify_lost _ _) (notify_store _ _) h

theorem Acc_wakeOne (q : Quirks) (s : State) (h : Acc s) : Acc (wakeOne q s) := by
  unfold wakeOne
  split
  · exact h
  · next w rest hw =>
    simp only []
    split
    · split
      · exact Acc_notify _ _ (Acc_congr (s := s) rfl rfl rfl rfl h)
      · exact Acc_congr (s := s) rfl rfl rfl rfl h
    split
    · have hd : Acc { (setBlocked { s with wakeQ := rest } w.conn none) with
          registry := (setBlocked { s with wakeQ := rest } w.conn none).registry.filter fun x => x.2.conn != w.conn } :=
        Acc_congr (s := s) (by simp) (by simp) (by simp) (by simp) h
      split
      · exact Acc_notify _ _ hd
      · exact hd
    split
    · exact Acc_congr (s := s) rfl rfl rfl rfl h
    · next e st' hp =>
      have hperm : s.store.Perm (e :: st') := popElem_perm hp
      split
      · have h1 : Acc (setBlocked (emit { s with wakeQ := rest, store := st' } w.conn (.pair e.1 e.2)) w.conn none) := by
          apply Acc_setBlocked
          exact Acc_pop_emit (s := { s with wakeQ := rest }) rfl hperm (Acc_congr (s := s) rfl rfl rfl rfl h)
        split
        · exact Acc_congr (by simp) (by simp) (by simp) (by simp) h1
        · exact h1
      · exact Acc_pop_lost (s := { s with wakeQ := rest }) hperm (Acc_congr (s := s) rfl rfl rfl rfl h)

theorem Acc_iter {f : State → State} (hf : ∀ s, Acc s → Acc (f s)) : ∀ n s, Acc s → Acc (iter f n s) := by
  intro n
  induction n with
  | zero => intro s h; exact h
  | succ n ih => intro s h; exact ih _ (hf s h)

theorem Acc_drain (q : Quirks) (s : State) (h : Acc s) : Acc (drain q s) := by
  unfold drain
  split
  · exact Acc_iter (Acc_wakeOne q) _ _ h
  · exact h

theorem Acc_dataCore (q : Quirks) (now : Nat) (c cid : Conn) (s : State) (cmd : Cmd) (h : Acc s) :
    Acc (dataCore q now c cid s cmd) := by
  cases cmd with
  | push op k vs =>
    simp only [dataCore]
    split
    · exact Acc_emit_none rfl h
    · have h2 : Acc (emit { s with store := pushElems op k vs s.store, pushed := (s.pushed ++ vs.map fun v => (k, v)) } c
          (.int (listOf (pushElems op k vs s.store) k).length)) := by
        apply Acc_emit_none rfl
        unfold Acc
        show (s.pushed ++ vs.map fun v => (k, v)).Perm (delivered s ++ s.lost ++ pushElems op k vs s.store)
        refine (List.Perm.append_right _ h).trans ?_
        show (delivered s ++ s.lost ++ s.store ++ vs.map fun v => (k, v)).Perm _
        rw [List.append_assoc (delivered s ++ s.lost)]
        exact List.Perm.append_left _ (pushElems_perm op k vs s.store).symm
      split
      · exact h2
      · exact Acc_congr (notifyN_pushed _ _ _) (notifyN_out _ _ _) (notifyN_lost _ _ _) (notifyN_store _ _ _) h2
  | pop op k =>
    simp only [dataCore]
    split
    · next e st' hp => exact Acc_pop_emit rfl (popElem_perm hp) h
    · exact Acc_emit_none rfl h
  | bpop op keys t =>
    simp only [dataCore]
    split
    · exact Acc_emit_none rfl h
    · split
      · next e st' hp =>
        obtain ⟨k, _, hp'⟩ := firstNonEmpty_some hp
        exact Acc_pop_emit rfl (popElem_perm hp') h
      · split
        · exact Acc_emit_none rfl h
        · exact Acc_setBlocked (Acc_congr (s := s) rfl rfl rfl rfl h)
  | multi => exact h
  | exec => exact h

theorem Acc_dataCmd (q : Quirks) (now : Nat) (c cid : Conn) (s : State) (cmd : Cmd) (h : Acc s) :
    Acc (dataCmd q now c cid s cmd) := by
  unfold dataCmd
  exact Acc_drain q _ (Acc_dataCore q now c cid s cmd h)

theorem Acc_serveKey (q : Quirks) (k : Key) : ∀ n s, Acc s → Acc (serveKey q k n s) := by
  intro n
  induction n with
  | zero => intro s h; exact h
  | succ n ih =>
    intro s h
    simp only [serveKey]
    split
    · split
      · exact ih _ (Acc_iter (Acc_wakeOne q) _ _ (Acc_notify k s h))
      · exact ih _ (Acc_wakeOne q _ (Acc_notify k s h))
    · exact h

theorem Acc_serveKeys (q : Quirks) (ks : List Key) : ∀ s, Acc s → Acc (serveKeys q ks s) := by
  unfold serveKeys
  induction ks with
  | nil => intro s h; exact h
  | cons k r ih => intro s h; exact ih _ (Acc_serveKey q k _ s h)

theorem Acc_foldl_dataCmd (q : Quirks) (now : Nat) (c cid : Conn) (cmds : List Cmd) :
    ∀ s, Acc s → Acc (cmds.foldl (dataCmd q now c cid) s) := by
  induction cmds with
  | nil => intro s h; exact h
  | cons cmd r ih => intro s h; exact ih _ (Acc_dataCmd q now c cid s cmd h)

theorem Acc_setConn {s : State} {c : Conn} {f} (h : Acc s) : Acc (setConn s c f) :=
  Acc_congr rfl rfl rfl rfl h

theorem Acc_topCmd (q : Quirks) (now : Nat) (c : Conn) (s : State) (cmd : Cmd) (h : Acc s) :
    Acc (topCmd q now c s cmd) := by
  cases cmd with
  | multi =>
    simp only [topCmd]; split
    · exact Acc_emit_none rfl h
    · exact Acc_emit_none rfl (Acc_setConn h)
  | exec =>
    simp only [topCmd]; split
    · have h2 := Acc_foldl_dataCmd q now c 0 (s.conns c).queue _ (Acc_emit_none (c := c) (r := .arrHdr (s.conns c).queue.length) rfl
        (Acc_setConn (c := c) (f := fun cs => { cs with inTx := false, queue := [] }) h))
      split
      · exact Acc_serveKeys q _ _ h2
      · exact h2
    · exact Acc_emit_none rfl h
  | push op k vs =>
    simp only [topCmd]; split
    · exact Acc_emit_none rfl (Acc_setConn h)
    · exact Acc_dataCmd q now c c s _ h
  | pop op k =>
    simp only [topCmd]; split
    · exact Acc_emit_none rfl (Acc_setConn h)
    · exact Acc_dataCmd q now c c s _ h
  | bpop op keys t =>
    simp only [topCmd]; split
    · exact Acc_emit_none rfl (Acc_setConn h)
    · exact Acc_dataCmd q now c c s _ h

theorem Acc_runBatch (q : Quirks) (now : Nat) (c : Conn) (cmds : List Cmd) :
    ∀ s, Acc s → Acc (runBatch q now c cmds s) := by
  induction cmds with
  | nil => intro s h; exact h
  | cons cmd r ih =>
    intro s h
    simp only [runBatch]
    split
    · exact Acc_setConn (Acc_topCmd q now c s cmd h)
    · exact ih _ (Acc_topCmd q now c s cmd h)

theorem Acc_timeoutConn (s : State) (c : Conn) (h : Acc s) : Acc (timeoutConn s c) := by
  unfold timeoutConn
  split
  · exact Acc_setBlocked (Acc_emit_none rfl h)
  · exact h

theorem Acc_expireOne (now : Nat) (s : State) (h : Acc s) : Acc (expireOne now s) := by
  unfold expireOne
  split
  · exact h
  · exact Acc_timeoutConn _ _ (Acc_congr (s := s) rfl rfl rfl rfl h)

theorem Acc_step (q : Quirks) (s : State) (e : Event) (h : Acc s) : Acc (step q s e) := by
  cases e with
  | wakeups => exact Acc_iter (Acc_wakeOne q) _ _ h
  | conn c now cmds =>
    simp only [step]
    split
    · exact Acc_runBatch q now c _ _ (Acc_setConn h)
    · split
      · exact Acc_runBatch q now c _ _ (Acc_setConn h)
      · exact h
  | timeouts now => exact Acc_iter (Acc_expireOne now) _ _ h
  | hangup c =>
    simp only [step]; split
    · exact Acc_setConn h
    · exact h
  | reap c =>
    simp only [step]; split
    · exact Acc_congr (s := s) rfl rfl rfl rfl h
    · exact h
  | kill c =>
    simp only [step]; split
    · exact Acc_setConn h
    · exact h
  | hangupDirty c =>
    simp only [step]; split
    · exact Acc_setConn h
    · exact h

theorem Acc_runFrom (q : Quirks) (evs : List Event) : ∀ s, Acc s → Acc (runFrom q s evs) := by
  induction evs with
  | nil => intro s h; exact h
  | cons e r ih => intro s h; exact ih _ (Acc_step q s e h)

theorem Acc_init : Acc init := by
  show List.Perm [] []
  exact List.Perm.refl _

end Ferrous.Blk
