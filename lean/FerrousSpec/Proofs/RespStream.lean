import FerrousSpec.Proofs.RespParse
set_option linter.unusedSimpArgs false
set_option linter.unusedVariables false
namespace Ferrous

/-! ## dropWhile facts -/

theorem dropWhile_idem (p : Nat → Bool) (l : Bytes) : (l.dropWhile p).dropWhile p = l.dropWhile p := by
  induction l with
  | nil => rfl
  | cons a t ih =>
    by_cases h : p a
    · simp [List.dropWhile_cons, h, ih]
    · simp [List.dropWhile_cons, h]

theorem dropWhile_append_norm (p : Nat → Bool) (x X : Bytes) :
    (x ++ X).dropWhile p = (x.dropWhile p ++ X).dropWhile p := by
  induction x with
  | nil => rfl
  | cons a t ih =>
    by_cases h : p a
    · simp [List.dropWhile_cons, h, ih]
    · simp [List.dropWhile_cons, h]

theorem dropWhile_sub (p q : Nat → Bool) (hpq : ∀ a, q a = true → p a = true) (l : Bytes) :
    (l.dropWhile q).dropWhile p = l.dropWhile p := by
  induction l with
  | nil => rfl
  | cons a t ih =>
    by_cases h : q a
    · simp [List.dropWhile_cons, h, hpq a h, ih]
    · simp [List.dropWhile_cons, h]

theorem dropWhile_length_le (p : Nat → Bool) (l : Bytes) : (l.dropWhile p).length ≤ l.length := by
  induction l with
  | nil => simp
  | cons a t ih =>
    by_cases h : p a
    · simp [List.dropWhile_cons, h]; omega
    · simp [List.dropWhile_cons, h]

theorem dropWhile_append_of_ne_nil (p : Nat → Bool) (x X : Bytes) (h : x.dropWhile p ≠ []) :
    (x ++ X).dropWhile p = x.dropWhile p ++ X := by
  induction x with
  | nil => simp at h
  | cons a t ih =>
    by_cases hp : p a
    · simp [List.dropWhile_cons, hp] at h ⊢; exact ih h
    · simp [List.dropWhile_cons, hp]

theorem isNl_sub : ∀ a, isNl a = true → isWs a = true := by
  intro a h; simp [isNl, isWs] at *; omega
theorem isSpNl_sub : ∀ a, isSpNl a = true → isWs a = true := by
  intro a h; simp [isSpNl, isWs] at *; omega

/-! ## one call of `RespParser::parse` -/

theorem parserParse_ws (pf : Bool) (buf : Bytes) : parserParse pf buf = parserParse pf (buf.dropWhile isWs) := by
  unfold parserParse
  simp only [dropWhile_idem]

theorem parserParse_congr (pf : Bool) (y y' : Bytes) (h : y.dropWhile isWs = y'.dropWhile isWs) :
    parserParse pf y = parserParse pf y' := by
  rw [parserParse_ws pf y, parserParse_ws pf y', h]

/-- a frame result strictly shortens the unread bytes; other results leave `dropWhile isWs buf` -/
theorem parserParse_frame_length (pf : Bool) (buf : Bytes) (f : Frame) (b2 : Bytes)
    (h : parserParse pf buf = (.frame f, b2)) : b2.length < buf.length := by
  unfold parserParse at h
  have hws := dropWhile_length_le isWs buf
  generalize buf.dropWhile isWs = b at h hws
  simp only at h
  split at h
  · simp at h
  · cases hsp : stripPing b with
    | some t =>
      simp only [hsp] at h
      simp at h
      unfold stripPing at hsp
      split at hsp
      · simp at hsp
        rename_i htake
        have : 4 ≤ b.length := by
          have := congrArg List.length htake
          simp [pingBytes] at this
          omega
        have h2 := dropWhile_length_le isSpNl t
        rw [← h.2, ← hsp] at *
        simp at h2
        omega
      · simp at hsp
    | none =>
      simp only [hsp] at h
      split at h
      · simp at h
      · cases hp : parseBytes b with
        | need => simp [hp] at h
        | err => simp [hp] at h
        | ok f' r =>
          simp [hp] at h
          have := parseFrame_shrinks _ _ _ _ hp
          have h2 := dropWhile_length_le isNl r
          rw [← h.2]
          omega

theorem parserParse_nonframe (pf : Bool) (buf : Bytes) (b2 : Bytes) :
    (parserParse pf buf = (.none, b2) → b2 = buf.dropWhile isWs) ∧
    (parserParse pf buf = (.err, b2) → b2 = buf.dropWhile isWs) := by
  unfold parserParse
  generalize buf.dropWhile isWs = b
  simp only
  constructor
  all_goals
    intro h
    split at h
    · simp at h; try exact h.symm
    · cases hsp : stripPing b with
      | some t => simp [hsp] at h
      | none =>
        simp only [hsp] at h
        split at h
        · simp at h; try exact h.symm
        · cases hp : parseBytes b with
          | need => simp [hp] at h; try exact h.symm
          | err => simp [hp] at h; try exact h.symm
          | ok f' r => simp [hp] at h

/-! ## inline PING under appended bytes -/

theorem stripPing_append (b t X : Bytes) (h : stripPing b = some t) : stripPing (b ++ X) = some (t ++ X) := by
  unfold stripPing at h ⊢
  split at h
  · rename_i htake
    have hlen : 4 ≤ b.length := by
      have := congrArg List.length htake
      simp [pingBytes] at this
      omega
    simp at h
    rw [List.take_append_of_le_length hlen, htake, List.drop_append_of_le_length hlen, h]
    simp
  · simp at h

theorem stripPing_none_append (b X : Bytes) (hne : b ≠ []) (h : stripPing b = none)
    (hpp : isPingProperPrefix b = false) :
    stripPing (b ++ X) = none ∧ isPingProperPrefix (b ++ X) = false := by
  unfold stripPing at h ⊢
  simp only [pingBytes] at h ⊢
  match b, hne with
  | [a], _ => simp_all [isPingProperPrefix]
  | [a, c], _ => simp_all [isPingProperPrefix]
  | [a, c, d], _ => simp_all [isPingProperPrefix]
  | a :: c :: d :: g :: t, _ => simp_all [isPingProperPrefix]

theorem parseBytes_append (b X : Bytes) (h : parseBytes b ≠ .need) :
    parseBytes (b ++ X) = (parseBytes b).ext X := by
  unfold parseBytes at h ⊢
  exact parseFrame_stable X (maxNesting + 1) b h

theorem ws_skip_norm (q : Nat → Bool) (hq : ∀ a, q a = true → isWs a = true) (t X : Bytes) :
    ((t ++ X).dropWhile q).dropWhile isWs = (t.dropWhile q ++ X).dropWhile isWs := by
  rw [dropWhile_sub isWs q hq, dropWhile_append_norm isWs t X,
      dropWhile_append_norm isWs (t.dropWhile q) X, dropWhile_sub isWs q hq]

/-- What appending bytes does to one `parse` call of the fixed parser. -/
theorem parserParse_append (x X : Bytes) :
    match parserParse true x with
    | (.none, _) => True
    | (.err, _) => (parserParse true (x ++ X)).1 = .err
    | (.frame f, b2) => ∃ b3, parserParse true (x ++ X) = (.frame f, b3) ∧
        b3.dropWhile isWs = (b2 ++ X).dropWhile isWs := by
  unfold parserParse
  by_cases hb : x.dropWhile isWs = []
  · simp [hb]
  · rw [dropWhile_append_of_ne_nil isWs x X hb]
    generalize x.dropWhile isWs = b at hb
    have hbe : b.isEmpty = false := by cases b <;> simp at hb ⊢
    have hbe' : (b ++ X).isEmpty = false := by cases b <;> simp at hb ⊢
    simp only [hbe, hbe', Bool.false_eq_true, if_false]
    cases hsp : stripPing b with
    | some t =>
      rw [stripPing_append b t X hsp]
      simp only
      exact ⟨_, rfl, ws_skip_norm isSpNl isSpNl_sub t X⟩
    | none =>
      simp only
      by_cases hpp : isPingProperPrefix b = true
      · simp [hpp]
      · have hpp' : isPingProperPrefix b = false := by simpa using hpp
        obtain ⟨h1, h2⟩ := stripPing_none_append b X hb hsp hpp'
        simp only [h1, h2, hpp', Bool.and_false, Bool.false_eq_true, if_false]
        cases hp : parseBytes b with
        | need => simp
        | err =>
          have := parseBytes_append b X (by simp [hp])
          simp [this, hp, Res.ext]
        | ok f r =>
          have := parseBytes_append b X (by simp [hp])
          simp only [this, hp, Res.ext]
          exact ⟨_, rfl, ws_skip_norm isNl isNl_sub r X⟩

/-! ## draining -/

theorem drainF_none {pf : Bool} {n : Nat} {buf b : Bytes} (h : parserParse pf buf = (.none, b)) :
    drainF pf (n + 1) buf = ([], b, false) := by
  simp [drainF, h]
theorem drainF_err {pf : Bool} {n : Nat} {buf b : Bytes} (h : parserParse pf buf = (.err, b)) :
    drainF pf (n + 1) buf = ([.err], b, true) := by
  simp [drainF, h]
theorem drainF_frame {pf : Bool} {n : Nat} {buf b : Bytes} {f : Frame} (h : parserParse pf buf = (.frame f, b)) :
    drainF pf (n + 1) buf = (.frame f :: (drainF pf n b).1, (drainF pf n b).2.1, (drainF pf n b).2.2) := by
  simp [drainF, h]

theorem drainF_fuel (n m : Nat) (y : Bytes) (hn : y.length < n) (hm : y.length < m) :
    drainF true n y = drainF true m y := by
  induction n generalizing m y with
  | zero => omega
  | succ n ih =>
    cases m with
    | zero => omega
    | succ m =>
      cases hp : parserParse true y with
      | mk res b =>
        cases res with
        | none => rw [drainF_none hp, drainF_none hp]
        | err => rw [drainF_err hp, drainF_err hp]
        | frame f =>
          have := parserParse_frame_length true y f b hp
          rw [drainF_frame hp, drainF_frame hp, ih m b (by omega) (by omega)]

theorem drainF_congr (n m : Nat) (y y' : Bytes) (h : y.dropWhile isWs = y'.dropWhile isWs)
    (hn : y.length < n) (hm : y'.length < m) : drainF true n y = drainF true m y' := by
  cases n with
  | zero => omega
  | succ n =>
    cases m with
    | zero => omega
    | succ m =>
      have hc := parserParse_congr true y y' h
      cases hp : parserParse true y' with
      | mk res b =>
        have hp' : parserParse true y = (res, b) := by rw [hc]; exact hp
        cases res with
        | none => rw [drainF_none hp, drainF_none hp']
        | err => rw [drainF_err hp, drainF_err hp']
        | frame f =>
          have h1 := parserParse_frame_length true y' f b hp
          have h3 := parserParse_frame_length true y f b hp'
          rw [drainF_frame hp, drainF_frame hp', drainF_fuel n m b (by omega) (by omega)]

/-- The unread bytes left by a drain that ended without error ask for more data again. -/
theorem drainF_resting (n : Nat) (x : Bytes) (hn : x.length < n) (evs : List Ev) (b' : Bytes)
    (h : drainF true n x = (evs, b', false)) : parserParse true b' = (.none, b') := by
  induction n generalizing x evs with
  | zero => omega
  | succ n ih =>
    cases hp : parserParse true x with
    | mk res b =>
      cases res with
      | none =>
        rw [drainF_none hp] at h
        simp at h
        have hb := (parserParse_nonframe true x b).1 hp
        rw [← h.2]
        rw [parserParse_ws true x] at hp
        rw [hb]
        rw [hb] at hp
        exact hp
      | err => rw [drainF_err hp] at h; simp at h
      | frame f =>
        have hl := parserParse_frame_length true x f b hp
        rw [drainF_frame hp] at h
        simp at h
        obtain ⟨_, h2, h3⟩ := h
        apply ih b (by omega) (drainF true n b).1
        rw [← h2, ← h3]

/-- Draining `x ++ X` = draining `x`, then (unless that failed) draining what was left plus `X`. -/
theorem drainF_append (n : Nat) (x X : Bytes) (hn : x.length < n) :
    ∀ m, (x ++ X).length < m →
      ((drainF true n x).2.2 = true → (drainF true m (x ++ X)).1 = (drainF true n x).1) ∧
      ((drainF true n x).2.2 = false → ∀ k, ((drainF true n x).2.1 ++ X).length < k →
          (drainF true m (x ++ X)).1 = (drainF true n x).1 ++ (drainF true k ((drainF true n x).2.1 ++ X)).1) := by
  induction n generalizing x with
  | zero => omega
  | succ n ih =>
    intro m hm
    cases m with
    | zero => omega
    | succ m =>
      have happ := parserParse_append x X
      cases hp : parserParse true x with
      | mk res b =>
        rw [hp] at happ
        cases res with
        | none =>
          rw [drainF_none hp]
          refine ⟨by simp, fun _ k hk => ?_⟩
          have hb := (parserParse_nonframe true x b).1 hp
          have hcong : (x ++ X).dropWhile isWs = (b ++ X).dropWhile isWs := by
            rw [hb]; exact dropWhile_append_norm isWs x X
          simp only at hk
          rw [drainF_congr (m + 1) k (x ++ X) (b ++ X) hcong hm hk]
          simp
        | err =>
          rw [drainF_err hp]
          simp only at happ
          refine ⟨fun _ => ?_, by simp⟩
          cases hq : parserParse true (x ++ X) with
          | mk res2 b2 =>
            rw [hq] at happ
            simp at happ
            subst happ
            rw [drainF_err hq]
        | frame f =>
          simp only at happ
          obtain ⟨b3, hq, hws⟩ := happ
          have hl := parserParse_frame_length true x f b hp
          have hl3 := parserParse_frame_length true (x ++ X) f b3 hq
          have hcong := drainF_congr m ((b ++ X).length + 1) b3 (b ++ X) hws (by omega) (by omega)
          have ihb := ih b (by omega) ((b ++ X).length + 1) (by omega)
          rw [drainF_frame hp, drainF_frame hq, hcong]
          simp only
          refine ⟨fun he => ?_, fun he k hk => ?_⟩
          · rw [ihb.1 he]
          · rw [ihb.2 he k hk]; simp

end Ferrous
