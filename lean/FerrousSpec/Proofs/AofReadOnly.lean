import FerrousSpec.Model.Aof
set_option linter.unusedSimpArgs false
set_option linter.unusedVariables false
namespace Ferrous.Aof
open Ferrous Ferrous.KS

/-! ## Read-only commands never change the database they run on

This is what makes the hand-written list `Spec.writeNames` trustworthy from below: every command of the key-space
machine that is NOT in the list returns the database it was given, for all databases, arguments, instants and
random draws.  (From above: `Spec.mutWitness` shows that every name in the list does change some database.) -/

macro "ro_solve" : tactic =>
  `(tactic| ((repeat' split) <;> first | rfl | simp))

theorem cmdGet_ro (db : Db) (args : List Bytes) : (cmdGet db args).1 = db := by unfold cmdGet; ro_solve
theorem cmdMget_ro (db : Db) (args : List Bytes) : (cmdMget db args).1 = db := by unfold cmdMget; ro_solve
theorem cmdStrlen_ro (db : Db) (args : List Bytes) : (cmdStrlen db args).1 = db := by unfold cmdStrlen; ro_solve
theorem cmdGetrange_ro (db : Db) (args : List Bytes) : (cmdGetrange db args).1 = db := by unfold cmdGetrange; ro_solve
theorem cmdExists_ro (db : Db) (args : List Bytes) : (cmdExists db args).1 = db := by unfold cmdExists; ro_solve
theorem cmdType_ro (db : Db) (args : List Bytes) : (cmdType db args).1 = db := by unfold cmdType; ro_solve
theorem cmdKeys_ro (db : Db) (args : List Bytes) : (cmdKeys db args).1 = db := by unfold cmdKeys; ro_solve
theorem cmdDbsize_ro (db : Db) (args : List Bytes) : (cmdDbsize db args).1 = db := by unfold cmdDbsize; ro_solve
theorem cmdRandomkey_ro (db : Db) (args : List Bytes) (o : Option (List Bytes)) : (cmdRandomkey db args o).1 = db := by
  unfold cmdRandomkey; ro_solve
theorem cmdTtl_ro (db : Db) (now u : Nat) (args : List Bytes) : (cmdTtl db now u args).1 = db := by unfold cmdTtl; ro_solve
theorem cmdLlen_ro (db : Db) (args : List Bytes) : (cmdLlen db args).1 = db := by unfold cmdLlen; ro_solve
theorem cmdLrange_ro (db : Db) (args : List Bytes) : (cmdLrange db args).1 = db := by unfold cmdLrange; ro_solve
theorem cmdLindex_ro (db : Db) (args : List Bytes) : (cmdLindex db args).1 = db := by unfold cmdLindex; ro_solve
theorem cmdSmembers_ro (db : Db) (args : List Bytes) : (cmdSmembers db args).1 = db := by unfold cmdSmembers; ro_solve
theorem cmdSismember_ro (db : Db) (args : List Bytes) : (cmdSismember db args).1 = db := by unfold cmdSismember; ro_solve
theorem cmdScard_ro (db : Db) (args : List Bytes) : (cmdScard db args).1 = db := by unfold cmdScard; ro_solve
theorem cmdSetAlgebra_ro (db : Db) (op : SetOp) (args : List Bytes) : (cmdSetAlgebra db op args).1 = db := by
  unfold cmdSetAlgebra; ro_solve
theorem cmdSrandmember_ro (db : Db) (args : List Bytes) (o : Option (List Bytes)) : (cmdSrandmember db args o).1 = db := by
  unfold cmdSrandmember; dsimp only; ro_solve
theorem cmdHget_ro (db : Db) (args : List Bytes) : (cmdHget db args).1 = db := by unfold cmdHget; ro_solve
theorem cmdHmget_ro (db : Db) (args : List Bytes) : (cmdHmget db args).1 = db := by unfold cmdHmget; ro_solve
theorem cmdHall_ro (db : Db) (w : Nat) (args : List Bytes) : (cmdHall db w args).1 = db := by unfold cmdHall; ro_solve
theorem cmdHlen_ro (db : Db) (args : List Bytes) : (cmdHlen db args).1 = db := by unfold cmdHlen; ro_solve
theorem cmdHexists_ro (db : Db) (args : List Bytes) : (cmdHexists db args).1 = db := by unfold cmdHexists; ro_solve

/-- KEY LEMMA: a command whose name is not in `Spec.writeNames` returns the database it was given. -/
theorem stepDb_readonly (q : Quirks) (db : Db) (now : Nat) (name : String) (args : List Bytes) (obs : Option (List Bytes))
    (h : ¬ name ∈ Spec.writeNames) : (stepDb q db now name args obs).1 = db := by
  unfold stepDb
  split
  all_goals first
    | exact absurd (by decide) h
    | apply cmdGet_ro | apply cmdMget_ro | apply cmdStrlen_ro | apply cmdGetrange_ro | apply cmdExists_ro
    | apply cmdType_ro | apply cmdKeys_ro | apply cmdDbsize_ro | apply cmdRandomkey_ro | apply cmdTtl_ro
    | apply cmdLlen_ro | apply cmdLrange_ro | apply cmdLindex_ro | apply cmdSmembers_ro | apply cmdSismember_ro
    | apply cmdScard_ro | apply cmdSetAlgebra_ro | apply cmdSrandmember_ro | apply cmdHget_ro | apply cmdHmget_ro
    | apply cmdHall_ro | apply cmdHlen_ro | apply cmdHexists_ro
    | rfl

/-- the random draw matters only to SPOP, SRANDMEMBER and RANDOMKEY -/
theorem stepDb_obs_irrelevant (q : Quirks) (db : Db) (now : Nat) (name : String) (args : List Bytes) (o o' : Option (List Bytes))
    (h1 : name ≠ "SPOP") (h2 : name ≠ "SRANDMEMBER") (h3 : name ≠ "RANDOMKEY") :
    stepDb q db now name args o = stepDb q db now name args o' := by
  unfold stepDb
  split
  all_goals first
    | rfl
    | exact absurd rfl h1
    | exact absurd rfl h2
    | exact absurd rfl h3

/-- on the dataset, the draw matters to SPOP only (the other two are read-only) -/
theorem stepDb_obs_irrelevant_db (q : Quirks) (db : Db) (now : Nat) (name : String) (args : List Bytes) (o o' : Option (List Bytes))
    (h1 : name ≠ "SPOP") : (stepDb q db now name args o).1 = (stepDb q db now name args o').1 := by
  by_cases h2 : name = "SRANDMEMBER"
  · subst h2
    rw [stepDb_readonly _ _ _ _ _ _ (by decide), stepDb_readonly _ _ _ _ _ _ (by decide)]
  · by_cases h3 : name = "RANDOMKEY"
    · subst h3
      rw [stepDb_readonly _ _ _ _ _ _ (by decide), stepDb_readonly _ _ _ _ _ _ (by decide)]
    · rw [stepDb_obs_irrelevant q db now name args o o' h1 h2 h3]

end Ferrous.Aof
