/-
  Blocking pops — every event of an `Allowed` history keeps the invariant `Inv`.
-/
import FerrousSpec.Proofs.BlockingInv
namespace Ferrous.Blk

/-- The wire connection executing a batch exists and its peer is there. -/
def Open (s : State) (c : Conn) : Prop :=
  c ≠ 0 ∧ (s.conns c).gone = false ∧ (s.conns c).peerClosed = false

/-! ## `gone` / `peerClosed` are touched by `hangup` and `reap` only -/

@[simp] theorem setBlocked_gone (s : State) (c : Conn) (b) (c' : Conn) :
    ((setBlocked s c b).conns c').gone = (s.conns c').gone := by
  unfold setBlocked; split
  · rfl
  · simp only [setConn]; split <;> rfl

@[simp] theorem setBlocked_peerClosed (s : State) (c : Conn) (b) (c' : Conn) :
    ((setBlocked s c b).conns c').peerClosed = (s.conns c').peerClosed := by
  unfold setBlocked; split
  · rfl
  · simp only [setConn]; split <;> rfl

theorem setBlocked_conns_ne (s : State) (c : Conn) (b) (c' : Conn) (h : c' ≠ c) :
    (setBlocked s c b).conns c' = s.conns c' := by
  unfold setBlocked; split
  · rfl
  · simp [setConn, h]

theorem setBlocked_blocked_self (s : State) (c : Conn) (b) (h : c ≠ 0) :
    ((setBlocked s c b).conns c).blocked = b := by
  unfold setBlocked; simp [h, setConn]

theorem life_wakeOne (q : Quirks) (s : State) (c' : Conn) :
    ((wakeOne q s).conns c').gone = (s.conns c').gone ∧
    ((wakeOne q s).conns c').peerClosed = (s.conns c').peerClosed := by
  unfold wakeOne
  split
  · exact ⟨rfl, rfl⟩
  · simp only []
    split
    · split
      · rw [notify_conns]; exact ⟨rfl, rfl⟩
      · exact ⟨rfl, rfl⟩
    split
    · split
      · rw [notify_conns]; simp
      · simp
    split
    · exact ⟨rfl, rfl⟩
    · split
      · split <;> simp
      · exact ⟨rfl, rfl⟩

theorem life_iter {f : State → State} {c' : Conn}
    (hf : ∀ s, ((f s).conns c').gone = (s.conns c').gone ∧ ((f s).conns c').peerClosed = (s.conns c').peerClosed) :
    ∀ n s, ((iter f n s).conns c').gone = (s.conns c').gone ∧ ((iter f n s).conns c').peerClosed = (s.conns c').peerClosed := by
  intro n
  induction n with
  | zero => intro s; exact ⟨rfl, rfl⟩
  | succ n ih =>
    intro s
    obtain ⟨h1, h2⟩ := ih (f s)
    obtain ⟨g1, g2⟩ := hf s
    exact ⟨h1.trans g1, h2.trans g2⟩

theorem life_drain (q : Quirks) (s : State) (c' : Conn) :
    ((drain q s).conns c').gone = (s.conns c').gone ∧ ((drain q s).conns c').peerClosed = (s.conns c').peerClosed := by
  unfold drain
  split
  · exact life_iter (life_wakeOne q · c') _ _
  · exact ⟨rfl, rfl⟩

theorem life_dataCore (q : Quirks) (now : Nat) (c cid : Conn) (s : State) (cmd : Cmd) (c' : Conn) :
    ((dataCore q now c cid s cmd).conns c').gone = (s.conns c').gone ∧
    ((dataCore q now c cid s cmd).conns c').peerClosed = (s.conns c').peerClosed := by
  cases cmd with
  | push op k vs =>
    simp only [dataCore]
    split
    · simp
    · split <;> simp
  | pop op k => simp only [dataCore]; split <;> simp
  | bpop op keys t =>
    simp only [dataCore]
    split
    · simp
    · split
      · simp
      · split <;> simp
  | multi => exact ⟨rfl, rfl⟩
  | exec => exact ⟨rfl, rfl⟩

theorem life_dataCmd (q : Quirks) (now : Nat) (c cid : Conn) (s : State) (cmd : Cmd) (c' : Conn) :
    ((dataCmd q now c cid s cmd).conns c').gone = (s.conns c').gone ∧
    ((dataCmd q now c cid s cmd).conns c').peerClosed = (s.conns c').peerClosed := by
  unfold dataCmd
  obtain ⟨h1, h2⟩ := life_drain q (dataCore q now c cid s cmd) c'
  obtain ⟨g1, g2⟩ := life_dataCore q now c cid s cmd c'
  exact ⟨h1.trans g1, h2.trans g2⟩

theorem life_serveKey (q : Quirks) (k : Key) (c' : Conn) : ∀ n s,
    ((serveKey q k n s).conns c').gone = (s.conns c').gone ∧ ((serveKey q k n s).conns c').peerClosed = (s.conns c').peerClosed := by
  intro n
  induction n with
  | zero => intro s; exact ⟨rfl, rfl⟩
  | succ n ih =>
    intro s
    simp only [serveKey]
    split
    · split
      · obtain ⟨h1, h2⟩ := ih (iter (wakeOne q) ((notify k s).wakeQ.length + (notify k s).registry.length) (notify k s))
        obtain ⟨g1, g2⟩ := life_iter (life_wakeOne q · c') ((notify k s).wakeQ.length + (notify k s).registry.length) (notify k s)
        rw [notify_conns] at g1 g2
        exact ⟨h1.trans g1, h2.trans g2⟩
      · obtain ⟨h1, h2⟩ := ih (wakeOne q (notify k s))
        obtain ⟨g1, g2⟩ := life_wakeOne q (notify k s) c'
        rw [notify_conns] at g1 g2
        exact ⟨h1.trans g1, h2.trans g2⟩
    · exact ⟨rfl, rfl⟩

theorem life_serveKeys (q : Quirks) (c' : Conn) (ks : List Key) : ∀ s,
    ((serveKeys q ks s).conns c').gone = (s.conns c').gone ∧ ((serveKeys q ks s).conns c').peerClosed = (s.conns c').peerClosed := by
  unfold serveKeys
  induction ks with
  | nil => intro s; exact ⟨rfl, rfl⟩
  | cons k r ih =>
    intro s
    obtain ⟨h1, h2⟩ := ih (serveKey q k s.registry.length s)
    obtain ⟨g1, g2⟩ := life_serveKey q k c' s.registry.length s
    exact ⟨h1.trans g1, h2.trans g2⟩

theorem Open_serveKeys {q : Quirks} {ks : List Key} {s : State} {x : Conn} (h : Open s x) : Open (serveKeys q ks s) x := by
  obtain ⟨h0, h1, h2⟩ := h
  obtain ⟨g1, g2⟩ := life_serveKeys q x ks s
  exact ⟨h0, g1 ▸ h1, g2 ▸ h2⟩

theorem Open_dataCmd {q : Quirks} {now : Nat} {c cid : Conn} {s : State} {cmd : Cmd} {x : Conn} (h : Open s x) :
    Open (dataCmd q now c cid s cmd) x := by
  obtain ⟨h0, h1, h2⟩ := h
  obtain ⟨g1, g2⟩ := life_dataCmd q now c cid s cmd x
  exact ⟨h0, g1 ▸ h1, g2 ▸ h2⟩

/-! ## Steps that change `out` only, or transaction fields only -/

theorem emit_open {s : State} {c : Conn} (h : (s.conns c).peerClosed = false) (r : Reply) :
    emit s c r = { s with out := s.out ++ [(c, r)] } := by
  unfold emit; simp [h]

theorem Inv_out {s : State} (hI : Inv s) (o : List (Conn × Reply)) : Inv { s with out := o } :=
  ⟨hI.regOk, hI.wakeOk, hI.nodup, hI.cover, hI.alive, hI.counts, hI.lost⟩

theorem Inv_pushed {s : State} (hI : Inv s) (o : List (Key × Elem)) : Inv { s with pushed := o } :=
  ⟨hI.regOk, hI.wakeOk, hI.nodup, hI.cover, hI.alive, hI.counts, hI.lost⟩

theorem Inv_emit {s : State} {c : Conn} (hI : Inv s) (h : (s.conns c).peerClosed = false) (r : Reply) :
    Inv (emit s c r) := by
  rw [emit_open h]; exact Inv_out hI _

/-- `setConn` with an update that leaves `blocked`, `gone`, `peerClosed` alone (MULTI, queueing, EXEC's reset). -/
theorem Inv_setConn_tx {s : State} (hI : Inv s) (c : Conn) (f : ConnSt → ConnSt)
    (hf : ∀ cs, (f cs).blocked = cs.blocked ∧ (f cs).gone = cs.gone ∧ (f cs).peerClosed = cs.peerClosed) :
    Inv (setConn s c f) := by
  have hc : ∀ c', ((setConn s c f).conns c').blocked = (s.conns c').blocked ∧
      ((setConn s c f).conns c').gone = (s.conns c').gone ∧
      ((setConn s c f).conns c').peerClosed = (s.conns c').peerClosed := by
    intro c'
    simp only [setConn]
    split
    · exact hf _
    · exact ⟨rfl, rfl, rfl⟩
  exact hI.same (fun _ _ h => h) (fun _ h => .inl h) (List.Perm.refl _) (fun c' => (hc c').1)
    (fun c' _ => (hc c').2) hI.counts hI.lost

theorem Open_setConn_tx {s : State} {x : Conn} (h : Open s x) (c : Conn) (f : ConnSt → ConnSt)
    (hf : ∀ cs, (f cs).blocked = cs.blocked ∧ (f cs).gone = cs.gone ∧ (f cs).peerClosed = cs.peerClosed) :
    Open (setConn s c f) x := by
  obtain ⟨h0, h1, h2⟩ := h
  refine ⟨h0, ?_, ?_⟩ <;> simp only [setConn] <;> split
  · rw [(hf _).2.1]; exact h1
  · exact h1
  · rw [(hf _).2.2]; exact h2
  · exact h2

theorem Open_emit {s : State} {x : Conn} (h : Open s x) (c : Conn) (r : Reply) : Open (emit s c r) x := by
  unfold Open; rw [emit_conns]; exact h

/-! ## P1: a push of one element, then `notify` -/

theorem Inv_push_notify {s s1 : State} (hI : Inv s) (k : Key)
    (hr : s1.registry = s.registry) (hw : s1.wakeQ = s.wakeQ) (hc : s1.conns = s.conns) (hl : s1.lost = s.lost)
    (hk : cntL s1 k = cntL s k + 1) (hk' : ∀ k', k' ≠ k → cntL s1 k' = cntL s k') :
    Inv (notify k s1) := by
  have hW : ∀ k', cntW s1 k' = cntW s k' := by intro k'; unfold cntW; rw [hw]
  have hR : ∀ k', cntR s1 k' = cntR s k' := by intro k'; unfold cntR; rw [hr]
  unfold notify
  split
  · next hp =>
    have hR0 : cntR s1 k = 0 := cntR_zero_of_popFirst_none hp
    refine hI.same (t := s1) (by rw [hr]; exact fun _ _ h => h) (by rw [hw]; exact fun _ h => .inl h)
      (by unfold line; rw [hr, hw]) (by intro c; rw [hc]) (by intro c _; simp [hc])
      ?_ (by rw [hl]; exact hI.lost)
    intro k'
    have := hI.counts k'
    by_cases hkk : k' = k
    · subst hkk; rw [hW, hR, hk]; rw [hR] at hR0; omega
    · rw [hW, hR, hk' k' hkk]; exact this
  · next e reg' hp =>
    obtain ⟨a, b, h1, h2, h3, _⟩ := popFirst_some hp
    have hek : e.1 = k := keyIs_iff.mp h3
    rw [hr] at h1
    have hemem : (e.1, e.2) ∈ s.registry := by rw [h1]; simp
    refine hI.same ?_ ?_ ?_ (by intro c; show (s1.conns c).blocked = _; rw [hc])
      (by intro c _; show (s1.conns c).gone = _ ∧ (s1.conns c).peerClosed = _; rw [hc]; exact ⟨rfl, rfl⟩)
      ?_ (by show s1.lost = []; rw [hl]; exact hI.lost)
    · intro k' w' h
      have h : (k', w') ∈ reg' := h
      rw [h2] at h; rw [h1]
      rcases List.mem_append.mp h with h | h
      · exact List.mem_append_left _ h
      · exact List.mem_append_right _ (List.mem_cons_of_mem _ h)
    · intro w' h
      have h : w' ∈ s1.wakeQ ++ [(⟨e.2.conn, k, e.2.op⟩ : Wake)] := h
      rw [hw] at h
      rcases List.mem_append.mp h with h | h
      · exact .inl h
      · simp only [List.mem_singleton] at h
        exact .inr ⟨e.1, e.2, hemem, by rw [h, hek]⟩
    · show (reg'.map (·.2.conn) ++ (s1.wakeQ ++ [(⟨e.2.conn, k, e.2.op⟩ : Wake)]).map (·.conn)).Perm
        (s.registry.map (·.2.conn) ++ s.wakeQ.map (·.conn))
      rw [h1, h2, hw]
      simp only [List.map_append, List.map_cons, List.map_nil]
      -- a ++ b ++ (wq ++ [x])  ~  a ++ x :: b ++ wq
      have e1 : (a.map (·.2.conn) ++ b.map (·.2.conn) ++ (s.wakeQ.map (·.conn) ++ [e.2.conn]))
          = a.map (·.2.conn) ++ ((b.map (·.2.conn) ++ s.wakeQ.map (·.conn)) ++ [e.2.conn]) := by simp
      have e2 : (a.map (·.2.conn) ++ e.2.conn :: b.map (·.2.conn) ++ s.wakeQ.map (·.conn))
          = a.map (·.2.conn) ++ (e.2.conn :: (b.map (·.2.conn) ++ s.wakeQ.map (·.conn))) := by simp
      rw [e1, e2]
      exact List.Perm.append_left _ (List.perm_append_singleton _ _)
    · intro k'
      have hc' := hI.counts k'
      show (s1.wakeQ ++ [(⟨e.2.conn, k, e.2.op⟩ : Wake)]).countP (fun w => w.key == k') ≤ cntL s1 k' ∧
        (0 < reg'.countP (keyIs k') → cntL s1 k' = (s1.wakeQ ++ [(⟨e.2.conn, k, e.2.op⟩ : Wake)]).countP (fun w => w.key == k'))
      have hRs : cntR s k' = (a ++ b).countP (keyIs k') + (if keyIs k' e = true then 1 else 0) := by
        unfold cntR; rw [h1]; exact countP_remove _ _ _ _
      rw [h2, hw, List.countP_append]
      simp only [List.countP_cons, List.countP_nil, Nat.zero_add]
      have hWs : cntW s k' = s.wakeQ.countP (fun w => w.key == k') := rfl
      by_cases hkk : k' = k
      · subst hkk
        have : keyIs k' e = true := h3
        simp only [this, if_true] at hRs
        simp only [beq_self_eq_true, if_true]
        rw [hk]; omega
      · have h5 : keyIs k' e = false := by
          apply keyIs_false_iff.mpr; rw [hek]; exact fun h => hkk h.symm
        have h6 : (k == k') = false := by simp; exact fun h => hkk h.symm
        simp only [h5, Bool.false_eq_true, if_false, Nat.add_zero] at hRs
        simp only [h6, Bool.false_eq_true, if_false, Nat.add_zero]
        rw [hk' k' hkk]; omega

theorem countP_pushElems_single (op : Op) (k : Key) (v : Elem) (st : List (Key × Elem)) (k' : Key) :
    (pushElems op k [v] st).countP (keyIs k') = st.countP (keyIs k') + (if k' = k then 1 else 0) := by
  by_cases h : k' = k
  · subst h
    cases op <;> simp [pushElems, keyIs, List.countP_append]
  · have h' : (k == k') = false := by simp; exact fun e => h e.symm
    cases op <;> simp [pushElems, keyIs, List.countP_append, h, h']

/-! ## P2: a pop of a key without a wake-up under way -/

theorem Inv_pop {s : State} (hI : Inv s) {op : Op} {k : Key} {e : Key × Elem} {st' : List (Key × Elem)}
    (hp : popElem op k s.store = some (e, st')) (hnw : noWakeFor s k = true) :
    Inv { s with store := st' } := by
  obtain ⟨a, b, h1, h2, hek⟩ := popElem_some hp
  refine hI.same (fun _ _ h => h) (fun _ h => .inl h) (List.Perm.refl _) (fun _ => rfl) (fun _ _ => ⟨rfl, rfl⟩) ?_ hI.lost
  intro k'
  have hc := hI.counts k'
  have hL : cntL s k' = st'.countP (keyIs k') + (if keyIs k' e = true then 1 else 0) := by
    unfold cntL; rw [h1, h2]; exact countP_remove _ _ _ _
  show cntW s k' ≤ st'.countP (keyIs k') ∧ (0 < cntR s k' → st'.countP (keyIs k') = cntW s k')
  by_cases hkk : k' = k
  · subst hkk
    have hW0 := cntW_zero_of_noWakeFor hnw
    have : keyIs k' e = true := keyIs_iff.mpr hek
    simp only [this, if_true] at hL
    omega
  · have h5 : keyIs k' e = false := by
      apply keyIs_false_iff.mpr; rw [hek]; exact fun h => hkk h.symm
    simp only [h5, Bool.false_eq_true, if_false, Nat.add_zero] at hL
    omega

/-! ## Wake-ups -/

/-- `Inv.remove` with the two line conditions packed into one permutation. -/
theorem Inv.remove' {s t : State} (x : Conn) (hI : Inv s)
    (hreg : t.registry.Sublist s.registry) (hwk : t.wakeQ.Sublist s.wakeQ)
    (hperm : (line s).Perm (x :: line t))
    (hconn : ∀ c, c ≠ x → t.conns c = s.conns c)
    (hxb : (t.conns x).blocked = none)
    (hcounts : ∀ k, cntW t k ≤ cntL t k ∧ (0 < cntR t k → cntL t k = cntW t k))
    (hlost : t.lost = []) : Inv t := by
  have hnd : (x :: line t).Nodup := hperm.nodup_iff.mp hI.nodup
  refine hI.remove x hreg hwk ?_ (List.nodup_cons.mp hnd).1 hconn hxb hcounts hlost
  intro c hc hne
  rcases List.mem_cons.mp (hperm.subset hc) with h | h
  · exact absurd h hne
  · exact h

theorem isBlockedLive_of {s : State} {c : Conn} (h0 : c ≠ 0) (hg : (s.conns c).gone = false)
    {b : Blocked} (hb : (s.conns c).blocked = some b) : isBlockedLive s c = true := by
  simp [isBlockedLive, h0, hg, hb]

theorem Inv_wakeOne (q : Quirks) (s : State) (hI : Inv s) : Inv (wakeOne q s) := by
  unfold wakeOne
  split
  · exact hI
  · next w rest hw =>
    have hwmem : w ∈ s.wakeQ := by rw [hw]; simp
    obtain ⟨dl, hb⟩ := hI.wakeOk w hwmem
    obtain ⟨h0, hg, hpc⟩ := hI.alive w.conn (by rw [hb]; simp)
    have hcw := hI.counts w.key
    have hWs : ∀ k', cntW s k' = rest.countP (fun w' => w'.key == k') + (if (w.key == k') = true then 1 else 0) := by
      intro k'; unfold cntW; rw [hw, List.countP_cons]
    have htgt : wakeTargetOk { s with wakeQ := rest } w = true := by
      have hl : isBlockedLive { s with wakeQ := rest } w.conn = true := isBlockedLive_of (s := { s with wakeQ := rest }) h0 hg hb
      simp [wakeTargetOk, hl, hb]
    have hps : probeSees q { s with wakeQ := rest } w.conn = false := by
      show ((s.conns w.conn).peerClosed && _) = false
      rw [hpc]; rfl
    simp only [htgt, hps, Bool.true_eq_false, Bool.false_eq_true, and_false, if_false]
    split
    · next hpe =>
      exfalso
      have hL0 : cntL s w.key = 0 := cntL_zero_of_popElem_none hpe
      have := hWs w.key
      simp only [beq_self_eq_true, if_true] at this
      omega
    · next e st' hpe =>
      obtain ⟨a, b, h1, h2, hek⟩ := popElem_some hpe
      have hlive : isBlockedLive { s with wakeQ := rest, store := st' } w.conn = true :=
        isBlockedLive_of (s := { s with wakeQ := rest, store := st' }) h0 hg hb
      simp only [hlive, if_true]
      have hopen : (({ s with wakeQ := rest, store := st' } : State).conns w.conn).peerClosed = false := hpc
      rw [emit_open hopen]
      have hI2 : Inv (setBlocked { s with wakeQ := rest, store := st', out := s.out ++ [(w.conn, Reply.pair e.1 e.2)] } w.conn none) := by
        refine hI.remove' w.conn ?_ ?_ ?_ ?_ ?_ ?_ ?_
        · rw [setBlocked_registry]; exact List.Sublist.refl _
        · rw [setBlocked_wakeQ, hw]; exact List.sublist_cons_self w rest
        · unfold line
          rw [setBlocked_registry, setBlocked_wakeQ, hw]
          simp only [List.map_cons]
          exact List.perm_middle
        · intro c hc; rw [setBlocked_conns_ne _ _ _ _ hc]
        · exact setBlocked_blocked_self _ _ _ h0
        · intro k'
          have hc' := hI.counts k'
          have hLs : cntL s k' = st'.countP (keyIs k') + (if keyIs k' e = true then 1 else 0) := by
            unfold cntL; rw [h1, h2]; exact countP_remove _ _ _ _
          have hW' := hWs k'
          simp only [cntW, cntL, cntR, setBlocked_wakeQ, setBlocked_store, setBlocked_registry] at hc' hLs hW' ⊢
          by_cases hkk : k' = w.key
          · subst hkk
            have : keyIs w.key e = true := keyIs_iff.mpr hek
            simp only [this, if_true] at hLs
            simp only [beq_self_eq_true, if_true] at hW'
            omega
          · have h5 : keyIs k' e = false := by
              apply keyIs_false_iff.mpr; rw [hek]; exact fun h => hkk h.symm
            have h6 : (w.key == k') = false := by simp; exact fun h => hkk h.symm
            simp only [h5, Bool.false_eq_true, if_false, Nat.add_zero] at hLs
            simp only [h6, Bool.false_eq_true, if_false, Nat.add_zero] at hW'
            omega
        · rw [setBlocked_lost]; exact hI.lost
      split
      · -- `unregister_client` finds nothing: the served client is in no other queue
        have hnot : w.conn ∉ line (setBlocked { s with wakeQ := rest, store := st', out := s.out ++ [(w.conn, Reply.pair e.1 e.2)] } w.conn none) := by
          intro hmem
          exact hI2.blocked_of_mem_line hmem (setBlocked_blocked_self _ _ _ h0)
        have hfil : ((setBlocked { s with wakeQ := rest, store := st', out := s.out ++ [(w.conn, Reply.pair e.1 e.2)] } w.conn none).registry.filter
            fun x => x.2.conn != w.conn) = (setBlocked { s with wakeQ := rest, store := st', out := s.out ++ [(w.conn, Reply.pair e.1 e.2)] } w.conn none).registry := by
          apply List.filter_eq_self.mpr
          intro x hx
          have : x.2.conn ∈ line (setBlocked { s with wakeQ := rest, store := st', out := s.out ++ [(w.conn, Reply.pair e.1 e.2)] } w.conn none) :=
            mem_line_reg (k := x.1) (w := x.2) hx
          simp only [bne_iff_ne, ne_eq]
          intro heq
          exact hnot (heq ▸ this)
        rw [hfil]
        exact hI2
      · exact hI2

theorem Inv_iter {f : State → State} (hf : ∀ s, Inv s → Inv (f s)) : ∀ n s, Inv s → Inv (iter f n s) := by
  intro n
  induction n with
  | zero => intro s h; exact h
  | succ n ih => intro s h; exact ih _ (hf s h)

/-! ## The data commands -/

theorem firstNonEmpty_single (op : Op) (st : List (Key × Elem)) (k : Key) :
    firstNonEmpty op st [k] = popElem op k st := by
  simp only [firstNonEmpty]
  cases popElem op k st <;> rfl

theorem Inv_drain (q : Quirks) (s : State) (hI : Inv s) : Inv (drain q s) := by
  unfold drain
  split
  · exact Inv_iter (Inv_wakeOne q) _ _ hI
  · exact hI

theorem Inv_dataCore (q : Quirks) (hx : q.execAtomic = false) (now : Nat) (c cid : Conn) (s : State) (cmd : Cmd)
    (hI : Inv s) (ho : Open s c) (hcid : cid = c ∨ cid = 0) (hok : dataOk s cid cmd = true) :
    Inv (dataCore q now c cid s cmd) := by
  obtain ⟨hc0, hcg, hcp⟩ := ho
  cases cmd with
  | push op k vs =>
    simp only [dataOk, beq_iff_eq] at hok
    obtain ⟨v, rfl⟩ : ∃ v, vs = [v] := by
      match vs, hok with
      | [v], _ => exact ⟨v, rfl⟩
    simp only [dataCore, List.isEmpty_cons, Bool.false_eq_true, if_false, List.length_cons, List.length_nil,
      Nat.zero_add, ite_self, notifyN, hx, false_and]
    apply Inv_push_notify hI k
    · simp
    · simp
    · simp
    · unfold emit; simp [hcp]
    · show (emit _ c _).store.countP (keyIs k) = _
      rw [emit_store]
      show (pushElems op k [v] s.store).countP (keyIs k) = cntL s k + 1
      rw [countP_pushElems_single]; simp [cntL]
    · intro k' hk'
      show (emit _ c _).store.countP (keyIs k') = _
      rw [emit_store]
      show (pushElems op k [v] s.store).countP (keyIs k') = cntL s k'
      rw [countP_pushElems_single]; simp [cntL, hk']
  | pop op k =>
    simp only [dataOk] at hok
    simp only [dataCore]
    split
    · next e st' hp => exact Inv_emit (Inv_pop hI hp hok) hcp _
    · exact Inv_emit hI hcp _
  | bpop op keys t =>
    simp only [dataOk, Bool.and_eq_true, bne_iff_ne, ne_eq, beq_iff_eq, Option.isNone_iff_eq_none] at hok
    obtain ⟨⟨⟨hcid0, hlen⟩, hnb⟩, hall⟩ := hok
    obtain ⟨k, rfl⟩ : ∃ k, keys = [k] := by
      match keys, hlen with
      | [k], _ => exact ⟨k, rfl⟩
    have hcc : cid = c := by
      rcases hcid with h | h
      · exact h
      · exact absurd h hcid0
    subst hcc
    have hnw : noWakeFor s k = true := by simpa using hall
    simp only [dataCore, List.isEmpty_cons, Bool.false_eq_true, if_false, firstNonEmpty_single]
    split
    · next e st' hp => exact Inv_emit (Inv_pop hI hp hnw) hcp _
    · next hp =>
      have hnot : ¬ (cid = 0 ∧ q.refuseBlockingInTx = true) := fun h => hcid0 h.1
      have hrk : regKeys q [k] = [k] := by
        unfold regKeys; split
        · simp [dedupL]
        · rfl
      simp only [hnot, if_false, hrk, List.map_cons, List.map_nil]
      have hL0 : cntL s k = 0 := cntL_zero_of_popElem_none hp
      have hW0 : cntW s k = 0 := cntW_zero_of_noWakeFor hnw
      refine hI.add cid k ⟨cid, if t = 0 then none else some (now + t), op⟩ rfl ?_ ?_ hcid0 hcg hcp hnb ?_ ?_ ?_ ?_ ?_ ?_
      · simp
      · simp
      · intro c' hc'; rw [setBlocked_conns_ne _ _ _ _ hc']
      · rw [setBlocked_blocked_self _ _ _ hcid0]
      · simp
      · simp
      · intro k'
        have hc' := hI.counts k'
        simp only [cntW, cntL, cntR, setBlocked_wakeQ, setBlocked_store, setBlocked_registry] at hc' hL0 hW0 ⊢
        by_cases hkk : k' = k
        · subst hkk; omega
        · have h5 : keyIs k' ((k, (⟨cid, if t = 0 then none else some (now + t), op⟩ : Waiter)) : Key × Waiter) = false := by
            apply keyIs_false_iff.mpr; exact fun h => hkk h.symm
          simp only [List.countP_append, List.countP_cons, List.countP_nil, h5, Bool.false_eq_true, if_false, Nat.add_zero]
          exact hc'
      · simp [hI.lost]
  | multi => exact hI
  | exec => exact hI

theorem Inv_dataCmd (q : Quirks) (hx : q.execAtomic = false) (now : Nat) (c cid : Conn) (s : State) (cmd : Cmd)
    (hI : Inv s) (ho : Open s c) (hcid : cid = c ∨ cid = 0) (hok : dataOk s cid cmd = true) :
    Inv (dataCmd q now c cid s cmd) := by
  unfold dataCmd
  exact Inv_drain q _ (Inv_dataCore q hx now c cid s cmd hI ho hcid hok)

theorem Inv_foldl_dataCmd (q : Quirks) (hx : q.execAtomic = false) (now : Nat) (c cid : Conn) (hcid : cid = c ∨ cid = 0) (cmds : List Cmd) :
    ∀ s, Inv s → Open s c → dataSeqOk q now c cid s cmds = true → Inv (cmds.foldl (dataCmd q now c cid) s) := by
  induction cmds with
  | nil => intro s h _ _; exact h
  | cons cmd r ih =>
    intro s h ho hok
    simp only [dataSeqOk, Bool.and_eq_true] at hok
    exact ih _ (Inv_dataCmd q hx now c cid s cmd h ho hcid hok.1) (Open_dataCmd ho) hok.2

theorem Open_foldl_dataCmd (q : Quirks) (now : Nat) (c cid : Conn) (x : Conn) (cmds : List Cmd) :
    ∀ s, Open s x → Open (cmds.foldl (dataCmd q now c cid) s) x := by
  induction cmds with
  | nil => intro s h; exact h
  | cons cmd r ih => intro s h; exact ih _ (Open_dataCmd h)

/-! ## One frame of a batch -/

theorem Open_topCmd {q : Quirks} {now : Nat} {c : Conn} {s : State} {cmd : Cmd} {x : Conn} (h : Open s x) :
    Open (topCmd q now c s cmd) x := by
  have hq : ∀ (f : ConnSt → ConnSt) r,
      (∀ cs, (f cs).blocked = cs.blocked ∧ (f cs).gone = cs.gone ∧ (f cs).peerClosed = cs.peerClosed) →
      Open (emit (setConn s c f) c r) x := fun f r hf => Open_emit (Open_setConn_tx h c f hf) c r
  cases cmd with
  | multi =>
    simp only [topCmd]; split
    · exact Open_emit h _ _
    · exact hq _ _ (fun _ => ⟨rfl, rfl, rfl⟩)
  | exec =>
    simp only [topCmd]; split
    · have h2 := Open_foldl_dataCmd q now c 0 x (s.conns c).queue _
        (hq (fun cs => { cs with inTx := false, queue := [] }) (.arrHdr (s.conns c).queue.length) (fun _ => ⟨rfl, rfl, rfl⟩))
      split
      · exact Open_serveKeys h2
      · exact h2
    · exact Open_emit h _ _
  | push op k vs =>
    simp only [topCmd]; split
    · exact hq _ _ (fun _ => ⟨rfl, rfl, rfl⟩)
    · exact Open_dataCmd h
  | pop op k =>
    simp only [topCmd]; split
    · exact hq _ _ (fun _ => ⟨rfl, rfl, rfl⟩)
    · exact Open_dataCmd h
  | bpop op keys t =>
    simp only [topCmd]; split
    · exact hq _ _ (fun _ => ⟨rfl, rfl, rfl⟩)
    · exact Open_dataCmd h

theorem Inv_topCmd (q : Quirks) (hx : q.execAtomic = false) (now : Nat) (c : Conn) (s : State) (cmd : Cmd)
    (hI : Inv s) (ho : Open s c) (hok : topOk q now c s cmd = true) : Inv (topCmd q now c s cmd) := by
  have hq : ∀ (f : ConnSt → ConnSt) r,
      (∀ cs, (f cs).blocked = cs.blocked ∧ (f cs).gone = cs.gone ∧ (f cs).peerClosed = cs.peerClosed) →
      Inv (emit (setConn s c f) c r) := by
    intro f r hf
    exact Inv_emit (Inv_setConn_tx hI c f hf) (Open_setConn_tx ho c f hf).2.2 r
  have hqo : ∀ (f : ConnSt → ConnSt) r,
      (∀ cs, (f cs).blocked = cs.blocked ∧ (f cs).gone = cs.gone ∧ (f cs).peerClosed = cs.peerClosed) →
      Open (emit (setConn s c f) c r) c := fun f r hf => Open_emit (Open_setConn_tx ho c f hf) c r
  cases cmd with
  | multi =>
    simp only [topCmd]; split
    · exact Inv_emit hI ho.2.2 _
    · exact hq _ _ (fun _ => ⟨rfl, rfl, rfl⟩)
  | exec =>
    simp only [topCmd]
    simp only [topOk] at hok
    split
    · next hin =>
      simp only [hin, if_true] at hok
      simp only [hx, Bool.false_eq_true, if_false]
      exact Inv_foldl_dataCmd q hx now c 0 (.inr rfl) _ _ (hq _ _ (fun _ => ⟨rfl, rfl, rfl⟩))
        (hqo _ _ (fun _ => ⟨rfl, rfl, rfl⟩)) hok
    · exact Inv_emit hI ho.2.2 _
  | push op k vs =>
    simp only [topCmd]; simp only [topOk] at hok
    split
    · exact hq _ _ (fun _ => ⟨rfl, rfl, rfl⟩)
    · next hin => simp only [hin] at hok; exact Inv_dataCmd q hx now c c s _ hI ho (.inl rfl) hok
  | pop op k =>
    simp only [topCmd]; simp only [topOk] at hok
    split
    · exact hq _ _ (fun _ => ⟨rfl, rfl, rfl⟩)
    · next hin => simp only [hin] at hok; exact Inv_dataCmd q hx now c c s _ hI ho (.inl rfl) hok
  | bpop op keys t =>
    simp only [topCmd]; simp only [topOk] at hok
    split
    · exact hq _ _ (fun _ => ⟨rfl, rfl, rfl⟩)
    · next hin => simp only [hin] at hok; exact Inv_dataCmd q hx now c c s _ hI ho (.inl rfl) hok

theorem Inv_runBatch (q : Quirks) (hx : q.execAtomic = false) (now : Nat) (c : Conn) (cmds : List Cmd) :
    ∀ s, Inv s → Open s c → batchOk q now c cmds s = true → Inv (runBatch q now c cmds s) := by
  induction cmds with
  | nil => intro s h _ _; exact h
  | cons cmd r ih =>
    intro s h ho hok
    simp only [batchOk, Bool.and_eq_true] at hok
    simp only [runBatch]
    split
    · exact Inv_setConn_tx (Inv_topCmd q hx now c s cmd h ho hok.1) c _ (fun _ => ⟨rfl, rfl, rfl⟩)
    · next hd =>
      have h2 := hok.2
      simp only [hd, if_false] at h2
      exact ih _ (Inv_topCmd q hx now c s cmd h ho hok.1) (Open_topCmd ho) h2

end Ferrous.Blk
