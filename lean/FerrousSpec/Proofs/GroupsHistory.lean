/-
  C16 helper lemmas, part 5: the agreement invariant along whole histories.
  `Good g` = the representations agree AND no pending id lies beyond the cursor; it is preserved by every
  operation of a history that never re-delivers (no SETID, no explicit-id re-read on the pinned tree), because
  then everything `>` delivers is fresh.
-/
import FerrousSpec.Proofs.GroupsRefine
namespace Ferrous.Grp
open Code

structure Good (g : Group) : Prop where
  agree : Agree g
  behind : ∀ e ∈ g.byId, idLe e.id g.lastDelivered = true

theorem foldl_addOne_mem {c : Name} (ids : List Id) : ∀ {g : Group}, Sorted g.byId →
    ∀ e ∈ (ids.foldl (addOne c) g).byId, e ∈ g.byId ∨ e.id ∈ ids := by
  induction ids with
  | nil => intro g _ e he; exact Or.inl he
  | cons id ids ih =>
    intro g hs e he
    simp only [List.foldl_cons] at he
    have hs' : Sorted (addOne c g id).byId := sorted_pelInsert hs
    rcases ih hs' e he with h | h
    · have : e ∈ pelInsert ⟨id, c, 1⟩ g.byId := h
      rcases (mem_pelInsert hs e).mp this with h | ⟨h, _⟩
      · subst h; exact Or.inr List.mem_cons_self
      · exact Or.inl h
    · exact Or.inr (List.mem_cons_of_mem _ h)

theorem addPending_mem {g : Group} (hs : Sorted g.byId) (c : Name) (ids : List Id) :
    ∀ e ∈ (addPending g c ids).byId, e ∈ g.byId ∨ e.id ∈ ids := by
  obtain ⟨last, he⟩ := addPending_eq g c ids
  rw [he]
  exact foldl_addOne_mem ids (g := createConsumer g c) hs

theorem claimOne_ids (c : Name) (elig : Bool) (g : Group) (id : Id) :
    (claimOne c elig g id).1.byId.map (·.id) = g.byId.map (·.id) := by
  cases hf : pelFind id g.byId with
  | none => simp [claimOne, hf]
  | some e =>
    cases elig with
    | false => simp [claimOne, hf]
    | true => rw [claimOne_some hf]; exact pelIds_pelSetOwner id c g.byId

theorem claimLoop_ids (c : Name) (elig : Bool) (g : Group) (ids : List Id) :
    (claimLoop c elig g ids).1.byId.map (·.id) = g.byId.map (·.id) := by
  induction ids generalizing g with
  | nil => rfl
  | cons id ids ih => simp only [claimLoop, ih, claimOne_ids]

theorem claim_ids (g : Group) (c : Name) (elig : Bool) (ids : List Id) :
    (claim g c elig ids).1.byId.map (·.id) = g.byId.map (·.id) := by
  unfold claim; rw [claimLoop_ids]; rfl

theorem deleteConsumer_mem (g : Group) (c : Name) : ∀ e ∈ (deleteConsumer g c).1.byId, e ∈ g.byId := by
  intro e he
  unfold deleteConsumer at he
  split at he
  · simp only [removeConsumerEntries] at he
    split at he
    · exact (List.mem_filter.mp he).1
    · exact he
  · exact he

theorem good_of_ids {g g' : Group} (h : Good g) (ha : Agree g') (hl : g'.lastDelivered = g.lastDelivered)
    (hids : ∀ e ∈ g'.byId, e.id ∈ g.byId.map (·.id)) : Good g' := by
  refine ⟨ha, ?_⟩
  intro e he
  obtain ⟨e0, he0, hid⟩ := List.mem_map.mp (hids e he)
  rw [hl, ← hid]; exact h.behind e0 he0

theorem good_newGroup (q : Quirks) (start : Id) : Good (newGroup q start) := by
  refine ⟨?_, by intro e he; cases he⟩
  exact { sorted := List.Pairwise.nil, bcKeys := List.nodup_nil, csKeys := List.nodup_nil,
          lists := (by intro p hp; cases hp), own₁ := (by intro e he; cases he),
          own₂ := (by intro p hp; cases hp), cnt₁ := (by intro p hp; cases hp),
          cnt₂ := (by intro r hr; cases hr), bmin := rfl, bmax := rfl, total := rfl }

theorem idSorted_nodup {l : List Id} (h : IdSorted l) : l.Nodup := h.imp (fun hlt => idLt_ne hlt)

theorem mem_pelInsert_sub {e x : PEntry} {l : List PEntry} (h : x ∈ pelInsert e l) : x = e ∨ x ∈ l := by
  induction l with
  | nil => simpa [pelInsert] using h
  | cons y t ih =>
    simp only [pelInsert] at h
    split at h
    · rcases List.mem_cons.mp h with h | h
      · exact Or.inl h
      · exact Or.inr h
    · split at h
      · rcases List.mem_cons.mp h with h | h
        · exact Or.inl h
        · exact Or.inr (List.mem_cons_of_mem _ h)
      · rcases List.mem_cons.mp h with h | h
        · exact Or.inr (h ▸ List.mem_cons_self)
        · rcases ih h with h | h
          · exact Or.inl h
          · exact Or.inr (List.mem_cons_of_mem _ h)

theorem deliverOneFixed_ids (c : Name) (s : Group × Nat) (id : Id) :
    ∀ i ∈ (deliverOneFixed c s id).1.byId.map (·.id), i ∈ s.1.byId.map (·.id) ∨ i = id := by
  intro i hi
  unfold deliverOneFixed at hi
  cases hf : pelFind id s.1.byId with
  | some e0 =>
    rw [hf] at hi; simp only at hi
    rw [claimOne_ids] at hi; exact Or.inl hi
  | none =>
    rw [hf] at hi; simp only at hi
    obtain ⟨x, hx, hxe⟩ := List.mem_map.mp hi
    have hx' : x ∈ pelInsert ⟨id, c, 1⟩ s.1.byId := hx
    rcases mem_pelInsert_sub hx' with h' | h'
    · right; rw [← hxe, h']
    · exact Or.inl (List.mem_map.mpr ⟨x, h', hxe⟩)

theorem foldl_deliverOneFixed_ids {c : Name} (ids : List Id) : ∀ (s : Group × Nat),
    ∀ i ∈ (ids.foldl (deliverOneFixed c) s).1.byId.map (·.id), i ∈ s.1.byId.map (·.id) ∨ i ∈ ids := by
  induction ids with
  | nil => intro s i hi; exact Or.inl hi
  | cons id ids ih =>
    intro s i hi
    simp only [List.foldl_cons] at hi
    rcases ih _ i hi with h | h
    · rcases deliverOneFixed_ids c s id i h with h' | h'
      · exact Or.inl h'
      · exact Or.inr (h' ▸ List.mem_cons_self)
    · exact Or.inr (List.mem_cons_of_mem _ h)

theorem addPendingFixed_ids (g : Group) (c : Name) (ids : List Id) :
    ∀ e ∈ (addPendingFixed g c ids).byId, e.id ∈ g.byId.map (·.id) ∨ e.id ∈ ids := by
  intro e he
  have hb : (addPendingFixed g c ids).byId = (ids.foldl (deliverOneFixed c) (createConsumer g c, 0)).1.byId := by
    unfold addPendingFixed
    simp only
    cases ids.getLast? with
    | none => rfl
    | some l => simp only; split <;> rfl
  rw [hb] at he
  exact foldl_deliverOneFixed_ids ids (createConsumer g c, 0) e.id (List.mem_map.mpr ⟨e, he, rfl⟩)

/-- deliveries under `>` keep the state good: what is delivered lies beyond the cursor, hence is fresh
    (shared part: a result that agrees, moves the cursor as `add_pending` does and holds only old or delivered ids) -/
theorem good_of_delivery {g r : Group} (h : Good g) {stream : List Id} (hs : IdSorted stream) (count : Option Nat)
    (ha : Agree r)
    (hl : r.lastDelivered = match (rangeAfter stream g.lastDelivered count).getLast? with
      | some l => if idLt g.lastDelivered l then l else g.lastDelivered
      | none => g.lastDelivered)
    (hm : ∀ e ∈ r.byId, e.id ∈ g.byId.map (·.id) ∨ e.id ∈ rangeAfter stream g.lastDelivered count) : Good r := by
  have hes : ∀ x ∈ rangeAfter stream g.lastDelivered count, idLt g.lastDelivered x = true :=
    fun x hx => (mem_rangeAfter hx).2
  have hsorted := sorted_rangeAfter hs g.lastDelivered count
  have hold : ∀ i ∈ g.byId.map (·.id), idLe i g.lastDelivered = true := by
    intro i hi; obtain ⟨e0, he0, rfl⟩ := List.mem_map.mp hi; exact h.behind e0 he0
  refine ⟨ha, ?_⟩
  intro e he
  rw [hl]
  cases hlast : (rangeAfter stream g.lastDelivered count).getLast? with
  | none =>
    rw [List.getLast?_eq_none_iff] at hlast
    simp only
    rcases hm e he with h' | h'
    · exact hold _ h'
    · rw [hlast] at h'; cases h'
  | some m =>
    have hm' := hes m (List.mem_of_getLast? hlast)
    simp only [hm', if_true]
    rcases hm e he with h' | h'
    · exact idLe_of_lt (idLt_of_le_of_lt (hold _ h') hm')
    · exact hsorted.le_getLast hlast _ h'

theorem good_deliver (q : Quirks) {g : Group} (h : Good g) {stream : List Id} (hs : IdSorted stream) (c : Name)
    (count : Option Nat) : Good (addPendingQ q g c (rangeAfter stream g.lastDelivered count)) := by
  unfold addPendingQ
  split
  · exact good_of_delivery h hs count (agree_addPendingFixed h.agree c _) (addPendingFixed_last g c _)
      (addPendingFixed_ids g c _)
  · have hes : ∀ x ∈ rangeAfter stream g.lastDelivered count, idLt g.lastDelivered x = true :=
      fun x hx => (mem_rangeAfter hx).2
    have hfresh : ∀ id ∈ rangeAfter stream g.lastDelivered count, ∀ e ∈ g.byId, e.id ≠ id := by
      intro id hid e he e0
      have := idLt_of_lt_of_le (hes id hid) (e0 ▸ h.behind e he)
      rw [idLt_irrefl] at this; cases this
    refine good_of_delivery h hs count
      (agree_addPending h.agree c (idSorted_nodup (sorted_rangeAfter hs g.lastDelivered count)) hfresh)
      (addPending_last g c _) ?_
    intro e he
    rcases addPending_mem h.agree.sorted c _ e he with h' | h'
    · exact Or.inl (List.mem_map.mpr ⟨e, h', rfl⟩)
    · exact Or.inr h'

/-- operations of one group on which the invariant is preserved (same exclusions as for exactly-once) -/
def GOp.plainFor (q : Quirks) : GOp → Bool
  | .setid _ => false
  | .read _ (some _) _ _ => q.histFix
  | _ => true

theorem good_gstep (q : Quirks) {stream : List Id} (hs : IdSorted stream) {g : Group} (h : Good g) (op : GOp)
    (hop : op.plainFor q = true) : Good (gstep q stream g op).1 := by
  cases op with
  | setid id => cases hop
  | createc c =>
    exact good_of_ids h (agree_createConsumer h.agree c) rfl (fun e he => List.mem_map.mpr ⟨e, he, rfl⟩)
  | delc c =>
    exact good_of_ids h (agree_deleteConsumer h.agree c) (deleteConsumer_last g c)
      (fun e he => List.mem_map.mpr ⟨e, deleteConsumer_mem g c e he, rfl⟩)
  | ack ids =>
    refine good_of_ids h (agree_acknowledge h.agree ids) ?_ ?_
    · simp only [gstep, acknowledge, ackLoop_last]
    · intro e he
      have : e ∈ (ackLoop g ids 0).1.byId := he
      rw [(ackLoop_byId g ids 0 h.agree.sorted).1] at this
      exact List.mem_map.mpr ⟨e, (List.mem_filter.mp this).1, rfl⟩
  | claim c elig ids =>
    refine good_of_ids h (agree_claim h.agree c elig ids) (claim_last g c elig ids) ?_
    intro e he
    rw [← claim_ids g c elig ids]; exact List.mem_map.mpr ⟨e, he, rfl⟩
  | autoclaim c elig s n =>
    simp only [gstep, autoClaim]
    refine good_of_ids h (agree_claim h.agree c elig _) (claim_last g c elig _) ?_
    intro e he
    rw [← claim_ids g c elig _]; exact List.mem_map.mpr ⟨e, he, rfl⟩
  | pending => exact h
  | prange s e n c => exact h
  | read c frm count noack =>
    cases frm with
    | some a =>
      have hq : q.histFix = true := hop
      simp only [gstep, readGroup, hq, if_true]; exact h
    | none =>
      simp only [gstep, readGroup]
      split
      · exact good_deliver q h hs c count
      · split
        · -- repaired NOACK: only the cursor moves, forwards
          cases hl : (rangeAfter stream g.lastDelivered count).getLast? with
          | none => exact h
          | some m =>
            simp only
            split
            · rename_i hlt
              refine ⟨agree_setLast h.agree m, ?_⟩
              intro e he
              exact idLe_of_lt (idLt_of_le_of_lt (h.behind e he) hlt)
            · exact h
        · exact h

/-- With the repaired `add_pending` the agreement of the representations survives EVERY operation of a group —
    SETID backwards and explicit-id re-reads included — from every agreeing state. -/
theorem agree_gstep_fixed (q : Quirks) (hq : q.redeliverFix = true) (stream : List Id) {g : Group} (h : Agree g)
    (op : GOp) : Agree (gstep q stream g op).1 := by
  have hdel : ∀ c ids, Agree (addPendingQ q g c ids) := by
    intro c ids; unfold addPendingQ; rw [if_pos hq]; exact agree_addPendingFixed h c ids
  cases op with
  | setid id => exact agree_setLast h id
  | createc c => exact agree_createConsumer h c
  | delc c => exact agree_deleteConsumer h c
  | ack ids => exact agree_acknowledge h ids
  | claim c elig ids => exact agree_claim h c elig ids
  | autoclaim c elig s n => simp only [gstep, autoClaim]; exact agree_claim h c elig _
  | pending => exact h
  | prange s e n c => exact h
  | read c frm count noack =>
    cases frm with
    | some a =>
      simp only [gstep, readGroup]
      split
      · exact h
      · split
        · exact hdel _ _
        · exact h
    | none =>
      simp only [gstep, readGroup]
      split
      · exact hdel _ _
      · split
        · cases (rangeAfter stream g.lastDelivered count).getLast? with
          | none => exact h
          | some m =>
            simp only
            split
            · exact agree_setLast h m
            · exact h
        · exact h

theorem agree_run_fixed (q : Quirks) (hq : q.redeliverFix = true) (ops : List HOp) : ∀ {σ : Code.Sys}, Agree σ.grp →
    Agree (Code.run q σ ops).grp := by
  induction ops with
  | nil => intro σ h; exact h
  | cons op ops ih =>
    intro σ h
    refine ih ?_
    cases op with
    | add id => simp only [Code.hstep]; split <;> exact h
    | del ids => exact h
    | g op => exact agree_gstep_fixed q hq σ.stream h op

/-- the stream stays strictly sorted and below its last id along any history -/
structure StreamOk (stream : List Id) (lastId : Id) : Prop where
  sorted : IdSorted stream
  below : ∀ x ∈ stream, idLe x lastId = true

theorem good_hstep (q : Quirks) {σ : Code.Sys} (hs : StreamOk σ.stream σ.lastId) (h : Good σ.grp) (op : HOp)
    (hop : op.plainFor q = true) :
    StreamOk (Code.hstep q σ op).stream (Code.hstep q σ op).lastId ∧ Good (Code.hstep q σ op).grp := by
  cases op with
  | add id =>
    simp only [Code.hstep]
    split
    · exact ⟨hs, h⟩
    · rename_i hle
      have hlt : idLt σ.lastId id = true := by
        rcases idLt_total σ.lastId id with h1 | h1 | h1
        · exact h1
        · rw [h1, idLe_refl] at hle; exact absurd rfl hle
        · rw [idLe_of_lt h1] at hle; exact absurd rfl hle
      refine ⟨⟨?_, ?_⟩, h⟩
      · show IdSorted (σ.stream ++ [id])
        rw [IdSorted, List.pairwise_append]
        refine ⟨hs.sorted, List.pairwise_singleton _ _, ?_⟩
        intro a ha b hb
        simp only [List.mem_singleton] at hb; subst hb
        exact idLt_of_le_of_lt (hs.below a ha) hlt
      · intro x hx
        show idLe x id = true
        rcases List.mem_append.mp hx with hx | hx
        · exact idLe_of_lt (idLt_of_le_of_lt (hs.below x hx) hlt)
        · simp only [List.mem_singleton] at hx; subst hx; exact idLe_refl _
  | del ids =>
    exact ⟨⟨hs.sorted.filter _, fun x hx => hs.below x (List.mem_filter.mp hx).1⟩, h⟩
  | g op =>
    refine ⟨hs, ?_⟩
    have hop' : op.plainFor q = true := by
      cases op with
      | setid id => cases hop
      | read c frm count noack =>
        cases frm with
        | none => rfl
        | some a => exact hop
      | _ => rfl
    exact good_gstep q hs.sorted h op hop'

theorem good_run (q : Quirks) (ops : List HOp) : ∀ {σ : Code.Sys}, StreamOk σ.stream σ.lastId → Good σ.grp →
    (∀ op ∈ ops, op.plainFor q = true) → Good (Code.run q σ ops).grp := by
  induction ops with
  | nil => intro σ _ h _; exact h
  | cons op ops ih =>
    intro σ hs h hops
    obtain ⟨hs', h'⟩ := good_hstep q hs h op (hops op List.mem_cons_self)
    exact ih hs' h' (fun o ho => hops o (List.mem_cons_of_mem _ ho))

end Ferrous.Grp
