/-
  C16 helper lemmas, part 5: the agreement invariant along whole histories.
  `Good g` = the representations agree AND no pending id lies beyond the cursor; it is preserved by every
  operation of a history that never re-delivers (no SETID, no explicit-id re-read on the pinned tree), because
  then everything `>` delivers is fresh.
-/
import FerrousSpec.Proofs.GroupsRefine
namespace Ferrous.Grp
open Code

structure Good (g : Group) : Prop where
  agree : Agree g
  behind : ∀ e ∈ g.byId, idLe e.id g.lastDelivered = true

theorem foldl_addOne_mem {c : Name} (ids : List Id) : ∀ {g : Group}, Sorted g.byId →
    ∀ e ∈ (ids.foldl (addOne c) g).byId, e ∈ g.byId ∨ e.id ∈ ids := by
  induction ids with
  | nil => intro g _ e he; exact Or.inl he
  | cons id ids ih =>
    intro g hs e he
    simp only [List.foldl_cons] at he
    have hs' : Sorted (addOne c g id).byId := sorted_pelInsert hs
    rcases ih hs' e he with h | h
    · have : e ∈ pelInsert ⟨id, c, 1⟩ g.byId := h
      rcases (mem_pelInsert hs e).mp this with h | ⟨h, _⟩
      · subst h; exact Or.inr List.mem_cons_self
      · exact Or.inl h
    · exact Or.inr (List.mem_cons_of_mem _ h)

theorem addPending_mem {g : Group} (hs : Sorted g.byId) (c : Name) (ids : List Id) :
    ∀ e ∈ (addPending g c ids).byId, e ∈ g.byId ∨ e.id ∈ ids := by
  obtain ⟨last, he⟩ := addPending_eq g c ids
  rw [he]
  exact foldl_addOne_mem ids (g := createConsumer g c) hs

theorem claimOne_ids (c : Name) (elig : Bool) (g : Group) (id : Id) :
    (claimOne c elig g id).1.byId.map (·.id) = g.byId.map (·.id) := by
  cases hf : pelFind id g.byId with
  | none => simp [claimOne, hf]
  | some e =>
    cases elig with
    | false => simp [claimOne, hf]
    | true => rw [claimOne_some hf]; exact pelIds_pelSetOwner id c g.byId

theorem claimLoop_ids (c : Name) (elig : Bool) (g : Group) (ids : List Id) :
    (claimLoop c elig g ids).1.byId.map (·.id) = g.byId.map (·.id) := by
  induction ids generalizing g with
  | nil => rfl
  | cons id ids ih => simp only [claimLoop, ih, claimOne_ids]

theorem claim_ids (g : Group) (c : Name) (elig : Bool) (ids : List Id) :
    (claim g c elig ids).1.byId.map (·.id) = g.byId.map (·.id) := by
  unfold claim; rw [claimLoop_ids]; rfl

theorem deleteConsumer_mem (g : Group) (c : Name) : ∀ e ∈ (deleteConsumer g c).1.byId, e ∈ g.byId := by
  intro e he
  unfold deleteConsumer at he
  split at he
  · simp only [removeConsumerEntries] at he
    split at he
    · exact (List.mem_filter.mp he).1
    · exact he
  · exact he

theorem good_of_ids {g g' : Group} (h : Good g) (ha : Agree g') (hl : g'.lastDelivered = g.lastDelivered)
    (hids : ∀ e ∈ g'.byId, e.id ∈ g.byId.map (·.id)) : Good g' := by
  refine ⟨ha, ?_⟩
  intro e he
  obtain ⟨e0, he0, hid⟩ := List.mem_map.mp (hids e he)
  rw [hl, ← hid]; exact h.behind e0 he0

theorem good_newGroup (q : Quirks) (start : Id) : Good (newGroup q start) := by
  refine ⟨?_, by intro e he; cases he⟩
  exact { sorted := List.Pairwise.nil, bcKeys := List.nodup_nil, csKeys := List.nodup_nil,
          lists := (by intro p hp; cases hp), own₁ := (by intro e he; cases he),
          own₂ := (by intro p hp; cases hp), cnt₁ := (by intro p hp; cases hp),
          cnt₂ := (by intro r hr; cases hr), bmin := rfl, bmax := rfl, total := rfl }

theorem idSorted_nodup {l : List Id} (h : IdSorted l) : l.Nodup := h.imp (fun hlt => idLt_ne hlt)

/-- deliveries under `>` keep the state good: what is delivered lies beyond the cursor, hence is fresh -/
theorem good_deliver {g : Group} (h : Good g) {stream : List Id} (hs : IdSorted stream) (c : Name)
    (count : Option Nat) : Good (addPending g c (rangeAfter stream g.lastDelivered count)) := by
  have hes : ∀ x ∈ rangeAfter stream g.lastDelivered count, idLt g.lastDelivered x = true :=
    fun x hx => (mem_rangeAfter hx).2
  have hsorted := sorted_rangeAfter hs g.lastDelivered count
  have hfresh : ∀ id ∈ rangeAfter stream g.lastDelivered count, ∀ e ∈ g.byId, e.id ≠ id := by
    intro id hid e he e0
    have := idLt_of_lt_of_le (hes id hid) (e0 ▸ h.behind e he)
    rw [idLt_irrefl] at this; cases this
  refine ⟨agree_addPending h.agree c (idSorted_nodup hsorted) hfresh, ?_⟩
  intro e he
  rw [addPending_last]
  cases hl : (rangeAfter stream g.lastDelivered count).getLast? with
  | none =>
    rw [List.getLast?_eq_none_iff] at hl
    simp only
    rcases addPending_mem h.agree.sorted c _ e he with h' | h'
    · exact h.behind e h'
    · rw [hl] at h'; cases h'
  | some m =>
    have hm := hes m (List.mem_of_getLast? hl)
    simp only [hm, if_true]
    rcases addPending_mem h.agree.sorted c _ e he with h' | h'
    · exact idLe_of_lt (idLt_of_le_of_lt (h.behind e h') hm)
    · exact hsorted.le_getLast hl _ h'

/-- operations of one group on which the invariant is preserved (same exclusions as for exactly-once) -/
def GOp.plainFor (q : Quirks) : GOp → Bool
  | .setid _ => false
  | .read _ (some _) _ _ => q.histFix
  | _ => true

theorem good_gstep (q : Quirks) {stream : List Id} (hs : IdSorted stream) {g : Group} (h : Good g) (op : GOp)
    (hop : op.plainFor q = true) : Good (gstep q stream g op).1 := by
  cases op with
  | setid id => cases hop
  | createc c =>
    exact good_of_ids h (agree_createConsumer h.agree c) rfl (fun e he => List.mem_map.mpr ⟨e, he, rfl⟩)
  | delc c =>
    exact good_of_ids h (agree_deleteConsumer h.agree c) (deleteConsumer_last g c)
      (fun e he => List.mem_map.mpr ⟨e, deleteConsumer_mem g c e he, rfl⟩)
  | ack ids =>
    refine good_of_ids h (agree_acknowledge h.agree ids) ?_ ?_
    · simp only [gstep, acknowledge, ackLoop_last]
    · intro e he
      have : e ∈ (ackLoop g ids 0).1.byId := he
      rw [(ackLoop_byId g ids 0 h.agree.sorted).1] at this
      exact List.mem_map.mpr ⟨e, (List.mem_filter.mp this).1, rfl⟩
  | claim c elig ids =>
    refine good_of_ids h (agree_claim h.agree c elig ids) (claim_last g c elig ids) ?_
    intro e he
    rw [← claim_ids g c elig ids]; exact List.mem_map.mpr ⟨e, he, rfl⟩
  | autoclaim c elig s n =>
    simp only [gstep, autoClaim]
    refine good_of_ids h (agree_claim h.agree c elig _) (claim_last g c elig _) ?_
    intro e he
    rw [← claim_ids g c elig _]; exact List.mem_map.mpr ⟨e, he, rfl⟩
  | pending => exact h
  | prange s e n c => exact h
  | read c frm count noack =>
    cases frm with
    | some a =>
      have hq : q.histFix = true := hop
      simp only [gstep, readGroup, hq, if_true]; exact h
    | none =>
      simp only [gstep, readGroup]
      split
      · exact good_deliver h hs c count
      · split
        · -- repaired NOACK: only the cursor moves, forwards
          cases hl : (rangeAfter stream g.lastDelivered count).getLast? with
          | none => exact h
          | some m =>
            simp only
            split
            · rename_i hlt
              refine ⟨agree_setLast h.agree m, ?_⟩
              intro e he
              exact idLe_of_lt (idLt_of_le_of_lt (h.behind e he) hlt)
            · exact h
        · exact h

/-- the stream stays strictly sorted and below its last id along any history -/
structure StreamOk (stream : List Id) (lastId : Id) : Prop where
  sorted : IdSorted stream
  below : ∀ x ∈ stream, idLe x lastId = true

theorem good_hstep (q : Quirks) {σ : Code.Sys} (hs : StreamOk σ.stream σ.lastId) (h : Good σ.grp) (op : HOp)
    (hop : op.plainFor q = true) :
    StreamOk (Code.hstep q σ op).stream (Code.hstep q σ op).lastId ∧ Good (Code.hstep q σ op).grp := by
  cases op with
  | add id =>
    simp only [Code.hstep]
    split
    · exact ⟨hs, h⟩
    · rename_i hle
      have hlt : idLt σ.lastId id = true := by
        rcases idLt_total σ.lastId id with h1 | h1 | h1
        · exact h1
        · rw [h1, idLe_refl] at hle; exact absurd rfl hle
        · rw [idLe_of_lt h1] at hle; exact absurd rfl hle
      refine ⟨⟨?_, ?_⟩, h⟩
      · show IdSorted (σ.stream ++ [id])
        rw [IdSorted, List.pairwise_append]
        refine ⟨hs.sorted, List.pairwise_singleton _ _, ?_⟩
        intro a ha b hb
        simp only [List.mem_singleton] at hb; subst hb
        exact idLt_of_le_of_lt (hs.below a ha) hlt
      · intro x hx
        show idLe x id = true
        rcases List.mem_append.mp hx with hx | hx
        · exact idLe_of_lt (idLt_of_le_of_lt (hs.below x hx) hlt)
        · simp only [List.mem_singleton] at hx; subst hx; exact idLe_refl _
  | del ids =>
    exact ⟨⟨hs.sorted.filter _, fun x hx => hs.below x (List.mem_filter.mp hx).1⟩, h⟩
  | g op =>
    refine ⟨hs, ?_⟩
    have hop' : op.plainFor q = true := by
      cases op with
      | setid id => cases hop
      | read c frm count noack =>
        cases frm with
        | none => rfl
        | some a => exact hop
      | _ => rfl
    exact good_gstep q hs.sorted h op hop'

theorem good_run (q : Quirks) (ops : List HOp) : ∀ {σ : Code.Sys}, StreamOk σ.stream σ.lastId → Good σ.grp →
    (∀ op ∈ ops, op.plainFor q = true) → Good (Code.run q σ ops).grp := by
  induction ops with
  | nil => intro σ _ h _; exact h
  | cons op ops ih =>
    intro σ hs h hops
    obtain ⟨hs', h'⟩ := good_hstep q hs h op (hops op List.mem_cons_self)
    exact ih hs' h' (fun o ho => hops o (List.mem_cons_of_mem _ ho))

end Ferrous.Grp
