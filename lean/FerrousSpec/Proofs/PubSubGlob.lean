/-
  The star-backtracking matcher `globLoop` (= `pattern_matches` of src/pubsub.rs) computes the
  declarative meaning `Spec.glob` of the pattern, for every pattern and every text; and
  `Spec.glob` decides the relation `Spec.Glob`.

  Invariant of the loop in state `(p, s, some (ps, ss))`:
    result = Spec.glob p s  ||  "`*ps` matches `ss` minus its first byte"
  where `(p, s)` was reached from `(ps, ss)` by consuming single-byte tokens (`Reach`).
  Forgetting earlier stars is sound because a later `*` absorbs whatever an earlier one could
  have skipped (`reach_glob`, `someSuffix_of_suffix`).
-/
import FerrousSpec.Model.PubSub
set_option linter.unusedSimpArgs false
namespace Ferrous.PubSub
open Spec

/-! ### `someSuffix` -/

theorem someSuffix_iff (g : Bytes → Bool) (s : Bytes) :
    someSuffix g s = true ↔ ∃ k, g (s.drop k) = true := by
  induction s with
  | nil => simp [someSuffix]
  | cons c s ih =>
    simp only [someSuffix, Bool.or_eq_true, ih]
    constructor
    · rintro (h | ⟨k, h⟩)
      · exact ⟨0, by simpa using h⟩
      · exact ⟨k + 1, by simpa using h⟩
    · rintro ⟨k, h⟩
      cases k with
      | zero => left; simpa using h
      | succ k => right; exact ⟨k, by simpa using h⟩

theorem someSuffix_self {g : Bytes → Bool} {s : Bytes} (h : g s = true) : someSuffix g s = true :=
  (someSuffix_iff g s).2 ⟨0, by simpa using h⟩

theorem someSuffix_of_drop {g : Bytes → Bool} {s : Bytes} (k : Nat)
    (h : someSuffix g (s.drop k) = true) : someSuffix g s = true := by
  obtain ⟨j, hj⟩ := (someSuffix_iff g _).1 h
  exact (someSuffix_iff g s).2 ⟨k + j, by simpa [List.drop_drop] using hj⟩

/-! ### Equations of `Spec.glob` -/

theorem glob_nil (s : Bytes) : glob [] s = s.isEmpty := by rw [glob.eq_def]

theorem glob_cons (a : Nat) (p s : Bytes) : glob (a :: p) s =
    if a = 42 then someSuffix (glob p) s
    else if a = 63 then
      match s with
      | [] => false
      | _ :: t => glob p t
    else if a = 92 then
      match p with
      | x :: p' =>
        match s with
        | [] => false
        | c :: t => x = c && glob p' t
      | [] => s == [92]
    else
      match s with
      | [] => false
      | c :: t => a = c && glob p t := by
  conv => lhs; rw [glob.eq_def]
  rfl

theorem glob_star (p s : Bytes) : glob (42 :: p) s = someSuffix (glob p) s := by simp [glob_cons]

theorem glob_star_cons (p : Bytes) (c : Nat) (s : Bytes) :
    glob (42 :: p) (c :: s) = (glob p (c :: s) || glob (42 :: p) s) := by
  simp [glob_star, someSuffix]

theorem glob_star_nil (p : Bytes) : glob (42 :: p) [] = glob p [] := by
  simp [glob_star, someSuffix]

/-- A pattern matches the empty text iff it consists of stars only. -/
theorem glob_empty (p : Bytes) : glob p [] = (p.dropWhile (· == 42)).isEmpty := by
  induction p with
  | nil => simp [glob_nil, glob_cons]
  | cons a p ih =>
    by_cases h : a = 42
    · subst h; simp [glob_star_nil, ih, List.dropWhile]
    · have h' : (a == 42) = false := by simpa using h
      simp only [List.dropWhile, h', List.isEmpty_cons, glob_cons, h, if_false]
      split
      · rfl
      · split
        · split <;> rfl
        · rfl

/-! ### One step of the pattern against one byte -/

theorem gstep_advance {p : Bytes} {c : Nat} {p' : Bytes} (h : gstep p c = .advance p') (s : Bytes) :
    glob p (c :: s) = glob p' s := by
  unfold gstep at h
  split at h
  · cases h
  · rename_i a q
    split at h
    · cases h; rename_i ha; subst ha; simp [glob_nil, glob_cons]
    · split at h
      · cases h
      · rename_i h63 h42
        split at h
        · rename_i h92
          subst h92
          split at h
          · rename_i x q'
            split at h
            · cases h; rename_i hx; subst hx; simp [glob_nil, glob_cons]
            · cases h
          · split at h
            · cases h; rename_i hc; subst hc; simp [glob_nil, glob_cons]
            · cases h
        · rename_i h92
          split at h
          · cases h; rename_i hc; subst hc; simp [glob_cons, h42, h63, h92]
          · cases h

/-- A pattern whose head consumes a byte does not match the empty text, and matching a text
    `d :: t` leaves the rest of the pattern matching `t` (whatever `d` is). -/
theorem gstep_advance_any {p : Bytes} {c : Nat} {p' : Bytes} (h : gstep p c = .advance p') :
    glob p [] = false ∧ ∀ d t, glob p (d :: t) = true → glob p' t = true := by
  unfold gstep at h
  split at h
  · cases h
  · rename_i a q
    split at h
    · cases h; rename_i ha; subst ha; simp [glob_nil, glob_cons]
    · split at h
      · cases h
      · rename_i h63 h42
        split at h
        · rename_i h92
          subst h92
          split at h
          · rename_i x q'
            split at h
            · cases h; simp [glob_nil, glob_cons]
            · cases h
          · split at h
            · cases h; simp [glob_nil, glob_cons]
            · cases h
        · rename_i h92
          split at h
          · cases h; simp [glob_cons, h42, h63, h92]
          · cases h

theorem gstep_star {p : Bytes} {c : Nat} {p' : Bytes} (h : gstep p c = .star p') : p = 42 :: p' := by
  unfold gstep at h
  split at h
  · cases h
  · split at h
    · cases h
    · split at h
      · cases h; rename_i h42; subst h42; rfl
      · split at h
        · split at h
          · split at h <;> cases h
          · split at h <;> cases h
        · split at h <;> cases h

theorem gstep_mismatch {p : Bytes} {c : Nat} (h : gstep p c = .mismatch) (s : Bytes) :
    glob p (c :: s) = false := by
  unfold gstep at h
  split at h
  · simp [glob_nil, glob_cons]
  · rename_i a q
    split at h
    · cases h
    · split at h
      · cases h
      · rename_i h63 h42
        split at h
        · rename_i h92
          subst h92
          split at h
          · rename_i x q'
            split at h
            · cases h
            · rename_i hx; simp [glob_cons, hx]
          · split at h
            · cases h
            · rename_i hc
              have : ¬ c = 92 := fun e => hc e.symm
              simp [glob_cons, this]
        · rename_i h92
          split at h
          · cases h
          · rename_i hc; simp [glob_cons, h42, h63, h92, hc]

theorem gstep_advance_length {p : Bytes} {c : Nat} {p' : Bytes} (h : gstep p c = .advance p') :
    p'.length < p.length := by
  unfold gstep at h
  split at h
  · cases h
  · split at h
    · cases h; simp
    · split at h
      · cases h
      · split at h
        · split at h
          · split at h
            · cases h; simp; omega
            · cases h
          · split at h
            · cases h; simp
            · cases h
        · split at h
          · cases h; simp
          · cases h

/-! ### States reachable from the last star by consuming single-byte tokens -/

/-- `(p, s)` is reached from `(ps, ss)` after `n` consuming steps. -/
inductive Reach (ps ss : Bytes) : Nat → Bytes → Bytes → Prop
  | refl : Reach ps ss 0 ps ss
  | step {n p c s p'} : Reach ps ss n p (c :: s) → gstep p c = .advance p' → Reach ps ss (n + 1) p' s

theorem Reach.facts {ps ss : Bytes} {n : Nat} {p s : Bytes} (h : Reach ps ss n p s) :
    s = ss.drop n ∧ n + s.length = ss.length ∧ p.length ≤ ps.length := by
  induction h with
  | refl => simp
  | step hr hg ih =>
    rename_i n p c s p'
    obtain ⟨h1, h2, h3⟩ := ih
    have hl := gstep_advance_length hg
    refine ⟨?_, by simp at h2; omega, by omega⟩
    have : ss.drop (n + 1) = (ss.drop n).drop 1 := by simp [List.drop_drop]
    rw [this, ← h1]; rfl

/-- If the pattern after the star matches some other text `t`, then after the same `n` consuming
    steps the current pattern matches `t` minus `n` bytes. -/
theorem Reach.glob {ps ss : Bytes} {n : Nat} {p s : Bytes} (h : Reach ps ss n p s) (t : Bytes)
    (ht : glob ps t = true) : n ≤ t.length ∧ glob p (t.drop n) = true := by
  induction h with
  | refl => simpa using ht
  | step hr hg ih =>
    rename_i n p c s p'
    obtain ⟨hn, hgl⟩ := ih
    obtain ⟨he, hany⟩ := gstep_advance_any hg
    cases hd : t.drop n with
    | nil => rw [hd, he] at hgl; cases hgl
    | cons d u =>
      rw [hd] at hgl
      have hlen : (t.drop n).length = (d :: u).length := by rw [hd]
      simp only [List.length_drop, List.length_cons] at hlen
      refine ⟨by omega, ?_⟩
      have : t.drop (n + 1) = (t.drop n).drop 1 := by simp [List.drop_drop]
      rw [this, hd]
      exact hany d u hgl

/-- What back-tracking to the last star can still achieve. -/
def alt (ps ss : Bytes) : Bool :=
  match ss with
  | [] => false
  | _ :: ss' => glob (42 :: ps) ss'

/-- Key step: in a reachable state whose pattern starts with `*`, the alternatives of the
    previous star are subsumed by the new one. -/
theorem alt_subsumed {ps ss : Bytes} {n : Nat} {p' s : Bytes} (h : Reach ps ss n (42 :: p') s)
    (ha : alt ps ss = true) : glob (42 :: p') s = true := by
  obtain ⟨hs, hlen, _⟩ := h.facts
  cases ss with
  | nil => simp [alt] at ha
  | cons x ss' =>
    simp only [alt, glob_star] at ha
    obtain ⟨k, hk⟩ := (someSuffix_iff _ _).1 ha
    obtain ⟨hn, hg⟩ := h.glob _ hk
    -- (ss'.drop k).drop n = s.drop (k + 1)
    have : (ss'.drop k).drop n = s.drop (k + 1) := by
      rw [hs]
      simp only [List.drop_drop]
      have : n + (k + 1) = (k + n) + 1 := by omega
      rw [this, List.drop_succ_cons]
    rw [this, glob_star] at hg
    rw [glob_star]
    exact someSuffix_of_drop (k + 1) hg

/-- In a reachable state with an exhausted text, back-tracking has nothing left to offer. -/
theorem alt_exhausted {ps ss : Bytes} {n : Nat} {p : Bytes} (h : Reach ps ss n p [])
    (ha : alt ps ss = true) : glob p [] = true := by
  obtain ⟨hs, hlen, _⟩ := h.facts
  cases ss with
  | nil => simp [alt] at ha
  | cons x ss' =>
    simp only [alt, glob_star] at ha
    obtain ⟨k, hk⟩ := (someSuffix_iff _ _).1 ha
    obtain ⟨hn, _⟩ := h.glob _ hk
    simp at hlen hn
    omega

/-! ### The loop -/

theorem or_eq_of_imp {a b c : Bool} (h1 : c = true → a = true) (h2 : b = true → a = true)
    (h3 : a = true → b = true ∨ c = true) : a = (b || c) := by
  cases a <;> cases b <;> cases c <;> simp_all

/-- Loop invariant with a star on record.  `B` bounds `|ps| + |ss|`. -/
theorem globLoop_some (B : Nat) : ∀ (fuel : Nat) (p s ps ss : Bytes) (n : Nat),
    Reach ps ss n p s → ps.length + ss.length ≤ B →
    ss.length * (B + 1) + s.length + p.length < fuel →
    globLoop fuel p s (some (ps, ss)) = (glob p s || alt ps ss) := by
  intro fuel
  induction fuel with
  | zero => intro p s ps ss n _ _ h; omega
  | succ fuel ih =>
    intro p s ps ss n hr hB hf
    obtain ⟨hs, hlen, hpl⟩ := hr.facts
    cases s with
    | nil =>
      simp only [globLoop]
      rw [← glob_empty]
      cases ha : alt ps ss with
      | false => simp
      | true => simp [alt_exhausted hr ha]
    | cons c s =>
      simp only [globLoop]
      cases hg : gstep p c with
      | advance p' =>
        simp only
        have hl := gstep_advance_length hg
        rw [ih p' s ps ss (n + 1) (.step hr hg) hB (by simp at hf; omega), gstep_advance hg]
      | star p' =>
        simp only
        have hp := gstep_star hg
        subst hp
        have hB' : p'.length + (c :: s).length ≤ B := by simp at hpl hlen ⊢; omega
        have hmul : (c :: s).length * (B + 1) ≤ ss.length * (B + 1) :=
          Nat.mul_le_mul_right _ (by omega)
        rw [ih p' (c :: s) p' (c :: s) 0 .refl hB' (by simp at hf hmul ⊢; omega)]
        -- glob p' (c::s) || alt p' (c::s) = glob (42::p') (c::s) ; alt ps ss is subsumed
        have e1 : (glob p' (c :: s) || alt p' (c :: s)) = glob (42 :: p') (c :: s) := by
          simp [alt, glob_star_cons]
        rw [e1]
        cases ha : alt ps ss with
        | false => simp
        | true => simp [alt_subsumed hr ha]
      | mismatch =>
        simp only
        rw [gstep_mismatch hg]
        cases ss with
        | nil => simp at hlen
        | cons x ss' =>
          simp only
          have hB' : ps.length + ss'.length ≤ B := by simp at hB; omega
          have hmul : (x :: ss').length * (B + 1) = ss'.length * (B + 1) + (B + 1) := by
            simp [Nat.succ_mul]
          rw [ih ps ss' ps ss' 0 .refl hB' (by simp at hB hf hmul ⊢; omega)]
          simp only [Bool.false_or]
          cases ss' with
          | nil => simp [alt, glob_star_nil]
          | cons y ss'' => simp [alt, glob_star_cons]

/-- Loop invariant before the first star: plain matching, failure on the first mismatch. -/
theorem globLoop_none (B : Nat) : ∀ (fuel : Nat) (p s : Bytes),
    p.length + s.length ≤ B →
    (s.length + 1) * (B + 1) + s.length + p.length < fuel →
    globLoop fuel p s none = glob p s := by
  intro fuel
  induction fuel with
  | zero => intro p s _ h; omega
  | succ fuel ih =>
    intro p s hB hf
    cases s with
    | nil => simp only [globLoop]; rw [← glob_empty]
    | cons c s =>
      simp only [globLoop]
      have hmul : ((c :: s).length + 1) * (B + 1) = (s.length + 1) * (B + 1) + (B + 1) := by
        simp [Nat.succ_mul]
      cases hg : gstep p c with
      | advance p' =>
        simp only
        have hl := gstep_advance_length hg
        rw [ih p' s (by simp at hB; omega) (by simp at hf hmul ⊢; omega), gstep_advance hg]
      | star p' =>
        simp only
        have hp := gstep_star hg
        subst hp
        have hB' : p'.length + (c :: s).length ≤ B := by simp at hB ⊢; omega
        rw [globLoop_some B fuel p' (c :: s) p' (c :: s) 0 .refl hB'
          (by simp at hf hmul hB ⊢; omega)]
        simp [alt, glob_star_cons]
      | mismatch =>
        simp only
        rw [gstep_mismatch hg]

/-- **The matcher of pubsub.rs computes the declarative meaning of the pattern.** -/
theorem globBytes_eq_spec (p s : Bytes) : globBytes p s = glob p s := by
  unfold globBytes globFuel
  apply globLoop_none (p.length + s.length) _ p s (Nat.le_refl _)
  have : (s.length + 2) * (p.length + s.length + 2)
      = (s.length + 1) * (p.length + s.length + 1) + (s.length + 1) + (p.length + s.length + 1) + 1 := by
    simp only [Nat.add_mul, Nat.mul_add]; omega
  omega

/-- More fuel never changes the answer (the bound `globFuel` is not the reason for any result). -/
theorem globLoop_fuel_irrelevant (p s : Bytes) (fuel : Nat) (h : globFuel p s ≤ fuel) :
    globLoop fuel p s none = globBytes p s := by
  rw [globBytes_eq_spec]
  apply globLoop_none (p.length + s.length) _ p s (Nat.le_refl _)
  unfold globFuel at h
  have : (s.length + 2) * (p.length + s.length + 2)
      = (s.length + 1) * (p.length + s.length + 1) + (s.length + 1) + (p.length + s.length + 1) + 1 := by
    simp only [Nat.add_mul, Nat.mul_add]; omega
  omega

/-! ### `Spec.glob` decides the relation `Spec.Glob` -/

theorem Glob.star_drop {p s : Bytes} (k : Nat) (h : Glob p (s.drop k)) : Glob (42 :: p) s := by
  induction k generalizing s with
  | zero => exact .starSkip (by simpa using h)
  | succ k ih =>
    cases s with
    | nil => exact .starSkip (by simpa using h)
    | cons c s => exact .starEat c (ih (by simpa using h))

theorem glob_of_Glob {p s : Bytes} (h : Glob p s) : glob p s = true := by
  induction h with
  | nil => simp [glob_nil]
  | starSkip _ ih => rw [glob_star]; exact someSuffix_self ih
  | starEat c _ ih => rw [glob_star_cons, ih]; simp
  | any c _ ih => simpa [glob_cons] using ih
  | esc c _ ih => simpa [glob_cons] using ih
  | lastBackslash => simp [glob_cons]
  | lit a h1 h2 h3 _ ih => simpa [glob_cons, h1, h2, h3] using ih

theorem Glob_of_glob : ∀ (n : Nat) (p : Bytes), p.length ≤ n → ∀ s, glob p s = true → Glob p s := by
  intro n
  induction n with
  | zero =>
    intro p hp s h
    cases p with
    | nil =>
      cases s with
      | nil => exact .nil
      | cons c s => simp [glob_nil] at h
    | cons a q => simp at hp
  | succ n ih =>
    intro p hp s h
    cases p with
    | nil =>
      cases s with
      | nil => exact .nil
      | cons c s => simp [glob_nil] at h
    | cons a q =>
      have hq : q.length ≤ n := by simp at hp; omega
      by_cases h42 : a = 42
      · subst h42
        rw [glob_star] at h
        obtain ⟨k, hk⟩ := (someSuffix_iff _ _).1 h
        exact Glob.star_drop k (ih q hq _ hk)
      · by_cases h63 : a = 63
        · subst h63
          cases s with
          | nil => simp [glob_cons] at h
          | cons c t => exact .any c (ih q hq t (by simpa [glob_cons] using h))
        · by_cases h92 : a = 92
          · subst h92
            cases q with
            | nil =>
              have : s = [92] := by simpa [glob_cons] using h
              subst this
              exact .lastBackslash
            | cons x q' =>
              cases s with
              | nil => simp [glob_cons] at h
              | cons c t =>
                have h' : x = c ∧ glob q' t = true := by simpa [glob_cons] using h
                obtain ⟨hx, hg⟩ := h'
                subst hx
                exact .esc x (ih q' (by simp at hq; omega) t hg)
          · cases s with
            | nil => simp [glob_cons, h42, h63, h92] at h
            | cons c t =>
              have h' : a = c ∧ glob q t = true := by simpa [glob_cons, h42, h63, h92] using h
              obtain ⟨hx, hg⟩ := h'
              subst hx
              exact .lit a h42 h63 h92 (ih q hq t hg)

/-- `Spec.glob` decides the relation `Spec.Glob`. -/
theorem glob_iff_Glob (p s : Bytes) : glob p s = true ↔ Glob p s :=
  ⟨Glob_of_glob p.length p (Nat.le_refl _) s, glob_of_Glob⟩

end Ferrous.PubSub
