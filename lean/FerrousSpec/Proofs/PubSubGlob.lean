/-
  The star-backtracking matcher `globLoop` (= `storage::engine::pattern_matches`, which
  `pubsub::pattern_matches` calls; arms `?`, `*`, `[…]`, `\x`, literal) computes the
  declarative meaning `Spec.glob` of the pattern, for every pattern and every text; and
  `Spec.glob` decides the relation `Spec.Glob`.

  Invariant of the loop in state `(p, s, some (ps, ss))`:
    result = Spec.glob p s  ||  "`*ps` matches `ss` minus its first byte"
  where `(p, s)` was reached from `(ps, ss)` by consuming single-byte tokens (`Reach`).
  Forgetting earlier stars is sound because a later `*` absorbs whatever an earlier one could
  have skipped (`reach_glob`, `someSuffix_of_suffix`).
-/
import FerrousSpec.Model.PubSub
set_option linter.unusedSimpArgs false
namespace Ferrous.PubSub
open Spec

/-! ### `someSuffix` -/

theorem someSuffix_iff (g : Bytes → Bool) (s : Bytes) :
    someSuffix g s = true ↔ ∃ k, g (s.drop k) = true := by
  induction s with
  | nil => simp [someSuffix]
  | cons c s ih =>
    simp only [someSuffix, Bool.or_eq_true, ih]
    constructor
    · rintro (h | ⟨k, h⟩)
      · exact ⟨0, by simpa using h⟩
      · exact ⟨k + 1, by simpa using h⟩
    · rintro ⟨k, h⟩
      cases k with
      | zero => left; simpa using h
      | succ k => right; exact ⟨k, by simpa using h⟩

theorem someSuffix_self {g : Bytes → Bool} {s : Bytes} (h : g s = true) : someSuffix g s = true :=
  (someSuffix_iff g s).2 ⟨0, by simpa using h⟩

theorem someSuffix_of_drop {g : Bytes → Bool} {s : Bytes} (k : Nat)
    (h : someSuffix g (s.drop k) = true) : someSuffix g s = true := by
  obtain ⟨j, hj⟩ := (someSuffix_iff g _).1 h
  exact (someSuffix_iff g s).2 ⟨k + j, by simpa [List.drop_drop] using hj⟩

/-! ### The class walk of the code reads the class as the spec does -/

theorem classGo_cons (c a : Nat) (q : Bytes) (m : Bool) : classGo c (a :: q) m =
    if a = 92 then
      match q with
      | x :: q' => classGo c q' (m || x == c)
      | [] => (m || 92 == c, [])
    else if a = 93 then (m, q)
    else if isRange q then
      match q with
      | _ :: b :: q' => classGo c q' (m || (decide (min a b ≤ c) && decide (c ≤ max a b)))
      | _ => (m, [])
    else classGo c q (m || a == c) := by
  conv => lhs; rw [classGo.eq_def]
  rfl

theorem classParse_cons (a : Nat) (q : Bytes) : classParse (a :: q) =
    if a = 92 then
      match q with
      | x :: q' => (.one x :: (classParse q').1, (classParse q').2)
      | [] => ([.one 92], [])
    else if a = 93 then ([], q)
    else if isRange q then
      match q with
      | _ :: b :: q' => (.range a b :: (classParse q').1, (classParse q').2)
      | _ => ([], [])
    else (.one a :: (classParse q).1, (classParse q).2) := by
  conv => lhs; rw [classParse.eq_def]
  rfl

theorem classParse_length : ∀ (n : Nat) (q : Bytes), q.length ≤ n → (classParse q).2.length ≤ q.length := by
  intro n
  induction n with
  | zero => intro q h; cases q with
    | nil => simp [classParse]
    | cons a q => simp at h
  | succ n ih =>
    intro q h
    cases q with
    | nil => simp [classParse]
    | cons a q =>
      have hq : q.length ≤ n := by simp at h; omega
      rw [classParse_cons]
      split
      · cases q with
        | nil => simp
        | cons x q' =>
          have := ih q' (by simp at hq; omega)
          simp only [List.length_cons] at this ⊢
          omega
      · split
        · simp
        · split
          · cases q with
            | nil => simp
            | cons d q1 =>
              cases q1 with
              | nil => simp
              | cons b q' =>
                have := ih q' (by simp at hq; omega)
                simp only [List.length_cons] at this ⊢
                omega
          · have := ih q hq
            simp only [List.length_cons] at this ⊢
            omega

/-- The walk of the code = "is `c` one of the members the class consists of", and it stops where
    the class ends. -/
theorem classGo_eq (c : Nat) : ∀ (n : Nat) (q : Bytes) (m : Bool), q.length ≤ n →
    classGo c q m = (m || (classParse q).1.any (·.has c), (classParse q).2) := by
  intro n
  induction n with
  | zero => intro q m h; cases q with
    | nil => simp [classGo, classParse]
    | cons a q => simp at h
  | succ n ih =>
    intro q m h
    cases q with
    | nil => simp [classGo, classParse]
    | cons a q =>
      have hq : q.length ≤ n := by simp at h; omega
      rw [classGo_cons, classParse_cons]
      split
      · cases q with
        | nil => simp [Item.has]
        | cons x q' =>
          simp only
          rw [ih q' _ (by simp at hq; omega)]
          simp [Item.has, Bool.or_assoc]
      · split
        · simp
        · split
          · cases q with
            | nil => simp
            | cons d q1 =>
              cases q1 with
              | nil => simp
              | cons b q' =>
                simp only
                rw [ih q' _ (by simp at hq; omega)]
                simp [Item.has, Bool.or_assoc]
          · rw [ih q _ hq]
            simp [Item.has, Bool.or_assoc]

/-! ### Elements of a pattern -/

theorem head_nil : head [] = .done := rfl

theorem head_cons (a : Nat) (p : Bytes) : head (a :: p) =
    if a = 42 then .star p
    else if a = 63 then .tok .any p
    else if a = 91 then
      .tok (.cls (p.head? == some 94) (classParse (if (p.head? == some 94) = true then p.tail else p)).1)
        (classParse (if (p.head? == some 94) = true then p.tail else p)).2
    else if a = 92 then
      match p with
      | x :: p' => .tok (.lit x) p'
      | [] => .tok (.lit 92) []
    else .tok (.lit a) p := rfl

theorem head_star_cons (p : Bytes) : head (42 :: p) = .star p := by simp [head_cons]

theorem head_star {p p' : Bytes} (h : head p = .star p') : p = 42 :: p' := by
  cases p with
  | nil => cases h
  | cons a q =>
    rw [head_cons] at h
    by_cases h42 : a = 42
    · subst h42
      simp only [if_true] at h
      injection h with h
      rw [h]
    · by_cases h63 : a = 63
      · simp [h42, h63] at h
      · by_cases h91 : a = 91
        · simp [h42, h63, h91] at h
        · by_cases h92 : a = 92
          · cases q <;> simp [h42, h63, h91, h92] at h
          · simp [h42, h63, h91, h92] at h

theorem head_done {p : Bytes} (h : head p = .done) : p = [] := by
  cases p with
  | nil => rfl
  | cons a q =>
    rw [head_cons] at h
    by_cases h42 : a = 42
    · simp [h42] at h
    · by_cases h63 : a = 63
      · simp [h42, h63] at h
      · by_cases h91 : a = 91
        · simp [h42, h63, h91] at h
        · by_cases h92 : a = 92
          · cases q <;> simp [h42, h63, h91, h92] at h
          · simp [h42, h63, h91, h92] at h

theorem head_tok_length {p p' : Bytes} {t : Tok} (h : head p = .tok t p') : p'.length < p.length := by
  cases p with
  | nil => cases h
  | cons a q =>
    rw [head_cons] at h
    by_cases h42 : a = 42
    · simp [h42] at h
    · by_cases h63 : a = 63
      · simp only [h42, h63, if_false, if_true] at h
        injection h with _ h
        subst h
        simp
      · by_cases h91 : a = 91
        · simp only [h42, h63, h91, if_false, if_true] at h
          injection h with _ h
          subst h
          have := classParse_length _ (if (q.head? == some 94) = true then q.tail else q) (Nat.le_refl _)
          have h2 : (if (q.head? == some 94) = true then q.tail else q).length ≤ q.length := by
            split
            · simp
            · exact Nat.le_refl _
          simp only [List.length_cons]
          omega
        · by_cases h92 : a = 92
          · simp only [h42, h63, h91, h92, if_false, if_true] at h
            cases q with
            | nil => simp only at h; injection h with _ h; subst h; simp
            | cons x q' => simp only at h; injection h with _ h; subst h; simp only [List.length_cons]; omega
          · simp only [h42, h63, h91, h92, if_false] at h
            injection h with _ h
            subst h
            simp

/-- A pattern that does not begin with `*` begins with an element standing for one byte. -/
theorem head_of_ne_star {a : Nat} (h : a ≠ 42) (p : Bytes) : ∃ t p', head (a :: p) = .tok t p' := by
  rw [head_cons]
  simp only [h, if_false]
  split
  · exact ⟨_, _, rfl⟩
  · split
    · exact ⟨_, _, rfl⟩
    · split
      · split <;> exact ⟨_, _, rfl⟩
      · exact ⟨_, _, rfl⟩

/-! ### Equations of `Spec.glob` -/

theorem globF_fuel : ∀ (n m : Nat) (p s : Bytes), p.length < n → p.length < m → globF n p s = globF m p s := by
  intro n
  induction n with
  | zero => intro m p s h; omega
  | succ n ih =>
    intro m p s hn hm
    cases m with
    | zero => omega
    | succ m =>
      simp only [globF]
      cases hh : head p with
      | done => rfl
      | star p' =>
        have hp := head_star hh
        subst hp
        simp only [List.length_cons] at hn hm
        have : globF n p' = globF m p' := funext fun t => ih m p' t (by omega) (by omega)
        simp only [this]
      | tok t p' =>
        have hl := head_tok_length hh
        cases s with
        | nil => rfl
        | cons c s' => simp only; rw [ih m p' s' (by omega) (by omega)]

theorem globF_succ (n : Nat) (p s : Bytes) : globF (n + 1) p s =
    match head p with
    | .done => s.isEmpty
    | .star p' => someSuffix (globF n p') s
    | .tok t p' =>
      match s with
      | [] => false
      | c :: s' => t.takes c && globF n p' s' := rfl

/-- The defining equation of the spec: element by element. -/
theorem glob_unfold (p s : Bytes) : glob p s =
    match head p with
    | .done => s.isEmpty
    | .star p' => someSuffix (glob p') s
    | .tok t p' =>
      match s with
      | [] => false
      | c :: s' => t.takes c && glob p' s' := by
  show globF (p.length + 1) p s = _
  rw [globF_succ]
  cases hh : head p with
  | done => rfl
  | star p' =>
    have hp := head_star hh
    subst hp
    rfl
  | tok t p' =>
    have hl := head_tok_length hh
    cases s with
    | nil => rfl
    | cons c s' =>
      simp only
      rw [globF_fuel p.length (p'.length + 1) p' s' hl (by omega)]
      rfl

theorem glob_nil (s : Bytes) : glob [] s = s.isEmpty := by rw [glob_unfold, head_nil]

theorem glob_star (p s : Bytes) : glob (42 :: p) s = someSuffix (glob p) s := by
  rw [glob_unfold, head_star_cons]

theorem glob_star_cons (p : Bytes) (c : Nat) (s : Bytes) :
    glob (42 :: p) (c :: s) = (glob p (c :: s) || glob (42 :: p) s) := by
  simp [glob_star, someSuffix]

theorem glob_star_nil (p : Bytes) : glob (42 :: p) [] = glob p [] := by
  simp [glob_star, someSuffix]

/-- A pattern matches the empty text iff it consists of stars only. -/
theorem glob_empty (p : Bytes) : glob p [] = (p.dropWhile (· == 42)).isEmpty := by
  induction p with
  | nil => simp [glob_nil]
  | cons a p ih =>
    by_cases h : a = 42
    · subst h; simp [glob_star_nil, ih, List.dropWhile]
    · have h' : (a == 42) = false := by simpa using h
      obtain ⟨t, p', ht⟩ := head_of_ne_star h p
      simp only [List.dropWhile, h', List.isEmpty_cons]
      rw [glob_unfold, ht]

/-! ### One step of the pattern against one byte -/

/-- The `match` of the code, in terms of the first element of the pattern. -/
theorem gstep_eq (p : Bytes) (c : Nat) : gstep p c =
    match head p with
    | .done => .mismatch
    | .star p' => .star p'
    | .tok t p' => if t.takes c then .advance p' else .mismatch := by
  cases p with
  | nil => rfl
  | cons a q =>
    rw [head_cons]
    unfold gstep
    by_cases h63 : a = 63
    · subst h63; simp [Tok.takes]
    · by_cases h42 : a = 42
      · subst h42; simp
      · by_cases h91 : a = 91
        · subst h91
          simp only [h63, h42, if_false, if_true]
          rw [classGo_eq c _ _ false (Nat.le_refl _)]
          simp only [Bool.false_or, Tok.takes]
          rfl
        · by_cases h92 : a = 92
          · subst h92
            simp only [h63, h42, h91, if_false, if_true]
            cases q with
            | nil => simp [Tok.takes]
            | cons x q' => simp [Tok.takes]
          · simp [h63, h42, h91, h92, Tok.takes]

theorem gstep_advance {p : Bytes} {c : Nat} {p' : Bytes} (h : gstep p c = .advance p') (s : Bytes) :
    glob p (c :: s) = glob p' s := by
  rw [gstep_eq] at h
  rw [glob_unfold]
  cases hh : head p with
  | done => rw [hh] at h; cases h
  | star q => rw [hh] at h; cases h
  | tok t q =>
    rw [hh] at h
    simp only at h ⊢
    split at h
    · rename_i ht; cases h; simp [ht]
    · cases h

/-- A pattern whose head consumes a byte does not match the empty text, and matching a text
    `d :: t` leaves the rest of the pattern matching `t` (whatever `d` is). -/
theorem gstep_advance_any {p : Bytes} {c : Nat} {p' : Bytes} (h : gstep p c = .advance p') :
    glob p [] = false ∧ ∀ d t, glob p (d :: t) = true → glob p' t = true := by
  rw [gstep_eq] at h
  cases hh : head p with
  | done => rw [hh] at h; cases h
  | star q => rw [hh] at h; cases h
  | tok t q =>
    rw [hh] at h
    simp only at h
    split at h
    · cases h
      constructor
      · rw [glob_unfold, hh]
      · intro d u hg
        rw [glob_unfold, hh] at hg
        simp only [Bool.and_eq_true] at hg
        exact hg.2
    · cases h

theorem gstep_star {p : Bytes} {c : Nat} {p' : Bytes} (h : gstep p c = .star p') : p = 42 :: p' := by
  rw [gstep_eq] at h
  cases hh : head p with
  | done => rw [hh] at h; cases h
  | star q => rw [hh] at h; cases h; exact head_star hh
  | tok t q =>
    rw [hh] at h
    simp only at h
    split at h <;> cases h

theorem gstep_mismatch {p : Bytes} {c : Nat} (h : gstep p c = .mismatch) (s : Bytes) :
    glob p (c :: s) = false := by
  rw [gstep_eq] at h
  rw [glob_unfold]
  cases hh : head p with
  | done => rfl
  | star q => rw [hh] at h; cases h
  | tok t q =>
    rw [hh] at h
    simp only at h ⊢
    split at h
    · cases h
    · rename_i ht; simp [ht]

theorem gstep_advance_length {p : Bytes} {c : Nat} {p' : Bytes} (h : gstep p c = .advance p') :
    p'.length < p.length := by
  rw [gstep_eq] at h
  cases hh : head p with
  | done => rw [hh] at h; cases h
  | star q => rw [hh] at h; cases h
  | tok t q =>
    rw [hh] at h
    simp only at h
    split at h
    · cases h; exact head_tok_length hh
    · cases h

/-! ### States reachable from the last star by consuming single-byte tokens -/

/-- `(p, s)` is reached from `(ps, ss)` after `n` consuming steps. -/
inductive Reach (ps ss : Bytes) : Nat → Bytes → Bytes → Prop
  | refl : Reach ps ss 0 ps ss
  | step {n p c s p'} : Reach ps ss n p (c :: s) → gstep p c = .advance p' → Reach ps ss (n + 1) p' s

theorem Reach.facts {ps ss : Bytes} {n : Nat} {p s : Bytes} (h : Reach ps ss n p s) :
    s = ss.drop n ∧ n + s.length = ss.length ∧ p.length ≤ ps.length := by
  induction h with
  | refl => simp
  | step hr hg ih =>
    rename_i n p c s p'
    obtain ⟨h1, h2, h3⟩ := ih
    have hl := gstep_advance_length hg
    refine ⟨?_, by simp at h2; omega, by omega⟩
    have : ss.drop (n + 1) = (ss.drop n).drop 1 := by simp [List.drop_drop]
    rw [this, ← h1]; rfl

/-- If the pattern after the star matches some other text `t`, then after the same `n` consuming
    steps the current pattern matches `t` minus `n` bytes. -/
theorem Reach.glob {ps ss : Bytes} {n : Nat} {p s : Bytes} (h : Reach ps ss n p s) (t : Bytes)
    (ht : glob ps t = true) : n ≤ t.length ∧ glob p (t.drop n) = true := by
  induction h with
  | refl => simpa using ht
  | step hr hg ih =>
    rename_i n p c s p'
    obtain ⟨hn, hgl⟩ := ih
    obtain ⟨he, hany⟩ := gstep_advance_any hg
    cases hd : t.drop n with
    | nil => rw [hd, he] at hgl; cases hgl
    | cons d u =>
      rw [hd] at hgl
      have hlen : (t.drop n).length = (d :: u).length := by rw [hd]
      simp only [List.length_drop, List.length_cons] at hlen
      refine ⟨by omega, ?_⟩
      have : t.drop (n + 1) = (t.drop n).drop 1 := by simp [List.drop_drop]
      rw [this, hd]
      exact hany d u hgl

/-- What back-tracking to the last star can still achieve. -/
def alt (ps ss : Bytes) : Bool :=
  match ss with
  | [] => false
  | _ :: ss' => glob (42 :: ps) ss'

/-- Key step: in a reachable state whose pattern starts with `*`, the alternatives of the
    previous star are subsumed by the new one. -/
theorem alt_subsumed {ps ss : Bytes} {n : Nat} {p' s : Bytes} (h : Reach ps ss n (42 :: p') s)
    (ha : alt ps ss = true) : glob (42 :: p') s = true := by
  obtain ⟨hs, hlen, _⟩ := h.facts
  cases ss with
  | nil => simp [alt] at ha
  | cons x ss' =>
    simp only [alt, glob_star] at ha
    obtain ⟨k, hk⟩ := (someSuffix_iff _ _).1 ha
    obtain ⟨hn, hg⟩ := h.glob _ hk
    -- (ss'.drop k).drop n = s.drop (k + 1)
    have : (ss'.drop k).drop n = s.drop (k + 1) := by
      rw [hs]
      simp only [List.drop_drop]
      have : n + (k + 1) = (k + n) + 1 := by omega
      rw [this, List.drop_succ_cons]
    rw [this, glob_star] at hg
    rw [glob_star]
    exact someSuffix_of_drop (k + 1) hg

/-- In a reachable state with an exhausted text, back-tracking has nothing left to offer. -/
theorem alt_exhausted {ps ss : Bytes} {n : Nat} {p : Bytes} (h : Reach ps ss n p [])
    (ha : alt ps ss = true) : glob p [] = true := by
  obtain ⟨hs, hlen, _⟩ := h.facts
  cases ss with
  | nil => simp [alt] at ha
  | cons x ss' =>
    simp only [alt, glob_star] at ha
    obtain ⟨k, hk⟩ := (someSuffix_iff _ _).1 ha
    obtain ⟨hn, _⟩ := h.glob _ hk
    simp at hlen hn
    omega

/-! ### The loop -/

theorem or_eq_of_imp {a b c : Bool} (h1 : c = true → a = true) (h2 : b = true → a = true)
    (h3 : a = true → b = true ∨ c = true) : a = (b || c) := by
  cases a <;> cases b <;> cases c <;> simp_all

/-- Loop invariant with a star on record.  `B` bounds `|ps| + |ss|`. -/
theorem globLoop_some (B : Nat) : ∀ (fuel : Nat) (p s ps ss : Bytes) (n : Nat),
    Reach ps ss n p s → ps.length + ss.length ≤ B →
    ss.length * (B + 1) + s.length + p.length < fuel →
    globLoop fuel p s (some (ps, ss)) = (glob p s || alt ps ss) := by
  intro fuel
  induction fuel with
  | zero => intro p s ps ss n _ _ h; omega
  | succ fuel ih =>
    intro p s ps ss n hr hB hf
    obtain ⟨hs, hlen, hpl⟩ := hr.facts
    cases s with
    | nil =>
      simp only [globLoop]
      rw [← glob_empty]
      cases ha : alt ps ss with
      | false => simp
      | true => simp [alt_exhausted hr ha]
    | cons c s =>
      simp only [globLoop]
      cases hg : gstep p c with
      | advance p' =>
        simp only
        have hl := gstep_advance_length hg
        rw [ih p' s ps ss (n + 1) (.step hr hg) hB (by simp at hf; omega), gstep_advance hg]
      | star p' =>
        simp only
        have hp := gstep_star hg
        subst hp
        have hB' : p'.length + (c :: s).length ≤ B := by simp at hpl hlen ⊢; omega
        have hmul : (c :: s).length * (B + 1) ≤ ss.length * (B + 1) :=
          Nat.mul_le_mul_right _ (by omega)
        rw [ih p' (c :: s) p' (c :: s) 0 .refl hB' (by simp at hf hmul ⊢; omega)]
        -- glob p' (c::s) || alt p' (c::s) = glob (42::p') (c::s) ; alt ps ss is subsumed
        have e1 : (glob p' (c :: s) || alt p' (c :: s)) = glob (42 :: p') (c :: s) := by
          simp [alt, glob_star_cons]
        rw [e1]
        cases ha : alt ps ss with
        | false => simp
        | true => simp [alt_subsumed hr ha]
      | mismatch =>
        simp only
        rw [gstep_mismatch hg]
        cases ss with
        | nil => simp at hlen
        | cons x ss' =>
          simp only
          have hB' : ps.length + ss'.length ≤ B := by simp at hB; omega
          have hmul : (x :: ss').length * (B + 1) = ss'.length * (B + 1) + (B + 1) := by
            simp [Nat.succ_mul]
          rw [ih ps ss' ps ss' 0 .refl hB' (by simp at hB hf hmul ⊢; omega)]
          simp only [Bool.false_or]
          cases ss' with
          | nil => simp [alt, glob_star_nil]
          | cons y ss'' => simp [alt, glob_star_cons]

/-- Loop invariant before the first star: plain matching, failure on the first mismatch. -/
theorem globLoop_none (B : Nat) : ∀ (fuel : Nat) (p s : Bytes),
    p.length + s.length ≤ B →
    (s.length + 1) * (B + 1) + s.length + p.length < fuel →
    globLoop fuel p s none = glob p s := by
  intro fuel
  induction fuel with
  | zero => intro p s _ h; omega
  | succ fuel ih =>
    intro p s hB hf
    cases s with
    | nil => simp only [globLoop]; rw [← glob_empty]
    | cons c s =>
      simp only [globLoop]
      have hmul : ((c :: s).length + 1) * (B + 1) = (s.length + 1) * (B + 1) + (B + 1) := by
        simp [Nat.succ_mul]
      cases hg : gstep p c with
      | advance p' =>
        simp only
        have hl := gstep_advance_length hg
        rw [ih p' s (by simp at hB; omega) (by simp at hf hmul ⊢; omega), gstep_advance hg]
      | star p' =>
        simp only
        have hp := gstep_star hg
        subst hp
        have hB' : p'.length + (c :: s).length ≤ B := by simp at hB ⊢; omega
        rw [globLoop_some B fuel p' (c :: s) p' (c :: s) 0 .refl hB'
          (by simp at hf hmul hB ⊢; omega)]
        simp [alt, glob_star_cons]
      | mismatch =>
        simp only
        rw [gstep_mismatch hg]

/-- **The matcher of pubsub.rs computes the declarative meaning of the pattern.** -/
theorem globBytes_eq_spec (p s : Bytes) : globBytes p s = glob p s := by
  unfold globBytes globFuel
  apply globLoop_none (p.length + s.length) _ p s (Nat.le_refl _)
  have : (s.length + 2) * (p.length + s.length + 2)
      = (s.length + 1) * (p.length + s.length + 1) + (s.length + 1) + (p.length + s.length + 1) + 1 := by
    simp only [Nat.add_mul, Nat.mul_add]; omega
  omega

/-- More fuel never changes the answer (the bound `globFuel` is not the reason for any result). -/
theorem globLoop_fuel_irrelevant (p s : Bytes) (fuel : Nat) (h : globFuel p s ≤ fuel) :
    globLoop fuel p s none = globBytes p s := by
  rw [globBytes_eq_spec]
  apply globLoop_none (p.length + s.length) _ p s (Nat.le_refl _)
  unfold globFuel at h
  have : (s.length + 2) * (p.length + s.length + 2)
      = (s.length + 1) * (p.length + s.length + 1) + (s.length + 1) + (p.length + s.length + 1) + 1 := by
    simp only [Nat.add_mul, Nat.mul_add]; omega
  omega

/-! ### `Spec.glob` decides the relation `Spec.Glob` -/

theorem Glob.star_drop {p p' s : Bytes} (hh : head p = .star p') (k : Nat) (h : Glob p' (s.drop k)) : Glob p s := by
  induction k generalizing s with
  | zero => exact .starSkip hh (by simpa using h)
  | succ k ih =>
    cases s with
    | nil => exact .starSkip hh (by simpa using h)
    | cons c s => exact .starEat c hh (ih (by simpa using h))

theorem glob_of_Glob {p s : Bytes} (h : Glob p s) : glob p s = true := by
  induction h with
  | done hh => rw [glob_unfold, hh]; rfl
  | starSkip hh _ ih => rw [glob_unfold, hh]; exact someSuffix_self ih
  | starEat c hh _ ih =>
    rw [glob_unfold, hh] at ih ⊢
    simp only [someSuffix, Bool.or_eq_true]
    exact Or.inr ih
  | tok c hh ht _ ih => rw [glob_unfold, hh]; simp [ht, ih]

theorem Glob_of_glob : ∀ (n : Nat) (p : Bytes), p.length ≤ n → ∀ s, glob p s = true → Glob p s := by
  intro n
  induction n with
  | zero =>
    intro p hp s h
    cases p with
    | nil =>
      cases s with
      | nil => exact .done head_nil
      | cons c s => simp [glob_nil] at h
    | cons a q => simp at hp
  | succ n ih =>
    intro p hp s h
    rw [glob_unfold] at h
    cases hh : head p with
    | done =>
      rw [hh] at h
      simp only [List.isEmpty_iff] at h
      subst h
      exact .done hh
    | star p' =>
      rw [hh] at h
      have hp' := head_star hh
      subst hp'
      obtain ⟨k, hk⟩ := (someSuffix_iff _ _).1 h
      exact Glob.star_drop hh k (ih p' (by simp at hp; omega) _ hk)
    | tok t p' =>
      rw [hh] at h
      have hl := head_tok_length hh
      cases s with
      | nil => simp at h
      | cons c s' =>
        simp only [Bool.and_eq_true] at h
        exact .tok c hh h.1 (ih p' (by omega) s' h.2)

/-- `Spec.glob` decides the relation `Spec.Glob`. -/
theorem glob_iff_Glob (p s : Bytes) : glob p s = true ↔ Glob p s :=
  ⟨Glob_of_glob p.length p (Nat.le_refl _) s, glob_of_Glob⟩

end Ferrous.PubSub
