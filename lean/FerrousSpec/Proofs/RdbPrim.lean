/-
  RDB codec, part 1: the `Res` plumbing, fixed-width integers, the three length forms, strings and
  the homogeneous sequences (`readStrings`, `readPairs`, `readZPairs`).
  Every lemma has the compositional shape `read (enc x ++ rest) = ok x rest allocs`.
-/
import FerrousSpec.Model.Rdb
set_option linter.unusedSimpArgs false
set_option linter.unusedVariables false
namespace Ferrous.Rdb
open Ferrous

/-! ### `Res` -/

@[simp] theorem Res.bind_ok {α β : Type} (a : α) (r : Bytes) (al : List Nat) (f : α → Bytes → Res β) :
    (Res.ok a r al).bind f = (f a r).pre al := rfl
@[simp] theorem Res.bind_err {α β : Type} (e : Err) (al : List Nat) (f : α → Bytes → Res β) :
    (Res.err e al : Res α).bind f = .err e al := rfl
@[simp] theorem Res.pre_ok {α : Type} (a : α) (r : Bytes) (al al' : List Nat) :
    (Res.ok a r al').pre al = .ok a r (al ++ al') := rfl
@[simp] theorem Res.pre_err {α : Type} (e : Err) (al al' : List Nat) :
    (Res.err e al' : Res α).pre al = .err e (al ++ al') := rfl
@[simp] theorem Res.pre_nil {α : Type} (r : Res α) : r.pre [] = r := by
  cases r <;> simp [Res.pre]
@[simp] theorem Res.pre_pre {α : Type} (r : Res α) (a b : List Nat) : (r.pre a).pre b = r.pre (b ++ a) := by
  cases r <;> simp [Res.pre]

@[simp] theorem Res.map_ok {α β : Type} (f : α → β) (a : α) (r : Bytes) (al : List Nat) :
    (Res.ok a r al).map f = .ok (f a) r al := rfl
@[simp] theorem Res.map_err {α β : Type} (f : α → β) (e : Err) (al : List Nat) :
    (Res.err e al : Res α).map f = .err e al := rfl

@[simp] theorem lift_ok {α : Type} (a : α) (r : Bytes) : lift (.ok a : Except Err α) r = .ok a r [] := rfl
@[simp] theorem lift_error {α : Type} (e : Err) (r : Bytes) : lift (.error e : Except Err α) r = .err e [] := rfl

/-! ### `read_exact` -/

theorem readExact_append (n : Nat) (s rest : Bytes) (h : s.length = n) :
    readExact n (s ++ rest) = some (s, rest) := by
  unfold readExact
  simp [List.take_left' h, List.drop_left' h, h]

theorem readFixed_append (n : Nat) (s rest : Bytes) (h : s.length = n) :
    readFixed n (s ++ rest) = .ok s rest [] := by
  simp [readFixed, readExact_append n s rest h]

/-- `read_exact` never hands out more than it was given -/
theorem readExact_some {n : Nat} {bs h r : Bytes} (hh : readExact n bs = some (h, r)) :
    bs = h ++ r ∧ h.length = n := by
  unfold readExact at hh
  dsimp only at hh
  split at hh
  · rename_i hl
    injection hh with hh
    injection hh with h1 h2
    subst h1; subst h2
    exact ⟨(List.take_append_drop n bs).symm, hl⟩
  · cases hh

/-! ### fixed-width little-endian integers (`u64` expiry stamps, `f64` scores) -/

theorem leBytes_length (k n : Nat) : (leBytes k n).length = k := by
  induction k generalizing n with
  | zero => rfl
  | succ k ih => simp [leBytes, ih]

theorem leVal_leBytes (k n : Nat) : leVal (leBytes k n) = n % 256 ^ k := by
  induction k generalizing n with
  | zero => simp [leBytes, leVal, Nat.mod_one]
  | succ k ih =>
    simp only [leBytes, leVal, ih]
    rw [Nat.pow_succ, Nat.mul_comm (256 ^ k) 256, Nat.mod_mul]

theorem u64le_length (n : Nat) : (u64le n).length = 8 := leBytes_length 8 n

theorem leVal_u64le (n : Nat) (h : n < two64) : leVal (u64le n) = n := by
  unfold u64le
  rw [leVal_leBytes]
  exact Nat.mod_eq_of_lt (by simpa [two64] using h)

theorem leVal_u64le_mod (n : Nat) : leVal (u64le n) = n % two64 := by
  unfold u64le
  rw [leVal_leBytes]
  rfl

theorem readFixed_u64le (n : Nat) (rest : Bytes) : readFixed 8 (u64le n ++ rest) = .ok (u64le n) rest [] :=
  readFixed_append 8 _ rest (u64le_length n)

/-! ### the three length forms -/

/-- `read_length ∘ write_length = id` below 2^32, whatever follows.  The case split is the code's
    (`0..=63`, `64..=16383`, the rest); each case is closed by linear arithmetic over the whole
    range, so 63/64 and 16383/16384 are not special. -/
theorem readLen_encLen (n : Nat) (h : n < two32) (rest : Bytes) :
    readLen (encLen n ++ rest) = .ok n rest [] := by
  unfold two32 at h
  unfold encLen
  split
  · rename_i h1
    have : n / 64 = 0 := by omega
    simp [readLen, this]
  · split
    · rename_i h1 h2
      have e1 : ¬ ((n / 256 % 64 + 64) / 64 = 0) := by omega
      have e2 : (n / 256 % 64 + 64) / 64 = 1 := by omega
      have e3 : (n / 256 % 64 + 64) % 64 * 256 + n % 256 = n := by omega
      simp only [readLen, List.cons_append, List.nil_append, e1, e2, if_false, if_true, e3]
      simp
    · rename_i h1 h2
      have e : ((n / 16777216 % 256 * 256 + n / 65536 % 256) * 256 + n / 256 % 256) * 256 + n % 256 = n := by omega
      simp [readLen, readExact, beVal, e]

/-- `len as u32`: at and above 2^32 the written length is the length modulo 2^32. -/
theorem readLen_encLen_trunc (n : Nat) (h : 16383 < n) (rest : Bytes) :
    readLen (encLen n ++ rest) = .ok (n % two32) rest [] := by
  unfold two32
  unfold encLen
  have h1 : ¬ n ≤ 63 := by omega
  have h2 : ¬ n ≤ 16383 := by omega
  have e : ((n / 16777216 % 256 * 256 + n / 65536 % 256) * 256 + n / 256 % 256) * 256 + n % 256 = n % 4294967296 := by omega
  simp [h1, h2, readLen, readExact, beVal, e]

theorem encLen_length_pos (n : Nat) : 0 < (encLen n).length := by
  unfold encLen
  split
  · simp
  · split <;> simp

/-! ### strings -/

theorem readString_encString (s : Bytes) (h : s.length < two32) (rest : Bytes) :
    readString (encString s ++ rest) = .ok s rest [s.length] := by
  unfold readString encString
  rw [List.append_assoc, readLen_encLen _ h]
  simp [readExact_append s.length s rest rfl]

def lengths (xs : List Bytes) : List Nat := xs.map List.length

theorem readStrings_encStrings (xs : List Bytes) (h : ∀ x ∈ xs, x.length < two32) (rest : Bytes) :
    readStrings xs.length (encStrings xs ++ rest) = .ok xs rest (lengths xs) := by
  induction xs with
  | nil => simp [readStrings, encStrings, lengths]
  | cons x xs ih =>
    have hx := h x (by simp)
    have hxs : ∀ y ∈ xs, y.length < two32 := fun y hy => h y (by simp [hy])
    have ih' := ih hxs
    simp only [encStrings] at ih' ⊢
    simp only [List.length_cons, readStrings, List.flatMap_cons, List.append_assoc]
    rw [readString_encString x hx]
    simp [ih', lengths]

def pairLengths (fs : List (Bytes × Bytes)) : List Nat := fs.flatMap fun p => [p.1.length, p.2.length]

theorem readPairs_encPairs (fs : List (Bytes × Bytes))
    (h : ∀ p ∈ fs, p.1.length < two32 ∧ p.2.length < two32) (rest : Bytes) :
    readPairs fs.length (encPairs fs ++ rest) = .ok fs rest (pairLengths fs) := by
  induction fs with
  | nil => simp [readPairs, encPairs, pairLengths]
  | cons p fs ih =>
    have hp := h p (by simp)
    have hfs : ∀ q ∈ fs, q.1.length < two32 ∧ q.2.length < two32 := fun q hq => h q (by simp [hq])
    have ih' := ih hfs
    simp only [encPairs] at ih' ⊢
    simp only [List.length_cons, readPairs, List.flatMap_cons, encPair, List.append_assoc]
    rw [readString_encString p.1 hp.1]
    simp only [Res.bind_ok]
    rw [readString_encString p.2 hp.2]
    simp [ih', pairLengths]

def zLengths (zs : List (Bytes × Nat)) : List Nat := zs.map fun p => p.1.length

theorem readZPairs_encZItems (zs : List (Bytes × Nat))
    (h : ∀ p ∈ zs, p.1.length < two32 ∧ p.2 < two64) (rest : Bytes) :
    readZPairs zs.length (encZItems zs ++ rest) = .ok zs rest (zLengths zs) := by
  induction zs with
  | nil => simp [readZPairs, encZItems, zLengths]
  | cons p zs ih =>
    have hp := h p (by simp)
    have hzs : ∀ q ∈ zs, q.1.length < two32 ∧ q.2 < two64 := fun q hq => h q (by simp [hq])
    have ih' := ih hzs
    simp only [encZItems] at ih' ⊢
    simp only [List.length_cons, readZPairs, List.flatMap_cons, encZItem, List.append_assoc]
    rw [readString_encString p.1 hp.1]
    simp only [Res.bind_ok]
    rw [readFixed_u64le]
    simp [ih', zLengths, leVal_u64le p.2 hp.2]

end Ferrous.Rdb
