/-
  C04 helper lemmas (2): the skip-list invariant and its preservation by `insert` / `remove`
  for every tower height (plan: DESIGN.md Appendix D2).
-/
import FerrousSpec.Proofs.ZSetOrder
namespace Ferrous.ZSet
open Ferrous Code

abbrev CSorted (l : List CEntry) : Prop := l.Pairwise (fun a b => centLt a b = true)

/-- Every level is a sublist of the level below it. -/
def SubChain : List (List CEntry) → Prop
  | [] => True
  | l :: ls => (∀ u, ls.head? = some u → u.Sublist l) ∧ SubChain ls

/-- The structural invariant of the skip list (for states without NaN). -/
structure Inv (sl : SkipList) : Prop where
  nonempty : sl.levels ≠ []
  sorted : ∀ l ∈ sl.levels, CSorted l
  chain : SubChain sl.levels
  noNaN : ∀ e ∈ level0 sl, e.1 ≠ .nan
  idxSorted : sl.keyIndex.Pairwise (fun a b => keyLt a b = true)
  idxMap : ∀ m s, (m, s) ∈ sl.keyIndex ↔ (s, m) ∈ level0 sl
  len : sl.length = (level0 sl).length

/-! ### Key index -/

theorem idx_functional {idx : List (Bytes × CScore)} (h : idx.Pairwise (fun a b => keyLt a b = true))
    {m : Bytes} {a b : CScore} (ha : (m, a) ∈ idx) (hb : (m, b) ∈ idx) : a = b := by
  induction idx with
  | nil => simp at ha
  | cons p ps ih =>
    rw [List.pairwise_cons] at h
    rcases List.mem_cons.mp ha with ha | ha <;> rcases List.mem_cons.mp hb with hb | hb
    · rw [← ha] at hb; exact (Prod.mk.inj hb).2.symm
    · have := h.1 _ hb
      rw [← ha] at this
      simp [keyLt, bytesLt_irrefl] at this
    · have := h.1 _ ha
      rw [← hb] at this
      simp [keyLt, bytesLt_irrefl] at this
    · exact ih h.2 ha hb

theorem idxGet_some_mem {idx : List (Bytes × CScore)} {m : Bytes} {s : CScore}
    (h : idxGet m idx = some s) : (m, s) ∈ idx := by
  unfold idxGet at h
  cases hf : idx.find? (fun p => p.1 == m) with
  | none => simp [hf] at h
  | some p =>
    simp [hf] at h
    have hp := List.find?_some hf
    have hm := List.mem_of_find?_eq_some hf
    simp at hp
    rw [← h, ← hp]
    exact hm

theorem idxGet_eq_some {idx : List (Bytes × CScore)} (hs : idx.Pairwise (fun a b => keyLt a b = true))
    {m : Bytes} {s : CScore} : idxGet m idx = some s ↔ (m, s) ∈ idx := by
  constructor
  · exact idxGet_some_mem
  · intro hmem
    cases hg : idxGet m idx with
    | none =>
      unfold idxGet at hg
      simp at hg
      exact absurd rfl (hg m s hmem)
    | some s' =>
      rw [idx_functional hs (idxGet_some_mem hg) hmem]

theorem idxGet_eq_none {idx : List (Bytes × CScore)} {m : Bytes} :
    idxGet m idx = none ↔ ∀ s, (m, s) ∉ idx := by
  unfold idxGet
  simp only [Option.map_eq_none_iff, List.find?_eq_none]
  constructor
  · intro h s hm
    exact h _ hm (by simp)
  · intro h p hp
    simp only [beq_iff_eq]
    intro e
    apply h p.2
    rw [← e]
    exact hp

theorem mem_idxDel {idx : List (Bytes × CScore)} {m : Bytes} {p : Bytes × CScore} :
    p ∈ idxDel m idx ↔ p ∈ idx ∧ p.1 ≠ m := by
  simp [idxDel]

theorem mem_idxSet {idx : List (Bytes × CScore)} {m : Bytes} {s : CScore} {p : Bytes × CScore} :
    p ∈ idxSet m s idx ↔ p = (m, s) ∨ (p ∈ idx ∧ p.1 ≠ m) := by
  simp [idxSet, mem_insSorted, mem_idxDel]

theorem sorted_idxDel {idx : List (Bytes × CScore)} (h : idx.Pairwise (fun a b => keyLt a b = true))
    (m : Bytes) : (idxDel m idx).Pairwise (fun a b => keyLt a b = true) :=
  h.filter _

theorem sorted_idxSet {idx : List (Bytes × CScore)} (h : idx.Pairwise (fun a b => keyLt a b = true))
    (m : Bytes) (s : CScore) : (idxSet m s idx).Pairwise (fun a b => keyLt a b = true) := by
  unfold idxSet
  apply pairwise_insSorted
  · intro a b c h1 h2
    exact bytesLt_trans h1 h2
  · exact sorted_idxDel h m
  · intro y hy hlt
    have hne : y.1 ≠ m := (mem_idxDel.mp hy).2
    simp only [keyLt] at hlt ⊢
    cases h2 : bytesLt m y.1
    · exact absurd (bytesLt_total hlt h2) hne
    · rfl

theorem idxDel_idem (m : Bytes) (idx : List (Bytes × CScore)) : idxDel m (idxDel m idx) = idxDel m idx := by
  simp [idxDel, List.filter_filter]

theorem idxSet_idxDel (m : Bytes) (s : CScore) (idx : List (Bytes × CScore)) :
    idxSet m s (idxDel m idx) = idxSet m s idx := by
  simp [idxSet, idxDel_idem]

/-! ### Levels: insertion -/

theorem subchain_not_mem {x : CEntry} : ∀ {l : List CEntry} {ls : List (List CEntry)},
    SubChain (l :: ls) → x ∉ l → ∀ u ∈ ls, x ∉ u
  | _, [], _, _, u, hu => by simp at hu
  | l, v :: rest, hc, hx, u, hu => by
    have hvl : v.Sublist l := hc.1 v rfl
    have hxv : x ∉ v := fun h => hx (hvl.subset h)
    rcases List.mem_cons.mp hu with rfl | hu
    · exact hxv
    · exact subchain_not_mem hc.2 hxv u hu

theorem csorted_insSorted {x : CEntry} {l : List CEntry} (hl : CSorted l) (hx : x ∉ l) :
    CSorted (insSorted centLt x l) := by
  apply pairwise_insSorted centLt_strictTotal.trans hl
  intro y hy hlt
  cases h2 : centLt x y
  · have := centLt_strictTotal.total _ _ hlt h2
    exact absurd (this ▸ hy) hx
  · rfl

theorem insLevels_nil (x : CEntry) (n : Nat) : insLevels centLt x n [] = List.replicate n [x] := by
  induction n with
  | zero => rfl
  | succ n ih => simp [insLevels, ih, List.replicate_succ]

theorem subchain_replicate (x : CEntry) (n : Nat) : SubChain (List.replicate n [x]) := by
  induction n with
  | zero => trivial
  | succ n ih =>
    rw [List.replicate_succ]
    refine ⟨?_, ih⟩
    intro u hu
    cases n with
    | zero => simp at hu
    | succ n => simp [List.replicate_succ] at hu; rw [← hu]; exact List.Sublist.refl _

theorem insLevels_ok (x : CEntry) : ∀ (n : Nat) (ls : List (List CEntry)),
    (∀ l ∈ ls, CSorted l) → SubChain ls → (∀ l ∈ ls, x ∉ l) →
    (∀ l ∈ insLevels centLt x n ls, CSorted l) ∧ SubChain (insLevels centLt x n ls)
  | 0, ls, hs, hc, _ => ⟨hs, hc⟩
  | n + 1, [], _, _, _ => by
    rw [insLevels_nil]
    refine ⟨?_, subchain_replicate x (n + 1)⟩
    intro l hl
    rw [(List.mem_replicate.mp hl).2]
    simp [CSorted]
  | n + 1, l :: ls, hs, hc, hx => by
    have ih := insLevels_ok x n ls (fun u hu => hs u (List.mem_cons_of_mem _ hu)) hc.2
      (fun u hu => hx u (List.mem_cons_of_mem _ hu))
    have hl : CSorted l := hs l List.mem_cons_self
    have hxl : x ∉ l := hx l List.mem_cons_self
    show (∀ l' ∈ insSorted centLt x l :: insLevels centLt x n ls, CSorted l') ∧
      SubChain (insSorted centLt x l :: insLevels centLt x n ls)
    refine ⟨?_, ?_, ih.2⟩
    · intro l' hl'
      rcases List.mem_cons.mp hl' with rfl | hl'
      · exact csorted_insSorted hl hxl
      · exact ih.1 l' hl'
    · intro u hu
      cases n with
      | zero =>
        have : u.Sublist l := hc.1 u hu
        exact this.trans (sublist_insSorted x l)
      | succ n =>
        cases ls with
        | nil =>
          simp [insLevels] at hu
          rw [← hu]
          exact List.singleton_sublist.mpr (mem_insSorted.mpr (Or.inl rfl))
        | cons v rest =>
          simp [insLevels] at hu
          rw [← hu]
          exact sublist_insSorted_both centLt_strictTotal (hc.1 v rfl) hl hxl

theorem head_insLevels (x : CEntry) (n : Nat) (ls : List (List CEntry)) :
    (insLevels centLt x (n + 1) ls).headD [] = insSorted centLt x (ls.headD []) := by
  cases ls <;> simp [insLevels, insSorted]

theorem insLevels_ne_nil (x : CEntry) (n : Nat) (ls : List (List CEntry)) : insLevels centLt x (n + 1) ls ≠ [] := by
  cases ls <;> simp [insLevels]

/-! ### Levels: removal -/

theorem csorted_tail_gt {q : CEntry} {l : List CEntry} (h : CSorted (q :: l)) : q ∉ l := by
  rw [CSorted, List.pairwise_cons] at h
  intro hm
  have := h.1 q hm
  simp [centLt_strictTotal.irrefl] at this

theorem filter_ne_of_not_mem {q : CEntry} {l : List CEntry} (h : q ∉ l) :
    l.filter (fun e => decide (e ≠ q)) = l := by
  apply List.filter_eq_self.mpr
  intro e he
  simp only [decide_eq_true_eq]
  intro e'; exact h (e' ▸ he)

theorem unlinkAt_spec {q : CEntry} : ∀ {l : List CEntry}, CSorted l →
    (∀ l', unlinkAt centLt q q l = some l' → l' = l.filter (fun e => decide (e ≠ q))) ∧
    (unlinkAt centLt q q l = none → q ∉ l)
  | [], _ => by simp [unlinkAt]
  | y :: ys, hs => by
    have hs' : CSorted ys := (List.pairwise_cons.mp hs).2
    have ih := unlinkAt_spec (q := q) hs'
    unfold unlinkAt
    split
    · rename_i hlt
      have hne : y ≠ q := centLt_strictTotal.ne hlt
      constructor
      · intro l' h
        cases hu : unlinkAt centLt q q ys with
        | none => simp [hu] at h
        | some r =>
          simp [hu] at h
          rw [← h, ih.1 r hu]
          simp [hne]
      · intro h
        have : unlinkAt centLt q q ys = none := by
          cases hu : unlinkAt centLt q q ys with
          | none => rfl
          | some r => simp [hu] at h
        intro hm
        rcases List.mem_cons.mp hm with e | hm
        · exact hne e.symm
        · exact ih.2 this hm
    · rename_i hnlt
      split
      · rename_i heq
        subst heq
        constructor
        · intro l' h
          simp at h
          rw [← h, List.filter_cons_of_neg (by simp), filter_ne_of_not_mem (csorted_tail_gt hs)]
        · intro h; simp at h
      · rename_i hne
        constructor
        · intro l' h; simp at h
        · intro _ hm
          rcases List.mem_cons.mp hm with e | hm
          · exact hne e.symm
          · -- q ∈ ys would give y < q
            have := (List.pairwise_cons.mp hs).1 q hm
            exact hnlt this

theorem unlinkLevels_eq {q : CEntry} : ∀ {ls : List (List CEntry)},
    (∀ l ∈ ls, CSorted l) → SubChain ls →
    unlinkLevels centLt q q ls = ls.map (List.filter (fun e => decide (e ≠ q)))
  | [], _, _ => rfl
  | l :: ls, hs, hc => by
    have hl := unlinkAt_spec (q := q) (hs l List.mem_cons_self)
    unfold unlinkLevels
    cases hu : unlinkAt centLt q q l with
    | some l' =>
      simp only [List.map_cons]
      rw [hl.1 l' hu, unlinkLevels_eq (fun u hu => hs u (List.mem_cons_of_mem _ hu)) hc.2]
    | none =>
      have hq : q ∉ l := hl.2 hu
      have hrest := subchain_not_mem hc hq
      simp only [List.map_cons, filter_ne_of_not_mem hq]
      have : ls.map (List.filter (fun e => decide (e ≠ q))) = ls.map id :=
        List.map_congr_left (fun u hu => filter_ne_of_not_mem (hrest u hu))
      rw [this, List.map_id]

/-! ### Trimming the empty top levels -/

theorem mem_dropTrailingEmpty : ∀ {ls : List (List CEntry)} {l : List CEntry},
    l ∈ dropTrailingEmpty ls → l ∈ ls
  | [], _, h => by simp [dropTrailingEmpty] at h
  | a :: ls, l, h => by
    unfold dropTrailingEmpty at h
    split at h
    · split at h
      · simp at h
      · simp at h; simp [h]
    · rcases List.mem_cons.mp h with rfl | h
      · simp
      · exact List.mem_cons_of_mem _ (mem_dropTrailingEmpty h)

theorem head?_dropTrailingEmpty : ∀ {ls : List (List CEntry)} {u : List CEntry},
    (dropTrailingEmpty ls).head? = some u → ls.head? = some u
  | [], _, h => by simp [dropTrailingEmpty] at h
  | a :: ls, u, h => by
    unfold dropTrailingEmpty at h
    split at h
    · split at h
      · simp at h
      · simpa using h
    · simpa using h

theorem subchain_dropTrailingEmpty : ∀ {ls : List (List CEntry)}, SubChain ls → SubChain (dropTrailingEmpty ls)
  | [], _ => by simp [dropTrailingEmpty, SubChain]
  | a :: ls, hc => by
    have ih := subchain_dropTrailingEmpty hc.2
    unfold dropTrailingEmpty
    split
    · split
      · trivial
      · exact ⟨by simp, trivial⟩
    · exact ⟨fun u hu => hc.1 u (head?_dropTrailingEmpty hu), ih⟩

theorem subchain_map_filter (p : CEntry → Bool) : ∀ {ls : List (List CEntry)}, SubChain ls →
    SubChain (ls.map (List.filter p))
  | [], _ => trivial
  | l :: ls, hc => by
    refine ⟨?_, subchain_map_filter p hc.2⟩
    intro u hu
    cases ls with
    | nil => simp at hu
    | cons v rest =>
      simp at hu
      rw [← hu]
      exact (hc.1 v rfl).filter p

theorem removeLevels_ok (p : CEntry → Bool) {ls : List (List CEntry)} (hne : ls ≠ [])
    (hs : ∀ l ∈ ls, CSorted l) (hc : SubChain ls) :
    trimLevels (ls.map (List.filter p)) ≠ [] ∧
    (∀ l ∈ trimLevels (ls.map (List.filter p)), CSorted l) ∧
    SubChain (trimLevels (ls.map (List.filter p))) ∧
    (trimLevels (ls.map (List.filter p))).headD [] = (ls.headD []).filter p := by
  cases ls with
  | nil => exact absurd rfl hne
  | cons l rest =>
    simp only [List.map_cons, trimLevels]
    refine ⟨by simp, ?_, ⟨?_, ?_⟩, by simp⟩
    · intro l' hl'
      rcases List.mem_cons.mp hl' with rfl | hl'
      · exact (hs l List.mem_cons_self).filter p
      · have := mem_dropTrailingEmpty hl'
        rcases List.mem_map.mp this with ⟨v, hv, rfl⟩
        exact (hs v (List.mem_cons_of_mem _ hv)).filter p
    · intro u hu
      have := head?_dropTrailingEmpty hu
      cases rest with
      | nil => simp at this
      | cons v r =>
        simp at this
        rw [← this]
        exact (hc.1 v rfl).filter p
    · exact subchain_dropTrailingEmpty (subchain_map_filter p hc.2)

/-! ### `remove_node_by_score` on a well-formed list removes exactly the node -/

theorem findTarget_mem {q : CEntry} : ∀ {l : List CEntry}, CSorted l → q ∈ l → findTarget centLt q l = some q
  | [], _, h => by simp at h
  | y :: ys, hs, h => by
    unfold findTarget
    split
    · rename_i hlt
      rcases List.mem_cons.mp h with e | h
      · exact absurd e.symm (centLt_strictTotal.ne hlt)
      · exact findTarget_mem (List.pairwise_cons.mp hs).2 h
    · rename_i hnlt
      rcases List.mem_cons.mp h with e | h
      · rw [e]
      · exact absurd ((List.pairwise_cons.mp hs).1 q h) hnlt

theorem findTarget_none_or_ge {lt : CEntry → CEntry → Bool} {q : CEntry} : ∀ {l : List CEntry} {t : CEntry},
    findTarget lt q l = some t → t ∈ l ∧ lt t q = false
  | [], _, h => by simp [findTarget] at h
  | y :: ys, t, h => by
    unfold findTarget at h
    split at h
    · have := findTarget_none_or_ge h
      exact ⟨List.mem_cons_of_mem _ this.1, this.2⟩
    · rename_i hnlt
      simp at h
      subst h
      exact ⟨List.mem_cons_self, by simpa using hnlt⟩

/-! ### The code's comparator and the proof order agree wherever the code can get -/

/-- `compare_nodes == Less` is the proof order against `q` for every node that is `q` itself or
    carries another member. -/
theorem ccmp_eq_cent {y q : CEntry} (h : y.2 = q.2 → y = q) : ccmpLt y q = centLt y q := by
  by_cases e : y.2 = q.2
  · rw [h e, ccmpLt_irrefl, centLt_strictTotal.irrefl]
  · exact (centLt_of_ne_member e).symm

theorem ccmpEq_eq {y q : CEntry} (h : y.2 = q.2 → y = q) : ccmpEq y q = decide (y = q) := by
  by_cases e : y.2 = q.2
  · have := h e; subst this; simp [ccmpEq, CScore.eqv_refl]
  · have : y ≠ q := fun e' => e (by rw [e'])
    simp [ccmpEq, e, this]

theorem findTarget_congr {lt lt' : CEntry → CEntry → Bool} {q : CEntry} : ∀ {l : List CEntry},
    (∀ y ∈ l, lt y q = lt' y q) → findTarget lt q l = findTarget lt' q l
  | [], _ => rfl
  | y :: ys, h => by
    simp only [findTarget, h y List.mem_cons_self,
      findTarget_congr (fun z hz => h z (List.mem_cons_of_mem _ hz))]

theorem unlinkAt_congr {lt lt' : CEntry → CEntry → Bool} {q t : CEntry} : ∀ {l : List CEntry},
    (∀ y ∈ l, lt y q = lt' y q) → unlinkAt lt q t l = unlinkAt lt' q t l
  | [], _ => rfl
  | y :: ys, h => by
    simp only [unlinkAt, h y List.mem_cons_self,
      unlinkAt_congr (fun z hz => h z (List.mem_cons_of_mem _ hz))]

theorem unlinkLevels_congr {lt lt' : CEntry → CEntry → Bool} {q t : CEntry} : ∀ {ls : List (List CEntry)},
    (∀ l ∈ ls, ∀ y ∈ l, lt y q = lt' y q) → unlinkLevels lt q t ls = unlinkLevels lt' q t ls
  | [], _ => rfl
  | l :: ls, h => by
    simp only [unlinkLevels, unlinkAt_congr (h l List.mem_cons_self),
      unlinkLevels_congr (fun u hu => h u (List.mem_cons_of_mem _ hu))]

theorem insLevels_congr {lt lt' : CEntry → CEntry → Bool} {x : CEntry} : ∀ (n : Nat) {ls : List (List CEntry)},
    (∀ l ∈ ls, ∀ y ∈ l, lt y x = lt' y x) → insLevels lt x n ls = insLevels lt' x n ls
  | 0, _, _ => rfl
  | n + 1, [], _ => by
    have ih := insLevels_congr (lt := lt) (lt' := lt') (x := x) n (ls := []) (by simp)
    simp only [insLevels]
    rw [ih]
  | n + 1, l :: ls, h => by
    simp only [insLevels, insSorted_congr (h l List.mem_cons_self),
      insLevels_congr n (fun u hu => h u (List.mem_cons_of_mem _ hu))]

theorem subchain_subset : ∀ {l : List CEntry} {ls : List (List CEntry)},
    SubChain (l :: ls) → ∀ u ∈ ls, ∀ y ∈ u, y ∈ l
  | _, [], _, u, hu => by simp at hu
  | l, v :: rest, hc, u, hu => by
    have hvl : v.Sublist l := hc.1 v rfl
    intro y hy
    rcases List.mem_cons.mp hu with rfl | hu
    · exact hvl.subset hy
    · exact hvl.subset (subchain_subset hc.2 u hu y hy)

/-- every node of every level is a node of level 0 -/
theorem levels_subset_level0 {sl : SkipList} (hc : SubChain sl.levels) :
    ∀ l ∈ sl.levels, ∀ y ∈ l, y ∈ level0 sl := by
  unfold level0
  cases hl : sl.levels with
  | nil => simp
  | cons l0 ls =>
    rw [hl] at hc
    intro l hmem y hy
    rcases List.mem_cons.mp hmem with rfl | hmem
    · simpa using hy
    · simpa using subchain_subset hc l hmem y hy

theorem removeNode_eq {sl : SkipList} {m : Bytes} {s : Score} (hne : sl.levels ≠ [])
    (hs : ∀ l ∈ sl.levels, CSorted l) (hc : SubChain sl.levels) (hm : (CScore.num s, m) ∈ level0 sl)
    (hu : ∀ y ∈ level0 sl, y.2 = m → y = (CScore.num s, m)) :
    removeNode m (.num s) sl =
      { sl with levels := trimLevels (sl.levels.map (List.filter (fun e => decide (e ≠ (CScore.num s, m))))),
                length := sl.length - 1 } := by
  have h0 : CSorted (level0 sl) := by
    unfold level0
    cases hl : sl.levels with
    | nil => exact absurd hl hne
    | cons l ls => exact hs l (by simp [hl])
  have hcmp0 : ∀ y ∈ level0 sl, ccmpLt y (CScore.num s, m) = centLt y (CScore.num s, m) :=
    fun y hy => ccmp_eq_cent (hu y hy)
  have hcmp : ∀ l ∈ sl.levels, ∀ y ∈ l, ccmpLt y (CScore.num s, m) = centLt y (CScore.num s, m) :=
    fun l hl y hy => hcmp0 y (levels_subset_level0 hc l hl y hy)
  unfold removeNode
  rw [findTarget_congr hcmp0, findTarget_mem h0 hm]
  simp only [feq, Score.eqv_refl, beq_self_eq_true, Bool.and_self, if_true]
  rw [unlinkLevels_congr hcmp, unlinkLevels_eq hs hc]

/-- A member absent from the key index: nothing is found, nothing changes. -/
theorem removeNode_absent {sl : SkipList} {m : Bytes} {s : CScore}
    (hm : ∀ s', (s', m) ∉ level0 sl) : removeNode m s sl = sl := by
  unfold removeNode
  cases hf : findTarget ccmpLt (s, m) (level0 sl) with
  | none => rfl
  | some t =>
    have ht := (findTarget_none_or_ge hf).1
    simp only
    split
    · rename_i hc
      simp only [Bool.and_eq_true, beq_iff_eq] at hc
      exfalso
      apply hm t.1
      rw [← hc.1]
      exact ht
    · rfl

theorem length_filter_ne {q : CEntry} : ∀ {l : List CEntry}, CSorted l → q ∈ l →
    (l.filter (fun e => decide (e ≠ q))).length = l.length - 1
  | [], _, h => by simp at h
  | y :: ys, hs, h => by
    by_cases e : y = q
    · subst e
      rw [List.filter_cons_of_neg (by simp), filter_ne_of_not_mem (csorted_tail_gt hs)]
      simp
    · have hq : q ∈ ys := by
        rcases List.mem_cons.mp h with e' | h
        · exact absurd e'.symm e
        · exact h
      rw [List.filter_cons_of_pos (by simp [e])]
      have := length_filter_ne (List.pairwise_cons.mp hs).2 hq
      have hpos := List.length_pos_of_mem hq
      simp only [List.length_cons, this]
      omega

theorem level0_cons_eq {sl : SkipList} (hne : sl.levels ≠ []) : level0 sl ∈ sl.levels := by
  unfold level0
  cases hl : sl.levels with
  | nil => exact absurd hl hne
  | cons l ls => simp

theorem Inv.sorted0 {sl : SkipList} (h : Inv sl) : CSorted (level0 sl) :=
  h.sorted _ (level0_cons_eq h.nonempty)

/-- In a well-formed list the entries carrying member `m` are exactly the indexed one. -/
theorem Inv.member_unique {sl : SkipList} (h : Inv sl) {m : Bytes} {a b : CScore}
    (ha : (a, m) ∈ level0 sl) (hb : (b, m) ∈ level0 sl) : a = b :=
  idx_functional h.idxSorted ((h.idxMap m a).mpr ha) ((h.idxMap m b).mpr hb)

theorem Inv.only_member {sl : SkipList} (h : Inv sl) {m : Bytes} {sc : CScore}
    (hm : (sc, m) ∈ level0 sl) : ∀ y ∈ level0 sl, y.2 = m → y = (sc, m) := by
  intro y hy e
  have h1 : (y.1, m) ∈ level0 sl := by rw [← e]; exact hy
  exact Prod.ext (h.member_unique h1 hm) e

theorem Inv.filter_member {sl : SkipList} (h : Inv sl) {m : Bytes} {old : CScore}
    (hm : (old, m) ∈ level0 sl) :
    (level0 sl).filter (fun e => decide (e ≠ (old, m))) = (level0 sl).filter (fun e => e.2 != m) := by
  apply List.filter_congr
  intro e he
  by_cases hem : e.2 = m
  · have : e = (old, m) := by
      have h1 : (e.1, m) ∈ level0 sl := by rw [← hem]; exact he
      exact Prod.ext (h.member_unique h1 hm) hem
    simp [this]
  · have : e ≠ (old, m) := fun e' => hem (by rw [e'])
    simp [this, hem]

/-! ### Preservation -/

/-- State after the unlink of the indexed node of `m` (index entry removed). -/
theorem inv_removed {sl : SkipList} (h : Inv sl) {m : Bytes} {s : Score}
    (hm : (CScore.num s, m) ∈ level0 sl) :
    Inv ⟨trimLevels (sl.levels.map (List.filter (fun e => decide (e ≠ (CScore.num s, m))))),
         idxDel m sl.keyIndex, sl.length - 1⟩ := by
  have ok := removeLevels_ok (fun e => decide (e ≠ (CScore.num s, m))) h.nonempty h.sorted h.chain
  have hl0 : level0 ⟨trimLevels (sl.levels.map (List.filter (fun e => decide (e ≠ (CScore.num s, m))))),
         idxDel m sl.keyIndex, sl.length - 1⟩ = (level0 sl).filter (fun e => decide (e ≠ (CScore.num s, m))) := ok.2.2.2
  refine ⟨ok.1, ok.2.1, ok.2.2.1, ?_, sorted_idxDel h.idxSorted m, ?_, ?_⟩
  · intro e he
    rw [hl0] at he
    exact h.noNaN e (List.mem_filter.mp he).1
  · intro m' s'
    rw [hl0, mem_idxDel, List.mem_filter, h.idxMap]
    simp only [decide_eq_true_eq, ne_eq]
    constructor
    · rintro ⟨h1, h2⟩
      exact ⟨h1, fun e => h2 (Prod.mk.inj e).2⟩
    · rintro ⟨h1, h2⟩
      refine ⟨h1, fun e => h2 ?_⟩
      subst e
      rw [h.member_unique h1 hm]
  · rw [hl0]
    show sl.length - 1 = _
    rw [length_filter_ne h.sorted0 hm, h.len]

/-- A fresh member (absent from index and chain) is spliced in with any tower height. -/
theorem inv_inserted {sl : SkipList} (h : Inv sl) (ht : Nat) {m : Bytes} (s : Score)
    (hm : ∀ s', (s', m) ∉ level0 sl) :
    Inv ⟨insLevels centLt (CScore.num s, m) (ht + 1) sl.levels, idxSet m (.num s) sl.keyIndex, sl.length + 1⟩ := by
  have hx0 : (CScore.num s, m) ∉ level0 sl := hm _
  have hxall : ∀ l ∈ sl.levels, (CScore.num s, m) ∉ l := by
    cases hl : sl.levels with
    | nil => simp
    | cons l ls =>
      have hc := h.chain
      rw [hl] at hc
      have hx0' : (CScore.num s, m) ∉ l := by simpa [level0, hl] using hx0
      intro u hu
      rcases List.mem_cons.mp hu with rfl | hu
      · exact hx0'
      · exact subchain_not_mem hc hx0' u hu
  have ok := insLevels_ok (CScore.num s, m) (ht + 1) sl.levels h.sorted h.chain hxall
  have hl0 : level0 ⟨insLevels centLt (CScore.num s, m) (ht + 1) sl.levels, idxSet m (.num s) sl.keyIndex, sl.length + 1⟩
      = insSorted centLt (CScore.num s, m) (level0 sl) := head_insLevels _ _ _
  refine ⟨insLevels_ne_nil _ _ _, ok.1, ok.2, ?_, sorted_idxSet h.idxSorted m _, ?_, ?_⟩
  · intro e he
    rw [hl0] at he
    rcases mem_insSorted.mp he with rfl | he
    · simp
    · exact h.noNaN e he
  · intro m' s'
    rw [hl0, mem_idxSet, mem_insSorted, h.idxMap]
    constructor
    · rintro (e | ⟨h1, _⟩)
      · left; rw [(Prod.mk.inj e).1, (Prod.mk.inj e).2]
      · right; exact h1
    · rintro (e | h1)
      · left; rw [(Prod.mk.inj e).1, (Prod.mk.inj e).2]
      · right
        refine ⟨h1, fun e => hm s' ?_⟩
        rw [← e]; exact h1
  · rw [hl0, length_insSorted]
    show sl.length + 1 = _
    rw [h.len]

theorem inv_empty : Inv Code.empty := by
  refine ⟨by simp [Code.empty], ?_, ?_, ?_, ?_, ?_, rfl⟩
  · intro l hl
    simp [Code.empty] at hl
    subst hl
    simp [CSorted]
  · exact ⟨by simp, trivial⟩
  · simp [level0, Code.empty]
  · simp [Code.empty]
  · simp [level0, Code.empty]

/-- Closed forms of `remove` and `insert` on a well-formed list. -/
theorem remove_eq {sl : SkipList} (h : Inv sl) (m : Bytes) :
    (∃ s : Score, (CScore.num s, m) ∈ level0 sl ∧
      remove m sl = (⟨trimLevels (sl.levels.map (List.filter (fun e => decide (e ≠ (CScore.num s, m))))),
                      idxDel m sl.keyIndex, sl.length - 1⟩, some (.num s))) ∨
    ((∀ s', (s', m) ∉ level0 sl) ∧ remove m sl = (sl, none)) := by
  unfold remove
  cases hg : idxGet m sl.keyIndex with
  | none =>
    right
    refine ⟨?_, rfl⟩
    intro s' hs'
    exact idxGet_eq_none.mp hg s' ((h.idxMap m s').mpr hs')
  | some sc =>
    left
    have hmem : (sc, m) ∈ level0 sl := (h.idxMap m sc).mp (idxGet_some_mem hg)
    cases sc with
    | nan => exact absurd rfl (h.noNaN _ hmem)
    | num s =>
      refine ⟨s, hmem, ?_⟩
      simp only
      rw [removeNode_eq (sl := { sl with keyIndex := idxDel m sl.keyIndex }) h.nonempty h.sorted h.chain hmem (h.only_member hmem)]

theorem insert_eq {sl : SkipList} (h : Inv sl) (ht : Nat) (m : Bytes) (s : Score) :
    (Code.insert ht m (.num s) sl).1 =
      ⟨insLevels ccmpLt (CScore.num s, m) (ht + 1) (remove m sl).1.levels,
       idxSet m (.num s) (remove m sl).1.keyIndex, (remove m sl).1.length + 1⟩ ∧
    (Code.insert ht m (.num s) sl).2 = (remove m sl).2 := by
  rcases remove_eq h m with ⟨old, hmem, hr⟩ | ⟨habs, hr⟩
  · have hg : idxGet m sl.keyIndex = some (.num old) :=
      (idxGet_eq_some h.idxSorted).mpr ((h.idxMap m _).mpr hmem)
    rw [hr]
    unfold Code.insert
    rw [hg]
    simp only
    rw [removeNode_eq h.nonempty h.sorted h.chain hmem (h.only_member hmem)]
    simp only [insertNode, idxSet_idxDel, and_self]
  · have hg : idxGet m sl.keyIndex = none :=
      idxGet_eq_none.mpr (fun s' hs' => habs s' ((h.idxMap m s').mp hs'))
    rw [hr]
    unfold Code.insert
    rw [hg]
    simp only [insertNode, and_self]

theorem inv_remove {sl : SkipList} (h : Inv sl) (m : Bytes) : Inv (remove m sl).1 := by
  rcases remove_eq h m with ⟨old, hmem, hr⟩ | ⟨_, hr⟩
  · rw [hr]; exact inv_removed h hmem
  · rw [hr]; exact h

theorem level0_remove {sl : SkipList} (h : Inv sl) (m : Bytes) :
    level0 (remove m sl).1 = (level0 sl).filter (fun e => e.2 != m) := by
  rcases remove_eq h m with ⟨old, hmem, hr⟩ | ⟨habs, hr⟩
  · rw [hr, ← h.filter_member hmem]
    exact (removeLevels_ok _ h.nonempty h.sorted h.chain).2.2.2
  · rw [hr]
    symm
    apply List.filter_eq_self.mpr
    intro e he
    simp only [bne_iff_ne, ne_eq]
    intro e'
    exact habs e.1 (by rw [← e']; exact he)

theorem not_mem_level0_remove {sl : SkipList} (h : Inv sl) (m : Bytes) :
    ∀ s', (s', m) ∉ level0 (remove m sl).1 := by
  intro s' hs'
  rw [level0_remove h] at hs'
  simp at hs'

/-- splicing a member that is in no level: the code's comparator decides as the proof order -/
theorem insLevels_ccmp {sl : SkipList} (h : Inv sl) {m : Bytes} (hm : ∀ s', (s', m) ∉ level0 sl)
    (sc : CScore) (n : Nat) :
    insLevels ccmpLt (sc, m) n sl.levels = insLevels centLt (sc, m) n sl.levels := by
  apply insLevels_congr
  intro l hl y hy
  have hy0 := levels_subset_level0 h.chain l hl y hy
  have hne : y.2 ≠ m := fun e => hm y.1 (by rw [← e]; exact hy0)
  exact (centLt_of_ne_member hne).symm

theorem inv_insert {sl : SkipList} (h : Inv sl) (ht : Nat) (m : Bytes) (s : Score) :
    Inv (Code.insert ht m (.num s) sl).1 := by
  rw [(insert_eq h ht m s).1, insLevels_ccmp (inv_remove h m) (not_mem_level0_remove h m)]
  exact inv_inserted (inv_remove h m) ht s (not_mem_level0_remove h m)

theorem level0_insert {sl : SkipList} (h : Inv sl) (ht : Nat) (m : Bytes) (s : Score) :
    level0 (Code.insert ht m (.num s) sl).1 =
      insSorted centLt (CScore.num s, m) ((level0 sl).filter (fun e => e.2 != m)) := by
  rw [(insert_eq h ht m s).1, insLevels_ccmp (inv_remove h m) (not_mem_level0_remove h m), ← level0_remove h m]
  exact head_insLevels _ _ _

theorem inv_run_from (ops : List Op) : ∀ sl, Inv sl → Inv (ops.foldl applyOp sl) := by
  induction ops with
  | nil => intro sl h; exact h
  | cons op ops ih =>
    intro sl h
    apply ih
    cases op with
    | ins ht m s => exact inv_insert h ht m s
    | rem m => exact inv_remove h m

/-! ### Abstraction to the Spec list -/

theorem level0_eq_lift_abs {sl : SkipList} (h : Inv sl) : level0 sl = (abs sl).map lift := by
  unfold abs
  have hn := h.noNaN
  generalize level0 sl = l at hn
  induction l with
  | nil => rfl
  | cons e es ih =>
    have ih' := ih (fun x hx => hn x (List.mem_cons_of_mem _ hx))
    obtain ⟨sc, m⟩ := e
    cases sc with
    | nan => exact absurd rfl (hn _ List.mem_cons_self)
    | num s =>
      simp only [List.filterMap_cons, unlift, List.map_cons, lift]
      rw [← ih']

@[simp] theorem unlift_nan (k : Bytes) : unlift (CScore.nan, k) = none := rfl
@[simp] theorem unlift_num (s : Score) (k : Bytes) : unlift (CScore.num s, k) = some (s, k) := rfl

theorem filterMap_unlift_filter (m : Bytes) (l : List CEntry) :
    (l.filter (fun e => e.2 != m)).filterMap unlift = (l.filterMap unlift).filter (fun e => e.2 != m) := by
  induction l with
  | nil => rfl
  | cons e es ih =>
    obtain ⟨sc, k⟩ := e
    cases sc with
    | nan =>
      rw [List.filterMap_cons_none (unlift_nan k)]
      by_cases hk : k = m
      · rw [List.filter_cons_of_neg (by simp [hk]), ih]
      · rw [List.filter_cons_of_pos (by simp [hk]), List.filterMap_cons_none (unlift_nan k), ih]
    | num s =>
      rw [List.filterMap_cons_some (unlift_num s k)]
      by_cases hk : k = m
      · rw [List.filter_cons_of_neg (by simp [hk]), List.filter_cons_of_neg (by simp [hk]), ih]
      · rw [List.filter_cons_of_pos (by simp [hk]), List.filter_cons_of_pos (by simp [hk]),
          List.filterMap_cons_some (unlift_num s k), ih]

theorem filterMap_unlift_map_lift (z : List Entry) : (z.map lift).filterMap unlift = z := by
  induction z with
  | nil => rfl
  | cons e es ih => simp [lift, unlift, ih]

theorem abs_remove {sl : SkipList} (h : Inv sl) (m : Bytes) :
    abs (remove m sl).1 = Spec.zrem m (abs sl) := by
  unfold abs Spec.zrem
  rw [level0_remove h, filterMap_unlift_filter]

theorem abs_insert {sl : SkipList} (h : Inv sl) (ht : Nat) (m : Bytes) (s : Score) :
    abs (Code.insert ht m (.num s) sl).1 = Spec.zadd m s (abs sl) := by
  have hl := level0_insert h ht m s
  have hr := level0_remove h m
  have habs := level0_eq_lift_abs (inv_remove h m)
  rw [abs_remove h] at habs
  unfold abs at *
  rw [hl, ← hr, habs]
  show ((insSorted centLt (lift (s, m)) ((Spec.zrem m (List.filterMap unlift (level0 sl))).map lift))).filterMap unlift = _
  rw [insSorted_map lift centLt_lift, filterMap_unlift_map_lift]
  rfl

end Ferrous.ZSet
