/-
  C18 — SELECT's argument, the wake-queue invariant, concrete command names, and "the code is the Spec
  outside the three deviations".
-/
import FerrousSpec.Proofs.DbsMachine
import FerrousSpec.Proofs.Decimal
set_option linter.unusedSimpArgs false
set_option linter.unusedVariables false
namespace Ferrous.Dbs
open Ferrous Ferrous.KS

/-! ### SELECT's argument -/

theorem selectArg_single (a : Bytes) :
    selectArg [a] = (parseU64 a).bind fun n => if n < numDbs then some n else none := by
  simp only [selectArg]
  cases parseU64 a <;> rfl

theorem selectArg_none_iff (a : Bytes) :
    selectArg [a] = none ↔ (parseU64 a = none ∨ ∃ n, parseU64 a = some n ∧ numDbs ≤ n) := by
  rw [selectArg_single]
  cases h : parseU64 a with
  | none => simp
  | some n =>
    by_cases hn : n < numDbs
    · simp [hn]
    · simp [hn]; omega

theorem selectArg_some_lt {args : List Bytes} {n : Nat} (h : selectArg args = some n) : n < numDbs := by
  unfold selectArg at h
  split at h
  · split at h
    · split at h
      · simp at h; omega
      · simp at h
    · simp at h
  · simp at h

theorem selectArg_arity (args : List Bytes) (h : args.length ≠ 1) : selectArg args = none := by
  unfold selectArg
  split
  · simp at h
  · rfl

/-- the decimal text of `n` selects database `n` iff `n < 16` — for EVERY natural number (also beyond 2^64) -/
theorem selectArg_natDigits (n : Nat) : selectArg [natDigits n] = if n < numDbs then some n else none := by
  unfold selectArg
  by_cases hb : n ≤ 18446744073709551615
  · simp only [parseU64_natDigits n hb]
  · have hp : parseU64 (natDigits n) = none := by
      obtain ⟨h, t, e, h1, h2⟩ := natDigits_head n
      unfold parseU64
      rw [e]
      have h43 : ¬ h = 43 := by omega
      simp only [h43, if_false]
      rw [← e, digitsVal_natDigits]
      simp [hb]
    simp only [hp]
    have : ¬ n < numDbs := by unfold numDbs; omega
    simp [this]

/-- a negative number is never accepted (`usize::from_str` refuses `-`, also `-0`) -/
theorem selectArg_neg (t : Bytes) : selectArg [45 :: t] = none := by
  unfold selectArg parseU64
  simp only [show ¬ (45 : Nat) = 43 by decide, if_false]
  unfold digitsVal
  simp [isDigit]

/-! ### Wake-ups never survive a request -/

theorem serveKey_wakes (q : Quirks) (now db : Nat) (k : Bytes) (f : Nat) :
    ∀ (st : State), (serveKey q now db k f st).wakes = st.wakes := by
  induction f with
  | zero => intro st; rfl
  | succ f ih =>
    intro st
    simp only [serveKey]
    split
    · rfl
    · split
      · rw [ih]; rfl
      · rfl

theorem sweepKeys_wakes (q : Quirks) (now db : Nat) (ks : List Bytes) :
    ∀ (st : State), (sweepKeys q now db ks st).wakes = st.wakes := by
  induction ks with
  | nil => intro st; rfl
  | cons k r ih => intro st; simp only [sweepKeys]; rw [ih, serveKey_wakes]

theorem servePushed_wakes (q : Quirks) (now : Nat) (wks : List Wake) :
    ∀ (st : State), (servePushed q now wks st).wakes = st.wakes := by
  induction wks with
  | nil => intro st; rfl
  | cons wk r ih =>
    intro st
    simp only [servePushed]
    rw [ih]
    split
    · exact serveKey_wakes q now _ _ _ st
    · rfl

theorem serveSwept_wakes (q : Quirks) (now : Nat) (wks : List Wake) :
    ∀ (st : State), (serveSwept q now wks st).wakes = st.wakes := by
  induction wks with
  | nil => intro st; rfl
  | cons wk r ih =>
    intro st
    simp only [serveSwept]
    rw [ih]
    split
    · rfl
    · exact sweepKeys_wakes q now _ _ st

theorem processWakes_wakes (q : Quirks) (now : Nat) (st : State) : (processWakes q now st).wakes = [] := by
  unfold processWakes; rw [serveSwept_wakes, servePushed_wakes]

theorem processWakes_nil (q : Quirks) (now : Nat) (st : State) (h : st.wakes = []) : processWakes q now st = st := by
  unfold processWakes
  rw [h]
  simp only [servePushed, serveSwept]
  cases st
  simp at h
  simp [h]

theorem exec_wakes_nil (w : Switches) (q : Quirks) (st : State) (now c : Nat) (r : Req) (h : st.wakes = []) :
    (exec w q st now c r).1.wakes = [] := by
  unfold exec
  split
  · exact h
  · split
    · split <;> exact h
    · split
      · split <;> exact h
      · split
        · split
          · exact h
          · exact processWakes_wakes q now _
        · split
          · exact h
          · exact processWakes_wakes q now _

theorem stepEv_wakes_nil (w : Switches) (q : Quirks) (st : State) (e : Dbs.Ev) (h : st.wakes = []) : (stepEv w q st e).wakes = [] := by
  cases e with
  | req now c r => exact exec_wakes_nil w q st now c r h
  | timeout c => simp only [stepEv, timeoutConn]; split <;> exact h
  | close c => simp only [stepEv, closeConn]; split <;> exact h

theorem run_wakes_nil (w : Switches) (q : Quirks) (evs : List Dbs.Ev) : ∀ (st : State), st.wakes = [] → (run w q st evs).wakes = [] := by
  induction evs with
  | nil => intro st h; exact h
  | cons e rest ih =>
    intro st h
    simp only [run, List.foldl_cons]
    exact ih _ (stepEv_wakes_nil w q st e h)

/-! ### The code variant is the Spec on every request outside the three deviations -/

/-- a request on which the switches `w` cannot make a difference: no SELECT re-dispatched by EXEC (when `execSelectNoop`),
    no EVALSHA (when `evalshaDb0`), no FLUSHDB/DBSIZE/KEYS inside a script (when `scriptDbCmdsDb0`) -/
def Benign (w : Switches) (inExec : Bool) : Req → Prop
  | .plain a _ => (inExec = true ∧ w.execSelectNoop = true) → nameOf a ≠ "SELECT"
  | .script sha cmds _ => (w.evalshaDb0 = true → sha = false) ∧
                        (w.scriptDbCmdsDb0 = true → ∀ x ∈ cmds, scriptDbCmds.contains (nameOf x) = false)

theorem runScript_eq_fixed (w : Switches) (q : Quirks) (c sel : Nat) (sha : Bool) (now : Nat)
    (h1 : w.evalshaDb0 = true → sha = false) (cmds : List (List Bytes))
    (h2 : w.scriptDbCmdsDb0 = true → ∀ x ∈ cmds, scriptDbCmds.contains (nameOf x) = false) :
    ∀ (st : State) (pcs : List Bool) (last : Frame),
      runScript w q c sel sha now st cmds pcs last = runScript Switches.fixed q c sel sha now st cmds pcs last := by
  induction cmds with
  | nil => intro st pcs last; rfl
  | cons cmd rest ih =>
    intro st pcs last
    have hdb : scriptCmdDb w (scriptDb w sel sha) cmd = scriptCmdDb Switches.fixed (scriptDb Switches.fixed sel sha) cmd := by
      have e1 : scriptDb w sel sha = sel := by
        unfold scriptDb
        by_cases hw : w.evalshaDb0 = true
        · simp [h1 hw]
        · simp [hw]
      have e2 : scriptCmdDb w sel cmd = sel := by
        unfold scriptCmdDb
        by_cases hw : w.scriptDbCmdsDb0 = true
        · have := h2 hw cmd (by simp)
          simp only [this, Bool.and_false, Bool.false_eq_true, if_false]
        · simp [hw]
      rw [e1, e2]
      simp [scriptCmdDb, scriptDb, Switches.fixed]
    have ih' := ih (fun hw x hx => h2 hw x (by simp [hx]))
    simp only [runScript, hdb]
    split
    · split
      · exact ih' _ _ _
      · rfl
    · split
      · rfl
      · exact ih' _ _ _

theorem dispatch_eq_fixed (w : Switches) (q : Quirks) (st : State) (c now : Nat) (inExec : Bool) (r : Req) (h : Benign w inExec r) :
    dispatch w q st c now inExec r = dispatch Switches.fixed q st c now inExec r := by
  cases r with
  | script sha cmds pcs =>
    simp only [Benign] at h
    simp only [dispatch, runScript_eq_fixed w q c _ sha now h.1 cmds h.2]
  | plain a obs =>
    cases a with
    | nil => rfl
    | cons n args =>
      simp only [Benign] at h
      simp only [dispatch]
      by_cases hs : nameOf (n :: args) = "SELECT"
      · have : (inExec && w.execSelectNoop) = false := by
          cases hi : inExec <;> cases hw : w.execSelectNoop <;> simp
          exact h ⟨hi, hw⟩ hs
        simp [hs, this, Switches.fixed]
      · simp [hs]

theorem execQueue_eq_fixed (w : Switches) (q : Quirks) (c now : Nat) (rs : List Req) (h : ∀ r ∈ rs, Benign w true r) :
    ∀ (st : State), execQueue w q c now st rs = execQueue Switches.fixed q c now st rs := by
  induction rs with
  | nil => intro st; rfl
  | cons r rest ih =>
    intro st
    simp only [execQueue, dispatch_eq_fixed w q st c now true r (h r (by simp))]
    rw [ih (fun x hx => h x (by simp [hx]))]

theorem exec_eq_fixed (w : Switches) (q : Quirks) (st : State) (now c : Nat) (r : Req)
    (hr : Benign w false r) (hq : ∀ x ∈ (st.conns c).queue, Benign w true x) :
    exec w q st now c r = exec Switches.fixed q st now c r := by
  unfold exec
  simp only [dispatch_eq_fixed w q st c now false r hr, execQueue_eq_fixed w q c now _ hq]

/-! ### Concrete command words -/

def wSELECT : Bytes := [83, 69, 76, 69, 67, 84]
def wMULTI : Bytes := [77, 85, 76, 84, 73]
def wEXEC : Bytes := [69, 88, 69, 67]
def wSET : Bytes := [83, 69, 84]
def wGET : Bytes := [71, 69, 84]
def wFLUSHDB : Bytes := [70, 76, 85, 83, 72, 68, 66]
def wFLUSHALL : Bytes := [70, 76, 85, 83, 72, 65, 76, 76]
def wDBSIZE : Bytes := [68, 66, 83, 73, 90, 69]

theorem step_flushdb (q : Quirks) (s : Store) (i now : Nat) (n : Bytes) (obs : Option (List Bytes)) (hn : nameOf [n] = "FLUSHDB") :
    KS.step q s i now [n] obs = (setDb s i [], ok) := by
  rw [step_eq]
  simp only [isFlushAll, hn, show ("FLUSHDB" == "FLUSHALL") = false by decide, Bool.false_eq_true, if_false]
  simp [stepDb]

theorem step_flushall (q : Quirks) (s : Store) (i now : Nat) (n : Bytes) (obs : Option (List Bytes)) (hn : nameOf [n] = "FLUSHALL") :
    KS.step q s i now [n] obs = (s.map fun _ => [], ok) := by
  rw [step_eq]
  simp [isFlushAll, hn]

end Ferrous.Dbs
