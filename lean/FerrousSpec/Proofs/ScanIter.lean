/-
  The scan loop, one call, and full iterations: what is examined, progress, the termination bound,
  and completeness under "no key ranked below the cursor disappears" (C19).
-/
import FerrousSpec.Proofs.ScanOrder
namespace Ferrous.Scan
open Code

variable (g : Cfg) (m : Bytes → Bool)

/-! ### The loop -/

/-- The loop examines a prefix of the remaining list and returns exactly its matching keys. -/
theorem scanLoop_spec (mx : Nat) : ∀ (l : List Bytes) (ex got : Nat),
    (scanLoop g m mx l ex got).1 = (l.take (scanLoop g m mx l ex got).2).filter m ∧
    (scanLoop g m mx l ex got).2 ≤ l.length
  | [], _, _ => by simp [scanLoop]
  | k :: rest, ex, got => by
    unfold scanLoop
    split
    · have ih := scanLoop_spec mx rest (ex + 1) (if m k then got + 1 else got)
      simp only [List.take_succ_cons, List.filter_cons, List.length_cons]
      refine ⟨?_, by omega⟩
      by_cases hm : m k = true
      · simp only [hm, if_true] at ih ⊢
        rw [← ih.1]
      · simp only [hm, Bool.false_eq_true, if_false] at ih ⊢
        rw [← ih.1]
    · simp

/-- The loop stops early only when one of its two budgets is used up, i.e. never before
    `mx` keys have been examined (the number of matches never exceeds the number examined). -/
theorem scanLoop_budget (hf : 1 ≤ g.factor) (mx : Nat) : ∀ (l : List Bytes) (ex got : Nat), got ≤ ex →
    (scanLoop g m mx l ex got).2 = l.length ∨ mx ≤ ex + (scanLoop g m mx l ex got).2
  | [], _, _, _ => by simp [scanLoop]
  | k :: rest, ex, got, hge => by
    unfold scanLoop
    split
    · have ih := scanLoop_budget hf mx rest (ex + 1) (if m k then got + 1 else got) (by split <;> omega)
      simp only [List.length_cons]
      omega
    · rename_i hcond
      right
      have : mx ≤ mx * g.factor := Nat.le_mul_of_pos_right mx hf
      simp only [Nat.add_zero]
      by_cases h1 : ex < mx * g.factor
      · have : ¬ got < mx := fun h2 => hcond ⟨h1, h2⟩
        omega
      · omega

/-- With room for the whole list in both budgets and a filter that accepts everything, the
    loop returns the whole list (the situation of the HSCAN/SSCAN/ZSCAN fast path). -/
theorem scanLoop_all (hf : 1 ≤ g.factor) (mx : Nat) : ∀ (l : List Bytes) (ex got : Nat), got ≤ ex → ex + l.length ≤ mx →
    scanLoop g (fun _ => true) mx l ex got = (l, l.length)
  | [], _, _, _, _ => by simp [scanLoop]
  | k :: rest, ex, got, hge, hlen => by
    unfold scanLoop
    simp only [List.length_cons] at hlen
    have : mx ≤ mx * g.factor := Nat.le_mul_of_pos_right mx hf
    have hc : ex < mx * g.factor ∧ got < mx := by omega
    simp only [hc, and_self, if_true]
    rw [scanLoop_all hf mx rest (ex + 1) (got + 1) (by omega) (by omega)]
    simp

/-! ### One call -/

theorem normCount_pos (hg : g.ok) (count : Nat) : 1 ≤ normCount g count := by
  unfold normCount
  obtain ⟨h1, h2, _⟩ := hg
  split <;> omega

/-- Everything the theorems need to know about one call: `n` keys starting at the cursor are
    examined; the matching ones are returned; the next cursor is the first unexamined index or 0
    at the end; `n` is at least 1 and at least `min(max_count, remaining)`. -/
theorem scanSorted_spec (hg : g.ok) (ks : List Bytes) (c count : Nat) :
    ∃ n, (scanSorted g m ks c count).2 = ((ks.drop c).take n).filter m ∧
      (scanSorted g m ks c count).1 = (if ks.length ≤ c + n then 0 else c + n) ∧
      c + n ≤ max c ks.length ∧
      (c < ks.length → 1 ≤ n ∧ (c + n = ks.length ∨ normCount g count ≤ n)) := by
  unfold scanSorted
  split
  · rename_i h
    refine ⟨0, by simp, by simp [h.1], by omega, by omega⟩
  · rename_i h
    have hs := scanLoop_spec g m (normCount g count) (ks.drop c) 0 0
    have hb := scanLoop_budget g m hg.2.2 (normCount g count) (ks.drop c) 0 0 (Nat.le_refl 0)
    have hpos := normCount_pos g hg count
    refine ⟨(scanLoop g m (normCount g count) (ks.drop c) 0 0).2, hs.1, rfl, ?_, ?_⟩
    · have := hs.2
      simp only [List.length_drop] at this
      omega
    · intro hc
      simp only [List.length_drop] at hb hs
      omega

theorem scanSorted_mem (hg : g.ok) (ks : List Bytes) (c count : Nat) (k : Bytes)
    (hk : k ∈ (scanSorted g m ks c count).2) : k ∈ ks ∧ m k = true := by
  obtain ⟨n, h1, _⟩ := scanSorted_spec g m hg ks c count
  rw [h1] at hk
  have := List.mem_filter.mp hk
  exact ⟨List.mem_of_mem_drop (List.mem_of_mem_take this.1), this.2⟩

/-- A batch never holds more than `min(count', cap)` keys… -/
theorem scanLoop_length (mx : Nat) : ∀ (l : List Bytes) (ex got : Nat),
    got + (scanLoop g m mx l ex got).1.length ≤ max got mx
  | [], _, _ => by simp [scanLoop]; omega
  | k :: rest, ex, got => by
    unfold scanLoop
    split
    · rename_i hc
      have ih := scanLoop_length mx rest (ex + 1) (if m k then got + 1 else got)
      by_cases hm : m k = true
      · simp only [hm, if_true, List.length_cons] at ih ⊢; omega
      · simp only [hm] at ih ⊢
        simp only [Bool.false_eq_true, if_false] at ih ⊢
        omega
    · simp; omega

theorem scanSorted_length (ks : List Bytes) (c count : Nat) :
    (scanSorted g m ks c count).2.length ≤ normCount g count := by
  unfold scanSorted
  split
  · simp
  · have := scanLoop_length g m (normCount g count) (ks.drop c) 0 0
    simp only [Nat.zero_add] at this
    show (scanLoop g m (normCount g count) (ks.drop c) 0 0).1.length ≤ normCount g count
    omega

/-- Progress with an unchanged key list: the cursor strictly increases until it becomes 0. -/
theorem scanSorted_progress (hg : g.ok) (ks : List Bytes) (c count : Nat) :
    (scanSorted g m ks c count).1 = 0 ∨
      (c < (scanSorted g m ks c count).1 ∧ (scanSorted g m ks c count).1 < ks.length) := by
  obtain ⟨n, _, h2, h3, h4⟩ := scanSorted_spec g m hg ks c count
  rw [h2]
  split
  · exact Or.inl rfl
  · right
    have : c < ks.length := by omega
    have := h4 this
    omega

/-! ### Termination -/

/-- Sizes do not grow from one call to the next. -/
def NonGrowing (hist : List (List Bytes)) : Prop := hist.Pairwise (fun a b => b.length ≤ a.length)

theorem div_step (a mx : Nat) (hmx : 1 ≤ mx) (h : mx ≤ a) : (a - mx) / mx + 1 = a / mx :=
  (Nat.div_eq_sub_div hmx h).symm

theorem bound_step (L c n mx L1 H : Nat) (hmx : 1 ≤ mx) (hn : mx ≤ n) (hcn : c + n < L) (hL1 : L1 ≤ L)
    (hlen : (L - c) / mx + 1 ≤ H + 1) :
    (L1 - (c + n)) / mx + 1 ≤ H ∧ (L1 - (c + n)) / mx + 1 + 1 ≤ (L - c) / mx + 1 := by
  have hbig : mx ≤ L - c := by omega
  have hdiv := div_step (L - c) mx hmx hbig
  have hmono : (L1 - (c + n)) / mx ≤ (L - c - mx) / mx := Nat.div_le_div_right (by omega)
  generalize (L - c) / mx = q at *
  generalize (L - c - mx) / mx = q1 at *
  generalize (L1 - (c + n)) / mx = q2 at *
  omega

/-- While the candidate list does not grow, an iteration that stands at cursor `c` in a list of
    `n` keys needs at most `(n - c) / max_count + 1` further calls. -/
theorem iterCalls_bound (hg : g.ok) (count : Nat) : ∀ (hist : List (List Bytes)) (c : Nat) (ks : List Bytes) (rest : List (List Bytes)),
    hist = ks :: rest → NonGrowing hist → (ks.length - c) / normCount g count + 1 ≤ hist.length →
    ∃ n, iterCalls g m count c hist = some n ∧ 1 ≤ n ∧ n ≤ (ks.length - c) / normCount g count + 1
  | [], _, _, _, h, _, _ => by simp at h
  | ks0 :: rest0, c, ks, rest, heq, hng, hlen => by
    obtain ⟨rfl, rfl⟩ := List.cons.inj heq
    obtain ⟨n, _, h2, h3, h4⟩ := scanSorted_spec g m hg ks0 c count
    have hpos := normCount_pos g hg count
    unfold iterCalls
    simp only
    rw [h2]
    by_cases hend : ks0.length ≤ c + n
    · simp only [hend, if_true]
      exact ⟨1, rfl, Nat.le_refl 1, Nat.le_add_left 1 _⟩
    · have hne : c + n ≠ 0 := by omega
      simp only [hend, if_false, hne]
      have hclt : c < ks0.length := by omega
      obtain ⟨hn1, hn2⟩ := h4 hclt
      have hmx : normCount g count ≤ n := by omega
      -- the history goes on
      cases rest0 with
      | nil =>
        simp only [List.length_cons, List.length_nil] at hlen
        have := (bound_step ks0.length c n (normCount g count) 0 0 hpos hmx (by omega) (by omega) (by simpa using hlen)).1
        exact absurd this (Nat.not_succ_le_zero _)
      | cons ks1 rest1 =>
        have hng' := List.pairwise_cons.mp hng
        have hle : ks1.length ≤ ks0.length := hng'.1 ks1 (by simp)
        have hb := bound_step ks0.length c n (normCount g count) ks1.length (ks1 :: rest1).length hpos hmx (by omega) hle
          (by simpa using hlen)
        obtain ⟨n', hn', hn'1, hn'2⟩ := iterCalls_bound hg count (ks1 :: rest1) (c + n) ks1 rest1 rfl hng'.2 hb.1
        rw [hn']
        exact ⟨n' + 1, rfl, Nat.le_add_left 1 _, Nat.le_trans (Nat.add_le_add_right hn'2 1) hb.2⟩

/-! ### Completeness -/

theorem mem_take_drop_of_index {l : List Bytes} {j c n : Nat} {k : Bytes} (hk : l[j]? = some k)
    (h1 : c ≤ j) (h2 : j < c + n) : k ∈ (l.drop c).take n := by
  have : ((l.drop c).take n)[j - c]? = some k := by
    rw [List.getElem?_take]
    have : j - c < n := by omega
    simp only [this, if_true, List.getElem?_drop]
    rw [show c + (j - c) = j by omega]
    exact hk
  exact List.mem_of_getElem? this

/-- **Completeness of the rank cursor, exactly as far as it goes.**  `k` is at index `≥ c` of the
    first list, it is in every list of the history, every list is strictly sorted, and between
    two successive calls no key that ranks below the handed-out cursor disappears: then `k` is
    returned by one of the calls of the iteration (if it passes the filter). -/
theorem iter_complete (hg : g.ok) (count : Nat) (k : Bytes) (hm : m k = true) :
    ∀ (hist : List (List Bytes)) (c : Nat),
      (∀ ks ∈ hist, Sorted ks) → (∀ ks ∈ hist, k ∈ ks) →
      iterFinishes g m count c hist = true → noDelBelow g m count c hist = true →
      (∀ ks rest, hist = ks :: rest → ∃ j, ks[j]? = some k ∧ c ≤ j) →
      k ∈ (iter g m count c hist).flatten
  | [], _, _, _, hfin, _, _ => by simp [iterFinishes] at hfin
  | ks :: rest, c, hsorted, hmem, hfin, hsafe, hpos => by
    obtain ⟨j, hj, hcj⟩ := hpos ks rest rfl
    obtain ⟨n, h1, h2, h3, h4⟩ := scanSorted_spec g m hg ks c count
    have hjlt : j < ks.length := (List.getElem?_eq_some_iff.mp hj).1
    unfold iter
    simp only [List.flatten_cons, List.mem_append]
    by_cases hin : j < c + n
    · left
      rw [h1]
      exact List.mem_filter.mpr ⟨mem_take_drop_of_index hj hcj hin, hm⟩
    · right
      have hc' : (scanSorted g m ks c count).1 = c + n := by
        rw [h2]; simp; omega
      have hn1 : 1 ≤ n := (h4 (by omega)).1
      have hne : (scanSorted g m ks c count).1 ≠ 0 := by omega
      simp only [hne, if_false]
      unfold iterFinishes at hfin
      simp only [hne, if_false] at hfin
      cases rest with
      | nil => simp [iterFinishes] at hfin
      | cons ks' rest' =>
        unfold noDelBelow at hsafe
        simp only [hne, if_false, Bool.and_eq_true, List.all_eq_true, List.contains_iff_mem] at hsafe
        rw [hc'] at hsafe hfin ⊢
        have hs := hsorted ks (by simp)
        have hs' := hsorted ks' (by simp)
        have hk' := hmem ks' (by simp)
        obtain ⟨j', hj', hcj'⟩ := rank_step hs hs' hj (by omega : c + n ≤ j) hsafe.1 hk'
        exact iter_complete hg count k hm (ks' :: rest') (c + n)
          (fun l hl => hsorted l (by simp [hl])) (fun l hl => hmem l (by simp [hl]))
          hfin hsafe.2 (fun l r heq => by
            obtain ⟨rfl, rfl⟩ := List.cons.inj heq
            exact ⟨j', hj', hcj'⟩)

/-- Only additions between calls: the exclusion of `iter_complete` holds for every cursor. -/
theorem noDelBelow_of_onlyAdditions (count : Nat) : ∀ (hist : List (List Bytes)) (c : Nat),
    onlyAdditions hist = true → noDelBelow g m count c hist = true
  | [], _, _ => by simp [noDelBelow]
  | [_], _, _ => by simp [noDelBelow]
  | ks :: ks' :: rest, c, h => by
    unfold onlyAdditions at h
    simp only [Bool.and_eq_true, List.all_eq_true, List.contains_iff_mem] at h
    unfold noDelBelow
    simp only
    split
    · rfl
    · simp only [Bool.and_eq_true, List.all_eq_true, List.contains_iff_mem]
      exact ⟨fun x hx => h.1 x (List.mem_of_mem_take hx), noDelBelow_of_onlyAdditions count (ks' :: rest) _ h.2⟩

/-! ### The view of a database -/

theorem mem_view (ty : Option Bytes) (db : Db) (k : Bytes) :
    k ∈ view ty db ↔ ∃ t, (k, t) ∈ db ∧ typeOk ty t = true := by
  unfold view
  rw [mem_sortKeys]
  simp only [List.mem_map, List.mem_filter]
  constructor
  · rintro ⟨⟨k', t⟩, ⟨h1, h2⟩, rfl⟩
    exact ⟨t, h1, h2⟩
  · rintro ⟨t, h1, h2⟩
    exact ⟨(k, t), ⟨h1, h2⟩, rfl⟩

theorem sorted_view (ty : Option Bytes) (db : Db) (hnd : (db.map (·.1)).Nodup) : Sorted (view ty db) := by
  unfold view
  apply sorted_sortKeys
  have hsub : ((db.filter fun kv => typeOk ty kv.2).map (·.1)).Sublist (db.map (·.1)) :=
    List.Sublist.map _ List.filter_sublist
  exact List.Pairwise.sublist hsub hnd

/-! ### HSCAN / SSCAN / ZSCAN are the same cursor walk -/

/-- The fast path returns what the cursor walk over the sorted members returns (the real code
    returns it in hash-table order). -/
theorem sscan_eq_scanSorted (hg : g.ok) (hr : g.slotCursor = false) (members : List Bytes) (c count : Nat) (pat : Option Bytes) :
    sscan g members c count pat = scanSorted g (matchOpt g.lossy pat) (sortKeys members) c count := by
  unfold sscan
  simp only [hr, Bool.false_eq_true, if_false]
  split
  · rename_i h
    obtain ⟨hlen, rfl, rfl⟩ := h
    unfold scanSorted
    have hnot : ¬ ((sortKeys members).length ≤ 0 ∧ sortKeys members ≠ []) := by
      rintro ⟨h1, h2⟩
      exact h2 (List.eq_nil_of_length_eq_zero (by omega))
    simp only [hnot, if_false, List.drop_zero, Nat.zero_add]
    have hm : matchOpt g.lossy none = fun _ => true := by funext k; simp [matchOpt]
    rw [hm, scanLoop_all g hg.2.2 (normCount g count) (sortKeys members) 0 0 (Nat.le_refl 0)
      (by rw [length_sortKeys]; omega)]
    simp
  · rfl

end Ferrous.Scan
