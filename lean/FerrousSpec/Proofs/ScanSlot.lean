/-
  The slot cursor (C19, fixed variant): one call, progress, the termination bound, the batch bound
  and completeness AT FULL STRENGTH — for every hash `h`, every history of additions and deletions.
-/
import FerrousSpec.Proofs.ScanIter
namespace Ferrous.Scan
open Code

variable (g : Cfg) (h : Bytes → Nat) (m : Bytes → Bool)

/-! ### Sorting by (slot, name) -/

theorem mem_insertBy (le : Bytes → Bytes → Bool) (x y : Bytes) : ∀ l : List Bytes, y ∈ insertBy le x l ↔ y = x ∨ y ∈ l
  | [] => by simp [insertBy]
  | z :: l => by
    simp only [insertBy]
    split
    · simp
    · simp only [List.mem_cons, mem_insertBy le x y l]
      constructor
      · rintro (h | h | h)
        · exact Or.inr (Or.inl h)
        · exact Or.inl h
        · exact Or.inr (Or.inr h)
      · rintro (h | h | h)
        · exact Or.inr (Or.inl h)
        · exact Or.inl h
        · exact Or.inr (Or.inr h)

theorem mem_sortBy (le : Bytes → Bytes → Bool) (y : Bytes) : ∀ l : List Bytes, y ∈ sortBy le l ↔ y ∈ l
  | [] => by simp [sortBy]
  | x :: l => by simp [sortBy, mem_insertBy, mem_sortBy le y l]

theorem length_insertBy (le : Bytes → Bytes → Bool) (x : Bytes) : ∀ l : List Bytes, (insertBy le x l).length = l.length + 1
  | [] => rfl
  | z :: l => by
    simp only [insertBy]
    split
    · simp
    · simp [length_insertBy le x l]

theorem length_sortBy (le : Bytes → Bytes → Bool) : ∀ l : List Bytes, (sortBy le l).length = l.length
  | [] => rfl
  | x :: l => by simp [sortBy, length_insertBy, length_sortBy le l]

/-- Non-decreasing slots (all the theorems need; the tie-break by name only fixes the reply order). -/
def SortedS (l : List Bytes) : Prop := l.Pairwise (fun a b => h a ≤ h b)

theorem slotLe_le {a b : Bytes} (hab : slotLe h a b = true) : h a ≤ h b := by
  simp only [slotLe, Bool.or_eq_true, decide_eq_true_eq, Bool.and_eq_true, beq_iff_eq] at hab
  rcases hab with hlt | ⟨heq, _⟩ <;> omega

theorem slotLe_total (a b : Bytes) : slotLe h a b = true ∨ slotLe h b a = true := by
  simp only [slotLe, Bool.or_eq_true, decide_eq_true_eq, Bool.and_eq_true, beq_iff_eq]
  rcases Nat.lt_trichotomy (h a) (h b) with hlt | heq | hgt
  · exact Or.inl (Or.inl hlt)
  · rcases bytesLe_total a b with hle | hle
    · exact Or.inl (Or.inr ⟨heq, hle⟩)
    · exact Or.inr (Or.inr ⟨heq.symm, hle⟩)
  · exact Or.inr (Or.inl hgt)

theorem sortedS_insertBy (x : Bytes) : ∀ l : List Bytes, SortedS h l → SortedS h (insertBy (slotLe h) x l)
  | [], _ => by simp [insertBy, SortedS]
  | z :: l, hs => by
    unfold SortedS at hs ⊢
    simp only [insertBy]
    have hz := List.pairwise_cons.mp hs
    split
    · rename_i hle
      have hxz := slotLe_le h hle
      refine List.pairwise_cons.mpr ⟨?_, hs⟩
      intro b hb
      rcases List.mem_cons.mp hb with rfl | hb
      · exact hxz
      · exact Nat.le_trans hxz (hz.1 b hb)
    · rename_i hle
      have hzx : h z ≤ h x := by
        rcases slotLe_total h x z with h1 | h1
        · exact absurd h1 hle
        · exact slotLe_le h h1
      refine List.pairwise_cons.mpr ⟨?_, sortedS_insertBy x l hz.2⟩
      intro b hb
      rcases (mem_insertBy _ x b l).mp hb with rfl | hb
      · exact hzx
      · exact hz.1 b hb

theorem sortedS_sortSlot : ∀ l : List Bytes, SortedS h (sortSlot h l)
  | [] => by simp [sortSlot, sortBy, SortedS]
  | x :: l => by
    simp only [sortSlot, sortBy]
    exact sortedS_insertBy h x _ (sortedS_sortSlot l)

theorem mem_sortSlot (y : Bytes) (l : List Bytes) : y ∈ sortSlot h l ↔ y ∈ l := mem_sortBy _ y l

theorem length_sortSlot (l : List Bytes) : (sortSlot h l).length = l.length := length_sortBy _ l

/-! ### `partition_point` on a list sorted by slot -/

theorem dropWhile_eq_filter : ∀ (l : List Bytes), SortedS h l → ∀ c : Nat,
    l.dropWhile (fun k => decide (h k < c)) = l.filter (fun k => decide (c ≤ h k))
  | [], _, _ => rfl
  | a :: t, hs, c => by
    have ha := List.pairwise_cons.mp hs
    rw [List.dropWhile_cons, List.filter_cons]
    by_cases hac : h a < c
    · have h1 : decide (h a < c) = true := by simp [hac]
      have h2 : decide (c ≤ h a) = false := by simp; omega
      simp only [h1, h2, if_true, Bool.false_eq_true, if_false]
      exact dropWhile_eq_filter t ha.2 c
    · have h1 : decide (h a < c) = false := by simp [hac]
      have h2 : decide (c ≤ h a) = true := by simp; omega
      simp only [h1, h2, if_true, Bool.false_eq_true, if_false]
      congr 1
      symm
      apply List.filter_eq_self.mpr
      intro b hb
      have := ha.1 b hb
      simp; omega

/-- Number of elements at or after slot `c`. -/
def cntGe (c : Nat) (l : List Bytes) : Nat := (l.filter (fun k => decide (c ≤ h k))).length

/-! ### The loop -/

/-- Slot of the last element of `t`, or `prev` when `t` is empty. -/
def lastSlot : Option Nat → List Bytes → Option Nat
  | prev, [] => prev
  | _, k :: t => lastSlot (some (h k)) t

theorem lastSlot_mem : ∀ (t : List Bytes) (prev : Option Nat), t ≠ [] →
    ∃ x, x ∈ t ∧ lastSlot h prev t = some (h x) ∧ (SortedS h t → ∀ y ∈ t, h y ≤ h x)
  | [], _, hne => absurd rfl hne
  | [k], prev, _ => ⟨k, by simp, rfl, fun _ y hy => by simp at hy; subst hy; exact Nat.le_refl _⟩
  | k :: k2 :: t, prev, _ => by
    obtain ⟨x, hx, hl, hmax⟩ := lastSlot_mem (k2 :: t) (some (h k)) (by simp)
    refine ⟨x, by simp [hx], hl, ?_⟩
    intro hs y hy
    have hk := List.pairwise_cons.mp hs
    rcases List.mem_cons.mp hy with rfl | hy
    · exact hk.1 x hx
    · exact hmax hk.2 y hy

theorem scanLoopS_spec (mx : Nat) : ∀ (l : List Bytes) (prev : Option Nat) (ex got : Nat),
    (scanLoopS g h m mx l prev ex got).1 = (l.take (scanLoopS g h m mx l prev ex got).2).filter m ∧
    (scanLoopS g h m mx l prev ex got).2 ≤ l.length ∧
    (∀ k' rest', l.drop (scanLoopS g h m mx l prev ex got).2 = k' :: rest' →
      lastSlot h prev (l.take (scanLoopS g h m mx l prev ex got).2) ≠ some (h k') ∧
      ¬ (ex + (scanLoopS g h m mx l prev ex got).2 < mx * g.factor ∧ got < mx ∧
          (scanLoopS g h m mx l prev ex got).1.length = 0))
  | [], _, _, _ => by simp [scanLoopS]
  | k :: rest, prev, ex, got => by
    unfold scanLoopS
    split
    · have ih := scanLoopS_spec mx rest (some (h k)) (ex + 1) (if m k then got + 1 else got)
      simp only [List.take_succ_cons, List.filter_cons, List.length_cons, List.drop_succ_cons, lastSlot]
      refine ⟨?_, by omega, ?_⟩
      · by_cases hm : m k = true
        · simp only [hm, if_true] at ih ⊢
          rw [← ih.1]
        · simp only [hm, Bool.false_eq_true, if_false] at ih ⊢
          rw [← ih.1]
      · intro k' rest' hd
        have := ih.2.2 k' rest' hd
        refine ⟨this.1, ?_⟩
        intro hc
        apply this.2
        by_cases hm : m k = true
        · simp only [hm, if_true, List.length_cons] at hc
          omega
        · simp only [hm, Bool.false_eq_true, if_false] at hc ⊢
          omega
    · rename_i hcond
      simp only [List.take_zero, List.filter_nil, List.drop_zero, lastSlot, List.length_nil, Nat.add_zero,
        Nat.zero_le, true_and]
      intro k' rest' hd
      obtain ⟨rfl, rfl⟩ := List.cons.inj hd
      constructor
      · intro hp; exact hcond (Or.inr hp)
      · intro hc; exact hcond (Or.inl ⟨hc.1, hc.2.1⟩)

/-- The loop leaves a page early only when a budget is used up. -/
theorem scanLoopS_budget (hf : 1 ≤ g.factor) (mx : Nat) : ∀ (l : List Bytes) (prev : Option Nat) (ex got : Nat), got ≤ ex →
    (scanLoopS g h m mx l prev ex got).2 = l.length ∨ mx ≤ ex + (scanLoopS g h m mx l prev ex got).2
  | [], _, _, _, _ => by simp [scanLoopS]
  | k :: rest, prev, ex, got, hge => by
    unfold scanLoopS
    split
    · have ih := scanLoopS_budget hf mx rest (some (h k)) (ex + 1) (if m k then got + 1 else got) (by split <;> omega)
      simp only [List.length_cons]
      omega
    · rename_i hcond
      right
      have : mx ≤ mx * g.factor := Nat.le_mul_of_pos_right mx hf
      simp only [Nat.add_zero]
      by_cases h1 : ex < mx * g.factor
      · have : ¬ got < mx := fun h2 => hcond (Or.inl ⟨h1, h2⟩)
        omega
      · omega

theorem scanLoopS_all (hf : 1 ≤ g.factor) (mx : Nat) : ∀ (l : List Bytes) (prev : Option Nat) (ex got : Nat),
    got ≤ ex → ex + l.length ≤ mx → scanLoopS g h (fun _ => true) mx l prev ex got = (l, l.length)
  | [], _, _, _, _, _ => by simp [scanLoopS]
  | k :: rest, prev, ex, got, hge, hlen => by
    unfold scanLoopS
    simp only [List.length_cons] at hlen
    have : mx ≤ mx * g.factor := Nat.le_mul_of_pos_right mx hf
    have hc : (ex < mx * g.factor ∧ got < mx) ∨ prev = some (h k) := Or.inl (by omega)
    simp only [hc, if_true]
    rw [scanLoopS_all hf mx rest (some (h k)) (ex + 1) (got + 1) (by omega) (by omega)]
    simp

/-! ### The batch bound: COUNT plus one group of equal slots -/

def cntSlot (S : Option Nat) (l : List Bytes) : Nat := (l.filter (fun k => decide (S = some (h k)))).length

/-- Once a budget is used up only elements with the slot of their predecessor are taken. -/
theorem scanLoopS_phase2 (mx : Nat) : ∀ (l : List Bytes) (prev : Option Nat) (ex got : Nat),
    ¬ (ex < mx * g.factor ∧ got < mx) →
    (scanLoopS g h m mx l prev ex got).2 ≤ cntSlot h prev l ∧
    lastSlot h prev (l.take (scanLoopS g h m mx l prev ex got).2) = prev
  | [], _, _, _, _ => by simp [scanLoopS, lastSlot]
  | k :: rest, prev, ex, got, hb => by
    unfold scanLoopS
    by_cases hp : prev = some (h k)
    · subst hp
      have hc : (ex < mx * g.factor ∧ got < mx) ∨ some (h k) = some (h k) := Or.inr rfl
      rw [if_pos hc]
      have hb' : ¬ (ex + 1 < mx * g.factor ∧ (if m k then got + 1 else got) < mx) := by
        intro hh
        apply hb
        constructor
        · omega
        · have := hh.2; split at this <;> omega
      have ih := scanLoopS_phase2 mx rest (some (h k)) (ex + 1) (if m k then got + 1 else got) hb'
      simp only [List.take_succ_cons, lastSlot]
      refine ⟨?_, ih.2⟩
      unfold cntSlot at ih ⊢
      rw [List.filter_cons_of_pos (by simp)]
      simp only [List.length_cons]
      omega
    · have hc : ¬ ((ex < mx * g.factor ∧ got < mx) ∨ prev = some (h k)) := by
        rintro (h1 | h1)
        · exact hb h1
        · exact hp h1
      rw [if_neg hc]
      simp [lastSlot]

theorem cntSlot_cons_le (S : Option Nat) (k : Bytes) (l : List Bytes) : cntSlot h S l ≤ cntSlot h S (k :: l) := by
  unfold cntSlot
  by_cases hk : S = some (h k)
  · rw [List.filter_cons_of_pos (by simp [hk])]; simp
  · rw [List.filter_cons_of_neg (by simp [hk])]; exact Nat.le_refl _

theorem scanLoopS_length (mx : Nat) : ∀ (l : List Bytes) (prev : Option Nat) (ex got : Nat),
    got + (scanLoopS g h m mx l prev ex got).1.length ≤
      max got mx + cntSlot h (lastSlot h prev (l.take (scanLoopS g h m mx l prev ex got).2)) l
  | [], _, _, _ => by simp [scanLoopS]; omega
  | k :: rest, prev, ex, got => by
    by_cases hb : ex < mx * g.factor ∧ got < mx
    · -- a budgeted step
      have ih := scanLoopS_length mx rest (some (h k)) (ex + 1) (if m k then got + 1 else got)
      unfold scanLoopS
      have hc : (ex < mx * g.factor ∧ got < mx) ∨ prev = some (h k) := Or.inl hb
      simp only [hc, if_true, List.take_succ_cons, lastSlot]
      by_cases hm : m k = true
      · simp only [hm, if_true, List.length_cons] at ih ⊢
        have hmono := cntSlot_cons_le h
          (lastSlot h (some (h k)) (rest.take (scanLoopS g h m mx rest (some (h k)) (ex + 1) (got + 1)).2)) k rest
        omega
      · simp only [hm, Bool.false_eq_true, if_false] at ih ⊢
        have hmono := cntSlot_cons_le h
          (lastSlot h (some (h k)) (rest.take (scanLoopS g h m mx rest (some (h k)) (ex + 1) got).2)) k rest
        omega
    · -- budgets used up: the rest of the page is one group
      have hp2 := scanLoopS_phase2 g h m mx (k :: rest) prev ex got hb
      have hsp := scanLoopS_spec g h m mx (k :: rest) prev ex got
      rw [hp2.2]
      have hlen : (scanLoopS g h m mx (k :: rest) prev ex got).1.length ≤ (scanLoopS g h m mx (k :: rest) prev ex got).2 := by
        rw [hsp.1]
        refine Nat.le_trans (List.length_filter_le _ _) ?_
        simp [List.length_take]
        exact Nat.min_le_left _ _
      omega

/-! ### One call -/

/-- Everything about one call over a list sorted by slot.  `cand` are the elements at or after
    the cursor; `n` of them are examined, the matching ones returned; the page ends at a slot
    boundary; the next cursor is the slot of the first unexamined element. -/
theorem scanSlots_spec (hg : g.ok) (ks : List Bytes) (hs : SortedS h ks) (c count : Nat) :
    ∃ n, n ≤ (ks.filter (fun k => decide (c ≤ h k))).length ∧
      (scanSlots g h m ks c count).2 = ((ks.filter (fun k => decide (c ≤ h k))).take n).filter m ∧
      (scanSlots g h m ks c count).1 =
        (match (ks.filter (fun k => decide (c ≤ h k))).drop n with
          | [] => 0
          | k' :: _ => h k') ∧
      (ks.filter (fun k => decide (c ≤ h k)) ≠ [] →
        1 ≤ n ∧ (n = (ks.filter (fun k => decide (c ≤ h k))).length ∨ normCount g count ≤ n)) ∧
      (∀ k' rest', (ks.filter (fun k => decide (c ≤ h k))).drop n = k' :: rest' →
        ∀ y ∈ (ks.filter (fun k => decide (c ≤ h k))).take n, h y < h k') := by
  unfold scanSlots
  rw [dropWhile_eq_filter h ks hs c]
  generalize hcand : ks.filter (fun k => decide (c ≤ h k)) = cand
  have hcs : SortedS h cand := by
    rw [← hcand]; exact List.Pairwise.sublist List.filter_sublist hs
  simp only
  split
  · rename_i hempty
    refine ⟨0, by simp, by simp, by simp [hempty.1], fun hne => absurd hempty.1 hne, ?_⟩
    intro k' rest' hd
    simp [hempty.1] at hd
  · have hsp := scanLoopS_spec g h m (normCount g count) cand none 0 0
    have hb := scanLoopS_budget g h m hg.2.2 (normCount g count) cand none 0 0 (Nat.le_refl 0)
    have hpos := normCount_pos g hg count
    generalize hr : scanLoopS g h m (normCount g count) cand none 0 0 = r at hsp hb
    have hn1 : cand ≠ [] → 1 ≤ r.2 := by
      intro hne
      have : 0 < cand.length := List.length_pos_iff.mpr hne
      omega
    refine ⟨r.2, hsp.2.1, hsp.1, rfl, ?_, ?_⟩
    · intro hne
      refine ⟨hn1 hne, ?_⟩
      simp only [Nat.zero_add] at hb
      exact hb
    · intro k' rest' hd y hy
      have hne : cand ≠ [] := by
        intro he; rw [he] at hd; simp at hd
      have htake_ne : cand.take r.2 ≠ [] := by
        intro he
        have := congrArg List.length he
        simp only [List.length_take, List.length_nil] at this
        have := hn1 hne
        have : 0 < cand.length := List.length_pos_iff.mpr hne
        omega
      obtain ⟨x, hx, hl, hmax⟩ := lastSlot_mem h (cand.take r.2) none htake_ne
      have hsplit : cand = cand.take r.2 ++ cand.drop r.2 := (List.take_append_drop _ _).symm
      have hcs' := hcs
      rw [hsplit, hd] at hcs'
      unfold SortedS at hcs'
      obtain ⟨hst, _, hcross⟩ := List.pairwise_append.mp hcs'
      have hxk : h x ≤ h k' := hcross x hx k' (by simp)
      have hne' : h x ≠ h k' := by
        intro heq
        have := (hsp.2.2 k' rest' hd).1
        rw [hl, heq] at this
        exact this rfl
      have := hmax hst y hy
      omega

theorem scanSlots_mem (hg : g.ok) (ks : List Bytes) (hs : SortedS h ks) (c count : Nat) (k : Bytes)
    (hk : k ∈ (scanSlots g h m ks c count).2) : k ∈ ks ∧ m k = true := by
  obtain ⟨n, _, h1, _⟩ := scanSlots_spec g h m hg ks hs c count
  rw [h1] at hk
  have := List.mem_filter.mp hk
  exact ⟨(List.mem_filter.mp (List.mem_of_mem_take this.1)).1, this.2⟩

/-- A batch holds at most `min(COUNT,1000)` elements plus one group of equal slots. -/
theorem scanSlots_length (ks : List Bytes) (c count : Nat) :
    ∃ S, (scanSlots g h m ks c count).2.length ≤ normCount g count + cntSlot h S ks := by
  unfold scanSlots
  simp only
  split
  · exact ⟨none, by simp⟩
  · have hl := scanLoopS_length g h m (normCount g count) (ks.dropWhile (fun k => decide (h k < c))) none 0 0
    refine ⟨lastSlot h none ((ks.dropWhile (fun k => decide (h k < c))).take
      (scanLoopS g h m (normCount g count) (ks.dropWhile (fun k => decide (h k < c))) none 0 0).2), ?_⟩
    have hsub : ∀ S, cntSlot h S (ks.dropWhile (fun k => decide (h k < c))) ≤ cntSlot h S ks := by
      intro S
      unfold cntSlot
      exact List.Sublist.length_le (List.Sublist.filter _ (List.dropWhile_sublist _))
    have := hsub (lastSlot h none ((ks.dropWhile (fun k => decide (h k < c))).take
      (scanLoopS g h m (normCount g count) (ks.dropWhile (fun k => decide (h k < c))) none 0 0).2))
    simp only [Nat.zero_add, Nat.zero_le, Nat.max_eq_right] at hl
    show (scanLoopS g h m (normCount g count) (ks.dropWhile (fun k => decide (h k < c))) none 0 0).1.length ≤ _
    omega

/-- Without slot collisions among the candidates the bound is `min(COUNT,1000) + 1`… -/
theorem cntSlot_le_one (S : Option Nat) : ∀ (l : List Bytes), l.Pairwise (fun a b => h a ≠ h b) → cntSlot h S l ≤ 1
  | [], _ => by simp [cntSlot]
  | k :: l, hp => by
    have hk := List.pairwise_cons.mp hp
    unfold cntSlot
    by_cases hS : S = some (h k)
    · rw [List.filter_cons_of_pos (by simp [hS])]
      have : l.filter (fun k => decide (S = some (h k))) = [] := by
        apply List.filter_eq_nil_iff.mpr
        intro b hb
        have := hk.1 b hb
        simp [hS]
        exact this
      simp [this]
    · rw [List.filter_cons_of_neg (by simp [hS])]
      exact cntSlot_le_one S l hk.2

/-- Progress with an unchanged list: the returned cursor is 0 or strictly larger. -/
theorem scanSlots_progress (hg : g.ok) (ks : List Bytes) (hs : SortedS h ks) (c count : Nat) :
    (scanSlots g h m ks c count).1 = 0 ∨ c < (scanSlots g h m ks c count).1 := by
  obtain ⟨n, hn, _, h2, h3, h4⟩ := scanSlots_spec g h m hg ks hs c count
  rw [h2]
  cases hd : (ks.filter (fun k => decide (c ≤ h k))).drop n with
  | nil => exact Or.inl rfl
  | cons k' rest' =>
    right
    simp only
    have hne : ks.filter (fun k => decide (c ≤ h k)) ≠ [] := by
      intro he; rw [he] at hd; simp at hd
    have hn1 := (h3 hne).1
    -- the first examined element is a candidate, hence at or after the cursor, and before k'
    obtain ⟨y, hy⟩ : ∃ y, y ∈ (ks.filter (fun k => decide (c ≤ h k))).take n := by
      cases hc : ks.filter (fun k => decide (c ≤ h k)) with
      | nil => exact absurd hc hne
      | cons a t => exact ⟨a, by cases n with | zero => omega | succ n => simp⟩
    have hlt := h4 k' rest' hd y hy
    have hyc := (List.mem_filter.mp (List.mem_of_mem_take hy)).2
    simp only [decide_eq_true_eq] at hyc
    omega

/-! ### Termination -/

/-- From one call to the next, no slot range gains elements (true when nothing is added). -/
def NoGrowthS (hist : List (List Bytes)) : Prop :=
  hist.Pairwise (fun a b => ∀ c, cntGe h c b ≤ cntGe h c a)

theorem cntGe_next (ks : List Bytes) (hs : SortedS h ks) (c n : Nat) (k' : Bytes) (rest' : List Bytes)
    (hd : (ks.filter (fun k => decide (c ≤ h k))).drop n = k' :: rest')
    (hlt : ∀ y ∈ (ks.filter (fun k => decide (c ≤ h k))).take n, h y < h k') :
    cntGe h (h k') ks = (ks.filter (fun k => decide (c ≤ h k))).length - n := by
  generalize hcand : ks.filter (fun k => decide (c ≤ h k)) = cand at hd hlt
  have hcs : SortedS h cand := by
    rw [← hcand]; exact List.Pairwise.sublist List.filter_sublist hs
  have hk'c : c ≤ h k' := by
    have : k' ∈ cand := by
      have : k' ∈ cand.drop n := by rw [hd]; simp
      exact List.mem_of_mem_drop this
    rw [← hcand] at this
    simpa using (List.mem_filter.mp this).2
  -- filtering ks at slot h k' is filtering cand
  have h1 : ks.filter (fun k => decide (h k' ≤ h k)) = cand.filter (fun k => decide (h k' ≤ h k)) := by
    rw [← hcand, List.filter_filter]
    apply List.filter_congr
    intro x _
    by_cases hx : h k' ≤ h x
    · have : c ≤ h x := by omega
      simp [hx, this]
    · simp [hx]
  have hsplit : cand = cand.take n ++ cand.drop n := (List.take_append_drop _ _).symm
  unfold cntGe
  rw [h1, hsplit, List.filter_append, hd]
  have hA : (cand.take n).filter (fun k => decide (h k' ≤ h k)) = [] := by
    apply List.filter_eq_nil_iff.mpr
    intro y hy
    have := hlt y hy
    simp; omega
  have hB : (k' :: rest').filter (fun k => decide (h k' ≤ h k)) = k' :: rest' := by
    apply List.filter_eq_self.mpr
    intro y hy
    rcases List.mem_cons.mp hy with rfl | hy
    · simp
    · have hcs' := hcs
      rw [hsplit, hd] at hcs'
      unfold SortedS at hcs'
      have := (List.pairwise_cons.mp (List.pairwise_append.mp hcs').2.1).1 y hy
      simpa using this
  rw [hA, hB]
  have : (cand.take n ++ k' :: rest').length = cand.length := by rw [← hd, ← hsplit]
  simp only [List.nil_append, List.length_cons]
  have hl : (cand.drop n).length = rest'.length + 1 := by rw [hd]; simp
  simp only [List.length_drop] at hl
  omega

/-- While no slot range gains elements, an iteration that stands at cursor `c` with `n` elements
    at or after it needs at most `n / max_count + 1` further calls. -/
theorem iterSCalls_bound (hg : g.ok) (count : Nat) : ∀ (hist : List (List Bytes)) (c : Nat) (ks : List Bytes) (rest : List (List Bytes)),
    hist = ks :: rest → (∀ l ∈ hist, SortedS h l) → NoGrowthS h hist →
    cntGe h c ks / normCount g count + 1 ≤ hist.length →
    ∃ n, iterSCalls g h m count c hist = some n ∧ 1 ≤ n ∧ n ≤ cntGe h c ks / normCount g count + 1
  | [], _, _, _, hh, _, _, _ => by simp at hh
  | ks0 :: rest0, c, ks, rest, heq, hsort, hng, hlen => by
    obtain ⟨rfl, rfl⟩ := List.cons.inj heq
    have hs0 := hsort ks0 (by simp)
    obtain ⟨n, hn, _, h2, h3, h4⟩ := scanSlots_spec g h m hg ks0 hs0 c count
    have hpos := normCount_pos g hg count
    unfold iterSCalls
    simp only
    rw [h2]
    cases hd : (ks0.filter (fun k => decide (c ≤ h k))).drop n with
    | nil =>
      simp only [if_true]
      exact ⟨1, rfl, Nat.le_refl 1, Nat.le_add_left 1 _⟩
    | cons k' rest' =>
      simp only
      have hne : ks0.filter (fun k => decide (c ≤ h k)) ≠ [] := by
        intro he; rw [he] at hd; simp at hd
      obtain ⟨hn1, hn2⟩ := h3 hne
      have hlt := h4 k' rest' hd
      have hdl : (ks0.filter (fun k => decide (c ≤ h k))).length - n = rest'.length + 1 := by
        have := congrArg List.length hd
        simpa using this
      have hmx : normCount g count ≤ n := by omega
      -- the next cursor is not 0
      have hk'pos : h k' ≠ 0 := by
        obtain ⟨y, hy⟩ : ∃ y, y ∈ (ks0.filter (fun k => decide (c ≤ h k))).take n := by
          cases hc : ks0.filter (fun k => decide (c ≤ h k)) with
          | nil => exact absurd hc hne
          | cons a t => exact ⟨a, by cases n with | zero => omega | succ n => simp⟩
        have := hlt y hy
        omega
      simp only [hk'pos, if_false]
      have hcnt := cntGe_next h ks0 hs0 c n k' rest' hd hlt
      have hL : cntGe h c ks0 = (ks0.filter (fun k => decide (c ≤ h k))).length := rfl
      cases rest0 with
      | nil =>
        simp only [List.length_cons, List.length_nil] at hlen
        have := (bound_step (cntGe h c ks0) 0 n (normCount g count) 0 0 hpos hmx (by omega) (by omega)
          (by simpa using hlen)).1
        exact absurd this (Nat.not_succ_le_zero _)
      | cons ks1 rest1 =>
        have hng' := List.pairwise_cons.mp hng
        have hle : cntGe h (h k') ks1 ≤ cntGe h (h k') ks0 := hng'.1 ks1 (by simp) (h k')
        have hb := bound_step (cntGe h c ks0) 0 n (normCount g count) (cntGe h (h k') ks1 + n) (ks1 :: rest1).length
          hpos hmx (by omega) (by omega) (by simpa using hlen)
        simp only [Nat.zero_add, Nat.add_sub_cancel, Nat.sub_zero] at hb
        obtain ⟨n', hn', hn'1, hn'2⟩ := iterSCalls_bound hg count (ks1 :: rest1) (h k') ks1 rest1 rfl
          (fun l hl => hsort l (by simp [hl])) hng'.2 hb.1
        rw [hn']
        exact ⟨n' + 1, rfl, Nat.le_add_left 1 _, Nat.le_trans (Nat.add_le_add_right hn'2 1) hb.2⟩

/-! ### Completeness, at full strength -/

/-- **Whatever is added or deleted between the calls**, an element that is in every list of the
    history, lies at or after the cursor and passes the filter is returned by the iteration. -/
theorem iterS_complete (hg : g.ok) (count : Nat) (k : Bytes) (hm : m k = true) :
    ∀ (hist : List (List Bytes)) (c : Nat),
      (∀ ks ∈ hist, SortedS h ks) → (∀ ks ∈ hist, k ∈ ks) →
      iterSFinishes g h m count c hist = true → c ≤ h k →
      k ∈ (iterS g h m count c hist).flatten
  | [], _, _, _, hfin, _ => by simp [iterSFinishes] at hfin
  | ks :: rest, c, hsorted, hmem, hfin, hck => by
    have hs := hsorted ks (by simp)
    obtain ⟨n, hn, h1, h2, h3, h4⟩ := scanSlots_spec g h m hg ks hs c count
    have hkc : k ∈ ks.filter (fun x => decide (c ≤ h x)) :=
      List.mem_filter.mpr ⟨hmem ks (by simp), by simpa using hck⟩
    unfold iterS
    simp only [List.flatten_cons, List.mem_append]
    have hsplit := (List.take_append_drop n (ks.filter (fun x => decide (c ≤ h x)))).symm
    rw [hsplit] at hkc
    rcases List.mem_append.mp hkc with hin | hout
    · left
      rw [h1]
      exact List.mem_filter.mpr ⟨hin, hm⟩
    · right
      cases hd : (ks.filter (fun x => decide (c ≤ h x))).drop n with
      | nil => rw [hd] at hout; simp at hout
      | cons k' rest' =>
        have hne : ks.filter (fun x => decide (c ≤ h x)) ≠ [] := by
          intro he; rw [he] at hd; simp at hd
        have hn1 := (h3 hne).1
        have hlt := h4 k' rest' hd
        have hnext : (scanSlots g h m ks c count).1 = h k' := by rw [h2, hd]
        have hk'pos : h k' ≠ 0 := by
          obtain ⟨y, hy⟩ : ∃ y, y ∈ (ks.filter (fun x => decide (c ≤ h x))).take n := by
            cases hc : ks.filter (fun x => decide (c ≤ h x)) with
            | nil => exact absurd hc hne
            | cons a t => exact ⟨a, by cases n with | zero => omega | succ n => simp⟩
          have := hlt y hy
          omega
        -- k is at or after the next cursor
        have hk'k : h k' ≤ h k := by
          rw [hd] at hout
          rcases List.mem_cons.mp hout with rfl | hr
          · exact Nat.le_refl _
          · have hcs : SortedS h (ks.filter (fun x => decide (c ≤ h x))) :=
              List.Pairwise.sublist List.filter_sublist hs
            rw [hsplit, hd] at hcs
            unfold SortedS at hcs
            exact (List.pairwise_cons.mp (List.pairwise_append.mp hcs).2.1).1 k hr
        unfold iterSFinishes at hfin
        simp only [hnext, hk'pos, if_false] at hfin ⊢
        exact iterS_complete hg count k hm rest (h k')
          (fun l hl => hsorted l (by simp [hl])) (fun l hl => hmem l (by simp [hl])) hfin hk'k

/-- …and no element is returned twice: every element of a later batch has a slot at or after
    the cursor that call was given, every element of an earlier batch a slot before it. -/
theorem scanSlots_batch_slots (hg : g.ok) (ks : List Bytes) (hs : SortedS h ks) (c count : Nat) (k : Bytes)
    (hk : k ∈ (scanSlots g h m ks c count).2) :
    c ≤ h k ∧ ((scanSlots g h m ks c count).1 ≠ 0 → h k < (scanSlots g h m ks c count).1) := by
  obtain ⟨n, hn, h1, h2, h3, h4⟩ := scanSlots_spec g h m hg ks hs c count
  rw [h1] at hk
  have hkt := (List.mem_filter.mp hk).1
  have hkc := (List.mem_filter.mp (List.mem_of_mem_take hkt)).2
  refine ⟨by simpa using hkc, ?_⟩
  rw [h2]
  cases hd : (ks.filter (fun k => decide (c ≤ h k))).drop n with
  | nil => simp
  | cons k' rest' =>
    intro _
    exact h4 k' rest' hd k hkt

/-! ### The view of a database, and HSCAN / SSCAN / ZSCAN -/

theorem mem_viewSlot (ty : Option Bytes) (db : Db) (k : Bytes) :
    k ∈ viewSlot ty db ↔ ∃ t, (k, t) ∈ db ∧ typeOk ty t = true := by
  unfold viewSlot
  rw [mem_sortSlot]
  simp only [List.mem_map, List.mem_filter]
  constructor
  · rintro ⟨⟨k', t⟩, ⟨h1, h2⟩, rfl⟩
    exact ⟨t, h1, h2⟩
  · rintro ⟨t, h1, h2⟩
    exact ⟨(k, t), ⟨h1, h2⟩, rfl⟩

theorem sorted_viewSlot (ty : Option Bytes) (db : Db) : SortedS scanSlot (viewSlot ty db) :=
  sortedS_sortSlot scanSlot _

theorem dropWhile_zero (l : List Bytes) : l.dropWhile (fun k => decide (h k < 0)) = l := by
  cases l with
  | nil => rfl
  | cons a t => rw [List.dropWhile_cons_of_neg (by simp)]

/-- The fast path returns what the slot walk returns. -/
theorem sscan_eq_scanSlots (hg : g.ok) (hsl : g.slotCursor = true) (members : List Bytes) (c count : Nat) (pat : Option Bytes) :
    sscan g members c count pat =
      scanSlots g scanSlot (matchOpt g.lossy pat) (sortSlot scanSlot members) c count := by
  unfold sscan
  simp only [hsl, if_true]
  split
  · rename_i hfast
    obtain ⟨hlen, rfl, rfl⟩ := hfast
    unfold scanSlots
    simp only [dropWhile_zero]
    have hnot : ¬ (sortSlot scanSlot members = [] ∧ sortSlot scanSlot members ≠ []) := fun hh => hh.2 hh.1
    simp only [hnot, if_false]
    have hmt : matchOpt g.lossy none = fun _ => true := by funext k; simp [matchOpt]
    rw [hmt, scanLoopS_all g scanSlot hg.2.2 (normCount g count) (sortSlot scanSlot members) none 0 0 (Nat.le_refl 0)
      (by rw [length_sortSlot]; omega)]
    simp
  · rfl

end Ferrous.Scan
