/-
  For EVERY pattern and every text the engine's matcher over characters computes the textbook
  glob semantics of the tokenised pattern: `Code.globChars p t = Spec.matchToks (Spec.tokenize p) t`
  (`globChars_eq_matchToks`; plain `List Nat` on both sides, so it serves every caller of
  `pattern_matches`: SCAN/HSCAN/SSCAN/ZSCAN MATCH, KEYS, PSUBSCRIBE).

  Step 1: the class walk of the code (`classWalk`) and the class states of the tokenizer read the
          same members.
  Step 2: one pass of the engine's `match` (`globStep`) is one pass over the token list (`tokStep`).
  Step 3: the loops agree (`globLoop = tokLoop`), and `tokLoop` is correct (ScanGlobTok.lean).
-/
import FerrousSpec.Proofs.ScanGlob
import FerrousSpec.Proofs.ScanGlobTok
namespace Ferrous.Scan
open Code Spec

/-! ### Step 1: classes -/

def inItems (c : Nat) (its : List (Nat × Nat)) : Bool := its.any (fun it => it.1 ≤ c && c ≤ it.2)

theorem tokAccepts_cls (neg : Bool) (its : List (Nat × Nat)) (c : Nat) :
    tokAccepts (.cls neg its) c = (inItems c its != neg) := rfl

theorem point_range (x c : Nat) : (decide (x ≤ c) && decide (c ≤ x)) = (x == c) := by
  rw [Bool.eq_iff_iff]
  simp only [Bool.and_eq_true, decide_eq_true_eq, beq_iff_eq]
  omega

theorem inItems_append (c : Nat) (a b : List (Nat × Nat)) : inItems c (a ++ b) = (inItems c a || inItems c b) := by
  simp [inItems, List.any_append]

theorem inItems_single (c lo hi : Nat) : inItems c [(lo, hi)] = (decide (lo ≤ c) && decide (c ≤ hi)) := by
  simp [inItems]

/-- From each of the four in-class states the tokenizer and the code's walk read the same members
    and stop at the same place: the token is the class of the members collected so far followed
    by `items`, the walk reports `matched` iff it was already set or `c` is in `items`. -/
theorem cls_walk : ∀ l : List Nat,
    (∀ neg acc, ∃ items rest,
      tokenizeAux (.cls false neg acc) l = Tok.cls neg (acc.reverse ++ items) :: tokenizeAux .out rest ∧
      ∀ c m, classWalk c .member m l = (m || inItems c items, rest)) ∧
    (∀ neg acc, ∃ items rest,
      tokenizeAux (.clsEsc neg acc) l = Tok.cls neg (acc.reverse ++ items) :: tokenizeAux .out rest ∧
      ∀ c m, classWalk c .esc m l = (m || inItems c items, rest)) ∧
    (∀ neg acc lo, ∃ items rest,
      tokenizeAux (.clsDash neg acc lo) l = Tok.cls neg (acc.reverse ++ items) :: tokenizeAux .out rest ∧
      ∀ c m, classWalk c (.dash lo) m l = (m || inItems c items, rest)) ∧
    (∀ neg acc lo, ∃ items rest,
      tokenizeAux (.clsHi neg acc lo) l = Tok.cls neg (acc.reverse ++ items) :: tokenizeAux .out rest ∧
      ∀ c m, classWalk c (.hi lo) m l = (m || inItems c items, rest))
  | [] => by
    refine ⟨?_, ?_, ?_, ?_⟩ <;> intros <;>
      exact ⟨[], [], by simp [tokenizeAux], by intro c m; simp [classWalk, inItems]⟩
  | x :: r => by
    obtain ⟨ih1, ih2, ih3, ih4⟩ := cls_walk r
    refine ⟨?_, ?_, ?_, ?_⟩
    · intro neg acc
      by_cases hesc : x = 92 ∧ r ≠ []
      · obtain ⟨items, rest, ht, hw⟩ := ih2 neg acc
        refine ⟨items, rest, ?_, ?_⟩
        · simp only [tokenizeAux, Bool.false_eq_true, false_and, if_false]
          rw [if_pos hesc]
          exact ht
        · intro c m
          simp only [classWalk]
          rw [if_pos hesc]
          exact hw c m
      · by_cases h93 : x = 93
        · subst h93
          refine ⟨[], r, ?_, ?_⟩
          · simp [tokenizeAux]
          · intro c m
            simp [classWalk, inItems]
        · by_cases hrange : 2 ≤ r.length ∧ r.head? = some 45
          · obtain ⟨items, rest, ht, hw⟩ := ih3 neg acc x
            refine ⟨items, rest, ?_, ?_⟩
            · simp only [tokenizeAux, Bool.false_eq_true, false_and, if_false]
              rw [if_neg hesc, if_neg h93, if_pos hrange]
              exact ht
            · intro c m
              simp only [classWalk]
              rw [if_neg hesc, if_neg h93, if_pos hrange]
              exact hw c m
          · obtain ⟨items, rest, ht, hw⟩ := ih1 neg ((x, x) :: acc)
            refine ⟨(x, x) :: items, rest, ?_, ?_⟩
            · simp only [tokenizeAux, Bool.false_eq_true, false_and, if_false]
              rw [if_neg hesc, if_neg h93, if_neg hrange, ht]
              simp
            · intro c m
              simp only [classWalk]
              rw [if_neg hesc, if_neg h93, if_neg hrange, hw c (m || x == c)]
              simp [inItems, point_range, Bool.or_assoc]
    · intro neg acc
      obtain ⟨items, rest, ht, hw⟩ := ih1 neg ((x, x) :: acc)
      refine ⟨(x, x) :: items, rest, ?_, ?_⟩
      · simp only [tokenizeAux]
        rw [ht]
        simp
      · intro c m
        simp only [classWalk]
        rw [hw c (m || x == c)]
        simp [inItems, point_range, Bool.or_assoc]
    · intro neg acc lo
      obtain ⟨items, rest, ht, hw⟩ := ih4 neg acc lo
      refine ⟨items, rest, ?_, ?_⟩
      · simp only [tokenizeAux]; exact ht
      · intro c m
        simp only [classWalk]; exact hw c m
    · intro neg acc lo
      obtain ⟨items, rest, ht, hw⟩ := ih1 neg ((min lo x, max lo x) :: acc)
      refine ⟨(min lo x, max lo x) :: items, rest, ?_, ?_⟩
      · simp only [tokenizeAux]
        rw [ht]
        simp
      · intro c m
        simp only [classWalk]
        rw [hw c (m || (decide (min lo x ≤ c) && decide (c ≤ max lo x)))]
        simp [inItems, Bool.or_assoc]

/-- Right after `[`: the `^` negates, then the walk. -/
theorem cls_start (q : List Nat) :
    ∃ items rest,
      tokenizeAux (.cls true false []) q = Tok.cls (q.head? == some 94) items :: tokenizeAux .out rest ∧
      ∀ c, classWalk c .member false (if (q.head? == some 94) = true then q.tail else q) = (inItems c items, rest) := by
  cases q with
  | nil =>
    exact ⟨[], [], by simp [tokenizeAux], by intro c; simp [classWalk, inItems]⟩
  | cons x r =>
    by_cases h94 : x = 94
    · subst h94
      obtain ⟨items, rest, ht, hw⟩ := (cls_walk r).1 true []
      refine ⟨items, rest, ?_, ?_⟩
      · simp only [tokenizeAux, true_and, if_true, List.head?_cons, beq_self_eq_true]
        simpa using ht
      · intro c
        simp only [List.head?_cons, beq_self_eq_true, if_true, List.tail_cons]
        simpa using hw c false
    · obtain ⟨items, rest, ht, hw⟩ := (cls_walk (x :: r)).1 false []
      have hhead : ((x :: r).head? == some 94) = false := by simp [h94]
      refine ⟨items, rest, ?_, ?_⟩
      · rw [hhead]
        have : tokenizeAux (.cls true false []) (x :: r) = tokenizeAux (.cls false false []) (x :: r) := by
          simp only [tokenizeAux, true_and, h94, if_false, Bool.false_eq_true, false_and]
        rw [this]
        simpa using ht
      · intro c
        rw [hhead]
        simpa using hw c false

/-! ### Step 2: one pass -/

/-- The outcome of a pass of the code, with the remaining pattern tokenised. -/
def stepToks : GStep → TStep
  | .adv p' => .adv (tokenize p')
  | .star p' => .star (tokenize p')
  | .fail => .fail

theorem tokStep_single {tk : Tok} (h : isStar tk = false) (r : List Tok) (c : Nat) :
    tokStep (tk :: r) c = if tokAccepts tk c then .adv r else .fail := by
  simp [tokStep, h]

theorem step_sim (p : List Nat) (c : Nat) : tokStep (tokenize p) c = stepToks (globStep p c) := by
  unfold tokenize
  cases p with
  | nil => simp [tokenizeAux, tokStep, globStep, stepToks]
  | cons x r =>
    by_cases h42 : x = 42
    · subst h42
      simp [tokenizeAux, tokStep, isStar, globStep, stepToks, tokenize]
    · by_cases h63 : x = 63
      · subst h63
        simp [tokenizeAux, tokStep, isStar, tokAccepts, globStep, stepToks, tokenize]
      · by_cases h92 : x = 92
        · subst h92
          cases r with
          | nil =>
            by_cases hc : 92 = c
            · subst hc
              simp [tokenizeAux, tokStep, isStar, tokAccepts, globStep, stepToks, tokenize]
            · simp [tokenizeAux, tokStep, isStar, tokAccepts, globStep, stepToks, hc]
          | cons y r' =>
            by_cases hc : y = c
            · subst hc
              simp [tokenizeAux, tokStep, isStar, tokAccepts, globStep, stepToks, tokenize]
            · simp [tokenizeAux, tokStep, isStar, tokAccepts, globStep, stepToks, hc]
        · by_cases h91 : x = 91
          · subst h91
            obtain ⟨items, rest, ht, hw⟩ := cls_start r
            have hstep : globStep (91 :: r) c = classStep r c := by simp [globStep]
            have htok : tokenizeAux .out (91 :: r) = tokenizeAux (.cls true false []) r := by
              simp [tokenizeAux]
            rw [hstep, htok, ht, tokStep_single (by rfl), tokAccepts_cls]
            unfold classStep
            dsimp only
            rw [hw c]
            by_cases hacc : (inItems c items != (r.head? == some 94)) = true
            · rw [if_pos hacc, if_pos hacc]; rfl
            · rw [if_neg hacc, if_neg hacc]; rfl
          · have htok : tokenizeAux .out (x :: r) = Tok.lit x :: tokenizeAux .out r := by
              simp [tokenizeAux, h42, h63, h92, h91]
            rw [htok, tokStep_single (by rfl)]
            by_cases hc : x = c
            · subst hc
              simp [tokAccepts, globStep, h42, h63, h92, h91, stepToks, tokenize]
            · simp [tokAccepts, globStep, h42, h63, h92, h91, stepToks, hc]

/-- The first token of a pattern that does not begin with `*` is not a star. -/
theorem head_not_star {x : Nat} (h42 : x ≠ 42) (r : List Nat) :
    ∃ tk tl, tokenize (x :: r) = tk :: tl ∧ isStar tk = false := by
  unfold tokenize
  by_cases h63 : x = 63
  · subst h63; exact ⟨.any, tokenizeAux .out r, by simp [tokenizeAux], rfl⟩
  · by_cases h92 : x = 92
    · subst h92
      cases r with
      | nil => exact ⟨.lit 92, [], by simp [tokenizeAux], rfl⟩
      | cons y r' => exact ⟨.lit y, tokenizeAux .out r', by simp [tokenizeAux], rfl⟩
    · by_cases h91 : x = 91
      · subst h91
        obtain ⟨items, rest, ht, _⟩ := cls_start r
        exact ⟨_, _, by simp only [tokenizeAux]; simpa using ht, rfl⟩
      · exact ⟨.lit x, tokenizeAux .out r, by simp [tokenizeAux, h42, h63, h92, h91], rfl⟩

/-- After the text: the trailing-`*` loop accepts iff only stars are left. -/
theorem end_sim : ∀ (p : List Nat), (p.dropWhile (· == 42)).isEmpty = (tokenize p).all isStar
  | [] => by simp [tokenize, tokenizeAux]
  | x :: r => by
    by_cases h42 : x = 42
    · subst h42
      have := end_sim r
      simp only [tokenize] at this ⊢
      simp [tokenizeAux, List.dropWhile, isStar, this]
    · obtain ⟨tk, tl, ht, hst⟩ := head_not_star h42 r
      have hne : (x == 42) = false := by simp [h42]
      rw [ht]
      simp [List.dropWhile, hne, hst]

/-! ### Step 3: the loops -/

def starToks (s : Option (List Nat × List Nat)) : Option (List Tok × List Nat) :=
  s.map (fun st => (tokenize st.1, st.2))

theorem loop_sim : ∀ (f : Nat) (p t : List Nat) (star : Option (List Nat × List Nat)),
    globLoop f p t star = tokLoop f (tokenize p) t (starToks star)
  | 0, _, _, _ => by simp [globLoop, tokLoop]
  | f + 1, p, [], _ => by simp [globLoop, tokLoop, end_sim p]
  | f + 1, p, c :: t, star => by
    rw [globLoop_cons]
    simp only [tokLoop]
    rw [step_sim p c]
    cases hgs : globStep p c with
    | adv p' =>
      simp only [stepToks]
      exact loop_sim f p' t star
    | star p' =>
      simp only [stepToks]
      exact loop_sim f p' (c :: t) (some (p', c :: t))
    | fail =>
      simp only [stepToks]
      cases star with
      | none => rfl
      | some st =>
        obtain ⟨ps, ts⟩ := st
        simp only [starToks, Option.map_some]
        exact loop_sim f ps ts.tail (some (ps, ts.tail))

/-- **The engine's matcher computes glob semantics — for every pattern and every text.**
    `p`, `t` are plain lists of symbols (bytes, or code points): classes, negated classes,
    ranges (ordered bounds), escapes inside and outside classes, unterminated classes, any
    number of `*`. -/
theorem globChars_eq_matchToks (p t : List Nat) : globChars p t = matchToks (tokenize p) t := by
  have hs := globLoop_fuel_enough p t
  cases hr : globLoop (globFuel p t) p t none with
  | none => simp [hr] at hs
  | some b =>
    have h1 : globChars p t = b := by simp [globChars, hr]
    have h2 : tokLoop (globFuel p t) (tokenize p) t none = some b := by
      have := loop_sim (globFuel p t) p t none
      simp only [starToks, Option.map_none] at this
      rw [← this]; exact hr
    rw [h1, tokLoop_matchToks h2]

end Ferrous.Scan
