/-
  On every pattern of the agreed fragment (`Spec.tokenize p = some toks`) the engine's matcher
  over characters computes the textbook glob semantics: `Code.globChars p t = Spec.matchToks toks t`.

  Step 1: the class body as the code reads it (`classMatch`) is the item list the tokenizer builds.
  Step 2: one pass of the engine's `match` (`globStep`) is one pass over the token list (`tokStep`).
  Step 3: the loops agree (`globLoop = tokLoop`), and `tokLoop` is correct (ScanGlobTok.lean).
-/
import FerrousSpec.Proofs.ScanGlob
import FerrousSpec.Proofs.ScanGlobTok
namespace Ferrous.Scan
open Code Spec

/-! ### Step 1: classes -/

/-- The items of a class body as `classMatch` reads them. -/
def itemsOf : List Nat → List (Nat × Nat)
  | [] => []
  | x :: rest@(d :: hi :: rest') => if d = 45 then (x, hi) :: itemsOf rest' else (x, x) :: itemsOf rest
  | x :: rest => (x, x) :: itemsOf rest

def inItems (c : Nat) (its : List (Nat × Nat)) : Bool := its.any (fun it => it.1 ≤ c && c ≤ it.2)

theorem tokAccepts_cls (neg : Bool) (its : List (Nat × Nat)) (c : Nat) :
    tokAccepts (.cls neg its) c = (inItems c its != neg) := rfl

theorem itemsOf_one (x : Nat) : itemsOf [x] = [(x, x)] := by simp [itemsOf]
theorem itemsOf_two (x y : Nat) : itemsOf [x, y] = [(x, x), (y, y)] := by simp [itemsOf]
theorem itemsOf_range (x hi : Nat) (r : List Nat) : itemsOf (x :: 45 :: hi :: r) = (x, hi) :: itemsOf r := by
  simp [itemsOf]
theorem itemsOf_single (x d : Nat) (r : List Nat) (hd : d ≠ 45) : itemsOf (x :: d :: r) = (x, x) :: itemsOf (d :: r) := by
  cases r with
  | nil => simp [itemsOf]
  | cons hi r' => simp [itemsOf, hd]

theorem point_range (x c : Nat) : (decide (x ≤ c) && decide (c ≤ x)) = decide (c = x) := by
  rw [Bool.eq_iff_iff]
  simp only [Bool.and_eq_true, decide_eq_true_eq]
  omega

theorem ite_true_or (P : Prop) [Decidable P] (b : Bool) : (if P then true else b) = (decide P || b) := by
  by_cases h : P <;> simp [h]

theorem ite_range_or (P : Prop) [Decidable P] (b : Bool) : (if P then true else b) = (decide P || b) :=
  ite_true_or P b

theorem classMatch_nil (c : Nat) : classMatch c [] = false := rfl

theorem classMatch_one (c x : Nat) : classMatch c [x] = if c = x then true else false := by
  simp [classMatch, classMatchAux]

theorem classMatch_range (c x hi : Nat) (r : List Nat) :
    classMatch c (x :: 45 :: hi :: r) = if x ≤ c ∧ c ≤ hi then true else classMatch c r := by
  simp [classMatch, classMatchAux]

theorem classMatch_single (c x d : Nat) (r : List Nat) (hd : d ≠ 45) :
    classMatch c (x :: d :: r) = if c = x then true else classMatch c (d :: r) := by
  simp [classMatch, classMatchAux, hd]

theorem classMatch_two (c x y : Nat) : classMatch c [x, y] = if c = x then true else classMatch c [y] := by
  simp [classMatch, classMatchAux]

theorem classMatch_eq (c : Nat) : ∀ (n : Nat) (body : List Nat), body.length ≤ n →
    classMatch c body = inItems c (itemsOf body)
  | _, [], _ => by simp [classMatch_nil, itemsOf, inItems]
  | 0, _ :: _, h => by simp at h
  | n + 1, [x], _ => by
    simp only [classMatch_one, itemsOf_one, inItems, List.any_cons, List.any_nil, Bool.or_false, ite_true_or,
      point_range]
  | n + 1, [x, y], _ => by
    simp only [classMatch_two, classMatch_one, itemsOf_two, inItems, List.any_cons, List.any_nil, Bool.or_false,
      ite_true_or, point_range]
  | n + 1, x :: d :: hi :: r, h => by
    simp only [List.length_cons] at h
    by_cases hd : d = 45
    · subst hd
      rw [itemsOf_range, classMatch_range]
      have ih := classMatch_eq c n r (by omega)
      simp only [inItems, List.any_cons, ite_true_or] at ih ⊢
      rw [ih]
      simp [Bool.decide_and]
    · rw [itemsOf_single x d (hi :: r) hd, classMatch_single c x d (hi :: r) hd]
      have ih := classMatch_eq c n (d :: hi :: r) (by simp only [List.length_cons]; omega)
      simp only [inItems, List.any_cons, ite_true_or, point_range] at ih ⊢
      rw [ih]

theorem classMatch_items (c : Nat) (body : List Nat) : classMatch c body = inItems c (itemsOf body) :=
  classMatch_eq c body.length body (Nat.le_refl _)

theorem splitClose_cons_ne {x : Nat} (hx : x ≠ 93) {r body rest : List Nat} (h : splitClose r = some (body, rest)) :
    splitClose (x :: r) = some (x :: body, rest) := by
  simp [splitClose, hx, h]

/-- What the three in-class states of the tokenizer produce, in terms of the raw class body. -/
theorem cls_states : ∀ q : List Nat,
    (∀ neg acc toks, tokenizeAux (.cls false neg acc) q = some toks →
      ∃ body rest toks', splitClose q = some (body, rest) ∧ tokenizeAux .out rest = some toks' ∧
        toks = .cls neg (acc.reverse ++ itemsOf body) :: toks') ∧
    (∀ neg acc lo toks, tokenizeAux (.clsLo neg acc lo) q = some toks →
      ∃ body rest toks', splitClose q = some (body, rest) ∧ tokenizeAux .out rest = some toks' ∧
        toks = .cls neg (acc.reverse ++ itemsOf (lo :: body)) :: toks') ∧
    (∀ neg acc lo toks, tokenizeAux (.clsDash neg acc lo) q = some toks →
      ∃ body rest toks', splitClose q = some (body, rest) ∧ tokenizeAux .out rest = some toks' ∧
        toks = .cls neg (acc.reverse ++ itemsOf (lo :: 45 :: body)) :: toks')
  | [] => by
    refine ⟨?_, ?_, ?_⟩ <;> intros <;> simp_all [tokenizeAux]
  | x :: r => by
    obtain ⟨ih1, ih2, ih3⟩ := cls_states r
    refine ⟨?_, ?_, ?_⟩
    · intro neg acc toks h
      simp only [tokenizeAux, Bool.false_eq_true, false_and, if_false] at h
      by_cases h93 : x = 93
      · subst h93
        simp only [if_true, Option.map_eq_some_iff] at h
        obtain ⟨toks', h1, h2⟩ := h
        exact ⟨[], r, toks', by simp [splitClose], h1, by simp [itemsOf, ← h2]⟩
      · simp only [h93, if_false] at h
        by_cases h92 : x = 92
        · simp [h92] at h
        · simp only [h92, if_false] at h
          obtain ⟨body, rest, toks', hs, ht, he⟩ := ih2 neg acc x toks h
          exact ⟨x :: body, rest, toks', splitClose_cons_ne h93 hs, ht, he⟩
    · intro neg acc lo toks h
      simp only [tokenizeAux] at h
      by_cases h45 : x = 45
      · subst h45
        simp only [if_true] at h
        obtain ⟨body, rest, toks', hs, ht, he⟩ := ih3 neg acc lo toks h
        exact ⟨45 :: body, rest, toks', splitClose_cons_ne (by decide) hs, ht, he⟩
      · simp only [h45, if_false] at h
        by_cases h93 : x = 93
        · subst h93
          simp only [if_true, Option.map_eq_some_iff] at h
          obtain ⟨toks', h1, h2⟩ := h
          exact ⟨[], r, toks', by simp [splitClose], h1, by simp [itemsOf_one, ← h2]⟩
        · simp only [h93, if_false] at h
          by_cases h92 : x = 92
          · simp [h92] at h
          · simp only [h92, if_false] at h
            obtain ⟨body, rest, toks', hs, ht, he⟩ := ih2 neg ((lo, lo) :: acc) x toks h
            refine ⟨x :: body, rest, toks', splitClose_cons_ne h93 hs, ht, ?_⟩
            rw [he, itemsOf_single lo x body h45]
            simp
    · intro neg acc lo toks h
      simp only [tokenizeAux] at h
      by_cases hbad : x = 93 ∨ x = 92 ∨ x < lo
      · simp [hbad] at h
      · simp only [hbad, if_false] at h
        obtain ⟨body, rest, toks', hs, ht, he⟩ := ih1 neg ((lo, x) :: acc) toks h
        have h93 : x ≠ 93 := fun h => hbad (Or.inl h)
        refine ⟨x :: body, rest, toks', splitClose_cons_ne h93 hs, ht, ?_⟩
        rw [he, itemsOf_range]
        simp

/-- The state right after `[`. -/
theorem cls_start (q : List Nat) (toks : List Tok) (h : tokenizeAux (.cls true false []) q = some toks) :
    ∃ body rest toks', splitClose q = some (body, rest) ∧ tokenizeAux .out rest = some toks' ∧
      toks = .cls (body.head? == some 94) (itemsOf (if (body.head? == some 94) = true then body.tail else body)) :: toks' := by
  cases q with
  | nil => simp [tokenizeAux] at h
  | cons x r =>
    obtain ⟨ih1, ih2, _⟩ := cls_states r
    simp only [tokenizeAux, true_and] at h
    by_cases h94 : x = 94
    · subst h94
      simp only [if_true] at h
      obtain ⟨body, rest, toks', hs, ht, he⟩ := ih1 true [] toks h
      exact ⟨94 :: body, rest, toks', splitClose_cons_ne (by decide) hs, ht, by simp [he]⟩
    · simp only [h94, if_false] at h
      by_cases h93 : x = 93
      · subst h93
        simp only [if_true, Option.map_eq_some_iff] at h
        obtain ⟨toks', h1, h2⟩ := h
        exact ⟨[], r, toks', by simp [splitClose], h1, by simp [itemsOf, ← h2]⟩
      · simp only [h93, if_false] at h
        by_cases h92 : x = 92
        · simp [h92] at h
        · simp only [h92, if_false] at h
          obtain ⟨body, rest, toks', hs, ht, he⟩ := ih2 false [] x toks h
          refine ⟨x :: body, rest, toks', splitClose_cons_ne h93 hs, ht, ?_⟩
          have : ((x :: body).head? == some 94) = false := by simp [h94]
          rw [this]
          simp [he]

/-! ### Step 2: one pass -/

theorem classStep_eq {r body rest : List Nat} (hs : splitClose r = some (body, rest)) (c : Nat) :
    classStep r c =
      if (inItems c (itemsOf (if (body.head? == some 94) = true then body.tail else body)) != (body.head? == some 94)) = true
      then .adv rest else .fail := by
  unfold classStep
  rw [hs]
  dsimp only
  rw [classMatch_items]

theorem tokStep_single {tk : Tok} (h : isStar tk = false) (r : List Tok) (c : Nat) :
    tokStep (tk :: r) c = if tokAccepts tk c then .adv r else .fail := by
  simp [tokStep, h]

theorem step_sim {p : List Nat} {toks : List Tok} (h : tokenize p = some toks) (c : Nat) :
    (∃ r p', tokStep toks c = .adv r ∧ globStep p c = .adv p' ∧ tokenize p' = some r) ∨
    (∃ r p', tokStep toks c = .star r ∧ globStep p c = .star p' ∧ tokenize p' = some r) ∨
    (tokStep toks c = .fail ∧ globStep p c = .fail) := by
  unfold tokenize at h
  cases p with
  | nil =>
    simp only [tokenizeAux, Option.some.injEq] at h
    subst h
    right; right
    simp [tokStep, globStep]
  | cons x r =>
    simp only [tokenizeAux] at h
    by_cases h42 : x = 42
    · subst h42
      simp only [if_true, Option.map_eq_some_iff] at h
      obtain ⟨toks', h1, h2⟩ := h
      subst h2
      right; left
      exact ⟨toks', r, by simp [tokStep, isStar], by simp [globStep], h1⟩
    · simp only [h42, if_false] at h
      by_cases h63 : x = 63
      · subst h63
        simp only [if_true, Option.map_eq_some_iff] at h
        obtain ⟨toks', h1, h2⟩ := h
        subst h2
        left
        exact ⟨toks', r, by simp [tokStep, isStar, tokAccepts], by simp [globStep], h1⟩
      · simp only [h63, if_false] at h
        by_cases h92 : x = 92
        · subst h92
          simp only [if_true] at h
          cases r with
          | nil =>
            simp only [tokenizeAux, Option.some.injEq] at h
            subst h
            by_cases hc : 92 = c
            · subst hc
              left
              exact ⟨[], [], by simp [tokStep, isStar, tokAccepts], by simp [globStep], by simp [tokenize, tokenizeAux]⟩
            · right; right
              exact ⟨by simp [tokStep, isStar, tokAccepts, hc], by simp [globStep, hc]⟩
          | cons y r' =>
            simp only [tokenizeAux, Option.map_eq_some_iff] at h
            obtain ⟨toks', h1, h2⟩ := h
            subst h2
            by_cases hc : y = c
            · subst hc
              left
              exact ⟨toks', r', by simp [tokStep, isStar, tokAccepts], by simp [globStep], h1⟩
            · right; right
              exact ⟨by simp [tokStep, isStar, tokAccepts, hc], by simp [globStep, hc]⟩
        · simp only [h92, if_false] at h
          by_cases h91 : x = 91
          · subst h91
            simp only [if_true] at h
            obtain ⟨body, rest, toks', hs, ht, he⟩ := cls_start r toks h
            subst he
            have hstep : globStep (91 :: r) c = classStep r c := by simp [globStep]
            rw [hstep, classStep_eq hs, tokStep_single (by rfl), tokAccepts_cls]
            by_cases hacc : (inItems c (itemsOf (if (body.head? == some 94) = true then body.tail else body)) != (body.head? == some 94)) = true
            · left
              exact ⟨toks', rest, by rw [if_pos hacc], by rw [if_pos hacc], ht⟩
            · right; right
              exact ⟨by rw [if_neg hacc], by rw [if_neg hacc]⟩
          · simp only [h91, if_false, Option.map_eq_some_iff] at h
            obtain ⟨toks', h1, h2⟩ := h
            subst h2
            by_cases hc : x = c
            · subst hc
              left
              exact ⟨toks', r, by simp [tokStep, isStar, tokAccepts], by simp [globStep, h42, h63, h92, h91], h1⟩
            · right; right
              exact ⟨by simp [tokStep, isStar, tokAccepts, hc], by simp [globStep, h42, h63, h92, h91, hc]⟩

/-- After the text: the trailing-`*` loop accepts iff only stars are left. -/
theorem end_sim : ∀ {p : List Nat} {toks : List Tok}, tokenize p = some toks →
    (p.dropWhile (· == 42)).isEmpty = toks.all isStar
  | [], toks, h => by
    simp only [tokenize, tokenizeAux, Option.some.injEq] at h
    subst h
    simp
  | x :: r, toks, h => by
    by_cases h42 : x = 42
    · subst h42
      have h' := h
      simp only [tokenize, tokenizeAux, if_true, Option.map_eq_some_iff] at h'
      obtain ⟨toks', h1, h2⟩ := h'
      subst h2
      have := end_sim (p := r) (toks := toks') h1
      simp [List.dropWhile, isStar, this]
    · -- the first token is not a star, whatever the first character is
      have hne : (x == 42) = false := by simp [h42]
      simp only [List.dropWhile, hne, List.isEmpty_cons]
      -- take one step with any character to see the head token
      rcases step_sim h 0 with ⟨r', p', hs, hg, _⟩ | ⟨r', p', hs, hg, _⟩ | ⟨hs, hg⟩
      · cases toks with
        | nil => simp [tokStep] at hs
        | cons tk tl =>
          simp only [tokStep] at hs
          cases hst : isStar tk with
          | true => simp [hst] at hs
          | false => simp [hst]
      · -- a star step of the code needs x = 42
        have := globStep_star_length hg
        simp only [globStep, h42, if_false] at hg
        split at hg
        · simp at hg
        · split at hg
          · exact absurd hg classStep_ne_star
          · split at hg
            · split at hg <;> split at hg <;> simp at hg
            · split at hg <;> simp at hg
      · cases toks with
        | nil =>
          simp only [tokenize, tokenizeAux, h42, if_false] at h
          split at h
          · simp at h
          · split at h
            · cases r <;> simp [tokenizeAux] at h
            · split at h
              · obtain ⟨_, _, _, _, _, he⟩ := cls_start r [] h
                simp at he
              · simp at h
        | cons tk tl =>
          simp only [tokStep] at hs
          cases hst : isStar tk with
          | true => simp [hst] at hs
          | false => simp [hst]

/-! ### Step 3: the loops -/

/-- The saved stars correspond. -/
def StarRel : Option (List Nat × List Nat) → Option (List Tok × List Nat) → Prop
  | none, none => True
  | some (ps, ts), some (pst, ts') => ts = ts' ∧ tokenize ps = some pst
  | _, _ => False

theorem loop_sim : ∀ (f : Nat) (p : List Nat) (toks : List Tok) (t : List Nat)
    (star : Option (List Nat × List Nat)) (star' : Option (List Tok × List Nat)),
    tokenize p = some toks → StarRel star star' → globLoop f p t star = tokLoop f toks t star'
  | 0, _, _, _, _, _, _, _ => by simp [globLoop, tokLoop]
  | f + 1, p, toks, [], _, _, h, _ => by simp [globLoop, tokLoop, end_sim h]
  | f + 1, p, toks, c :: t, star, star', h, hs => by
    rw [globLoop_cons]
    simp only [tokLoop]
    rcases step_sim h c with ⟨r, p', h1, h2, h3⟩ | ⟨r, p', h1, h2, h3⟩ | ⟨h1, h2⟩
    · rw [h1, h2]
      exact loop_sim f p' r t star star' h3 hs
    · rw [h1, h2]
      exact loop_sim f p' r (c :: t) _ _ h3 ⟨rfl, h3⟩
    · rw [h1, h2]
      cases star with
      | none =>
        cases star' with
        | none => rfl
        | some st' => simp [StarRel] at hs
      | some st =>
        cases star' with
        | none => simp [StarRel] at hs
        | some st' =>
          obtain ⟨ps, ts⟩ := st
          obtain ⟨pst, ts'⟩ := st'
          obtain ⟨rfl, hps⟩ := hs
          exact loop_sim f ps pst ts.tail _ _ hps ⟨rfl, hps⟩

/-- **The engine's matcher computes glob semantics on the agreed fragment**, for every pattern
    (classes, negated classes, ranges, escapes, any number of `*`) and every text. -/
theorem globChars_eq_matchToks (p t : List Nat) (toks : List Tok) (h : tokenize p = some toks) :
    globChars p t = matchToks toks t := by
  have hs := globLoop_fuel_enough p t
  cases hr : globLoop (globFuel p t) p t none with
  | none => simp [hr] at hs
  | some b =>
    have h1 : globChars p t = b := by simp [globChars, hr]
    have h2 : tokLoop (globFuel p t) toks t none = some b := by
      rw [← loop_sim (globFuel p t) p toks t none none h trivial]; exact hr
    rw [h1, tokLoop_matchToks h2]

end Ferrous.Scan
