/-
  C08 helper lemmas, part 2: storage operations, sweeper deletion, registration — what they do to
  counters, watcher counts, entries and connections; every step only lets trackers grow.
-/
import FerrousSpec.Proofs.WatchBasic
namespace Ferrous.Watch

/-! ### replacing a tracker by one with the same counters -/

theorem grows_setTracker_same (s : State) (d sh : Nat) (t' : Tracker)
    (hg : t'.global = (s.tracker d sh).global) (hc : ∀ k, t'.counter k = (s.tracker d sh).counter k) :
    Grows s (s.setTracker d sh t') := by
  refine ⟨fun h d' sh' => ?_, fun d' sh' => ?_, fun _ d' k' => ?_⟩
  · rw [tracker_setTracker]
    split
    · rename_i e
      simp only [Prod.mk.injEq] at e
      obtain ⟨e1, e2⟩ := e
      subst e1; subst e2
      intro k; rw [hc, hg]; exact h _ _ k
    · exact h _ _
  · rw [tracker_setTracker]
    split
    · rename_i e
      simp only [Prod.mk.injEq] at e
      obtain ⟨e1, e2⟩ := e
      subst e1; subst e2
      rw [hg]; exact Nat.le_refl _
    · exact Nat.le_refl _
  · unfold State.counter
    rw [tracker_setTracker]
    split
    · rename_i e
      simp only [Prod.mk.injEq] at e
      obtain ⟨e1, e2⟩ := e
      subst e1
      rw [← e2, hc]; exact Nat.le_refl _
    · exact Nat.le_refl _

theorem counter_setTracker_same (s : State) (d sh : Nat) (t' : Tracker)
    (hc : ∀ k, t'.counter k = (s.tracker d sh).counter k) (d' : Nat) (k' : Key) :
    (s.setTracker d sh t').counter d' k' = s.counter d' k' := by
  unfold State.counter
  rw [tracker_setTracker]
  split
  · rename_i e
    simp only [Prod.mk.injEq] at e
    obtain ⟨e1, e2⟩ := e
    subst e1
    rw [← e2, hc]
  · rfl

theorem global_setTracker_same (s : State) (d sh : Nat) (t' : Tracker)
    (hg : t'.global = (s.tracker d sh).global) (d' sh' : Nat) :
    ((s.setTracker d sh t').tracker d' sh').global = (s.tracker d' sh').global := by
  rw [tracker_setTracker]
  split
  · rename_i e
    simp only [Prod.mk.injEq] at e
    obtain ⟨e1, e2⟩ := e
    subst e1; subst e2; exact hg
  · rfl

theorem active_setTracker (s : State) (d sh : Nat) (t' : Tracker) (d' sh' : Nat) :
    (s.setTracker d sh t').active d' sh' = if (d, sh) = (d', sh') then t'.active else s.active d' sh' := by
  unfold State.active
  rw [tracker_setTracker]
  split <;> rfl

/-! ### one key operation -/

@[simp] theorem conns_applyKeyOp (s : State) (d : Nat) (o : KeyOp) : (applyKeyOp s d o).conns = s.conns := by
  unfold applyKeyOp
  split
  · simp only []
    split <;> simp
  · rfl

@[simp] theorem active_applyKeyOp (s : State) (d : Nat) (o : KeyOp) (d' sh' : Nat) :
    (applyKeyOp s d o).active d' sh' = s.active d' sh' := by
  unfold applyKeyOp
  split
  · simp only []
    split <;> simp
  · rfl

theorem grows_applyKeyOp (s : State) (d : Nat) (o : KeyOp) : Grows s (applyKeyOp s d o) := by
  unfold applyKeyOp
  split
  · simp only []
    split
    · exact (grows_setEntry s d o.key _).trans (grows_markKey _ d o.key)
    · exact grows_setEntry s d o.key _
  · exact Grows.refl s

theorem entry_applyKeyOp (s : State) (d : Nat) (o : KeyOp) (d' : Nat) (k' : Key) :
    (applyKeyOp s d o).entry d' k' =
      if o.eff.reaches = true ∧ (d, o.key) = (d', k') then o.eff.result (s.entry d o.key) else s.entry d' k' := by
  unfold applyKeyOp
  by_cases hr : o.eff.reaches = true
  · simp only [hr, if_true, true_and]
    split <;> simp
  · simp [hr]

/-- an operation on another (database, key), or one that reaches no mutating path, leaves the counter alone -/
theorem counter_applyKeyOp_other (s : State) (d : Nat) (o : KeyOp) (d' : Nat) (k' : Key)
    (h : ¬ (o.eff.reaches = true ∧ (d, o.key) = (d', k'))) :
    (applyKeyOp s d o).counter d' k' = s.counter d' k' := by
  unfold applyKeyOp
  by_cases hr : o.eff.reaches = true
  · have hne : (d, o.key) ≠ (d', k') := fun e => h ⟨hr, e⟩
    simp only [hr, if_true]
    split
    · rw [counter_markKey_other _ _ _ _ _ hne]; rfl
    · rfl
  · simp [hr]

/-- a marking operation that reaches its mutating path while a watcher is counted on the shard pushes
    the key's counter beyond the shard's old global counter -/
theorem counter_applyKeyOp_marks (s : State) (d : Nat) (o : KeyOp)
    (hr : o.eff.reaches = true) (hm : o.marks = true) (ha : s.active d (shardOf o.key) ≠ 0) :
    (s.tracker d (shardOf o.key)).global < (applyKeyOp s d o).counter d o.key := by
  unfold applyKeyOp
  simp only [hr, hm, if_true]
  exact counter_markKey_self (s.setEntry d o.key _) d o.key ha

/-! ### marking a list of keys, flushing -/

def markAll (s : State) (xs : List (Nat × Key)) : State := xs.foldl (fun s x => markKey s x.1 x.2) s

@[simp] theorem conns_markAll (s : State) (xs : List (Nat × Key)) : (markAll s xs).conns = s.conns := by
  induction xs generalizing s with
  | nil => rfl
  | cons x r ih => simp only [markAll, List.foldl_cons] at ih ⊢; rw [ih]; simp

@[simp] theorem data_markAll (s : State) (xs : List (Nat × Key)) : (markAll s xs).data = s.data := by
  induction xs generalizing s with
  | nil => rfl
  | cons x r ih => simp only [markAll, List.foldl_cons] at ih ⊢; rw [ih]; simp

@[simp] theorem active_markAll (s : State) (xs : List (Nat × Key)) (d sh : Nat) :
    (markAll s xs).active d sh = s.active d sh := by
  induction xs generalizing s with
  | nil => rfl
  | cons x r ih => simp only [markAll, List.foldl_cons] at ih ⊢; rw [ih]; simp

theorem grows_markAll (s : State) (xs : List (Nat × Key)) : Grows s (markAll s xs) := by
  induction xs generalizing s with
  | nil => exact Grows.refl s
  | cons x r ih =>
    simp only [markAll, List.foldl_cons] at ih ⊢
    exact (grows_markKey s x.1 x.2).trans (ih _)

theorem counter_markAll_other (s : State) (xs : List (Nat × Key)) (d : Nat) (k : Key) (h : (d, k) ∉ xs) :
    (markAll s xs).counter d k = s.counter d k := by
  induction xs generalizing s with
  | nil => rfl
  | cons x r ih =>
    simp only [markAll, List.foldl_cons] at ih ⊢
    have hx : (x.1, x.2) ≠ (d, k) := fun e => h (by rw [← e]; exact List.mem_cons_self)
    rw [ih _ (fun m => h (List.mem_cons_of_mem _ m)), counter_markKey_other _ _ _ _ _ hx]

theorem counter_markAll_mem (s : State) (xs : List (Nat × Key)) (d : Nat) (k : Key) (hk : TOk s)
    (h : (d, k) ∈ xs) (ha : s.active d (shardOf k) ≠ 0) :
    (s.tracker d (shardOf k)).global < (markAll s xs).counter d k := by
  induction xs generalizing s with
  | nil => simp at h
  | cons x r ih =>
    simp only [markAll, List.foldl_cons] at ih ⊢
    by_cases hx : x = (d, k)
    · subst hx
      have h1 := counter_markKey_self s d k ha
      have h2 := (grows_markAll (markKey s d k) r).counter (tok_markKey s d k hk) d k
      simp only [markAll] at h2
      exact Nat.lt_of_lt_of_le h1 h2
    · have hm : (d, k) ∈ r := by
        cases h with
        | head => exact absurd rfl hx
        | tail _ m => exact m
      have := ih (markKey s x.1 x.2) (tok_markKey s _ _ hk) hm (by simpa using ha)
      exact Nat.lt_of_le_of_lt (global_markKey_le s x.1 x.2 d (shardOf k)) this

theorem aget_map_clear (m : List ((Nat × Key) × Option Entry)) (p : Nat → Bool) (x : Nat × Key) :
    aget (m.map (fun y => if p y.1.1 = true then (y.1, none) else y)) x none =
      if p x.1 = true then none else aget m x none := by
  induction m with
  | nil => simp [aget]
  | cons y r ih =>
    obtain ⟨a, v⟩ := y
    simp only [List.map_cons]
    by_cases hp : p a.1 = true
    · simp only [hp, if_true]
      unfold aget
      by_cases e : a = x
      · subst e; simp [hp]
      · simp only [e, if_false]; exact ih
    · have hp' : p a.1 = false := by simpa using hp
      simp only [hp', Bool.false_eq_true, if_false]
      unfold aget
      by_cases e : a = x
      · subst e; simp [hp']
      · simp only [e, if_false]; exact ih

theorem mem_presentKeys (s : State) (p : Nat → Bool) (x : Nat × Key) :
    x ∈ presentKeys s p → p x.1 = true := by
  unfold presentKeys
  simp only [List.mem_map, List.mem_filter, Bool.and_eq_true]
  rintro ⟨y, ⟨_, hy⟩, rfl⟩
  exact hy.1

theorem presentKeys_of_entry (s : State) (p : Nat → Bool) (d : Nat) (k : Key)
    (hp : p d = true) (he : s.entry d k ≠ none) : (d, k) ∈ presentKeys s p := by
  unfold presentKeys
  simp only [List.mem_map, List.mem_filter, Bool.and_eq_true]
  refine ⟨((d, k), s.entry d k), ⟨aget_mem s.data (d, k) none he, hp, ?_⟩, rfl⟩
  cases h : s.entry d k with
  | none => exact absurd h he
  | some e => rfl

theorem flushWhere_eq (s : State) (p : Nat → Bool) (marks : Bool) :
    flushWhere s p marks =
      { (if marks then markAll s (presentKeys s p) else s) with
        data := (if marks then markAll s (presentKeys s p) else s).data.map
                  (fun x => if p x.1.1 = true then (x.1, none) else x) } := rfl

@[simp] theorem conns_flushWhere (s : State) (p : Nat → Bool) (marks : Bool) : (flushWhere s p marks).conns = s.conns := by
  rw [flushWhere_eq]; cases marks <;> simp

theorem tracker_flushWhere (s : State) (p : Nat → Bool) (marks : Bool) (d sh : Nat) :
    (flushWhere s p marks).tracker d sh = (if marks then markAll s (presentKeys s p) else s).tracker d sh := by
  rw [flushWhere_eq]; rfl

@[simp] theorem active_flushWhere (s : State) (p : Nat → Bool) (marks : Bool) (d sh : Nat) :
    (flushWhere s p marks).active d sh = s.active d sh := by
  unfold State.active; rw [tracker_flushWhere]
  cases marks
  · rfl
  · exact active_markAll s _ d sh

theorem grows_flushWhere (s : State) (p : Nat → Bool) (marks : Bool) : Grows s (flushWhere s p marks) := by
  have h1 : Grows s (if marks then markAll s (presentKeys s p) else s) := by
    cases marks
    · exact Grows.refl s
    · exact grows_markAll s _
  refine h1.trans (Grows.of_trk_eq ?_)
  rw [flushWhere_eq]

theorem entry_flushWhere (s : State) (p : Nat → Bool) (marks : Bool) (d : Nat) (k : Key) :
    (flushWhere s p marks).entry d k = if p d = true then none else s.entry d k := by
  rw [flushWhere_eq]
  unfold State.entry
  simp only []
  rw [aget_map_clear]
  cases marks <;> simp

theorem counter_flushWhere (s : State) (p : Nat → Bool) (marks : Bool) (d : Nat) (k : Key) :
    (flushWhere s p marks).counter d k = (if marks then markAll s (presentKeys s p) else s).counter d k := by
  unfold State.counter; rw [tracker_flushWhere]

theorem counter_flushWhere_other (s : State) (p : Nat → Bool) (marks : Bool) (d : Nat) (k : Key)
    (h : p d = false) : (flushWhere s p marks).counter d k = s.counter d k := by
  rw [counter_flushWhere]
  cases marks
  · rfl
  · apply counter_markAll_other
    intro m
    have := mem_presentKeys s p (d, k) m
    simp [h] at this

/-- a marking flush that removes an existing entry pushes its counter beyond the old global counter -/
theorem counter_flushWhere_marks (s : State) (p : Nat → Bool) (d : Nat) (k : Key) (hk : TOk s)
    (hp : p d = true) (he : s.entry d k ≠ none) (ha : s.active d (shardOf k) ≠ 0) :
    (s.tracker d (shardOf k)).global < (flushWhere s p true).counter d k := by
  rw [counter_flushWhere]
  exact counter_markAll_mem s _ d k hk (presentKeys_of_entry s p d k hp he) ha

/-! ### one operation, a list of operations -/

/-- does the operation, run in database `d'`, address the entry `(d, k)`? (a flush addresses every key of
    the databases it clears) -/
def opTouches (d : Nat) (k : Key) (d' : Nat) : Op → Bool
  | .key o => decide (d' = d) && decide (o.key = k) && o.eff.reaches
  | .flush all _ => all || decide (d' = d)

/-- the operation marks whatever it changes (the table condition of the fixed tree) -/
def opMarksOk : Op → Bool
  | .key o => !o.eff.reaches || o.marks
  | .flush _ m => m

@[simp] theorem conns_applyOp (s : State) (d : Nat) (o : Op) : (applyOp s d o).conns = s.conns := by
  cases o with
  | key ko => simp [applyOp]
  | flush all m => cases all <;> simp [applyOp]

@[simp] theorem active_applyOp (s : State) (d : Nat) (o : Op) (d' sh' : Nat) :
    (applyOp s d o).active d' sh' = s.active d' sh' := by
  cases o with
  | key ko => simp [applyOp]
  | flush all m => cases all <;> simp [applyOp]

theorem grows_applyOp (s : State) (d : Nat) (o : Op) : Grows s (applyOp s d o) := by
  cases o with
  | key ko => exact grows_applyKeyOp s d ko
  | flush all m => cases all <;> exact grows_flushWhere s _ m

theorem applyOp_untouched (s : State) (d' : Nat) (o : Op) (d : Nat) (k : Key)
    (h : opTouches d k d' o = false) :
    (applyOp s d' o).counter d k = s.counter d k ∧ (applyOp s d' o).entry d k = s.entry d k := by
  cases o with
  | key ko =>
    have hn : ¬ (ko.eff.reaches = true ∧ (d', ko.key) = (d, k)) := by
      rintro ⟨hr, e⟩
      simp only [Prod.mk.injEq] at e
      simp [opTouches, hr, e.1, e.2] at h
    refine ⟨counter_applyKeyOp_other s d' ko d k hn, ?_⟩
    show (applyKeyOp s d' ko).entry d k = s.entry d k
    rw [entry_applyKeyOp]; simp only [hn, if_false]
  | flush all m =>
    cases all with
    | true => simp [opTouches] at h
    | false =>
      have hd : d' ≠ d := by simpa [opTouches] using h
      have hd' : ¬ d = d' := fun e => hd e.symm
      have hp : (fun x => decide (x = d')) d = false := by simp [hd']
      refine ⟨counter_flushWhere_other s _ m d k hp, ?_⟩
      simp only [applyOp]
      rw [entry_flushWhere]
      simp [hd']

/-- if an operation that marks what it changes alters the entry `(d, k)` while a watcher is counted on the
    shard, the key's counter exceeds the shard's old global counter -/
theorem applyOp_changed_marks (s : State) (d' : Nat) (o : Op) (d : Nat) (k : Key) (hk : TOk s)
    (hok : opMarksOk o = true) (hch : (applyOp s d' o).entry d k ≠ s.entry d k)
    (ha : s.active d (shardOf k) ≠ 0) :
    (s.tracker d (shardOf k)).global < (applyOp s d' o).counter d k := by
  cases o with
  | key ko =>
    simp only [applyOp] at hch ⊢
    rw [entry_applyKeyOp] at hch
    by_cases hc : ko.eff.reaches = true ∧ (d', ko.key) = (d, k)
    · obtain ⟨hr, e⟩ := hc
      simp only [Prod.mk.injEq] at e
      obtain ⟨e1, e2⟩ := e
      subst e1; subst e2
      have hm : ko.marks = true := by simpa [opMarksOk, hr] using hok
      exact counter_applyKeyOp_marks s d' ko hr hm ha
    · simp only [hc, if_false] at hch
      exact absurd rfl hch
  | flush all m =>
    have hm : m = true := by simpa [opMarksOk] using hok
    subst hm
    cases all with
    | true =>
      simp only [applyOp] at hch ⊢
      rw [entry_flushWhere] at hch
      have he : s.entry d k ≠ none := fun e => hch (by simp [e])
      exact counter_flushWhere_marks s _ d k hk rfl he ha
    | false =>
      simp only [applyOp] at hch ⊢
      rw [entry_flushWhere] at hch
      by_cases e : d = d'
      · subst e
        have he : s.entry d k ≠ none := fun e => hch (by simp [e])
        exact counter_flushWhere_marks s _ d k hk (by simp) he ha
      · simp [e] at hch

@[simp] theorem conns_applyOps (s : State) (d : Nat) (ops : List Op) : (applyOps s d ops).conns = s.conns := by
  induction ops generalizing s with
  | nil => rfl
  | cons o r ih => simp only [applyOps, List.foldl_cons] at ih ⊢; rw [ih]; simp

@[simp] theorem conn_applyOps (s : State) (d : Nat) (ops : List Op) (c : Nat) : (applyOps s d ops).conn c = s.conn c := by
  unfold State.conn; rw [conns_applyOps]

@[simp] theorem active_applyOps (s : State) (d : Nat) (ops : List Op) (d' sh' : Nat) :
    (applyOps s d ops).active d' sh' = s.active d' sh' := by
  induction ops generalizing s with
  | nil => rfl
  | cons o r ih => simp only [applyOps, List.foldl_cons] at ih ⊢; rw [ih]; simp

theorem grows_applyOps (s : State) (d : Nat) (ops : List Op) : Grows s (applyOps s d ops) := by
  induction ops generalizing s with
  | nil => exact Grows.refl s
  | cons o r ih =>
    simp only [applyOps, List.foldl_cons] at ih ⊢
    exact (grows_applyOp s d o).trans (ih _)

theorem applyOps_untouched (s : State) (d' : Nat) (ops : List Op) (d : Nat) (k : Key)
    (h : ∀ o ∈ ops, opTouches d k d' o = false) :
    (applyOps s d' ops).counter d k = s.counter d k ∧ (applyOps s d' ops).entry d k = s.entry d k := by
  induction ops generalizing s with
  | nil => exact ⟨rfl, rfl⟩
  | cons o r ih =>
    simp only [applyOps, List.foldl_cons] at ih ⊢
    have h1 := applyOp_untouched s d' o d k (h o List.mem_cons_self)
    have h2 := ih (applyOp s d' o) (fun o' m => h o' (List.mem_cons_of_mem _ m))
    exact ⟨h2.1.trans h1.1, h2.2.trans h1.2⟩

/-- a marking key operation among the executed ones pushes the counter beyond the old global counter -/
theorem applyOps_marks (s : State) (d : Nat) (ops : List Op) (ko : KeyOp) (hk : TOk s)
    (hmem : Op.key ko ∈ ops) (hr : ko.eff.reaches = true) (hm : ko.marks = true)
    (ha : s.active d (shardOf ko.key) ≠ 0) :
    (s.tracker d (shardOf ko.key)).global < (applyOps s d ops).counter d ko.key := by
  induction ops generalizing s with
  | nil => simp at hmem
  | cons o r ih =>
    simp only [applyOps, List.foldl_cons] at ih ⊢
    by_cases e : o = Op.key ko
    · subst e
      have h1 := counter_applyKeyOp_marks s d ko hr hm ha
      have h2 := (grows_applyOps (applyOp s d (Op.key ko)) d r).counter ((grows_applyOp s d _).tok hk) d ko.key
      simp only [applyOps] at h2
      exact Nat.lt_of_lt_of_le h1 h2
    · have hm' : Op.key ko ∈ r := by
        cases hmem with
        | head => exact absurd rfl e
        | tail _ m => exact m
      have := ih (applyOp s d o) ((grows_applyOp s d o).tok hk) hm' (by simpa using ha)
      exact Nat.lt_of_le_of_lt ((grows_applyOp s d o).global d (shardOf ko.key)) this

/-- if operations that all mark what they change alter the entry `(d, k)`, the counter exceeds the old global -/
theorem applyOps_changed_marks (s : State) (d' : Nat) (ops : List Op) (d : Nat) (k : Key) (hk : TOk s)
    (hok : ∀ o ∈ ops, opMarksOk o = true) (hch : (applyOps s d' ops).entry d k ≠ s.entry d k)
    (ha : s.active d (shardOf k) ≠ 0) :
    (s.tracker d (shardOf k)).global < (applyOps s d' ops).counter d k := by
  induction ops generalizing s with
  | nil => exact absurd rfl hch
  | cons o r ih =>
    simp only [applyOps, List.foldl_cons] at ih hch ⊢
    by_cases e : (applyOp s d' o).entry d k = s.entry d k
    · rw [← e] at hch
      have := ih (applyOp s d' o) ((grows_applyOp s d' o).tok hk) (fun o' m => hok o' (List.mem_cons_of_mem _ m)) hch
        (by simpa using ha)
      exact Nat.lt_of_le_of_lt ((grows_applyOp s d' o).global d (shardOf k)) this
    · have h1 := applyOp_changed_marks s d' o d k hk (hok o List.mem_cons_self) e ha
      have h2 := (grows_applyOps (applyOp s d' o) d' r).counter ((grows_applyOp s d' o).tok hk) d k
      simp only [applyOps] at h2
      exact Nat.lt_of_lt_of_le h1 h2

/-! ### the sweeper's deletion -/

@[simp] theorem conns_sweepKey (s : State) (d : Nat) (k : Key) (m : Bool) (now : Nat) :
    (sweepKey s d k m now).conns = s.conns := by
  unfold sweepKey
  split
  · split
    · simp only []
      split <;> simp
    · rfl
  · rfl

@[simp] theorem active_sweepKey (s : State) (d : Nat) (k : Key) (m : Bool) (now : Nat) (d' sh' : Nat) :
    (sweepKey s d k m now).active d' sh' = s.active d' sh' := by
  unfold sweepKey
  split
  · split
    · simp only []
      split <;> simp
    · rfl
  · rfl

theorem grows_sweepKey (s : State) (d : Nat) (k : Key) (m : Bool) (now : Nat) : Grows s (sweepKey s d k m now) := by
  unfold sweepKey
  split
  · split
    · simp only []
      split
      · exact (grows_setEntry s d k none).trans (grows_markKey _ d k)
      · exact grows_setEntry s d k none
    · exact Grows.refl s
  · exact Grows.refl s

theorem sweepKey_untouched (s : State) (d' : Nat) (k' : Key) (m : Bool) (now : Nat) (d : Nat) (k : Key)
    (h : (d', k') ≠ (d, k)) :
    (sweepKey s d' k' m now).counter d k = s.counter d k ∧ (sweepKey s d' k' m now).entry d k = s.entry d k := by
  unfold sweepKey
  split
  · split
    · simp only []
      split
      · refine ⟨?_, ?_⟩
        · rw [counter_markKey_other _ _ _ _ _ h]; rfl
        · simp [h]
      · exact ⟨rfl, by simp [h]⟩
    · exact ⟨rfl, rfl⟩
  · exact ⟨rfl, rfl⟩

/-- a marking sweep that changes the entry pushes the counter beyond the old global counter -/
theorem sweepKey_changed_marks (s : State) (d : Nat) (k : Key) (now : Nat)
    (hch : (sweepKey s d k true now).entry d k ≠ s.entry d k) (ha : s.active d (shardOf k) ≠ 0) :
    (s.tracker d (shardOf k)).global < (sweepKey s d k true now).counter d k := by
  unfold sweepKey at hch ⊢
  split
  · rename_i e he
    split
    · simp only [if_true]
      exact counter_markKey_self (s.setEntry d k none) d k ha
    · rename_i hx
      simp [he, hx] at hch
  · rename_i he
    simp [he] at hch

end Ferrous.Watch
