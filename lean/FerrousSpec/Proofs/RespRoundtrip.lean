import FerrousSpec.Proofs.RespParse
set_option linter.unusedSimpArgs false
set_option linter.unusedVariables false
namespace Ferrous

mutual
/-- nesting depth (a scalar has depth 1) -/
def Frame.depth : Frame → Nat
  | .array xs => depthList xs + 1
  | .map xs => depthList xs + 1
  | .set xs => depthList xs + 1
  | _ => 1
def depthList : List Frame → Nat
  | [] => 0
  | f :: fs => max f.depth (depthList fs)
end

mutual
/-- Well-formed frames: exactly those the serializer can emit unambiguously.
    Line payloads contain no CR and no LF (the serializer would replace them), lengths fit the header integer type, a double's
    lexeme is one `f64::from_str` accepts, a map has an even number of flattened frames. -/
def wf : Frame → Bool
  | .simple b => b.all fun x => x != 13 && x != 10
  | .error b => b.all fun x => x != 13 && x != 10
  | .int n => decide (-9223372036854775808 ≤ n ∧ n ≤ 9223372036854775807)
  | .bulk b => decide (b.length ≤ 9223372036854775807)
  | .array xs => decide (xs.length ≤ 9223372036854775807) && wfList xs
  | .double lex => isF64Literal lex && !hasCRLF lex
  | .map kvs => decide (kvs.length % 2 = 0 ∧ kvs.length / 2 ≤ 18446744073709551615) && wfList kvs
  | .set xs => decide (xs.length ≤ 18446744073709551615) && wfList xs
  | _ => true
def wfList : List Frame → Bool
  | [] => true
  | f :: fs => wf f && wfList fs
end

theorem header_line (n : Nat) (rest : Bytes) :
    splitCRLF (natDigits n ++ 13 :: 10 :: rest) = some (natDigits n, rest) :=
  splitCRLF_line (natDigits n) rest (hasCRLF_of_all_digits _ (natDigits_all n))

theorem sanitizeLine_noCRLF (b : Bytes) : hasCRLF (sanitizeLine b) = false := by
  induction b using hasCRLF.induct with
  | case1 => rfl
  | case2 a => rfl
  | case3 a c t ih =>
    simp only [sanitizeLine, List.map_cons] at ih ⊢
    simp only [hasCRLF, ih, Bool.or_false]
    split <;> simp_all

theorem sanitizeLine_id (b : Bytes) (h : (b.all fun x => x != 13 && x != 10) = true) : sanitizeLine b = b := by
  induction b with
  | nil => rfl
  | cons a t ih =>
    simp only [List.all_cons, Bool.and_eq_true] at h
    have ha : ¬ (a = 13 ∨ a = 10) := by
      have := h.1; simp at this; omega
    simp only [sanitizeLine, List.map_cons, ha, if_false]
    have := ih h.2
    simp only [sanitizeLine] at this
    rw [this]

theorem intDigits_noCRLF (i : Int) : hasCRLF (intDigits i) = false := by
  unfold intDigits
  split
  · have := hasCRLF_of_all_digits _ (natDigits_all i.natAbs)
    cases hd : natDigits i.natAbs with
    | nil => rfl
    | cons a t => rw [hd] at this; simp [hasCRLF, this]
  · exact hasCRLF_of_all_digits _ (natDigits_all _)

mutual
theorem roundtrip_fuel (f : Frame) (hw : wf f = true) (n : Nat) (hn : f.depth ≤ n) (rest : Bytes) :
    parseFrame n (ser f ++ rest) = .ok f rest := by
  cases n with
  | zero => cases f <;> simp [Frame.depth] at hn
  | succ k =>
    cases f with
    | simple b =>
      have hid := sanitizeLine_id b (by simpa [wf] using hw)
      have hl := splitCRLF_line (sanitizeLine b) rest (sanitizeLine_noCRLF b)
      rw [hid] at hl
      simp [ser, crlf, parseFrame, parseLineWith, hl, hid]
    | error b =>
      have hid := sanitizeLine_id b (by simpa [wf] using hw)
      have hl := splitCRLF_line (sanitizeLine b) rest (sanitizeLine_noCRLF b)
      rw [hid] at hl
      simp [ser, crlf, parseFrame, parseLineWith, hl, hid]
    | int i =>
      simp [wf] at hw
      have hl := splitCRLF_line (intDigits i) rest (intDigits_noCRLF i)
      simp [ser, crlf, parseFrame, parseLineWith, hl, parseI64_intDigits i hw.1 hw.2]
    | bulk b =>
      simp [wf] at hw
      have hl := header_line b.length (b ++ 13 :: 10 :: rest)
      have hp := parseI64_natDigits b.length hw
      have hneg : ¬ ((b.length : Int) = -1) := by omega
      have hneg2 : ¬ ((b.length : Int) < 0) := by omega
      simp [ser, crlf, parseFrame, parseBulk, hl, hp, hneg, hneg2]
    | nullBulk => simp [ser, parseFrame, parseBulk, splitCRLF, parseI64, digitsVal, isDigit, decVal]
    | array xs =>
      simp [wf] at hw
      have hl := header_line xs.length (serList xs ++ rest)
      have hp := parseI64_natDigits xs.length hw.1
      have hneg : ¬ ((xs.length : Int) = -1) := by omega
      have hneg2 : ¬ ((xs.length : Int) < 0) := by omega
      have hd : depthList xs ≤ k := by simp [Frame.depth] at hn; exact hn
      have ih := roundtrip_list xs hw.2 k hd rest
      simp [ser, crlf, parseFrame, parseArray, hl, hp, hneg, hneg2, ih]
    | nullArray => simp [ser, parseFrame, parseArray, splitCRLF, parseI64, digitsVal, isDigit, decVal]
    | null => simp [ser, parseFrame, parseNull]
    | bool b => cases b <;> simp [ser, parseFrame, parseBool]
    | double lex =>
      simp [wf] at hw
      simp [ser, crlf, parseFrame, parseLineWith, splitCRLF_line lex rest hw.2, hw.1]
    | map kvs =>
      simp [wf] at hw
      have hl := header_line (kvs.length / 2) (serList kvs ++ rest)
      have hp := parseU64_natDigits (kvs.length / 2) hw.1.2
      have hd : depthList kvs ≤ k := by simp [Frame.depth] at hn; exact hn
      have ih := roundtrip_list kvs hw.2 k hd rest
      have hlen : 2 * (kvs.length / 2) = kvs.length := by omega
      simp [ser, crlf, parseFrame, parseAgg, hl, hp, hlen, ih]
    | set xs =>
      simp [wf] at hw
      have hl := header_line xs.length (serList xs ++ rest)
      have hp := parseU64_natDigits xs.length hw.1
      have hd : depthList xs ≤ k := by simp [Frame.depth] at hn; exact hn
      have ih := roundtrip_list xs hw.2 k hd rest
      simp [ser, crlf, parseFrame, parseAgg, hl, hp, ih]
theorem roundtrip_list (fs : List Frame) (hw : wfList fs = true) (n : Nat) (hn : depthList fs ≤ n) (rest : Bytes) :
    parseElemsWith (parseFrame n) fs.length (serList fs ++ rest) = .ok fs rest := by
  cases fs with
  | nil => simp [serList, parseElemsWith]
  | cons f fs =>
    simp [wfList] at hw
    simp [depthList] at hn
    have h1 := roundtrip_fuel f hw.1 n (by omega) (serList fs ++ rest)
    have h2 := roundtrip_list fs hw.2 n (by omega) rest
    simp [serList, parseElemsWith, List.append_assoc, h1, h2]
end

mutual
theorem depth_le_ser (f : Frame) : f.depth ≤ (ser f).length := by
  cases f with
  | array xs => have := depthList_le_ser xs; simp [Frame.depth, ser]; omega
  | map xs => have := depthList_le_ser xs; simp [Frame.depth, ser]; omega
  | set xs => have := depthList_le_ser xs; simp [Frame.depth, ser]; omega
  | bool b => cases b <;> simp [Frame.depth, ser]
  | simple b => simp [Frame.depth, ser]
  | error b => simp [Frame.depth, ser]
  | int b => simp [Frame.depth, ser]
  | bulk b => simp [Frame.depth, ser]
  | double b => simp [Frame.depth, ser]
  | nullBulk => simp [Frame.depth, ser]
  | nullArray => simp [Frame.depth, ser]
  | null => simp [Frame.depth, ser]
theorem depthList_le_ser (fs : List Frame) : depthList fs ≤ (serList fs).length := by
  cases fs with
  | nil => simp [depthList]
  | cons f fs =>
    have h1 := depth_le_ser f
    have h2 := depthList_le_ser fs
    simp [depthList, serList]
    omega
end

/-- Serialising a well-formed frame and parsing the bytes (followed by anything) gives the
    frame back and leaves exactly what followed. -/
theorem parseBytes_ser (f : Frame) (hw : wf f = true) (hd : f.depth ≤ maxNesting + 1) (rest : Bytes) :
    parseBytes (ser f ++ rest) = .ok f rest := by
  unfold parseBytes
  exact roundtrip_fuel f hw _ hd rest

/-- every frame the parser returns respects the nesting limit -/
theorem parseElemsWith_depth (p : Bytes → Res) (n : Nat) (hp : ∀ d f r, p d = .ok f r → f.depth ≤ n) :
    ∀ k d fs r, parseElemsWith p k d = .ok fs r → depthList fs ≤ n := by
  intro k
  induction k with
  | zero => intro d fs r h; simp [parseElemsWith] at h; rw [h.1]; simp [depthList]
  | succ k ih =>
    intro d fs r h
    unfold parseElemsWith at h
    cases hpd : p d with
    | need => simp [hpd] at h
    | err => simp [hpd] at h
    | ok f r1 =>
      simp only [hpd] at h
      cases hk : parseElemsWith p k r1 with
      | need => simp [hk] at h
      | err => simp [hk] at h
      | ok fs' r' =>
        simp [hk] at h
        have h1 := hp d f r1 hpd
        have h2 := ih r1 fs' r' hk
        rw [← h.1]
        simp [depthList]
        omega

theorem parseLineWith_depth (mk : Bytes → Option Frame) (hmk : ∀ l f, mk l = some f → f.depth = 1) :
    ∀ d f r, parseLineWith mk d = .ok f r → f.depth = 1 := by
  intro d f r h
  unfold parseLineWith at h
  cases hs : splitCRLF d with
  | none => simp [hs] at h
  | some lr =>
    obtain ⟨l, r1⟩ := lr
    simp only [hs] at h
    cases hm : mk l with
    | none => simp [hm] at h
    | some f' =>
      simp [hm] at h
      rw [← h.1]; exact hmk l f' hm

theorem parseBulk_depth : ∀ d f r, parseBulk d = .ok f r → f.depth = 1 := by
  intro d f r h
  unfold parseBulk at h
  repeat' split at h
  all_goals (try (simp at h))
  all_goals (try (rw [← h.1]; rfl))

theorem parseNull_depth : ∀ d f r, parseNull d = .ok f r → f.depth = 1 := by
  intro d f r h
  unfold parseNull at h
  repeat' split at h
  all_goals (try (simp at h))
  all_goals (try (rw [← h.1]; rfl))

theorem parseBool_depth : ∀ d f r, parseBool d = .ok f r → f.depth = 1 := by
  intro d f r h
  unfold parseBool at h
  repeat' split at h
  all_goals (try (simp at h))
  all_goals (try (rw [← h.1]; rfl))

theorem parseArray_depth (p : Bytes → Res) (n : Nat) (hp : ∀ d f r, p d = .ok f r → f.depth ≤ n) :
    ∀ d f r, parseArray p d = .ok f r → f.depth ≤ n + 1 := by
  intro d f r h
  unfold parseArray at h
  cases hs : splitCRLF d with
  | none => simp [hs] at h
  | some lr =>
    obtain ⟨l, r1⟩ := lr
    simp only [hs] at h
    cases hq : parseI64 l with
    | none => simp [hq] at h
    | some v =>
      simp only [hq] at h
      by_cases h1 : v = -1
      · simp [h1] at h; rw [← h.1]; simp [Frame.depth]
      · by_cases h2 : v < 0
        · simp [h1, h2] at h
        · simp only [h1, h2, if_false] at h
          cases hk : parseElemsWith p v.toNat r1 with
          | need => simp [hk] at h
          | err => simp [hk] at h
          | ok fs r' =>
            simp [hk] at h
            have := parseElemsWith_depth p n hp _ _ _ _ hk
            rw [← h.1]; simp [Frame.depth]; exact this

theorem parseAgg_depth (p : Bytes → Res) (n : Nat) (hp : ∀ d f r, p d = .ok f r → f.depth ≤ n) (m : Bool) :
    ∀ d f r, parseAgg p m d = .ok f r → f.depth ≤ n + 1 := by
  intro d f r h
  unfold parseAgg at h
  cases hs : splitCRLF d with
  | none => simp [hs] at h
  | some lr =>
    obtain ⟨l, r1⟩ := lr
    simp only [hs] at h
    cases hq : parseU64 l with
    | none => simp [hq] at h
    | some v =>
      simp only [hq] at h
      cases hk : parseElemsWith p (if m = true then 2 * v else v) r1 with
      | need => simp [hk] at h
      | err => simp [hk] at h
      | ok fs r' =>
        simp [hk] at h
        have := parseElemsWith_depth p n hp _ _ _ _ hk
        rw [← h.1]
        cases m <;> simp [Frame.depth] <;> exact this

theorem parseFrame_depth : ∀ n d f r, parseFrame n d = .ok f r → f.depth ≤ n := by
  intro n
  induction n with
  | zero => intro d f r h; simp [parseFrame] at h
  | succ n ih =>
    intro d f r h
    cases d with
    | nil => simp [parseFrame] at h
    | cons t body =>
      unfold parseFrame at h
      split at h
      · have := parseLineWith_depth _ (by intro l f hf; simp at hf; rw [← hf]; rfl) _ _ _ h; omega
      split at h
      · have := parseLineWith_depth _ (by intro l f hf; simp at hf; rw [← hf]; rfl) _ _ _ h; omega
      split at h
      · have := parseLineWith_depth _ (by
          intro l f hf
          cases hp : parseI64 l <;> simp [hp] at hf
          rw [← hf]; rfl) _ _ _ h
        omega
      split at h
      · have := parseBulk_depth _ _ _ h; omega
      split at h
      · exact parseArray_depth _ n ih _ _ _ h
      split at h
      · have := parseNull_depth _ _ _ h; omega
      split at h
      · have := parseBool_depth _ _ _ h; omega
      split at h
      · have := parseLineWith_depth _ (by
          intro l f hf
          split at hf <;> simp at hf
          rw [← hf]; rfl) _ _ _ h
        omega
      split at h
      · exact parseAgg_depth _ n ih true _ _ _ h
      split at h
      · exact parseAgg_depth _ n ih false _ _ _ h
      · simp at h

/-- Framing safety of line replies: whatever bytes an error or simple-string payload carries
    (client text echoed in a message, CR and LF included), its serialisation parses back as exactly
    one frame of the same kind and leaves exactly what followed. -/
theorem line_reply_frames (b rest : Bytes) :
    parseBytes (ser (.error b) ++ rest) = .ok (.error (sanitizeLine b)) rest ∧
    parseBytes (ser (.simple b) ++ rest) = .ok (.simple (sanitizeLine b)) rest := by
  have hl := splitCRLF_line (sanitizeLine b) rest (sanitizeLine_noCRLF b)
  constructor <;> simp [parseBytes, maxNesting, ser, crlf, parseFrame, parseLineWith, hl]


end Ferrous
