import FerrousSpec.Proofs.KsInvCmds
import FerrousSpec.Proofs.KsAtomic
set_option linter.unusedSimpArgs false
set_option linter.unusedVariables false
namespace Ferrous.KS

theorem lookup_insert_self (db : Db) (k : Bytes) (e : Entry) : lookup (insert db k e) k = some e := by
  induction db with
  | nil => simp [insert, lookup]
  | cons p t ih =>
    obtain ⟨k', e'⟩ := p
    unfold insert
    split
    · simp [lookup]
    · rename_i h; simp [lookup, h, ih]

theorem lookup_insert_other (db : Db) (k k' : Bytes) (e : Entry) (h : k' ≠ k) :
    lookup (insert db k e) k' = lookup db k' := by
  induction db with
  | nil => simp [insert, lookup, h.symm]
  | cons p t ih =>
    obtain ⟨k2, e2⟩ := p
    unfold insert
    split
    · rename_i hk; subst hk; simp [lookup, h.symm]
    · rename_i hk
      simp only [lookup]
      split
      · rfl
      · exact ih

theorem lookup_erase_self (db : Db) (k : Bytes) (h : (db.map (·.1)).Nodup) : lookup (erase db k) k = none := by
  induction db with
  | nil => simp [erase, lookup]
  | cons p t ih =>
    obtain ⟨k', e'⟩ := p
    have hn := List.nodup_cons.mp h
    unfold erase
    split
    · rename_i hk
      subst hk
      -- k is not a key of t
      have : ∀ (t : Db), k' ∉ t.map (·.1) → lookup t k' = none := by
        intro t
        induction t with
        | nil => intro _; rfl
        | cons q r ihr =>
          obtain ⟨kq, eq⟩ := q
          intro hq
          simp at hq
          simp only [lookup]
          split
          · rename_i hh; exact absurd hh.symm hq.1
          · exact ihr (by simpa using hq.2)
      exact this t hn.1
    · rename_i hk; simp [lookup, hk, ih hn.2]

theorem lookup_erase_other (db : Db) (k k' : Bytes) (h : k' ≠ k) : lookup (erase db k) k' = lookup db k' := by
  induction db with
  | nil => simp [erase, lookup]
  | cons p t ih =>
    obtain ⟨k2, e2⟩ := p
    unfold erase
    split
    · rename_i hk; subst hk; simp [lookup, h.symm]
    · simp only [lookup]
      split
      · rfl
      · exact ih

end Ferrous.KS
