/-
  Blocking pops — wake-ups, time-outs, hang-ups and reaping keep `Inv`; hence every `Allowed` history does.
-/
import FerrousSpec.Proofs.BlockingSteps
namespace Ferrous.Blk

theorem Inv_expireOne (now : Nat) (s : State) (hI : Inv s) : Inv (expireOne now s) := by
  unfold expireOne
  split
  · exact hI
  · next e reg' hp =>
    obtain ⟨a, b, h1, h2, _, _⟩ := popFirst_some hp
    have hemem : (e.1, e.2) ∈ s.registry := by rw [h1]; simp
    have hb := hI.regOk e.1 e.2 hemem
    obtain ⟨h0, hg, hpc⟩ := hI.alive e.2.conn (by rw [hb]; simp)
    have hlive : isBlockedLive { s with registry := reg' } e.2.conn = true :=
      isBlockedLive_of (s := { s with registry := reg' }) h0 hg hb
    unfold timeoutConn
    simp only [hlive, if_true]
    have hopen : (({ s with registry := reg' } : State).conns e.2.conn).peerClosed = false := hpc
    rw [emit_open hopen]
    refine hI.remove' e.2.conn ?_ ?_ ?_ ?_ ?_ ?_ ?_
    · rw [setBlocked_registry]
      show reg'.Sublist s.registry
      rw [h1, h2]
      exact List.Sublist.append (List.Sublist.refl _) (List.sublist_cons_self e b)
    · rw [setBlocked_wakeQ]; exact List.Sublist.refl _
    · unfold line
      rw [setBlocked_registry, setBlocked_wakeQ]
      show (s.registry.map (·.2.conn) ++ s.wakeQ.map (·.conn)).Perm (e.2.conn :: (reg'.map (·.2.conn) ++ s.wakeQ.map (·.conn)))
      rw [h1, h2]
      simp only [List.map_append, List.map_cons, List.append_assoc, List.cons_append]
      exact List.perm_middle
    · intro c hc; rw [setBlocked_conns_ne _ _ _ _ hc]
    · exact setBlocked_blocked_self _ _ _ h0
    · intro k'
      have hc' := hI.counts k'
      have hRs : cntR s k' = reg'.countP (keyIs k') + (if keyIs k' e = true then 1 else 0) := by
        unfold cntR; rw [h1, h2]; exact countP_remove _ _ _ _
      simp only [cntW, cntL, cntR, setBlocked_wakeQ, setBlocked_store, setBlocked_registry] at hc' hRs ⊢
      constructor
      · exact hc'.1
      · intro hpos
        apply hc'.2
        rw [hRs]; omega
    · rw [setBlocked_lost]; exact hI.lost

theorem Inv_hangup (s : State) (c : Conn) (hI : Inv s) (hnb : (s.conns c).blocked = none) :
    Inv (setConn s c fun cs => { cs with peerClosed := true }) := by
  refine hI.same (fun _ _ h => h) (fun _ h => .inl h) (List.Perm.refl _) ?_ ?_ hI.counts hI.lost
  · intro c'
    simp only [setConn]; split <;> rfl
  · intro c' hc'
    have hne : c' ≠ c := fun e => hc' (e ▸ hnb)
    simp [setConn, hne]

/-- Any update of an unblocked connection that leaves it unblocked (`kill`, `hangupDirty`). -/
theorem Inv_unblocked_upd (s : State) (c : Conn) (f : ConnSt → ConnSt) (hI : Inv s) (hnb : (s.conns c).blocked = none)
    (hf : (f (s.conns c)).blocked = none) : Inv (setConn s c f) := by
  refine hI.same (fun _ _ h => h) (fun _ h => .inl h) (List.Perm.refl _) ?_ ?_ hI.counts hI.lost
  · intro c'
    simp only [setConn]; split
    · next h => subst h; rw [hf, hnb]
    · rfl
  · intro c' hc'
    have hne : c' ≠ c := fun e => hc' (e ▸ hnb)
    simp [setConn, hne]

theorem Inv_reap (s : State) (c : Conn) (hI : Inv s) (hnb : (s.conns c).blocked = none) :
    Inv { (setConn s c fun cs => { cs with gone := true, blocked := none }) with
          registry := (setConn s c fun cs => { cs with gone := true, blocked := none }).registry.filter fun x => x.2.conn != c } := by
  have hfil : (s.registry.filter fun x => x.2.conn != c) = s.registry := by
    apply List.filter_eq_self.mpr
    intro x hx
    simp only [bne_iff_ne, ne_eq]
    intro heq
    exact hI.blocked_of_mem_line (heq ▸ mem_line_reg (k := x.1) (w := x.2) hx) hnb
  rw [setConn_registry, hfil]
  refine hI.same (fun _ _ h => h) (fun _ h => .inl h) (List.Perm.refl _) ?_ ?_ hI.counts hI.lost
  · intro c'
    simp only [setConn]; split
    · next h => subst h; exact hnb.symm
    · rfl
  · intro c' hc'
    have hne : c' ≠ c := fun e => hc' (e ▸ hnb)
    simp [setConn, hne]

theorem Open_of_canRun {s : State} {c : Conn} (h : canRun s c = true) : Open s c := by
  simp only [canRun, Bool.and_eq_true, bne_iff_ne, ne_eq, Bool.not_eq_true'] at h
  exact ⟨h.1.1.1, h.1.1.2, h.1.2⟩

theorem Inv_step (q : Quirks) (hx : q.execAtomic = false) (s : State) (e : Event) (hI : Inv s) (hok : eventOk q s e = true) :
    Inv (step q s e) := by
  cases e with
  | wakeups => exact Inv_iter (Inv_wakeOne q) _ _ hI
  | conn c now cmds =>
    simp only [step]
    simp only [eventOk] at hok
    split
    · next hcr =>
      simp only [hcr, if_true] at hok
      exact Inv_runBatch q hx now c _ _ (Inv_setConn_tx hI c _ (fun _ => ⟨rfl, rfl, rfl⟩))
        (Open_setConn_tx (Open_of_canRun hcr) c _ (fun _ => ⟨rfl, rfl, rfl⟩)) hok
    · next hcr =>
      simp only [hcr, Bool.false_eq_true, if_false, Bool.not_eq_true'] at hok
      simp only [hok, Bool.false_eq_true, if_false]
      exact hI
  | timeouts now => exact Inv_iter (Inv_expireOne now) _ _ hI
  | hangup c =>
    simp only [step]
    simp only [eventOk, Option.isNone_iff_eq_none] at hok
    split
    · exact Inv_hangup s c hI hok
    · exact hI
  | reap c =>
    simp only [step]
    split
    · next hc =>
      simp only [Bool.and_eq_true] at hc
      have hpc : (s.conns c).peerClosed = true := hc.1.2
      have hnb : (s.conns c).blocked = none := by
        cases hb : (s.conns c).blocked with
        | none => rfl
        | some b =>
          have := (hI.alive c (by rw [hb]; simp)).2.2
          rw [hpc] at this; cases this
      exact Inv_reap s c hI hnb
    · exact hI
  | kill c =>
    simp only [step]
    simp only [eventOk, Option.isNone_iff_eq_none] at hok
    split
    · exact Inv_unblocked_upd s c _ hI hok rfl
    · exact hI
  | hangupDirty c =>
    simp only [step]
    simp only [eventOk, Option.isNone_iff_eq_none] at hok
    split
    · exact Inv_unblocked_upd s c _ hI hok hok
    · exact hI

theorem Inv_runFrom (q : Quirks) (hx : q.execAtomic = false) (evs : List Event) :
    ∀ s, Inv s → allowedFrom q s evs = true → Inv (runFrom q s evs) := by
  induction evs with
  | nil => intro s h _; exact h
  | cons e r ih =>
    intro s h hok
    simp only [allowedFrom, Bool.and_eq_true] at hok
    exact ih _ (Inv_step q hx s e h hok.1) hok.2

theorem Inv_run (q : Quirks) (hx : q.execAtomic = false) (evs : List Event) (h : Allowed q evs) : Inv (run q evs) :=
  Inv_runFrom q hx evs init Inv_init h

/-- Prefixes of an allowed history are allowed. -/
theorem allowedFrom_append (q : Quirks) (e₁ e₂ : List Event) :
    ∀ s, allowedFrom q s (e₁ ++ e₂) = true → allowedFrom q s e₁ = true ∧ allowedFrom q (runFrom q s e₁) e₂ = true := by
  induction e₁ with
  | nil => intro s h; exact ⟨rfl, h⟩
  | cons e r ih =>
    intro s h
    simp only [List.cons_append, allowedFrom, Bool.and_eq_true] at h
    obtain ⟨h1, h2⟩ := ih _ h.2
    exact ⟨by simp only [allowedFrom, Bool.and_eq_true]; exact ⟨h.1, h1⟩, h2⟩

end Ferrous.Blk

namespace Ferrous.Blk

/-! ## Consequences of the invariant used by the property theorems -/

theorem timeoutConn_conns_ne (s : State) (x c : Conn) (h : c ≠ x) : (timeoutConn s x).conns c = s.conns c := by
  unfold timeoutConn
  split
  · rw [setBlocked_conns_ne _ _ _ _ h, emit_conns]
  · rfl

/-- One step of the deadline scan releases `c` only if `c`'s own deadline has passed. -/
theorem expireOne_blocked (now : Nat) (s : State) (hI : Inv s) (c : Conn) (b : Blocked)
    (hb : (s.conns c).blocked = some b) :
    ((expireOne now s).conns c).blocked = some b ∨ ∃ d, b.deadline = some d ∧ d ≤ now := by
  unfold expireOne
  split
  · exact .inl hb
  · next e reg' hp =>
    obtain ⟨a, b', h1, _, h3, _⟩ := popFirst_some hp
    by_cases hc : c = e.2.conn
    · right
      have hemem : (e.1, e.2) ∈ s.registry := by rw [h1]; simp
      have hr := hI.regOk e.1 e.2 hemem
      rw [← hc, hb] at hr
      have hdl : b.deadline = e.2.deadline := by
        have := Option.some.inj hr; rw [this]
      unfold isExpired at h3
      split at h3
      · next d hd => exact ⟨d, by rw [hdl, hd], by simpa using h3⟩
      · cases h3
    · left
      rw [timeoutConn_conns_ne _ _ _ hc]; exact hb

theorem iter_expireOne_blocked (now : Nat) (c : Conn) (b : Blocked) :
    ∀ n s, Inv s → (s.conns c).blocked = some b → ((iter (expireOne now) n s).conns c).blocked = none →
      ∃ d, b.deadline = some d ∧ d ≤ now := by
  intro n
  induction n with
  | zero => intro s _ hb hn; simp only [iter] at hn; rw [hb] at hn; cases hn
  | succ n ih =>
    intro s hI hb hn
    rcases expireOne_blocked now s hI c b hb with h | h
    · exact ih _ (Inv_expireOne now s hI) h hn
    · exact h

/-- With an empty wake queue, a blocked client's key holds nothing. -/
theorem Inv.not_stranded {s : State} (hI : Inv s) (hq : s.wakeQ = []) {c : Conn} {k : Key} (hb : blockedOn s c k) :
    listOf s.store k = [] := by
  obtain ⟨b, hb, hk⟩ := hb
  have hmem := hI.cover c (by rw [hb]; simp)
  rcases mem_line_iff.mp hmem with ⟨k', w, hw, hwc⟩ | ⟨w, hw, _⟩
  · have hr := hI.regOk k' w hw
    rw [hwc, hb] at hr
    have hbk : b.keys = [k'] := by have := Option.some.inj hr; rw [this]
    rw [hbk] at hk
    have hkk : k = k' := by simpa using hk
    subst hkk
    have hR : 0 < cntR s k := by
      unfold cntR
      exact List.countP_pos_iff.mpr ⟨(k, w), hw, by simp [keyIs]⟩
    have hc := (hI.counts k).2 hR
    have hW : cntW s k = 0 := by unfold cntW; rw [hq]; rfl
    rw [hW] at hc
    unfold listOf
    have : s.store.filter (keyIs k) = [] := by
      apply List.filter_eq_nil_iff.mpr
      intro y hy
      have := List.countP_eq_zero.mp hc y hy
      simpa using this
    rw [this]; rfl
  · rw [hq] at hw; cases hw

/-- With an empty wake queue, the registry names exactly the blocked clients, under their keys. -/
theorem Inv.registry_iff {s : State} (hI : Inv s) (hq : s.wakeQ = []) (c : Conn) (k : Key) :
    inRegistry s k c ↔ blockedOn s c k := by
  constructor
  · rintro ⟨w, hw, rfl⟩
    exact ⟨_, hI.regOk k w hw, by simp⟩
  · rintro ⟨b, hb, hk⟩
    have hmem := hI.cover c (by rw [hb]; simp)
    rcases mem_line_iff.mp hmem with ⟨k', w, hw, hwc⟩ | ⟨w, hw, _⟩
    · have hr := hI.regOk k' w hw
      rw [hwc, hb] at hr
      have hbk : b.keys = [k'] := by have := Option.some.inj hr; rw [this]
      rw [hbk] at hk
      have hkk : k = k' := by simpa using hk
      subst hkk
      exact ⟨w, hw, hwc⟩
    · rw [hq] at hw; cases hw

/-- An element is lost ⇒ the multiset equation of the property fails. -/
theorem not_conserved_of_lost {s : State} (hA : Acc s) (hl : s.lost ≠ []) :
    ¬ s.pushed.Perm (delivered s ++ s.store) := by
  intro h
  have h1 := hA.length_eq
  have h2 := h.length_eq
  unfold total at h1
  simp only [List.length_append] at h1 h2
  have : s.lost.length = 0 := by omega
  exact hl (List.length_eq_zero_iff.mp this)

end Ferrous.Blk

namespace Ferrous.Blk

/-! ## The deadline scan leaves no expired entry behind -/

@[simp] theorem timeoutConn_registry (s : State) (c : Conn) : (timeoutConn s c).registry = s.registry := by
  unfold timeoutConn; split <;> simp

@[simp] theorem timeoutConn_wakeQ (s : State) (c : Conn) : (timeoutConn s c).wakeQ = s.wakeQ := by
  unfold timeoutConn; split <;> simp

theorem expireOne_wakeQ (now : Nat) (s : State) : (expireOne now s).wakeQ = s.wakeQ := by
  unfold expireOne; split
  · rfl
  · simp

theorem iter_expireOne_wakeQ (now : Nat) : ∀ n s, (iter (expireOne now) n s).wakeQ = s.wakeQ := by
  intro n
  induction n with
  | zero => intro s; rfl
  | succ n ih => intro s; simp only [iter]; rw [ih, expireOne_wakeQ]

theorem expireOne_count (now : Nat) (s : State) :
    (expireOne now s).registry.countP (isExpired now) = s.registry.countP (isExpired now) - 1 := by
  unfold expireOne
  split
  · next hp =>
    have : s.registry.countP (isExpired now) = 0 :=
      List.countP_eq_zero.mpr fun y hy => by simp [popFirst_none hp y hy]
    omega
  · next e reg' hp =>
    obtain ⟨a, b, h1, h2, h3, _⟩ := popFirst_some hp
    rw [timeoutConn_registry]
    show reg'.countP (isExpired now) = _
    rw [h1, h2, countP_remove, h3]
    simp

theorem iter_expireOne_count (now : Nat) :
    ∀ n s, s.registry.countP (isExpired now) ≤ n → (iter (expireOne now) n s).registry.countP (isExpired now) = 0 := by
  intro n
  induction n with
  | zero => intro s h; simp only [iter]; omega
  | succ n ih =>
    intro s h
    simp only [iter]
    apply ih
    rw [expireOne_count]; omega

/-- A step of the scan leaves a connection's blocked state alone or clears it. -/
theorem expireOne_blocked_or_none (now : Nat) (s : State) (c : Conn) :
    ((expireOne now s).conns c).blocked = (s.conns c).blocked ∨ ((expireOne now s).conns c).blocked = none := by
  unfold expireOne
  split
  · exact .inl rfl
  · next e reg' _ =>
    by_cases hc : c = e.2.conn
    · unfold timeoutConn
      split
      · next hl =>
        right
        have h0 : e.2.conn ≠ 0 := by
          intro h; simp [isBlockedLive, h] at hl
        rw [hc]; exact setBlocked_blocked_self _ _ _ h0
      · exact .inl rfl
    · left; rw [timeoutConn_conns_ne _ _ _ hc]

theorem iter_expireOne_blocked_or_none (now : Nat) (c : Conn) :
    ∀ n s, ((iter (expireOne now) n s).conns c).blocked = (s.conns c).blocked ∨
      ((iter (expireOne now) n s).conns c).blocked = none := by
  intro n
  induction n with
  | zero => intro s; exact .inl rfl
  | succ n ih =>
    intro s
    simp only [iter]
    rcases ih (expireOne now s) with h | h
    · rcases expireOne_blocked_or_none now s c with g | g
      · exact .inl (h.trans g)
      · exact .inr (h.trans g)
    · exact .inr h

/-- After the scan at `now`, a registered client whose deadline has passed is no longer blocked. -/
theorem Inv.timeout_fires {s : State} (hI : Inv s) (now : Nat) (c : Conn) (b : Blocked) (d : Nat)
    (hb : (s.conns c).blocked = some b) (hd : b.deadline = some d) (hle : d ≤ now)
    (hw : ∀ w, w ∈ s.wakeQ → w.conn ≠ c) :
    ((iter (expireOne now) s.registry.length s).conns c).blocked = none := by
  rcases iter_expireOne_blocked_or_none now c s.registry.length s with h | h
  · exfalso
    have hI' : Inv (iter (expireOne now) s.registry.length s) := Inv_iter (Inv_expireOne now) _ _ hI
    have hb' : ((iter (expireOne now) s.registry.length s).conns c).blocked = some b := h.trans hb
    have hmem := hI'.cover c (by rw [hb']; simp)
    rcases mem_line_iff.mp hmem with ⟨k, w, hkw, hwc⟩ | ⟨w, hw', hwc⟩
    · have hr := hI'.regOk k w hkw
      rw [hwc, hb'] at hr
      have hdl : b.deadline = w.deadline := by have := Option.some.inj hr; rw [this]
      have hexp : isExpired now (k, w) = true := by
        unfold isExpired
        rw [← hdl, hd]
        simpa using hle
      have h0 := iter_expireOne_count now s.registry.length s List.countP_le_length
      have := List.countP_eq_zero.mp h0 (k, w) hkw
      rw [hexp] at this
      exact this rfl
    · rw [iter_expireOne_wakeQ] at hw'
      exact hw w hw' hwc
  · exact h

end Ferrous.Blk
