import FerrousSpec.Model.Aof
import FerrousSpec.Proofs.AofReadOnly
set_option linter.unusedSimpArgs false
set_option linter.unusedVariables false
namespace Ferrous.Aof
open Ferrous Ferrous.KS

/-! ## Values and TTL presence: the view of a dataset the property compares

`normDb` forgets *when* a deadline falls and keeps *whether* there is one.  Every command of the key-space machine
commutes with it (`stepDb_norm`): the new values, the keys, their order and the presence of a deadline depend on the
old values and on the presence of deadlines only — never on the instants.  Hence a log replayed at other instants
rebuilds the same view, as long as no deadline passes on either side. -/

def normE (e : Entry) : Entry := { e with deadline := e.deadline.map fun _ => 0 }
def normDb (db : Db) : Db := db.map fun p => (p.1, normE p.2)

@[simp] theorem normE_val (e : Entry) : (normE e).val = e.val := rfl
@[simp] theorem normE_deadline (e : Entry) : (normE e).deadline = e.deadline.map fun _ => 0 := rfl
@[simp] theorem normE_idem (e : Entry) : normE (normE e) = normE e := by
  cases e with | mk v d => cases d <;> rfl
@[simp] theorem normE_mk_none (v : Val) : normE ⟨v, none⟩ = ⟨v, none⟩ := rfl
@[simp] theorem normE_mk_some (v : Val) (d : Nat) : normE ⟨v, some d⟩ = ⟨v, some 0⟩ := rfl
@[simp] theorem normE_mkStr (b : Bytes) : normE (mkStr b) = mkStr b := rfl
theorem normE_mk (v : Val) (d : Option Nat) : normE ⟨v, d⟩ = ⟨v, d.map fun _ => 0⟩ := rfl

@[simp] theorem normDb_nil : normDb [] = [] := rfl
@[simp] theorem normDb_cons (k : Bytes) (e : Entry) (t : Db) : normDb ((k, e) :: t) = (k, normE e) :: normDb t := rfl

@[simp] theorem normDb_idem (db : Db) : normDb (normDb db) = normDb db := by
  induction db with
  | nil => rfl
  | cons p t ih => obtain ⟨k, e⟩ := p; simp [ih]

@[simp] theorem lookup_norm (db : Db) (k : Bytes) : lookup (normDb db) k = (lookup db k).map normE := by
  induction db with
  | nil => rfl
  | cons p t ih =>
    obtain ⟨k', e⟩ := p
    simp only [normDb_cons, lookup]
    split <;> simp [ih]

@[simp] theorem normDb_insert (db : Db) (k : Bytes) (e : Entry) : normDb (insert db k e) = insert (normDb db) k (normE e) := by
  induction db with
  | nil => rfl
  | cons p t ih =>
    obtain ⟨k', e'⟩ := p
    simp only [normDb_cons, KS.insert]
    split <;> simp [ih]

@[simp] theorem normDb_erase (db : Db) (k : Bytes) : normDb (erase db k) = erase (normDb db) k := by
  induction db with
  | nil => rfl
  | cons p t ih =>
    obtain ⟨k', e'⟩ := p
    simp only [normDb_cons, erase]
    split <;> simp [ih]

@[simp] theorem normDb_length (db : Db) : (normDb db).length = db.length := by simp [normDb]

@[simp] theorem normDb_putColl (db : Db) (k : Bytes) (old : Entry) (v : Val) :
    normDb (putColl db k old v) = putColl (normDb db) k (normE old) v := by
  unfold putColl
  split <;> simp [normE]

theorem normDb_msetPairs (db : Db) (l : List Bytes) : normDb (msetPairs db l) = msetPairs (normDb db) l := by
  induction db, l using msetPairs.induct with
  | case1 db k v r ih => simp [msetPairs, ih]
  | case2 db l h =>
    rw [msetPairs.eq_def, msetPairs.eq_def]
    split
    · rename_i k v r; exact absurd rfl (h k v r)
    · rfl

theorem delKeys_norm (db : Db) (l : List Bytes) (n : Nat) :
    delKeys (normDb db) l n = (normDb (delKeys db l n).1, (delKeys db l n).2) := by
  induction l generalizing db n with
  | nil => simp [delKeys]
  | cons k r ih =>
    simp only [delKeys, lookup_norm, Option.isSome_map]
    split
    · rw [← normDb_erase, ih]
    · rw [ih]

@[simp] theorem map_const_comp (o : Option Nat) (f : Nat → Nat) : Option.map ((fun _ => 0) ∘ f) o = Option.map (fun _ => 0) o := by
  cases o <;> rfl
@[simp] theorem map_const_map (o : Option Nat) (f : Nat → Nat) : Option.map (fun _ => 0) (Option.map f o) = Option.map (fun _ => 0) o := by
  cases o <;> rfl

macro "norm_solve" : tactic =>
  `(tactic| (
    (try simp [normE_mk, mkStr])
    (repeat' split)
    all_goals (try simp_all [normE_mk, mkStr])))

/-- The recipe for a command keyed by its first argument: fix the shape of the argument list and decide what
    `lookup db k` is BEFORE looking at the two sides, so that both reduce along the same branch. -/
syntax "norm_cmd" : tactic
set_option hygiene false in
macro_rules
  | `(tactic| norm_cmd) => `(tactic| (
    cases args with
    | nil => norm_solve
    | cons k rest1 =>
      rcases rest1 with _ | ⟨a1, _ | ⟨a2, _ | ⟨a3, _ | ⟨a4, rest⟩⟩⟩⟩
      all_goals (
        simp only [lookup_norm]
        cases hl : lookup db k with
        | none => norm_solve
        | some e =>
          obtain ⟨val, d⟩ := e
          cases val <;> norm_solve)))

theorem cmdSet_norm (db : Db) (now now' : Nat) (args : List Bytes) :
    normDb (cmdSet db now args).1 = normDb (cmdSet (normDb db) now' args).1 := by
  unfold cmdSet; norm_cmd

theorem cmdMset_norm (db : Db) (args : List Bytes) :
    normDb (cmdMset db args).1 = normDb (cmdMset (normDb db) args).1 := by
  unfold cmdMset; split <;> simp [normDb_msetPairs]

theorem cmdGetset_norm (db : Db) (args : List Bytes) :
    normDb (cmdGetset db args).1 = normDb (cmdGetset (normDb db) args).1 := by
  unfold cmdGetset; norm_cmd

theorem cmdSetnx_norm (db : Db) (args : List Bytes) :
    normDb (cmdSetnx db args).1 = normDb (cmdSetnx (normDb db) args).1 := by
  unfold cmdSetnx; norm_cmd

theorem cmdSetex_norm (db : Db) (now now' u : Nat) (args : List Bytes) :
    normDb (cmdSetex db now u args).1 = normDb (cmdSetex (normDb db) now' u args).1 := by
  unfold cmdSetex; norm_solve

theorem cmdAppend_norm (db : Db) (args : List Bytes) :
    normDb (cmdAppend db args).1 = normDb (cmdAppend (normDb db) args).1 := by
  unfold cmdAppend; norm_cmd

theorem cmdSetrange_norm (db : Db) (args : List Bytes) :
    normDb (cmdSetrange db args).1 = normDb (cmdSetrange (normDb db) args).1 := by
  unfold cmdSetrange; norm_cmd

theorem incrBy_norm (db : Db) (k : Bytes) (delta : Int) :
    normDb (incrBy db k delta).1 = normDb (incrBy (normDb db) k delta).1 := by
  unfold incrBy
  simp only [lookup_norm]
  cases hl : lookup db k with
  | none => norm_solve
  | some e =>
    obtain ⟨val, d⟩ := e
    cases val <;> norm_solve

theorem cmdIncrDecr_norm (db : Db) (sg : Int) (args : List Bytes) :
    normDb (cmdIncrDecr db sg args).1 = normDb (cmdIncrDecr (normDb db) sg args).1 := by
  unfold cmdIncrDecr
  split
  · exact incrBy_norm _ _ _
  · simp

theorem cmdIncrbyDecrby_norm (db : Db) (sg : Int) (args : List Bytes) :
    normDb (cmdIncrbyDecrby db sg args).1 = normDb (cmdIncrbyDecrby (normDb db) sg args).1 := by
  unfold cmdIncrbyDecrby
  repeat' split
  all_goals first | exact incrBy_norm _ _ _ | simp

theorem cmdDel_norm (db : Db) (args : List Bytes) :
    normDb (cmdDel db args).1 = normDb (cmdDel (normDb db) args).1 := by
  unfold cmdDel
  split
  · simp
  · simp [delKeys_norm]

theorem cmdRename_norm (db : Db) (nx : Bool) (args : List Bytes) :
    normDb (cmdRename db nx args).1 = normDb (cmdRename (normDb db) nx args).1 := by
  unfold cmdRename
  cases args with
  | nil => simp
  | cons a r =>
    rcases r with _ | ⟨b, _ | ⟨c, t⟩⟩
    · simp
    · simp only [lookup_norm]
      cases hl : lookup db a with
      | none => simp
      | some e =>
        cases hb : lookup db b <;> cases nx <;> norm_solve
    · simp

theorem cmdExpire_norm (db : Db) (now now' u : Nat) (args : List Bytes) :
    normDb (cmdExpire db now u args).1 = normDb (cmdExpire (normDb db) now' u args).1 := by
  unfold cmdExpire; norm_cmd

theorem cmdPersist_norm (db : Db) (args : List Bytes) :
    normDb (cmdPersist db args).1 = normDb (cmdPersist (normDb db) args).1 := by
  unfold cmdPersist
  cases args with
  | nil => simp
  | cons k r =>
    cases r with
    | cons a t => simp
    | nil =>
      simp only [lookup_norm]
      cases hl : lookup db k with
      | none => simp
      | some e =>
        obtain ⟨val, d⟩ := e
        cases d <;> simp [normE]

theorem cmdPush_norm (db : Db) (l : Bool) (args : List Bytes) :
    normDb (cmdPush db l args).1 = normDb (cmdPush (normDb db) l args).1 := by
  unfold cmdPush; norm_cmd

theorem cmdPop_norm (db : Db) (l : Bool) (args : List Bytes) :
    normDb (cmdPop db l args).1 = normDb (cmdPop (normDb db) l args).1 := by
  unfold cmdPop; norm_cmd

theorem cmdLset_norm (db : Db) (args : List Bytes) :
    normDb (cmdLset db args).1 = normDb (cmdLset (normDb db) args).1 := by
  unfold cmdLset; norm_cmd

theorem cmdLtrim_norm (db : Db) (args : List Bytes) :
    normDb (cmdLtrim db args).1 = normDb (cmdLtrim (normDb db) args).1 := by
  unfold cmdLtrim; norm_cmd

theorem cmdLrem_norm (db : Db) (args : List Bytes) :
    normDb (cmdLrem db args).1 = normDb (cmdLrem (normDb db) args).1 := by
  unfold cmdLrem; norm_cmd

theorem cmdSadd_norm (db : Db) (args : List Bytes) :
    normDb (cmdSadd db args).1 = normDb (cmdSadd (normDb db) args).1 := by
  unfold cmdSadd; norm_cmd

theorem cmdSrem_norm (db : Db) (args : List Bytes) :
    normDb (cmdSrem db args).1 = normDb (cmdSrem (normDb db) args).1 := by
  unfold cmdSrem; norm_cmd

theorem cmdSpop_norm (db : Db) (args : List Bytes) (o : Option (List Bytes)) :
    normDb (cmdSpop db args o).1 = normDb (cmdSpop (normDb db) args o).1 := by
  unfold cmdSpop; norm_cmd

theorem cmdHset_norm (db : Db) (m : Bool) (args : List Bytes) :
    normDb (cmdHset db m args).1 = normDb (cmdHset (normDb db) m args).1 := by
  unfold cmdHset; norm_cmd

theorem cmdHdel_norm (db : Db) (args : List Bytes) :
    normDb (cmdHdel db args).1 = normDb (cmdHdel (normDb db) args).1 := by
  unfold cmdHdel; norm_cmd

theorem cmdHincrby_norm (db : Db) (args : List Bytes) :
    normDb (cmdHincrby db args).1 = normDb (cmdHincrby (normDb db) args).1 := by
  unfold cmdHincrby; norm_cmd

theorem cmdZaddSetup_norm (db : Db) (args : List Bytes) :
    normDb (cmdZaddSetup db args).1 = normDb (cmdZaddSetup (normDb db) args).1 := by
  unfold cmdZaddSetup; norm_cmd

theorem cmdXaddSetup_norm (db : Db) (args : List Bytes) :
    normDb (cmdXaddSetup db args).1 = normDb (cmdXaddSetup (normDb db) args).1 := by
  unfold cmdXaddSetup; norm_cmd

/-- Every command commutes with the view: the view after the command is a function of the view before it
    (and of the arguments and the draw) — not of the instants. -/
theorem stepDb_norm (q : Quirks) (db : Db) (now now' : Nat) (name : String) (args : List Bytes) (obs : Option (List Bytes)) :
    normDb (stepDb q db now name args obs).1 = normDb (stepDb q (normDb db) now' name args obs).1 := by
  by_cases hw : name ∈ Spec.writeNames
  · unfold stepDb
    split
    all_goals first
      | apply cmdSet_norm | apply cmdMset_norm | apply cmdGetset_norm | apply cmdSetnx_norm | apply cmdSetex_norm
      | apply cmdAppend_norm | apply cmdSetrange_norm | apply cmdIncrDecr_norm | apply cmdIncrbyDecrby_norm
      | apply cmdDel_norm | apply cmdRename_norm | apply cmdExpire_norm | apply cmdPersist_norm | apply cmdPush_norm
      | apply cmdPop_norm | apply cmdLset_norm | apply cmdLtrim_norm | apply cmdLrem_norm | apply cmdSadd_norm
      | apply cmdSrem_norm | apply cmdSpop_norm | apply cmdHset_norm | apply cmdHdel_norm | apply cmdHincrby_norm
      | apply cmdZaddSetup_norm | apply cmdXaddSetup_norm
      | exact absurd hw (by decide)
      | (split <;> simp)
      | simp
  · rw [stepDb_readonly q db now name args obs hw, stepDb_readonly q (normDb db) now' name args obs hw]
    simp

/-- Two databases with the same view have the same view after the same command, run at any two instants. -/
theorem stepDb_sim (q : Quirks) (db1 db2 : Db) (h : normDb db1 = normDb db2) (now1 now2 : Nat) (name : String)
    (args : List Bytes) (obs : Option (List Bytes)) :
    normDb (stepDb q db1 now1 name args obs).1 = normDb (stepDb q db2 now2 name args obs).1 := by
  rw [stepDb_norm q db1 now1 0, stepDb_norm q db2 now2 0, h]

end Ferrous.Aof
