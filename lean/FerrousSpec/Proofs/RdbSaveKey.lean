/-
  C10, part 2: the save loop seen from one key.  Invariant of the interleaving machine `krun`:
  as long as no command ran between the saver's reads of the key, what the saver holds is the
  key's current state; a finished record is the key's state at one instant of the history.
-/
import FerrousSpec.Model.RdbSave
import FerrousSpec.Proofs.RdbSaveChunks
set_option linter.unusedSimpArgs false
set_option linter.unusedVariables false
namespace Ferrous.RdbSave
open Ferrous Ferrous.Rdb

theorem consistent_mono (r : Rec) (h : List KeyState) (st : KeyState) (hc : r.consistent h) :
    r.consistent (st :: h) :=
  ⟨List.mem_cons_of_mem _ hc.1, hc.2⟩

theorem isZset_zset {v : Value} (h : isZset v = true) : v = .zset (zitems v) := by
  cases v <;> simp [isZset, zitems] at h ⊢

/-- what the saver holds agrees with the key, as long as nothing disturbed it -/
def PhaseOK (m : KM) : Prop :=
  match m.phase with
  | .start => True
  | .gotValue v => (∃ dl, m.cur = some (v, dl)) ∧ m.held = zitems v
  | .gotTtl v ttl => m.cur = some (v, ttl) ∧ m.held = zitems v ∧ isZset v = true
  | .gotLen ttl len => m.cur = some (.zset m.held, ttl) ∧ len = m.held.length
  | .done _ => True

def J (atomic : Bool) (m : KM) : Prop :=
  m.cur ∈ m.hist ∧
  (atomic = true → midKey m.phase = false ∧ m.disturbed = false) ∧
  (m.disturbed = false → PhaseOK m) ∧
  (∀ r, m.phase = .done (some r) → m.disturbed = false → r.consistent m.hist)

theorem J_init (atomic : Bool) (st : KeyState) : J atomic (kinit st) := by
  refine ⟨by simp [kinit], fun _ => by simp [kinit, midKey], fun _ => by simp [kinit, PhaseOK], ?_⟩
  intro r h; simp [kinit] at h

theorem J_cmd (atomic : Bool) (m : KM) (c : Cmd) (h : J atomic m) : J atomic (cmdStep m c) := by
  obtain ⟨h1, h2, h3, h4⟩ := h
  refine ⟨by simp [cmdStep], ?_, ?_, ?_⟩
  · intro ha
    obtain ⟨a, b⟩ := h2 ha
    simp [cmdStep, a, b]
  · intro hd
    simp only [cmdStep, Bool.or_eq_false_iff] at hd
    obtain ⟨hd1, hd2⟩ := hd
    -- the saver is not in the middle of the key, so it holds nothing yet / any more
    have := h3 hd1
    unfold PhaseOK at this ⊢
    cases hp : m.phase with
    | start => simp [cmdStep, hp]
    | gotValue v => simp [hp, midKey] at hd2
    | gotTtl v t => simp [hp, midKey] at hd2
    | gotLen t l => simp [hp, midKey] at hd2
    | done r => simp [cmdStep, hp]
  · intro r hr hd
    simp only [cmdStep, Bool.or_eq_false_iff] at hd hr
    exact consistent_mono r _ _ (h4 r hr hd.1)

theorem J_saver (atomic itemsFirst : Bool) (m : KM) (h : J atomic m) : J atomic (saverStep atomic itemsFirst m) := by
  obtain ⟨h1, h2, h3, h4⟩ := h
  unfold saverStep
  cases hp : m.phase with
  | start =>
    simp only []
    cases hc : m.cur with
    | none =>
      refine ⟨by simpa [hc] using h1, fun ha => ?_, fun _ => by simp [PhaseOK], ?_⟩
      · exact ⟨by simp [midKey], (h2 ha).2⟩
      · intro r hr; simp at hr
    | some p =>
      obtain ⟨v, dl⟩ := p
      simp only []
      cases atomic with
      | true =>
        simp only [if_true]
        refine ⟨by simpa [hc] using h1, fun _ => ⟨by simp [midKey], (h2 rfl).2⟩, fun _ => by simp [PhaseOK], ?_⟩
        intro r hr _
        simp at hr
        subst hr
        exact ⟨by simpa [recOf, hc] using h1, rfl⟩
      | false =>
        simp only [Bool.false_eq_true, if_false]
        refine ⟨by simpa [hc] using h1, fun ha => by simp at ha, ?_, ?_⟩
        · intro _
          simp [PhaseOK, hc]
        · intro r hr; simp at hr
  | gotValue v =>
    simp only []
    have hna : atomic = false := by
      cases atomic with
      | false => rfl
      | true => have := (h2 rfl).1; simp [hp, midKey] at this
    split
    · rename_i hz
      refine ⟨h1, fun ha => by simp [hna] at ha, ?_, ?_⟩
      · intro hd
        have := h3 hd
        simp only [PhaseOK, hp] at this
        obtain ⟨⟨dl, hcur⟩, hheld⟩ := this
        simp [PhaseOK, hcur, hheld, hz]
      · intro r hr; simp at hr
    · rename_i hz
      refine ⟨h1, fun ha => by simp [hna] at ha, fun _ => by simp [PhaseOK], ?_⟩
      intro r hr hd
      have := h3 hd
      simp only [PhaseOK, hp] at this
      obtain ⟨⟨dl, hcur⟩, hheld⟩ := this
      simp at hr
      subst hr
      refine ⟨by simpa [hcur] using h1, by simp [hz]⟩
  | gotTtl v ttl =>
    simp only []
    have hna : atomic = false := by
      cases atomic with
      | false => rfl
      | true => have := (h2 rfl).1; simp [hp, midKey] at this
    cases itemsFirst with
    | true =>
      simp only [if_true]
      refine ⟨h1, fun ha => by simp [hna] at ha, fun _ => by simp [PhaseOK], ?_⟩
      intro r hr hd
      have := h3 hd
      simp only [PhaseOK, hp] at this
      obtain ⟨hcur, hheld, hz⟩ := this
      have hv := isZset_zset hz
      simp at hr
      subst hr
      refine ⟨?_, by simp [isZset, zitems]⟩
      simp only [hheld]
      rw [← hv]
      simpa [hcur] using h1
    | false =>
      simp only [Bool.false_eq_true, if_false]
      refine ⟨h1, fun ha => by simp [hna] at ha, ?_, ?_⟩
      · intro hd
        have := h3 hd
        simp only [PhaseOK, hp] at this
        obtain ⟨hcur, hheld, hz⟩ := this
        have hv := isZset_zset hz
        simp only [PhaseOK, hheld]
        rw [hcur, ← hv]
        simp
      · intro r hr; simp at hr
  | gotLen ttl len =>
    simp only []
    have hna : atomic = false := by
      cases atomic with
      | false => rfl
      | true => have := (h2 rfl).1; simp [hp, midKey] at this
    refine ⟨h1, fun ha => by simp [hna] at ha, fun _ => by simp [PhaseOK], ?_⟩
    intro r hr hd
    have := h3 hd
    simp only [PhaseOK, hp] at this
    obtain ⟨hcur, hlen⟩ := this
    simp at hr
    subst hr
    refine ⟨?_, by simp [isZset, zitems, hlen]⟩
    simp only [hlen, List.take_length]
    simpa [hcur] using h1
  | done r =>
    simp only []
    refine ⟨h1, fun ha => ?_, fun _ => by simp [PhaseOK], ?_⟩
    · have := h2 ha
      simp [hp, midKey] at this ⊢
      exact this
    · intro r' hr' hd
      simp at hr'
      exact h4 r' (by rw [hp, hr']) hd

theorem J_run (atomic itemsFirst : Bool) (evs : List KEv) : ∀ m, J atomic m → J atomic (krun atomic itemsFirst m evs) := by
  induction evs with
  | nil => intro m h; exact h
  | cons e es ih =>
    intro m h
    simp only [krun, List.foldl_cons]
    apply ih
    cases e with
    | saver => exact J_saver atomic itemsFirst m h
    | cmd c => exact J_cmd atomic m c h


/-! ### with the items materialised first, the declared length is always the number of items -/

def LenOK (m : KM) : Prop :=
  (∀ t l, m.phase ≠ .gotLen t l) ∧
  ∀ r, m.phase = .done (some r) → r.zlen = (if isZset r.val then some (zitems r.val).length else none)

theorem lenOK_run (atomic : Bool) (evs : List KEv) : ∀ m, LenOK m → LenOK (krun atomic true m evs) := by
  induction evs with
  | nil => intro m h; exact h
  | cons e es ih =>
    intro m h
    simp only [krun, List.foldl_cons]
    apply ih
    cases e with
    | cmd c => exact ⟨by simpa [kstep, cmdStep] using h.1, by simpa [kstep, cmdStep] using h.2⟩
    | saver =>
      simp only [kstep, saverStep]
      cases hp : m.phase with
      | start =>
        simp only []
        cases hc : m.cur with
        | none => exact ⟨by simp, by simp⟩
        | some p =>
          obtain ⟨v, dl⟩ := p
          simp only []
          split
          · refine ⟨by simp, ?_⟩
            intro r hr
            simp at hr
            subst hr
            rfl
          · exact ⟨by simp, by simp⟩
      | gotValue v =>
        simp only []
        split
        · exact ⟨by simp, by simp⟩
        · rename_i hz
          refine ⟨by simp, ?_⟩
          intro r hr
          simp at hr
          subst hr
          simp [hz]
      | gotTtl v ttl =>
        simp only [if_true]
        refine ⟨by simp, ?_⟩
        intro r hr
        simp at hr
        subst hr
        simp [isZset, zitems]
      | gotLen ttl len => exact absurd hp (h.1 ttl len)
      | done r =>
        simp only []
        exact ⟨by simp, fun r' hr' => h.2 r' (by simp at hr'; rw [hp, hr'])⟩

/-! ### from records to bytes -/

theorem recBytes_consistent (t : Nat) (k : Bytes) (r : Rec) (hist : List KeyState) (hc : r.consistent hist)
    (ht : ∀ d, r.ttl = some d → t ≤ d) : recBytes t k r = encEntry t ⟨k, r.val, r.ttl⟩ := by
  obtain ⟨v, zl, ttl⟩ := r
  have hz := hc.2
  simp only at hz ht
  clear hc
  cases ttl with
  | none =>
    cases v <;> simp [isZset, zitems] at hz <;> subst hz <;> simp [recBytes, encEntry, encKV, encValue, typeByte]
  | some d =>
    have hlt : ¬ d < t := by have := ht d rfl; omega
    cases v <;> simp [isZset, zitems] at hz <;> subst hz <;> simp [recBytes, encEntry, encKV, encValue, typeByte, hlt]

theorem fileOf_eq_encSnapshot (ver : Bytes) (t db : Nat) (e : Entry) :
    fileOf ver t db (encEntry t e) = encSnapshot ver [(db, [e])] t := by
  simp [fileOf, encSnapshot, encBody, encDbs, encDb, encEntries, List.append_assoc]

end Ferrous.RdbSave
