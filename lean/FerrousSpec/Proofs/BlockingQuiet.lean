/-
  Blocking pops — the wake queue is empty between events, for EVERY history (no exclusion): hang-ups, CLIENT KILL,
  stale waiters, pipelined batches included.  Needs only that every place that queues a request also carries out
  all queued requests before it returns: `wakeAtPush` + `drainAll` (the drain after a command) and `serveDrains`
  (each round of `serve_key`).

  The measure: `wake_client` removes the request it handles, and queues at most one new request, which it takes
  out of the registry — so `|wake queue| + |registry|` goes down by at least one per request handled, and the fuel
  `|wake queue| + |registry|` of a full drain is enough.
-/
import FerrousSpec.Proofs.BlockingFixRun
namespace Ferrous.Blk

/-- Requests queued plus clients registered. -/
def wakeMeasure (s : State) : Nat := s.wakeQ.length + s.registry.length

theorem notify_wakeMeasure (k : Key) (s : State) : wakeMeasure (notify k s) = wakeMeasure s := by
  unfold notify
  split
  · rfl
  · next e reg' hp =>
    obtain ⟨a, b, h1, h2, _, _⟩ := popFirst_some hp
    unfold wakeMeasure
    show (s.wakeQ ++ [_]).length + reg'.length = s.wakeQ.length + s.registry.length
    rw [h1, h2]
    simp only [List.length_append, List.length_cons, List.length_nil]
    omega

theorem length_filter_le' {α : Type} (p : α → Bool) (l : List α) : (l.filter p).length ≤ l.length :=
  List.length_filter_le p l

/-- Every branch of `wake_client` — stale request, vanished client, empty list, served, dropped — uses the request up. -/
theorem wakeOne_wakeMeasure (q : Quirks) (s : State) (h : s.wakeQ ≠ []) : wakeMeasure (wakeOne q s) < wakeMeasure s := by
  unfold wakeOne
  split
  · next h' => exact absurd h' h
  · next w rest hw =>
    have hs0 : wakeMeasure { s with wakeQ := rest } + 1 = wakeMeasure s := by
      unfold wakeMeasure; rw [hw]; simp only [List.length_cons]; omega
    have hlt : wakeMeasure { s with wakeQ := rest } < wakeMeasure s := by omega
    simp only []
    split
    · split
      · rw [notify_wakeMeasure]; exact hlt
      · exact hlt
    split
    · have hd : wakeMeasure { (setBlocked { s with wakeQ := rest } w.conn none) with
          registry := (setBlocked { s with wakeQ := rest } w.conn none).registry.filter fun x => x.2.conn != w.conn }
            ≤ wakeMeasure { s with wakeQ := rest } := by
        unfold wakeMeasure
        simp only [setBlocked_wakeQ, setBlocked_registry]
        have := length_filter_le' (fun x : Key × Waiter => x.2.conn != w.conn) s.registry
        omega
      split
      · rw [notify_wakeMeasure]; exact Nat.lt_of_le_of_lt hd hlt
      · exact Nat.lt_of_le_of_lt hd hlt
    split
    · exact hlt
    · next e st' hpe =>
      split
      · split
        · have : wakeMeasure { (setBlocked (emit { s with wakeQ := rest, store := st' } w.conn (.pair e.1 e.2)) w.conn none) with
              registry := (setBlocked (emit { s with wakeQ := rest, store := st' } w.conn (.pair e.1 e.2)) w.conn none).registry.filter
                fun x => x.2.conn != w.conn } ≤ wakeMeasure { s with wakeQ := rest } := by
            unfold wakeMeasure
            simp only [setBlocked_wakeQ, setBlocked_registry, emit_wakeQ, emit_registry]
            have := length_filter_le' (fun x : Key × Waiter => x.2.conn != w.conn) s.registry
            omega
          exact Nat.lt_of_le_of_lt this hlt
        · have : wakeMeasure (setBlocked (emit { s with wakeQ := rest, store := st' } w.conn (.pair e.1 e.2)) w.conn none)
              = wakeMeasure { s with wakeQ := rest } := by
            unfold wakeMeasure
            simp only [setBlocked_wakeQ, setBlocked_registry, emit_wakeQ, emit_registry]
          exact Nat.lt_of_le_of_lt (Nat.le_of_eq this) hlt
      · exact hlt

/-- A drain with fuel `|wake queue| + |registry|` leaves no request behind — whatever the state. -/
theorem iter_wakeOne_empties (q : Quirks) : ∀ n s, wakeMeasure s ≤ n → (iter (wakeOne q) n s).wakeQ = [] := by
  intro n
  induction n with
  | zero =>
    intro s h
    unfold wakeMeasure at h
    show s.wakeQ = []
    exact List.length_eq_zero_iff.mp (by omega)
  | succ n ih =>
    intro s h
    cases hq : s.wakeQ with
    | nil => rw [iter_wakeOne_nil q _ s hq]; exact hq
    | cons w rest =>
      simp only [iter]
      apply ih
      have := wakeOne_wakeMeasure q s (by rw [hq]; simp)
      omega

/-- Every place that queues a wake-up request carries out all queued requests before it returns. -/
def AlwaysDrains (q : Quirks) : Prop := q.wakeAtPush = true ∧ q.drainAll = true ∧ q.serveDrains = true

instance (q : Quirks) : Decidable (AlwaysDrains q) := by unfold AlwaysDrains; infer_instance

theorem quiet_drain (q : Quirks) (hq : AlwaysDrains q) (s : State) : (drain q s).wakeQ = [] := by
  unfold drain
  simp only [hq.1, hq.2.1, if_true]
  exact iter_wakeOne_empties q _ s (Nat.le_refl _)

theorem quiet_dataCmd (q : Quirks) (hq : AlwaysDrains q) (now : Nat) (c cid : Conn) (s : State) (cmd : Cmd) :
    (dataCmd q now c cid s cmd).wakeQ = [] := quiet_drain q hq _

theorem quiet_foldl (q : Quirks) (hq : AlwaysDrains q) (now : Nat) (c cid : Conn) (cmds : List Cmd) :
    ∀ s, s.wakeQ = [] → (cmds.foldl (dataCmd q now c cid) s).wakeQ = [] := by
  induction cmds with
  | nil => intro s h; exact h
  | cons cmd r ih => intro s _; exact ih _ (quiet_dataCmd q hq now c cid s cmd)

theorem quiet_serveKey (q : Quirks) (hq : AlwaysDrains q) (k : Key) : ∀ n s, s.wakeQ = [] → (serveKey q k n s).wakeQ = [] := by
  intro n
  induction n with
  | zero => intro s h; exact h
  | succ n ih =>
    intro s h
    simp only [serveKey]
    split
    · simp only [hq.2.2, if_true]
      exact ih _ (iter_wakeOne_empties q _ _ (Nat.le_refl _))
    · exact h

theorem quiet_serveKeys (q : Quirks) (hq : AlwaysDrains q) (ks : List Key) : ∀ s, s.wakeQ = [] → (serveKeys q ks s).wakeQ = [] := by
  unfold serveKeys
  induction ks with
  | nil => intro s h; exact h
  | cons k r ih => intro s h; exact ih _ (quiet_serveKey q hq k _ s h)

theorem quiet_topCmd (q : Quirks) (hq : AlwaysDrains q) (now : Nat) (c : Conn) (s : State) (cmd : Cmd) (h : s.wakeQ = []) :
    (topCmd q now c s cmd).wakeQ = [] := by
  cases cmd with
  | multi => simp only [topCmd]; split <;> simp [h]
  | exec =>
    simp only [topCmd]; split
    · have h2 := quiet_foldl q hq now c 0 (s.conns c).queue
        (emit (setConn s c fun cs => { cs with inTx := false, queue := [] }) c (.arrHdr (s.conns c).queue.length)) (by simp [h])
      split
      · exact quiet_serveKeys q hq _ _ h2
      · exact h2
    · simp [h]
  | push op k vs =>
    simp only [topCmd]; split
    · simp [h]
    · exact quiet_dataCmd q hq now c c s _
  | pop op k =>
    simp only [topCmd]; split
    · simp [h]
    · exact quiet_dataCmd q hq now c c s _
  | bpop op keys t =>
    simp only [topCmd]; split
    · simp [h]
    · exact quiet_dataCmd q hq now c c s _

theorem quiet_runBatch (q : Quirks) (hq : AlwaysDrains q) (now : Nat) (c : Conn) (cmds : List Cmd) :
    ∀ s, s.wakeQ = [] → (runBatch q now c cmds s).wakeQ = [] := by
  induction cmds with
  | nil => intro s h; exact h
  | cons cmd r ih =>
    intro s h
    simp only [runBatch]
    split
    · rw [setConn_wakeQ]; exact quiet_topCmd q hq now c s cmd h
    · exact ih _ (quiet_topCmd q hq now c s cmd h)

theorem quiet_step (q : Quirks) (hq : AlwaysDrains q) (s : State) (e : Event) (h : s.wakeQ = []) : (step q s e).wakeQ = [] := by
  cases e with
  | wakeups =>
    show (iter (wakeOne q) wakeBatch s).wakeQ = []
    rw [iter_wakeOne_nil q _ s h]; exact h
  | conn c now cmds =>
    simp only [step]
    split
    · exact quiet_runBatch q hq now c _ _ (by simp [h])
    · split
      · exact quiet_runBatch q hq now c _ _ (by simp [h])
      · exact h
  | timeouts now =>
    show (iter (expireOne now) s.registry.length s).wakeQ = []
    rw [iter_expireOne_wakeQ]; exact h
  | hangup c => simp only [step]; split <;> simp [h]
  | reap c => simp only [step]; split <;> simp [h]
  | kill c => simp only [step]; split <;> simp [h]
  | hangupDirty c => simp only [step]; split <;> simp [h]

theorem quiet_runFrom (q : Quirks) (hq : AlwaysDrains q) (evs : List Event) : ∀ s, s.wakeQ = [] → (runFrom q s evs).wakeQ = [] := by
  induction evs with
  | nil => intro s h; exact h
  | cons e r ih => intro s h; exact ih _ (quiet_step q hq s e h)

theorem quiet_run (q : Quirks) (hq : AlwaysDrains q) (evs : List Event) : (run q evs).wakeQ = [] :=
  quiet_runFrom q hq evs init rfl

end Ferrous.Blk
