/-
  WATCH: the per-shard modification tracker, the per-connection watch list and the EXEC decision
  (C08) — import-free (core Lean + Model/Bytes).

  Transliterated from
    src/storage/engine.rs          `ShardWatchTracker` {active_watchers, key_counters, global_counter},
                                   `register_watch`, `unregister_watch`, `mark_key_modified` (no-op when
                                   `active_watchers == 0`), `get_key_counter`, `StorageEngine::was_modified_since`
                                   (counter > baseline OR the stored value is expired), `DatabaseShard::mark_modified`
    src/storage/commands/transactions.rs   `handle_watch` (baseline per key, `HashMap::insert` — a second WATCH of
                                   the same key REPLACES the baseline and registers again), `handle_unwatch`
                                   (the ONLY place that unregisters; uses the database selected at UNWATCH time),
                                   `handle_multi`, `handle_discard` (clears the watch list, does not unregister)
    src/network/server.rs          `handle_exec` (checks every watched key in the database selected at EXEC time,
                                   clears the watch list, does not unregister), `handle_select`

  A SELECT sent inside MULTI is queued (`step … (.select c d)` with `inTx`: the queue grows, nothing is selected).
  Since repo commit 2147747 `handle_exec` executes it when EXEC runs: the commands queued after it run in the
  selected database and the selection stays.  The watched keys are checked BEFORE anything runs, so for this
  machine such an EXEC is the event `exec c ops₀` (the operations queued before the first SELECT) followed — only if
  EXEC executed — by `select c d` and `cmd c opsᵢ` events of the same connection, which has left MULTI by then
  (lib/c08.py mirrors it that way); the theorems quantify over all event sequences, these included.

  Storage operations are abstracted to what matters for WATCH: an operation names the storage function
  (a row of the regenerated table `Gen.storageFns`), the key, whether that function passes this key to
  `mark_modified` (from the table), and what it did to the stored entry (`Eff`).

  `Q` are the switches between the code as it is (`Q.code`) and the prescribed behaviour (`Q.fixed`):
    perDb          a watch entry remembers the database it was taken in (EXEC checks and UNWATCH unregisters there);
                   code: both use the connection's CURRENT database
    rewatchKeeps   WATCH of an already watched key is ignored (first baseline stays); code: baseline replaced
    unwatchQueued  UNWATCH inside MULTI is queued and forgets nothing (the watches guard the transaction being built);
                   old code: executed at once
    watchPurges    WATCH first drops a stored value of the key whose deadline has passed (removal + mark, like the
                   sweeper), so the baseline is taken on an absent key; code: the expired value stays and makes
                   `was_modified_since` true although nothing changed after WATCH
  Whether a storage function marks is not a switch: it is data of the operation, read from the table.
-/
import FerrousSpec.Model.Bytes
namespace Ferrous.Watch

abbrev Key := Bytes

/-! ### Association lists with a default (a `HashMap` read with `unwrap_or`) -/

def aget {α β : Type} [DecidableEq α] (m : List (α × β)) (a : α) (dflt : β) : β :=
  match m with
  | [] => dflt
  | (a', v) :: r => if a' = a then v else aget r a dflt

/-- `HashMap::insert`: replace the binding in place, or add one. -/
def aset {α β : Type} [DecidableEq α] (m : List (α × β)) (a : α) (v : β) : List (α × β) :=
  match m with
  | [] => [(a, v)]
  | (a', v') :: r => if a' = a then (a, v) :: r else (a', v') :: aset r a v

/-! ### Shard of a key: FNV-1a 64 modulo 16 (`get_shard_index`) -/

def fnvPrime : Nat := 0x100000001b3
def fnvOffset : Nat := 0xcbf29ce484222325
def two64 : Nat := 18446744073709551616

def fnv1a (k : Key) : Nat := k.foldl (fun h b => ((h ^^^ b) * fnvPrime) % two64) fnvOffset

def shardOf (k : Key) : Nat := fnv1a k % 16

/-! ### `ShardWatchTracker` -/

structure Tracker where
  /-- `active_watchers : AtomicUsize` (wraps: `fetch_add` / `fetch_sub`) -/
  active : Nat := 0
  /-- `key_counters : HashMap<Vec<u8>, u64>` -/
  counters : List (Key × Nat) := []
  /-- `global_counter : AtomicU64` (modelled unbounded: 2^64 modifications of one shard are out of reach) -/
  global : Nat := 0
deriving DecidableEq, Repr

def Tracker.counter (t : Tracker) (k : Key) : Nat := aget t.counters k 0

/-- `register_watch`: `fetch_add(1)`, returns the key's current counter (the baseline). -/
def Tracker.register (t : Tracker) (k : Key) : Tracker × Nat :=
  ({ t with active := (t.active + 1) % two64 }, t.counter k)

/-- `unregister_watch`: `fetch_sub(1)` — wraps to `usize::MAX` at 0. -/
def Tracker.unregister (t : Tracker) : Tracker :=
  { t with active := (t.active + (two64 - 1)) % two64 }

/-- `mark_key_modified`: nothing when no watcher is active, otherwise the key's counter becomes the
    incremented global counter. -/
def Tracker.mark (t : Tracker) (k : Key) : Tracker :=
  if t.active = 0 then t
  else { t with global := t.global + 1, counters := aset t.counters k (t.global + 1) }

/-! ### Stored entries (abstract): a content identity and an optional deadline -/

structure Entry where
  val : Nat
  deadline : Option Nat
deriving DecidableEq, Repr

/-- `ValueMetadata::is_expired`: `Instant::now() > expires_at`. -/
def Entry.expired (e : Entry) (now : Nat) : Bool :=
  match e.deadline with
  | some d => decide (d < now)
  | none => false

/-- What one call of a storage function did to the entry of its key. -/
inductive Eff where
  /-- refused, or nothing to do: no mutating path was reached -/
  | none
  /-- a mutating path ran and left the entry as it was (SET of the same value, ZADD of the same score, …) -/
  | touch
  /-- the entry was created or replaced (value and/or deadline) -/
  | put (e : Entry)
  /-- the entry was removed -/
  | del
deriving DecidableEq, Repr

def Eff.reaches : Eff → Bool
  | .none => false
  | _ => true

def Eff.result (old : Option Entry) : Eff → Option Entry
  | .none => old
  | .touch => old
  | .put e => some e
  | .del => Option.none

structure KeyOp where
  /-- the storage function (row of `Gen.storageFns`) -/
  fn : String
  key : Key
  /-- the table says: this function passes this key parameter to `mark_modified` -/
  marks : Bool
  eff : Eff
deriving DecidableEq, Repr

inductive Op where
  | key (o : KeyOp)
  /-- `flush_db` of the connection's database (`all = false`) or of every database (FLUSHALL);
      `marks`: the table says flush_db marks the keys it removes -/
  | flush (all : Bool) (marks : Bool)
deriving DecidableEq, Repr

/-! ### Connections and the whole state -/

structure W where
  key : Key
  base : Nat
  /-- the database selected when the entry was made (read only when `Q.perDb`; otherwise ghost) -/
  regDb : Nat
deriving DecidableEq, Repr

structure Conn where
  db : Nat := 0
  watched : List W := []
  inTx : Bool := false
  queued : Nat := 0
deriving DecidableEq, Repr

structure Q where
  perDb : Bool
  rewatchKeeps : Bool
  watchPurges : Bool
  /-- UNWATCH sent between MULTI and EXEC is queued (a no-op slot of EXEC's reply) and the watches stay until EXEC
      (`should_queue_command` since 7dd14e2); old code: it ran at once and dropped them -/
  unwatchQueued : Bool
deriving DecidableEq, Repr

def Q.code : Q := ⟨false, false, false, false⟩
def Q.fixed : Q := ⟨true, true, true, true⟩

structure State where
  /-- (db, shard) ↦ tracker -/
  trk : List ((Nat × Nat) × Tracker) := []
  /-- (db, key) ↦ entry -/
  data : List ((Nat × Key) × Option Entry) := []
  /-- connection id ↦ connection -/
  conns : List (Nat × Conn) := []
deriving DecidableEq, Repr

def State.init : State := {}

def State.tracker (s : State) (d sh : Nat) : Tracker := aget s.trk (d, sh) {}
def State.setTracker (s : State) (d sh : Nat) (t : Tracker) : State := { s with trk := aset s.trk (d, sh) t }
def State.counter (s : State) (d : Nat) (k : Key) : Nat := (s.tracker d (shardOf k)).counter k
def State.active (s : State) (d sh : Nat) : Nat := (s.tracker d sh).active
def State.entry (s : State) (d : Nat) (k : Key) : Option Entry := aget s.data (d, k) none
def State.setEntry (s : State) (d : Nat) (k : Key) (e : Option Entry) : State := { s with data := aset s.data (d, k) e }
def State.conn (s : State) (c : Nat) : Conn := aget s.conns c {}
def State.setConn (s : State) (c : Nat) (cn : Conn) : State := { s with conns := aset s.conns c cn }

/-- `DatabaseShard::mark_modified(key)` on the shard of `key` in database `d`. -/
def markKey (s : State) (d : Nat) (k : Key) : State :=
  s.setTracker d (shardOf k) ((s.tracker d (shardOf k)).mark k)

/-- `StorageEngine::was_modified_since`. -/
def wasModifiedSince (s : State) (d : Nat) (k : Key) (base now : Nat) : Bool :=
  decide (base < s.counter d k) ||
    (match s.entry d k with
     | some e => e.expired now
     | none => false)

/-! ### Storage operations -/

def applyKeyOp (s : State) (d : Nat) (o : KeyOp) : State :=
  if o.eff.reaches then
    let s' := s.setEntry d o.key (o.eff.result (s.entry d o.key))
    if o.marks then markKey s' d o.key else s'
  else s

/-- the (db, key) pairs that hold an entry and satisfy `p` on the database -/
def presentKeys (s : State) (p : Nat → Bool) : List (Nat × Key) :=
  (s.data.filter (fun x => p x.1.1 && x.2.isSome)).map (·.1)

/-- `flush_db` on every database satisfying `p`: `data.clear()`; `marks` = it marks the keys it removes. -/
def flushWhere (s : State) (p : Nat → Bool) (marks : Bool) : State :=
  let s1 := if marks then (presentKeys s p).foldl (fun s x => markKey s x.1 x.2) s else s
  { s1 with data := s1.data.map (fun x => if p x.1.1 then (x.1, none) else x) }

def applyOp (s : State) (d : Nat) : Op → State
  | .key o => applyKeyOp s d o
  | .flush false m => flushWhere s (fun d' => decide (d' = d)) m
  | .flush true m => flushWhere s (fun _ => true) m

def applyOps (s : State) (d : Nat) (ops : List Op) : State := ops.foldl (fun s o => applyOp s d o) s

/-! ### Events (one per client command or sweeper deletion) -/

inductive Ev where
  | watch (c : Nat) (keys : List Key)
  | unwatch (c : Nat)
  | multi (c : Nat)
  /-- `ops`: what the queued commands do when they run -/
  | exec (c : Nat) (ops : List Op)
  | discard (c : Nat)
  | select (c : Nat) (d : Nat)
  /-- a data command, a script, or a pop served to blocked client `c`: runs with `c`'s database -/
  | cmd (c : Nat) (ops : List Op)
  /-- the sweeper's deletion of `(d, k)` (happens iff the deadline has passed); `marks` from the table -/
  | sweep (d : Nat) (k : Key) (marks : Bool)
  /-- a command of `c` that is refused with an error and changes nothing: MULTI / EXEC / DISCARD / UNWATCH with
      surplus arguments (process_frame's arity guard since 35e6048) -/
  | refused (c : Nat)
deriving DecidableEq, Repr

inductive Reply where
  | ok | queued | err | nil
  | array (n : Nat)
deriving DecidableEq, Repr

/-- the database in which a watch entry is checked / unregistered -/
def effDb (q : Q) (cn : Conn) (w : W) : Nat := if q.perDb then w.regDb else cn.db

/-- removal of `(d, k)` if its deadline has passed: the sweeper's deletion (`marks` from the table), and the purge
    at WATCH time of the `watchPurges` variant -/
def sweepKey (s : State) (d : Nat) (k : Key) (marks : Bool) (now : Nat) : State :=
  match s.entry d k with
  | some e =>
    if e.expired now then
      let s' := s.setEntry d k none
      if marks then markKey s' d k else s'
    else s
  | none => s

/-- `register_watch` of the `watchPurges` variant: an expired stored value is dropped (and marked) first -/
def purgeAtWatch (q : Q) (s : State) (d : Nat) (k : Key) (now : Nat) : State :=
  if q.watchPurges then sweepKey s d k true now else s

/-- one key of `handle_watch` -/
def watchKey (q : Q) (c : Nat) (now : Nat) (s : State) (k : Key) : State :=
  let cn := s.conn c
  if q.rewatchKeeps && cn.watched.any (fun w => decide (w.key = k) && decide (w.regDb = cn.db)) then s
  else
    let s1 := purgeAtWatch q s cn.db k now
    let r := (s1.tracker cn.db (shardOf k)).register k
    let s' := s1.setTracker cn.db (shardOf k) r.1
    let others := cn.watched.filter (fun w => !(decide (w.key = k) && (!q.perDb || decide (w.regDb = cn.db))))
    s'.setConn c { cn with watched := ⟨k, r.2, cn.db⟩ :: others }

def unregisterW (q : Q) (cn : Conn) (s : State) (w : W) : State :=
  let d := effDb q cn w
  s.setTracker d (shardOf w.key) ((s.tracker d (shardOf w.key)).unregister)

/-- the EXEC decision of `Server::handle_exec` -/
def execAborts (q : Q) (s : State) (cn : Conn) (now : Nat) : Bool :=
  cn.watched.any (fun w => wasModifiedSince s (effDb q cn w) w.key w.base now)

def step (q : Q) (s : State) (now : Nat) : Ev → State × Reply
  | .watch c keys =>
    let cn := s.conn c
    if keys.isEmpty || cn.inTx then (s, .err)
    else (keys.foldl (watchKey q c now) s, .ok)
  | .unwatch c =>
    let cn := s.conn c
    if q.unwatchQueued && cn.inTx then (s.setConn c { cn with queued := cn.queued + 1 }, .queued)
    else
      let s' := cn.watched.foldl (unregisterW q cn) s
      (s'.setConn c { cn with watched := [] }, .ok)
  | .multi c =>
    let cn := s.conn c
    if cn.inTx then (s, .err) else (s.setConn c { cn with inTx := true, queued := 0 }, .ok)
  | .exec c ops =>
    let cn := s.conn c
    if !cn.inTx then (s, .err)
    else
      let s0 := s.setConn c { cn with inTx := false, watched := [], queued := 0 }
      if execAborts q s cn now then (s0, .nil)
      else (applyOps s0 cn.db ops, .array cn.queued)
  | .discard c =>
    let cn := s.conn c
    if !cn.inTx then (s, .err)
    else (s.setConn c { cn with inTx := false, watched := [], queued := 0 }, .ok)
  | .select c d =>
    let cn := s.conn c
    if cn.inTx then (s.setConn c { cn with queued := cn.queued + 1 }, .queued)
    else if 16 ≤ d then (s, .err)
    else (s.setConn c { cn with db := d }, .ok)
  | .cmd c ops =>
    let cn := s.conn c
    if cn.inTx then (s.setConn c { cn with queued := cn.queued + 1 }, .queued)
    else (applyOps s cn.db ops, .ok)
  | .sweep d k marks => (sweepKey s d k marks now, .ok)
  | .refused _ => (s, .err)

/-- a history: timestamped events -/
def run (q : Q) (s : State) : List (Nat × Ev) → State
  | [] => s
  | (now, ev) :: r => run q (step q s now ev).1 r

/-- the storage operations a step really executes, each with the database it runs in -/
def executed (q : Q) (s : State) (now : Nat) : Ev → List (Nat × Op)
  | .exec c ops =>
    let cn := s.conn c
    if cn.inTx && !execAborts q s cn now then ops.map (fun o => (cn.db, o)) else []
  | .cmd c ops =>
    let cn := s.conn c
    if cn.inTx then [] else ops.map (fun o => (cn.db, o))
  | _ => []

/-! ### The table of storage functions (regenerated: `Gen.storageFns`) and the hand-written mark discipline -/

structure StorageFn where
  name : String
  keyParams : List String
  mutates : Bool
  /-- key parameters that reach `mark_modified` -/
  marked : List String
  /-- for a mutator without key parameter (flush_db): it calls `mark_modified` for what it removes -/
  marksAll : Bool
deriving DecidableEq, Repr

/-- When does a successful call reach a path that (if the function marks at all) calls `mark_modified`?
    Read off the function bodies; validated cell by cell by the TCP matrix. -/
inductive Rule where
  /-- every successful call (set_value: SET of an equal value marks) -/
  | always
  /-- whenever the key exists with the right type, even if nothing changes (ZADD same score, HDEL of a
      missing field, LTRIM that keeps everything, INCRBY 0, APPEND "") — and when it creates the key -/
  | ifPresent
  /-- only when the call changed the entry -/
  | ifChanged
deriving DecidableEq, Repr

def touchRule (fn : String) : Option Rule :=
  -- `touch`: StorageEngine::touch, called by the consumer-group handlers after a mutation they made on the shared
  -- state of a stream (on a tree without it: the row the check supplies for those writes, marking nothing)
  if fn ∈ ["set_value", "set_string", "set_string_ex", "touch"] then some .always
  else if fn ∈ ["zadd", "zincrby", "hset", "hdel", "hincrby", "append", "incr_by", "incr", "ltrim", "lset",
                "lpush", "rpush", "xadd", "xadd_with_id", "setrange", "expire", "pexpire", "rename"] then some .ifPresent
  else if fn ∈ ["set_string_nx", "set_string_nx_ex", "delete", "lpop", "rpop", "lrem", "sadd", "srem", "spop",
                "zrem", "xdel", "xtrim", "persist", "get", "expiration_cleanup_loop"] then some .ifChanged
  else none

/-- The effect the model attributes to an observed call: `done` (the command performed the call and it
    returned Ok), `present` (the key existed before), `after` (entry afterwards, if it changed). -/
def effOf (r : Rule) (done present : Bool) (changed : Option (Option Entry)) : Eff :=
  if !done then .none
  else match changed with
    | some (some e) => .put e
    | some none => .del
    | none =>
      match r with
      | .always => .touch
      | .ifPresent => if present then .touch else .none
      | .ifChanged => .none

/-! ### Spec: what the property prescribes, evaluated next to the code model on the same events.
    A watch entry is a (database, key) pair with the logical value seen at WATCH time; it becomes
    `dirty` when an executed operation changes the entry, `touched` when a write ran on it and left it
    as it was.  Verdict at EXEC: changed (dirty, or the logical value differs from the snapshot — this
    is how a passed deadline shows) ⇒ must be nil; nothing ran on any watched key ⇒ must execute;
    only touched ⇒ the property leaves it open. -/

namespace Spec

structure SW where
  db : Nat
  key : Key
  snap : Option Nat
  dirty : Bool := false
  touched : Bool := false
deriving DecidableEq, Repr

abbrev SState := List (Nat × List SW)

/-- logical value: an entry whose deadline has passed is absent -/
def live (e : Option Entry) (now : Nat) : Option Nat :=
  match e with
  | some x => if x.expired now then none else some x.val
  | none => none

inductive Verdict where
  | mustNil | mustRun | open
deriving DecidableEq, Repr

def noteOp (s : State) (now : Nat) (d : Nat) (o : Op) (w : SW) : SW :=
  match o with
  | .key ko =>
    if w.db = d ∧ w.key = ko.key ∧ ko.eff.reaches then
      if live (ko.eff.result (s.entry d ko.key)) now = live (s.entry d ko.key) now ∧
         (ko.eff.result (s.entry d ko.key)).map (·.deadline) = (s.entry d ko.key).map (·.deadline)
      then { w with touched := true } else { w with dirty := true }
    else w
  | .flush all _ =>
    if (all ∨ w.db = d) ∧ (live (s.entry w.db w.key) now).isSome then { w with dirty := true } else w

/-- fold the executed operations of one step over every connection's entries (the data state advances
    with each operation) -/
def noteOps (s : State) (now : Nat) (ss : SState) : List (Nat × Op) → State × SState
  | [] => (s, ss)
  | (d, o) :: r =>
    noteOps (applyOp s d o) now (ss.map (fun p => (p.1, p.2.map (noteOp s now d o)))) r

def watchKeys (s : State) (now : Nat) (db : Nat) (ws : List SW) : List Key → List SW
  | [] => ws
  | k :: r =>
    if ws.any (fun w => decide (w.db = db) && decide (w.key = k)) then watchKeys s now db ws r
    else watchKeys s now db (ws ++ [{ db := db, key := k, snap := live (s.entry db k) now }]) r

def verdict (s : State) (now : Nat) (ws : List SW) : Verdict :=
  if ws.any (fun w => w.dirty || decide (live (s.entry w.db w.key) now ≠ w.snap)) then .mustNil
  else if ws.any (·.touched) then .open
  else .mustRun

/-- One event: returns the verdict for an EXEC that is inside MULTI (`none` otherwise). `s` is the code
    model's state BEFORE the event (its `data` mirrors what the implementation did), `q` the variant whose
    abort decision determines which operations ran. -/
def step (q : Q) (s : State) (now : Nat) (ss : SState) (ev : Ev) : SState × Option Verdict :=
  let ss1 := (noteOps s now ss (executed q s now ev)).2
  match ev with
  | .watch c keys =>
    let cn := s.conn c
    if keys.isEmpty || cn.inTx then (ss1, none)
    else (aset ss1 c (watchKeys s now cn.db (aget ss1 c []) keys), none)
  -- prescribed: UNWATCH between MULTI and EXEC is only queued; the watches guard the transaction until EXEC
  | .unwatch c => if (s.conn c).inTx then (ss1, none) else (aset ss1 c [], none)
  | .exec c _ =>
    if (s.conn c).inTx then (aset ss1 c [], some (verdict s now (aget ss c []))) else (ss1, none)
  | .discard c => if (s.conn c).inTx then (aset ss1 c [], none) else (ss1, none)
  | _ => (ss1, none)

end Spec

end Ferrous.Watch
