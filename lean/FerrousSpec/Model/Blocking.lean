/-
  Blocking list pops (`src/network/blocking.rs`, and in `src/network/server.rs`: `Server::run`,
  `process_wakeups` / `wake_client`, `process_blocked_timeouts`, `process_connection`,
  `handle_blpop` / `handle_brpop`, the LPUSH / RPUSH arms of `process_normal_command`,
  `handle_exec`, `cleanup_connections`) — import-free event machine.

  One `Event` = one phase of one iteration of `Server::run` acting on the blocking subsystem:

  * `wakeups`            `process_wakeups`: drain at most `wakeBatch` (= 32) requests, `wake_client` each;
  * `conn c now cmds`    `process_connection(c)` reading the batch `cmds` in ONE read: every frame is
                         executed to completion, in order (also the frames that follow a BLPOP that has
                         just blocked: the state is only looked at by `process_connections`, which skips
                         a blocked connection from the NEXT iteration on — unless `deferBatchWhenBlocked`);
                         after every handler the wake queue is drained (`drain`, with `wakeAtPush`);
  * `timeouts now`       `process_blocked_timeouts` with `Instant::now() = now`;
  * `hangup c`           the peer closes its socket (nothing happens inside the server);
  * `reap c`             `process_connection(c)` reads EOF and `cleanup_connections` drops the connection and
                         unregisters it from every registry — for a blocked `c` only when the hang-up probe of
                         `process_connections` exists (`noticeBlockedHangup`) and sees the end-of-file (`probeSees`);
  * `kill c`             `CLIENT KILL` of `c`, handled in the batch of another connection: `c` is `Closing` at once (not
                         blocked any more, nothing is written to it), but stays registered until `reap c`;
  * `hangupDirty c`      the peer writes bytes and then closes: while `c` is blocked nobody reads them, and a probe that
                         only peeks (`probeReadsInput` off) sees them instead of the end-of-file behind them; once `c` is
                         unblocked, `conn c now []` is the read that takes the bytes (the frames kept back for `c` are then
                         executed, `ghostRun`) and only the read after it finds the end-of-file (`reap c`).

  Representation choices (validated by the correspondence run, lib/c13.py):
  * the per-database `HashMap<key, VecDeque<BlockedClient>>` is ONE flat list of `(key, waiter)` in
    arrival order: the FIFO of a key is the sub-list of its entries (`push_back` = append, `pop_front`
    of key `k` = remove the first entry with key `k`, `retain` = filter);
  * the lists of the database are ONE flat list of `(key, element)`: the list stored at `k` is the
    sub-list of its entries (LPUSH = cons, RPUSH = append, LPOP / RPOP of `k` = remove the first / last
    entry with key `k`); the multiset of everything stored is then simply this list;
  * `get_expired_clients` + the loop of `process_blocked_timeouts` remove all expired entries and then
    answer each removed connection; here the expired entries are removed and answered one at a time
    (`expireOne`), which differs only in the order of replies to DIFFERENT connections (the real order
    is a hash-map iteration order);
  * time is an explicit input in milliseconds; a reply is the flat sequence of RESP values on the wire
    (`arrHdr n` is the `*n` line of an EXEC reply, followed by whatever the queued commands answered —
    nothing for a BLPOP that blocked, which is how the truncated EXEC array of the real server appears);
  * ghost fields `pushed` (every element ever pushed) and `lost` (elements popped from a list and not
    handed to a live client) are history variables used only in statements.

  `Quirks`: `true` = prescribed behaviour, `false` = what the tree did when the model was written (`Quirks.code`).
-/
import FerrousSpec.Model.Bytes
namespace Ferrous.Blk

abbrev Key := Bytes
abbrev Elem := Bytes
abbrev Conn := Nat

/-- `BlockingOp::BLPop` / `BRPop`; for a push `left` = LPUSH, for a pop `left` = LPOP. -/
inductive Op where
  | left
  | right
deriving DecidableEq, Repr

/-- `BlockedClient` (the `blocked_at` stamp is never read). -/
structure Waiter where
  conn : Conn
  deadline : Option Nat
  op : Op
deriving DecidableEq, Repr

/-- `WakeupRequest` (single database). -/
structure Wake where
  conn : Conn
  key : Key
  op : Op
deriving DecidableEq, Repr

/-- `BlockedState` inside `ConnectionState::Blocked`. -/
structure Blocked where
  keys : List Key
  deadline : Option Nat
  op : Op
deriving DecidableEq, Repr

inductive Cmd where
  /-- BLPOP / BRPOP keys… timeout (milliseconds; 0 = wait for ever). -/
  | bpop (op : Op) (keys : List Key) (timeout : Nat)
  /-- LPUSH / RPUSH key v… -/
  | push (op : Op) (key : Key) (vs : List Elem)
  /-- LPOP / RPOP key -/
  | pop (op : Op) (key : Key)
  | multi
  | exec
deriving DecidableEq, Repr

/-- One RESP value on the wire.  `bulk k v` is the bulk string `v` answering a pop of key `k`
    (`k` is an annotation); `pair k v` the two-element array of a served blocking pop; `nilArr` the
    null array of a timed-out one. -/
inductive Reply where
  | int (n : Nat)
  | bulk (k : Key) (v : Elem)
  | nil
  | pair (k : Key) (v : Elem)
  | nilArr
  | ok
  | queued
  | err
  | arrHdr (n : Nat)
deriving DecidableEq, Repr

/-- The list element a reply hands to the client, if any. -/
def Reply.elem? : Reply → Option (Key × Elem)
  | .bulk k v => some (k, v)
  | .pair k v => some (k, v)
  | _ => none

structure ConnSt where
  blocked : Option Blocked := none
  inTx : Bool := false
  queue : List Cmd := []
  /-- frames read but not yet executed (only with `deferBatchWhenBlocked`) -/
  pending : List Cmd := []
  /-- the peer has closed its socket -/
  peerClosed : Bool := false
  /-- removed from the connection table -/
  gone : Bool := false
  /-- bytes the peer sent while the client was blocked sit unread in the socket (in front of the end-of-file,
      if the peer has closed since) -/
  unread : Bool := false

/-- Switches between what the code does (`false`) and the prescribed behaviour (`true`). -/
structure Quirks where
  /-- LPUSH / RPUSH call `notify_key_ready` once per pushed element (code: once per command). -/
  notifyPerElement : Bool
  /-- the push arm drains the wake queue (`process_wakeups`) right after `notify_key_ready`, before the
      next command of the batch can touch the list (code: the request waits for the next loop iteration,
      and a wake-up that then finds the list empty drops the client from the registry for good). -/
  wakeAtPush : Bool
  /-- a served client is unregistered from all its keys (code: only popped from the notified key). -/
  unregisterAllOnServe : Bool
  /-- a blocking pop executed by EXEC that finds nothing answers the null array at once
      (code: registers connection id 0 and answers nothing). -/
  refuseBlockingInTx : Bool
  /-- a key named twice in one BLPOP/BRPOP is waited on once (code: registered twice, so that one push of
      two elements wakes the same client twice and the second element is popped for nobody). -/
  dedupKeys : Bool
  /-- `process_normal_command` drains the wake queue until it is empty (code: one `process_wakeups` call, at most
      `wakeBatch` requests; the rest waits for the next command, which may pop their elements first). -/
  drainAll : Bool
  /-- `process_connections` also probes blocked connections for end-of-file, so a blocked client that hung up
      is cleaned up (code: a blocked connection is never read; its hang-up goes unnoticed). -/
  noticeBlockedHangup : Bool
  /-- the frames of a batch that follow a blocking pop that blocked are kept and executed when the client is
      unblocked (code: they are executed at once, while the client is blocked). -/
  deferBatchWhenBlocked : Bool
  /-- the commands run by EXEC neither notify nor wake anybody; once `handle_exec` has finished, every key they
      pushed to is served while it has both waiters and elements (code: blocked clients are woken after EACH queued
      command, so a transaction's later commands see the list after a blocked client took its element). -/
  execAtomic : Bool
  /-- `wake_client` looks at the connection BEFORE popping: a request for a client that is gone, closing or no
      longer blocked on that key is dropped, the element stays in the list and the next waiter is notified; a
      client that is blocked on the key but whose peer has closed (a peek at the socket) is dropped like the
      hang-up probe drops it; and that probe unregisters a vanished blocked client at once, not at the end of the
      loop iteration
      (code: the element is popped first and dropped when the client turns out not to be blocked). -/
  wakeChecksClient : Bool
  /-- each round of `serve_key` carries out ALL queued wake-up requests, so none is left behind when the head waiter
      of the key turns out to be stale and `wake_client` queues a request for the next one
      (code: one `process_wakeups` call per round; the round after it ends the loop because the next waiter has
      already left the registry, and its request stays queued until the next command drains it — inside a later
      EXEC if that is what comes next). -/
  serveDrains : Bool
  /-- the hang-up probe of a blocked connection (`Connection::peer_closed`, also used by `wake_client`) takes what
      the peer sent off the socket, so that it sees the end-of-file behind it
      (code: a one-byte `peek`, which answers "still there" as long as any unread byte is in front of the FIN). -/
  probeReadsInput : Bool
deriving DecidableEq, Repr

/-- The tree before the first blocking repair.  What the tree does on a given run is read from the source by the
    translator (Gen/Blocking.lean) and confirmed over TCP by lib/c13.py. -/
def Quirks.code : Quirks := ⟨false, false, false, false, false, false, false, false, false, false, false, false⟩
def Quirks.fixed : Quirks := ⟨true, true, true, true, true, true, true, true, true, true, true, true⟩

structure State where
  store : List (Key × Elem) := []
  registry : List (Key × Waiter) := []
  wakeQ : List Wake := []
  conns : Conn → ConnSt := fun _ => {}
  /-- every value written to a live client, in order -/
  out : List (Conn × Reply) := []
  pushed : List (Key × Elem) := []
  lost : List (Key × Elem) := []

def init : State := {}

/-- `process_wakeups` drains at most this many requests per loop iteration (blocking.rs:253). -/
def wakeBatch : Nat := 32

/-! ## List primitives -/

/-- Remove the first element satisfying `p`. -/
def popFirst {α : Type} (p : α → Bool) : List α → Option (α × List α)
  | [] => none
  | x :: r =>
    if p x then some (x, r)
    else match popFirst p r with
      | none => none
      | some (y, r') => some (y, x :: r')

/-- Remove the last element satisfying `p`. -/
def popLast {α : Type} (p : α → Bool) (l : List α) : Option (α × List α) :=
  match popFirst p l.reverse with
  | none => none
  | some (y, r) => some (y, r.reverse)

def keyIs {α : Type} (k : Key) (e : Key × α) : Bool := e.1 == k

/-- `storage.lpop` / `storage.rpop` on the flat store. -/
def popElem (op : Op) (k : Key) (st : List (Key × Elem)) : Option ((Key × Elem) × List (Key × Elem)) :=
  match op with
  | .left => popFirst (keyIs k) st
  | .right => popLast (keyIs k) st

/-- `storage.lpush` / `storage.rpush` of `vs` in argument order. -/
def pushElems (op : Op) (k : Key) (vs : List Elem) (st : List (Key × Elem)) : List (Key × Elem) :=
  match op with
  | .left => (vs.reverse.map fun v => (k, v)) ++ st
  | .right => st ++ vs.map fun v => (k, v)

/-- The list stored at `k`, head first. -/
def listOf (st : List (Key × Elem)) (k : Key) : List Elem := (st.filter (keyIs k)).map (·.2)

/-- The fast path of `handle_blpop`: the first key, in argument order, that has an element. -/
def firstNonEmpty (op : Op) (st : List (Key × Elem)) : List Key → Option ((Key × Elem) × List (Key × Elem))
  | [] => none
  | k :: ks =>
    match popElem op k st with
    | some r => some r
    | none => firstNonEmpty op st ks

/-! ## State primitives -/

def setConn (s : State) (c : Conn) (f : ConnSt → ConnSt) : State :=
  { s with conns := fun c' => if c' = c then f (s.conns c') else s.conns c' }

/-- `with_connection(cid, |conn| conn.state = …)`: connection id 0 does not exist. -/
def setBlocked (s : State) (cid : Conn) (b : Option Blocked) : State :=
  if cid = 0 then s else setConn s cid fun cs => { cs with blocked := b }

/-- `send_frame` to connection `c`: a value written to a socket whose peer has gone is lost. -/
def emit (s : State) (c : Conn) (r : Reply) : State :=
  if (s.conns c).peerClosed then
    match r.elem? with
    | some e => { s with lost := s.lost ++ [e] }
    | none => s
  else { s with out := s.out ++ [(c, r)] }

/-- `is the connection in the table and blocked?` (`with_connection` + `if let Blocked(_) = conn.state`). -/
def isBlockedLive (s : State) (c : Conn) : Bool :=
  c != 0 && !(s.conns c).gone && (s.conns c).blocked.isSome

/-- `notify_key_ready`: pop the first waiter of the key, queue one wake-up request for it. -/
def notify (k : Key) (s : State) : State :=
  match popFirst (keyIs k) s.registry with
  | none => s
  | some (e, reg') => { s with registry := reg', wakeQ := s.wakeQ ++ [{ conn := e.2.conn, key := k, op := e.2.op }] }

def notifyN : Nat → Key → State → State
  | 0, _, s => s
  | n+1, k, s => notifyN n k (notify k s)

/-- Is the connection named by a wake-up request in the table and blocked on the request's key? -/
def wakeTargetOk (s : State) (w : Wake) : Bool :=
  isBlockedLive s w.conn &&
    match (s.conns w.conn).blocked with
    | some b => b.keys.contains w.key
    | none => false

/-- `Connection::peer_closed` on a blocked connection: does the server's look at the socket show the hang-up? -/
def probeSees (q : Quirks) (s : State) (c : Conn) : Bool :=
  (s.conns c).peerClosed && (q.probeReadsInput || !(s.conns c).unread)

/-- `wake_client` for the request at the head of the wake queue. -/
def wakeOne (q : Quirks) (s : State) : State :=
  match s.wakeQ with
  | [] => s
  | w :: rest =>
    let s0 : State := { s with wakeQ := rest }
    if q.wakeChecksClient = true ∧ wakeTargetOk s0 w = false then
      (if s0.store.any (keyIs w.key) then notify w.key s0 else s0)
    else if q.wakeChecksClient = true ∧ probeSees q s0 w.conn = true then
      -- blocked on the key, but a look at the socket shows that the peer has gone: the client is dropped as the
      -- hang-up probe would drop it (closing, unregistered everywhere), the element stays, the next waiter's turn
      let s1 : State := { (setBlocked s0 w.conn none) with
        registry := (setBlocked s0 w.conn none).registry.filter fun x => x.2.conn != w.conn }
      (if s1.store.any (keyIs w.key) then notify w.key s1 else s1)
    else
    match popElem w.op w.key s0.store with
    | none => s0
    | some (e, st') =>
      let s1 : State := { s0 with store := st' }
      if isBlockedLive s1 w.conn = true then
        let s2 := setBlocked (emit s1 w.conn (.pair e.1 e.2)) w.conn none
        if q.unregisterAllOnServe = true then { s2 with registry := s2.registry.filter fun x => x.2.conn != w.conn }
        else s2
      else { s1 with lost := s1.lost ++ [e] }

def iter {α : Type} (f : α → α) : Nat → α → α
  | 0, a => a
  | n+1, a => iter f n (f a)

/-- First occurrences only (`keys.retain(|k| seen.insert(k.clone()))`). -/
def dedupL : List Key → List Key
  | [] => []
  | k :: ks => k :: (dedupL ks).filter fun x => x != k

/-- The keys a blocking pop registers on. -/
def regKeys (q : Quirks) (keys : List Key) : List Key := if q.dedupKeys = true then dedupL keys else keys

/-- `serve_key`: while the key has both a waiter and an element, notify the head waiter and carry the wake-up out
    (one `process_wakeups` call; with `serveDrains`, calls until the queue is empty). -/
def serveKey (q : Quirks) (k : Key) : Nat → State → State
  | 0, s => s
  | n+1, s =>
    if s.registry.any (keyIs k) && s.store.any (keyIs k) then
      serveKey q k n
        (if q.serveDrains = true then iter (wakeOne q) ((notify k s).wakeQ.length + (notify k s).registry.length) (notify k s)
         else wakeOne q (notify k s))
    else s

/-- The keys the queued commands push to, in order. -/
def pushKeys : List Cmd → List Key
  | [] => []
  | .push _ k _ :: r => k :: pushKeys r
  | _ :: r => pushKeys r

def serveKeys (q : Quirks) (ks : List Key) (s : State) : State :=
  ks.foldl (fun s k => serveKey q k s.registry.length s) s

/-- The `if has_pending_wakeups() { process_wakeups() }` at the end of `process_normal_command`. -/
def drain (q : Quirks) (s : State) : State :=
  if q.wakeAtPush = true then iter (wakeOne q) (if q.drainAll = true then s.wakeQ.length + s.registry.length else wakeBatch) s else s

/-- LPUSH/RPUSH/LPOP/RPOP/BLPOP/BRPOP executed for the client on wire connection `c`; `cid` is the
    connection id the handler receives: `c` itself, or 0 when called from `handle_exec`. -/
def dataCore (q : Quirks) (now : Nat) (c cid : Conn) (s : State) : Cmd → State
  | .push op k vs =>
    if vs.isEmpty then emit s c .err
    else
      let st' := pushElems op k vs s.store
      let s1 : State := { s with store := st', pushed := s.pushed ++ vs.map fun v => (k, v) }
      let s2 := emit s1 c (.int (listOf st' k).length)
      if q.execAtomic = true ∧ cid = 0 then s2
      else notifyN (if q.notifyPerElement then vs.length else 1) k s2
  | .pop op k =>
    match popElem op k s.store with
    | some (e, st') => emit { s with store := st' } c (.bulk e.1 e.2)
    | none => emit s c .nil
  | .bpop op keys t =>
    if keys.isEmpty then emit s c .err
    else
      match firstNonEmpty op s.store keys with
      | some (e, st') => emit { s with store := st' } c (.pair e.1 e.2)
      | none =>
        if cid = 0 ∧ q.refuseBlockingInTx = true then emit s c .nilArr
        else
          let dl : Option Nat := if t = 0 then none else some (now + t)
          let w : Waiter := { conn := cid, deadline := dl, op := op }
          setBlocked { s with registry := s.registry ++ (regKeys q keys).map fun k => (k, w) } cid
            (some { keys := regKeys q keys, deadline := dl, op := op })
  | .multi => s
  | .exec => s

/-- The handler, then the wake-ups it (or an earlier command) requested.  The drain at the end of
    `process_normal_command` also runs for a command executed by EXEC (`cid = 0`): with `execAtomic` such a command
    requests no wake-up itself, but a request left in the queue by an earlier command is carried out here. -/
def dataCmd (q : Quirks) (now : Nat) (c cid : Conn) (s : State) (cmd : Cmd) : State :=
  drain q (dataCore q now c cid s cmd)

/-- One frame of the batch (`process_frame`): MULTI / EXEC, queueing inside a transaction, else the handler. -/
def topCmd (q : Quirks) (now : Nat) (c : Conn) (s : State) : Cmd → State
  | .multi =>
    if (s.conns c).inTx then emit s c .err
    else emit (setConn s c fun cs => { cs with inTx := true, queue := [] }) c .ok
  | .exec =>
    if (s.conns c).inTx then
      let cmds := (s.conns c).queue
      let s1 := emit (setConn s c fun cs => { cs with inTx := false, queue := [] }) c (.arrHdr cmds.length)
      let s2 := cmds.foldl (dataCmd q now c 0) s1
      if q.execAtomic = true then serveKeys q (pushKeys cmds) s2 else s2
    else emit s c .err
  | cmd =>
    if (s.conns c).inTx then emit (setConn s c fun cs => { cs with queue := cs.queue ++ [cmd] }) c .queued
    else dataCmd q now c c s cmd

def isExpired (now : Nat) (e : Key × Waiter) : Bool :=
  match e.2.deadline with
  | some d => decide (d ≤ now)
  | none => false

/-- The loop body of `process_blocked_timeouts` for one expired connection id. -/
def timeoutConn (s : State) (c : Conn) : State :=
  if isBlockedLive s c = true then setBlocked (emit s c .nilArr) c none else s

/-- Remove one expired registry entry and answer its connection. -/
def expireOne (now : Nat) (s : State) : State :=
  match popFirst (isExpired now) s.registry with
  | none => s
  | some (e, reg') => timeoutConn { s with registry := reg' } e.2.conn

inductive Event where
  | wakeups
  | conn (c : Conn) (now : Nat) (cmds : List Cmd)
  | timeouts (now : Nat)
  | hangup (c : Conn)
  | reap (c : Conn)
  /-- `CLIENT KILL` of `c` handled in this iteration (`close_connection`: the state becomes `Closing`; the
      connection leaves the table, and the registries, in `cleanup_connections` at the END of the iteration — `reap c`) -/
  | kill (c : Conn)
  /-- the peer writes bytes and then closes; while the client is blocked the server does not read them -/
  | hangupDirty (c : Conn)
deriving DecidableEq, Repr

/-- Can `process_connections` run the batch: the connection exists, its peer is there, it is not blocked. -/
def canRun (s : State) (c : Conn) : Bool :=
  c != 0 && !(s.conns c).gone && !(s.conns c).peerClosed && (s.conns c).blocked.isNone

/-- The peer has closed behind bytes the server has not read yet, and the client is not blocked (any more): the next
    `process_connection` reads those bytes — not yet the end-of-file behind them — so the frames kept back for this
    client are executed, their replies going nowhere, before the server learns that it has gone. -/
def ghostRun (s : State) (c : Conn) : Bool :=
  c != 0 && !(s.conns c).gone && (s.conns c).peerClosed && (s.conns c).unread && (s.conns c).blocked.isNone

/-- The frames of one read, in order; with `deferBatchWhenBlocked` the rest is kept once the client is blocked. -/
def runBatch (q : Quirks) (now : Nat) (c : Conn) : List Cmd → State → State
  | [], s => s
  | cmd :: r, s =>
    let s' := topCmd q now c s cmd
    if q.deferBatchWhenBlocked = true ∧ (s'.conns c).blocked.isSome = true then
      setConn s' c fun cs => { cs with pending := r }
    else runBatch q now c r s'

def step (q : Quirks) (s : State) : Event → State
  | .wakeups => iter (wakeOne q) wakeBatch s
  | .conn c now cmds =>
    if canRun s c = true then
      runBatch q now c ((s.conns c).pending ++ cmds) (setConn s c fun cs => { cs with pending := [] })
    else if ghostRun s c = true then
      runBatch q now c (s.conns c).pending (setConn s c fun cs => { cs with pending := [], unread := false })
    else s
  | .timeouts now => iter (expireOne now) s.registry.length s
  | .hangup c =>
    if c != 0 && !(s.conns c).gone then setConn s c fun cs => { cs with peerClosed := true } else s
  | .reap c =>
    if c != 0 && !(s.conns c).gone && (s.conns c).peerClosed &&
        (((s.conns c).blocked.isNone && !(s.conns c).unread) || (q.noticeBlockedHangup && probeSees q s c)) then
      let s1 := setConn s c fun cs => { cs with gone := true, blocked := none }
      { s1 with registry := s1.registry.filter fun x => x.2.conn != c }
    else s
  | .kill c =>
    if c != 0 && !(s.conns c).gone then setConn s c fun cs => { cs with blocked := none, peerClosed := true } else s
  | .hangupDirty c =>
    if c != 0 && !(s.conns c).gone then
      setConn s c fun cs => { cs with peerClosed := true, unread := cs.unread || cs.blocked.isSome }
    else s

def runFrom (q : Quirks) (s : State) (evs : List Event) : State := evs.foldl (step q) s
def run (q : Quirks) (evs : List Event) : State := runFrom q init evs

/-! ## Observables used by the statements -/

/-- Everything handed to live clients. -/
def delivered (s : State) : List (Key × Elem) := s.out.filterMap fun x => x.2.elem?

/-- Reply stream of one client. -/
def outOf (s : State) (c : Conn) : List Reply := (s.out.filter fun x => x.1 == c).map (·.2)

def blockedOn (s : State) (c : Conn) (k : Key) : Prop :=
  ∃ b, (s.conns c).blocked = some b ∧ k ∈ b.keys

def inRegistry (s : State) (k : Key) (c : Conn) : Prop :=
  ∃ w, (k, w) ∈ s.registry ∧ w.conn = c

/-- The service line of key `k`: clients with a wake-up for `k` under way, then its registered waiters. -/
def lineOf (s : State) (k : Key) : List Conn :=
  ((s.wakeQ.filter fun w => w.key == k).map (·.conn)) ++ ((s.registry.filter (keyIs k)).map (·.2.conn))

/-! ## The decidable exclusion of the `_partial` theorems -/

def noWakeFor (s : State) (k : Key) : Bool := s.wakeQ.all fun w => w.key != k

/-- * a blocking pop waits on exactly one key, is not executed by EXEC (`cid = 0`), is not issued by a
      connection that is already blocked (pipelined behind another blocking pop), and — like every pop —
    * a pop does not touch a key for which a wake-up request is still queued
      (the element is spoken for: the pipelined / same-iteration `LPUSH k x; LPOP k`);
    * a push carries exactly one element. -/
def dataOk (s : State) (cid : Conn) : Cmd → Bool
  | .bpop _ keys _ => cid != 0 && keys.length == 1 && (s.conns cid).blocked.isNone && keys.all (noWakeFor s)
  | .push _ _ vs => vs.length == 1
  | .pop _ k => noWakeFor s k
  | _ => true

def dataSeqOk (q : Quirks) (now : Nat) (c cid : Conn) : State → List Cmd → Bool
  | _, [] => true
  | s, cmd :: r => dataOk s cid cmd && dataSeqOk q now c cid (dataCmd q now c cid s cmd) r

def topOk (q : Quirks) (now : Nat) (c : Conn) (s : State) : Cmd → Bool
  | .multi => true
  | .exec =>
    if (s.conns c).inTx then
      dataSeqOk q now c 0
        (emit (setConn s c fun cs => { cs with inTx := false, queue := [] }) c (.arrHdr (s.conns c).queue.length))
        (s.conns c).queue
    else true
  | cmd => if (s.conns c).inTx then true else dataOk s c cmd

def batchOk (q : Quirks) (now : Nat) (c : Conn) : List Cmd → State → Bool
  | [], _ => true
  | cmd :: r, s =>
    topOk q now c s cmd &&
      (if q.deferBatchWhenBlocked = true ∧ ((topCmd q now c s cmd).conns c).blocked.isSome = true then true
       else batchOk q now c r (topCmd q now c s cmd))

/-- No disconnect (hang-up or CLIENT KILL) while blocked; batches as above. -/
def eventOk (q : Quirks) (s : State) : Event → Bool
  | .conn c now cmds =>
    if canRun s c = true then
      batchOk q now c ((s.conns c).pending ++ cmds) (setConn s c fun cs => { cs with pending := [] })
    else !ghostRun s c
  | .hangup c => (s.conns c).blocked.isNone
  | .kill c => (s.conns c).blocked.isNone
  | .hangupDirty c => (s.conns c).blocked.isNone
  | _ => true

def allowedFrom (q : Quirks) : State → List Event → Bool
  | _, [] => true
  | s, e :: r => eventOk q s e && allowedFrom q (step q s e) r

/-- The histories covered by the `_partial` theorems. -/
def Allowed (q : Quirks) (evs : List Event) : Prop := allowedFrom q init evs = true

instance (q : Quirks) (evs : List Event) : Decidable (Allowed q evs) := by unfold Allowed; infer_instance

/-! ## The exclusion that is left once the repairs are in (`_fixed_partial` theorems) -/

/-- The five repairs that have landed: one notification per pushed element, wake-ups carried out right after the
    command that requested them, a served client unregistered everywhere, no blocking inside EXEC, a key named
    twice waited on once. -/
def Repaired (q : Quirks) : Prop :=
  q.notifyPerElement = true ∧ q.wakeAtPush = true ∧ q.unregisterAllOnServe = true ∧
  q.refuseBlockingInTx = true ∧ q.dedupKeys = true

instance (q : Quirks) : Decidable (Repaired q) := by unfold Repaired; infer_instance

/-- * a blocking pop is not executed on behalf of a connection that is already blocked (a second blocking pop
      pipelined behind one that blocked: the second call is never answered) — cannot occur with `deferBatchWhenBlocked`;
    * a push carries at most `wakeBatch` elements (the drain after a command carries out one batch of wake-ups;
      the 33rd waiter's element can be popped by the next command before its turn) — dropped with `drainAll`.
    Any number of keys per blocking pop, duplicates included, any number of elements up to that bound, pops
    anywhere. -/
def dataOkF (q : Quirks) (s : State) (cid : Conn) : Cmd → Bool
  | .bpop _ _ _ => cid == 0 || (s.conns cid).blocked.isNone
  | .push _ _ vs => q.drainAll || decide (vs.length ≤ wakeBatch)
  | _ => true

def dataSeqOkF (q : Quirks) (now : Nat) (c cid : Conn) : State → List Cmd → Bool
  | _, [] => true
  | s, cmd :: r => dataOkF q s cid cmd && dataSeqOkF q now c cid (dataCmd q now c cid s cmd) r

def topOkF (q : Quirks) (now : Nat) (c : Conn) (s : State) : Cmd → Bool
  | .multi => true
  | .exec =>
    if (s.conns c).inTx then
      dataSeqOkF q now c 0
        (emit (setConn s c fun cs => { cs with inTx := false, queue := [] }) c (.arrHdr (s.conns c).queue.length))
        (s.conns c).queue
    else true
  | cmd => if (s.conns c).inTx then true else dataOkF q s c cmd

def batchOkF (q : Quirks) (now : Nat) (c : Conn) : List Cmd → State → Bool
  | [], _ => true
  | cmd :: r, s =>
    topOkF q now c s cmd &&
      (if q.deferBatchWhenBlocked = true ∧ ((topCmd q now c s cmd).conns c).blocked.isSome = true then true
       else batchOkF q now c r (topCmd q now c s cmd))

/-- Has the server looked at the socket of every blocked client whose peer has gone?  (No registry entry names a
    connection that is still blocked although its peer has closed.) -/
def calmReg (s : State) : Bool :=
  s.registry.all fun e => !((s.conns e.2.conn).peerClosed && (s.conns e.2.conn).blocked.isSome)

/-- * A blocked client may hang up only when the server probes blocked sockets and unregisters a vanished client at
      once (`noticeBlockedHangup`, `wakeChecksClient`), and then no batch is processed between the hang-up and that
      probe (`reap`) — this window is all that stays excluded (with `wakeChecksClient` the machine conserves there too,
      `wake_client` peeking at the socket first, but the proof's invariant assumes calm batches);
    * behind bytes it has written (`hangupDirty`) only when that probe also reads the pending input (`probeReadsInput`);
    * a blocked client is not killed (`kill`): between the CLIENT KILL and the end of that loop iteration it is registered
      without being blocked, which the invariant (`registry ↔ blocked`) does not allow — what the machine does in that
      window is covered by the statements that hold for EVERY history (accounting, FIFO, `wake_queue_empty_always`,
      `exec_atomic_holds`) and by the witnesses of Props/C13.lean;
    * no frames are executed on behalf of a client that has gone (`ghostRun`: unblocked by a time-out or a wake-up between
      its `hangupDirty` and the server's next look at its socket);
    * batches as above. -/
def eventOkF (q : Quirks) (s : State) : Event → Bool
  | .conn c now cmds =>
    calmReg s &&
    (if canRun s c = true then
      batchOkF q now c ((s.conns c).pending ++ cmds) (setConn s c fun cs => { cs with pending := [] })
    else !ghostRun s c)
  | .hangup c => (s.conns c).blocked.isNone || (q.noticeBlockedHangup && q.wakeChecksClient)
  | .kill c => (s.conns c).blocked.isNone
  | .hangupDirty c => (s.conns c).blocked.isNone || (q.noticeBlockedHangup && q.wakeChecksClient && q.probeReadsInput)
  | _ => true

def allowedFixedFrom (q : Quirks) : State → List Event → Bool
  | _, [] => true
  | s, e :: r => eventOkF q s e && allowedFixedFrom q (step q s e) r

/-- The histories covered by the `_fixed_partial` theorems. -/
def AllowedFixed (q : Quirks) (evs : List Event) : Prop := allowedFixedFrom q init evs = true

instance (q : Quirks) (evs : List Event) : Decidable (AllowedFixed q evs) := by unfold AllowedFixed; infer_instance

end Ferrous.Blk
