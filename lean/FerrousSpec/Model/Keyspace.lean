/-
  The key-space machine: strings, generic key commands, lists, sets, hashes, TTLs.

  `step q …` is ONE transliteration parameterised by a record of quirk switches `q`:
  `Quirks.spec` (all switches off) is the Redis reference semantics the properties
  prescribe (C01, C03, C02's visibility rule); the switches reproduce, one by one, the
  places where the code deviates.  The correspondence run executes `step Gen/pinned quirks`
  against the real server; theorems are proved about `step Quirks.spec` and relate the two.

  Import-free apart from Model/Bytes and Model/Resp (for the reply type `Frame`).
-/
import FerrousSpec.Model.Resp
namespace Ferrous.KS
open Ferrous

/-! ### Values and databases -/

inductive Val where
  | str (b : Bytes)
  | list (xs : List Bytes)
  | set (xs : List Bytes)                 -- no duplicates (invariant, proved)
  | hash (fs : List (Bytes × Bytes))      -- no duplicate fields (invariant, proved)
  | zset (zs : List (Bytes × Bytes))      -- opaque to this machine: (member, score text) as created by the set-up command
  | stream (n : Nat)                      -- opaque: number of entries created by the set-up command
  deriving Repr, DecidableEq

structure Entry where
  val : Val
  deadline : Option Nat      -- absolute milliseconds on the harness clock
  deriving Repr, DecidableEq

abbrev Db := List (Bytes × Entry)        -- association list, keys unique (invariant, proved)
abbrev Store := List Db                  -- 16 databases

def emptyStore : Store := List.replicate 16 []

/-- Switches for the places where the code deviates from the reference semantics.
    `false` everywhere = the specification. Each switch is documented at its use site. -/
structure Quirks where
  /-- (C02) the code tests a key's deadline only in GET/EXISTS/SET NX/TTL/SCAN; every other command sees an
      expired entry until the sweeper removes it.  `true` = the entry stays visible to those commands. -/
  lateExpiryVisible : Bool := false
  deriving Repr, DecidableEq

def Quirks.spec : Quirks := {}

/-! ### Association-list helpers -/

def lookup (db : Db) (k : Bytes) : Option Entry :=
  match db with
  | [] => none
  | (k', e) :: t => if k' = k then some e else lookup t k

def erase (db : Db) (k : Bytes) : Db :=
  match db with
  | [] => []
  | (k', e) :: t => if k' = k then t else (k', e) :: erase t k

def insert (db : Db) (k : Bytes) (e : Entry) : Db :=
  match db with
  | [] => [(k, e)]
  | (k', e') :: t => if k' = k then (k, e) :: t else (k', e') :: insert t k e

def alive (now : Nat) (e : Entry) : Bool :=
  match e.deadline with
  | none => true
  | some d => now < d

/-- What every command sees: entries whose deadline has passed are absent. -/
def purge (now : Nat) (db : Db) : Db := db.filter fun p => alive now p.2

/-! ### Replies -/

def ok : Frame := .simple [79, 75]
def err : Frame := .error [69, 82, 82]                 -- wording is never compared
def wrongType : Frame := .error [87, 82, 79, 78, 71, 84, 89, 80, 69]
def nil : Frame := .nullBulk
def int (n : Int) : Frame := .int n
def nat (n : Nat) : Frame := .int (n : Int)
def bulk (b : Bytes) : Frame := .bulk b
def bulks (bs : List Bytes) : Frame := .array (bs.map .bulk)

/-! ### Text helpers -/

def upper (b : Nat) : Nat := if 97 ≤ b ∧ b ≤ 122 then b - 32 else b
def upperBytes (s : Bytes) : Bytes := s.map upper

/-- lexicographic order on byte strings -/
def bytesLt : Bytes → Bytes → Bool
  | [], [] => false
  | [], _ :: _ => true
  | _ :: _, [] => false
  | a :: s, b :: t => if a < b then true else if b < a then false else bytesLt s t

def insertSorted (x : Bytes) : List Bytes → List Bytes
  | [] => [x]
  | y :: t => if bytesLt y x then y :: insertSorted x t else x :: y :: t

def sortBytes (l : List Bytes) : List Bytes := l.foldr insertSorted []

def insertSortedBy {α : Type} (key : α → Bytes) (x : α) : List α → List α
  | [] => [x]
  | y :: t => if bytesLt (key y) (key x) then y :: insertSortedBy key x t else x :: y :: t

def sortBy {α : Type} (key : α → Bytes) (l : List α) : List α := l.foldr (insertSortedBy key) []

/-! ### Glob matching on bytes (Redis `stringmatchlen`: `*`, `?`, `[...]` with ranges and `^`, `\x`) -/

/-- Parse a bracket class starting after `[`; returns (negated, items, rest-after-`]`);
    an item is (lo, hi). An unterminated class matches up to the end of the pattern. -/
def classItems : Nat → Bytes → List (Nat × Nat) → List (Nat × Nat) × Bytes
  | 0, p, acc => (acc, p)
  | _, [], acc => (acc, [])
  | _, 93 :: r, acc => (acc, r)
  | f+1, 92 :: c :: r, acc => classItems f r ((c, c) :: acc)
  | f+1, a :: 45 :: b :: r, acc => classItems f r ((min a b, max a b) :: acc)   -- also `a-]`: a range, as in Redis
  | f+1, a :: r, acc => classItems f r ((a, a) :: acc)

def globF : Nat → Bytes → Bytes → Bool
  | 0, _, _ => false
  | _, [], s => s.isEmpty
  | f+1, 42 :: p, s =>
      -- `*`: matches any suffix split
      if globF f p s then true
      else match s with
        | [] => false
        | _ :: t => globF f (42 :: p) t
  | f+1, 63 :: p, s => match s with
      | [] => false
      | _ :: t => globF f p t
  | f+1, 91 :: p, s => match s with
      | [] => false
      | c :: t =>
        let (neg, p1) := match p with
          | 94 :: r => (true, r)
          | _ => (false, p)
        let (items, rest) := classItems (p1.length + 1) p1 []
        let hit := items.any fun (lo, hi) => lo ≤ c && c ≤ hi
        if hit != neg then globF f rest t else false
  | f+1, 92 :: c :: p, s => match s with
      | [] => false
      | d :: t => if c = d then globF f p t else false
  | f+1, c :: p, s => match s with
      | [] => false
      | d :: t => if c = d then globF f p t else false

def glob (p s : Bytes) : Bool := globF (2 * (p.length + s.length) + 2) p s

/-! ### Index arithmetic (reference semantics) -/

/-- GETRANGE: the selected `[start, end]` (inclusive) on a string of length `len`, or `none` for the empty result. -/
def getrangeSel (len : Nat) (s e : Int) : Option (Nat × Nat) :=
  if s < 0 ∧ e < 0 ∧ s > e then none else
  let s1 := if s < 0 then (len : Int) + s else s
  let e1 := if e < 0 then (len : Int) + e else e
  let s2 := if s1 < 0 then 0 else s1
  let e2 := if e1 < 0 then 0 else e1
  let e3 := if e2 ≥ (len : Int) then (len : Int) - 1 else e2
  if len = 0 ∨ s2 > e3 then none else some (s2.toNat, e3.toNat)

/-- LRANGE / LTRIM: the selected `[start, stop]` (inclusive) on a list of length `len`, or `none` for empty. -/
def lrangeSel (len : Nat) (s e : Int) : Option (Nat × Nat) :=
  let s1 := if s < 0 then (len : Int) + s else s
  let e1 := if e < 0 then (len : Int) + e else e
  let s2 := if s1 < 0 then 0 else s1
  if s2 > e1 ∨ s2 ≥ (len : Int) then none else
  let e2 := if e1 ≥ (len : Int) then (len : Int) - 1 else e1
  some (s2.toNat, e2.toNat)

def slice {α : Type} (l : List α) (sel : Option (Nat × Nat)) : List α :=
  match sel with
  | none => []
  | some (a, b) => (l.drop a).take (b + 1 - a)

def normIndex (len : Nat) (i : Int) : Option Nat :=
  let j := if i < 0 then (len : Int) + i else i
  if j < 0 ∨ j ≥ (len : Int) then none else some j.toNat

/-! ### Per-command semantics on one database (already purged)

`args` are the arguments after the command name. Every function returns the new database and
the reply; a refused command returns the database it was given. -/

def mkStr (b : Bytes) : Entry := { val := .str b, deadline := none }

def parseInt (b : Bytes) : Option Int := parseI64 b

/-- remove the key when a collection became empty -/
def putColl (db : Db) (k : Bytes) (old : Entry) (v : Val) : Db :=
  let empty := match v with
    | .list [] => true
    | .set [] => true
    | .hash [] => true
    | _ => false
  if empty then erase db k else insert db k { old with val := v }

inductive SetCond | always | nx | xx deriving DecidableEq

structure SetOpts where
  cond : SetCond := .always
  ttlMs : Option Nat := none
  hasNx : Bool := false
  hasXx : Bool := false

/-- SET option parser: `NX`/`XX` (mutually exclusive), `EX s`/`PX ms` (positive, at most one). -/
def parseSetOpts : Nat → List Bytes → SetOpts → Option SetOpts
  | 0, _, _ => none
  | _, [], o => if o.hasNx && o.hasXx then none else some o
  | f+1, a :: r, o =>
    let u := upperBytes a
    if u = [78, 88] then parseSetOpts f r { o with hasNx := true, cond := .nx }
    else if u = [88, 88] then parseSetOpts f r { o with hasXx := true, cond := .xx }
    else if u = [69, 88] ∨ u = [80, 88] then
      match r with
      | [] => none
      | n :: r' =>
        if o.ttlMs.isSome then none else
        match parseInt n with
        | none => none
        | some v => if v ≤ 0 then none else
            parseSetOpts f r' { o with ttlMs := some (if u = [69, 88] then v.toNat * 1000 else v.toNat) }
    else none

/-- A time to live is accepted only if its deadline fits signed 64-bit unix milliseconds (engine `check_ttl`, since
    eecde49).  The model's clock is not the wall clock: the bound leaves 2^42 ms (until the year 2109) for "now"; times
    between the two bounds are not generated. -/
def ttlOk (ms : Nat) : Bool := ms ≤ 9223372036854775807 - 4398046511104

def cmdSet (db : Db) (now : Nat) (args : List Bytes) : Db × Frame :=
  match args with
  | k :: v :: opts =>
    match parseSetOpts (opts.length + 1) opts {} with
    | none => (db, err)
    | some o =>
      if (o.ttlMs.map ttlOk).getD true = false then (db, err) else
      let present := (lookup db k).isSome
      let go := match o.cond with
        | .always => true
        | .nx => !present
        | .xx => present
      if go then
        (insert db k { val := .str v, deadline := o.ttlMs.map (now + ·) }, ok)
      else (db, nil)
  | _ => (db, err)

def cmdGet (db : Db) (args : List Bytes) : Db × Frame :=
  match args with
  | [k] => match lookup db k with
    | none => (db, nil)
    | some ⟨.str b, _⟩ => (db, bulk b)
    | some _ => (db, wrongType)
  | _ => (db, err)

def cmdMget (db : Db) (args : List Bytes) : Db × Frame :=
  if args.isEmpty then (db, err) else
  (db, .array (args.map fun k => match lookup db k with
    | some ⟨.str b, _⟩ => bulk b
    | _ => nil))

def msetPairs : Db → List Bytes → Db
  | db, k :: v :: r => msetPairs (insert db k (mkStr v)) r
  | db, _ => db

def cmdMset (db : Db) (args : List Bytes) : Db × Frame :=
  if args.isEmpty ∨ args.length % 2 ≠ 0 then (db, err) else (msetPairs db args, ok)

def cmdGetset (db : Db) (args : List Bytes) : Db × Frame :=
  match args with
  | [k, v] => match lookup db k with
    | none => (insert db k (mkStr v), nil)
    | some ⟨.str b, _⟩ => (insert db k (mkStr v), bulk b)
    | some _ => (db, wrongType)
  | _ => (db, err)

def cmdSetnx (db : Db) (args : List Bytes) : Db × Frame :=
  match args with
  | [k, v] => if (lookup db k).isSome then (db, int 0) else (insert db k (mkStr v), int 1)
  | _ => (db, err)

/-- SETEX (`unit = 1000`) / PSETEX (`unit = 1`) -/
def cmdSetex (db : Db) (now : Nat) (unit : Nat) (args : List Bytes) : Db × Frame :=
  match args with
  | [k, t, v] => match parseInt t with
    | none => (db, err)
    | some n => if n ≤ 0 then (db, err) else if !ttlOk (n.toNat * unit) then (db, err) else
        (insert db k { val := .str v, deadline := some (now + n.toNat * unit) }, ok)
  | _ => (db, err)

def cmdAppend (db : Db) (args : List Bytes) : Db × Frame :=
  match args with
  | [k, v] => match lookup db k with
    | none => (insert db k (mkStr v), nat v.length)
    | some ⟨.str b, d⟩ =>
      if b.length + v.length > 536870912 then (db, err) else       -- the 512 MB limit SETRANGE has (601a657)
      (insert db k { val := .str (b ++ v), deadline := d }, nat (b ++ v).length)
    | some _ => (db, wrongType)
  | _ => (db, err)

def cmdStrlen (db : Db) (args : List Bytes) : Db × Frame :=
  match args with
  | [k] => match lookup db k with
    | none => (db, int 0)
    | some ⟨.str b, _⟩ => (db, nat b.length)
    | some _ => (db, wrongType)
  | _ => (db, err)

def cmdGetrange (db : Db) (args : List Bytes) : Db × Frame :=
  match args with
  | [k, s, e] => match parseInt s, parseInt e with
    | some s, some e => match lookup db k with
      | none => (db, bulk [])
      | some ⟨.str b, _⟩ => (db, bulk (slice b (getrangeSel b.length s e)))
      | some _ => (db, wrongType)
    | _, _ => (db, err)
  | _ => (db, err)

def maxStrLen : Nat := 536870912   -- 512 MB

def cmdSetrange (db : Db) (args : List Bytes) : Db × Frame :=
  match args with
  | [k, o, v] => match parseInt o with
    | none => (db, err)
    | some off =>
      if off < 0 then (db, err) else
      match lookup db k with
      | some ⟨.str b, d⟩ =>
        if v.isEmpty then (db, nat b.length)
        else if off.toNat + v.length > maxStrLen then (db, err)
        else
          let padded := b ++ List.replicate (off.toNat - b.length) 0
          let nb := padded.take off.toNat ++ v ++ padded.drop (off.toNat + v.length)
          (insert db k { val := .str nb, deadline := d }, nat nb.length)
      | none =>
        if v.isEmpty then (db, int 0)
        else if off.toNat + v.length > maxStrLen then (db, err)
        else
          let nb := List.replicate off.toNat 0 ++ v
          (insert db k (mkStr nb), nat nb.length)
      | some _ => (db, wrongType)
  | _ => (db, err)

/-- INCRBY core: `delta` already validated. -/
def incrBy (db : Db) (k : Bytes) (delta : Int) : Db × Frame :=
  match lookup db k with
  | none =>
    if delta < i64Min ∨ delta > i64Max then (db, err)
    else (insert db k (mkStr (intDigits delta)), int delta)
  | some ⟨.str b, d⟩ => match parseInt b with
    | none => (db, err)
    | some cur =>
      let r := cur + delta
      if r < i64Min ∨ r > i64Max then (db, err)
      else (insert db k { val := .str (intDigits r), deadline := d }, int r)
  | some _ => (db, wrongType)

def cmdIncrDecr (db : Db) (sign : Int) (args : List Bytes) : Db × Frame :=
  match args with
  | [k] => incrBy db k sign
  | _ => (db, err)

def cmdIncrbyDecrby (db : Db) (sign : Int) (args : List Bytes) : Db × Frame :=
  match args with
  | [k, n] => match parseInt n with
    | none => (db, err)
    | some v =>
      -- DECRBY by i64::MIN cannot be negated: refused
      if sign < 0 ∧ v = i64Min then (db, err) else incrBy db k (sign * v)
  | _ => (db, err)

def delKeys : Db → List Bytes → Nat → Db × Nat
  | db, [], n => (db, n)
  | db, k :: r, n => if (lookup db k).isSome then delKeys (erase db k) r (n + 1) else delKeys db r n

def cmdDel (db : Db) (args : List Bytes) : Db × Frame :=
  if args.isEmpty then (db, err) else
  ((delKeys db args 0).1, nat (delKeys db args 0).2)

def cmdExists (db : Db) (args : List Bytes) : Db × Frame :=
  if args.isEmpty then (db, err) else
  (db, nat (args.filter fun k => (lookup db k).isSome).length)

def typeName : Val → String
  | .str _ => "string" | .list _ => "list" | .set _ => "set"
  | .hash _ => "hash" | .zset _ => "zset" | .stream _ => "stream"

def cmdType (db : Db) (args : List Bytes) : Db × Frame :=
  match args with
  | [k] => match lookup db k with
    | none => (db, .simple (strBytes "none"))
    | some e => (db, .simple (strBytes (typeName e.val)))
  | _ => (db, err)

def cmdRename (db : Db) (nx : Bool) (args : List Bytes) : Db × Frame :=
  match args with
  | [a, b] => match lookup db a with
    | none => (db, err)
    | some e =>
      if nx then
        if (lookup db b).isSome then (db, int 0)
        else (insert (erase db a) b e, int 1)
      else
        if a = b then (db, ok) else (insert (erase db a) b e, ok)
  | _ => (db, err)

def cmdKeys (db : Db) (args : List Bytes) : Db × Frame :=
  match args with
  | [p] => (db, bulks (sortBytes ((db.map (·.1)).filter fun k => glob p k)))
  | _ => (db, err)

def cmdDbsize (db : Db) (args : List Bytes) : Db × Frame :=
  if args.isEmpty then (db, nat db.length) else (db, err)

/-- RANDOMKEY is a checked relation: `obs` is the key the implementation returned (`none` = nil). -/
def cmdRandomkey (db : Db) (args : List Bytes) (obs : Option (List Bytes)) : Db × Frame :=
  if !args.isEmpty then (db, err) else
  match obs with
  | some [k] => if (lookup db k).isSome then (db, bulk k) else (db, .error (strBytes "ORACLE-REJECT"))
  | _ => if db.isEmpty then (db, nil) else (db, .error (strBytes "ORACLE-REJECT"))

def cmdExpire (db : Db) (now : Nat) (unit : Nat) (args : List Bytes) : Db × Frame :=
  match args with
  | [k, t] => match parseInt t with
    | none => (db, err)
    | some n =>
      if 0 < n ∧ !ttlOk (n.toNat * unit) then (db, err) else
      match lookup db k with
      | none => (db, int 0)
      | some e =>
        if n ≤ 0 then (erase db k, int 1)
        else (insert db k { e with deadline := some (now + n.toNat * unit) }, int 1)
  | _ => (db, err)

/-- TTL (`unit = 1000`, rounded up) / PTTL (`unit = 1`). -/
def cmdTtl (db : Db) (now : Nat) (unit : Nat) (args : List Bytes) : Db × Frame :=
  match args with
  | [k] => match lookup db k with
    | none => (db, int (-2))
    | some e => match e.deadline with
      | none => (db, int (-1))
      | some d => (db, nat ((d - now + unit - 1) / unit))
  | _ => (db, err)

def cmdPersist (db : Db) (args : List Bytes) : Db × Frame :=
  match args with
  | [k] => match lookup db k with
    | none => (db, int 0)
    | some e => match e.deadline with
      | none => (db, int 0)
      | some _ => (insert db k { e with deadline := none }, int 1)
  | _ => (db, err)

/-! #### Lists -/

def cmdPush (db : Db) (left : Bool) (args : List Bytes) : Db × Frame :=
  match args with
  | k :: v :: vs =>
    let vals := v :: vs
    match lookup db k with
    | none =>
      let l := if left then vals.reverse else vals
      (insert db k { val := .list l, deadline := none }, nat l.length)
    | some ⟨.list xs, d⟩ =>
      let l := if left then vals.reverse ++ xs else xs ++ vals
      (insert db k { val := .list l, deadline := d }, nat l.length)
    | some _ => (db, wrongType)
  | _ => (db, err)

def cmdPop (db : Db) (left : Bool) (args : List Bytes) : Db × Frame :=
  match args with
  | [k] => match lookup db k with
    | none => (db, nil)
    | some ⟨.list xs, d⟩ =>
      if left then match xs with
        | [] => (db, nil)
        | x :: t => (putColl db k ⟨.list xs, d⟩ (.list t), bulk x)
      else match xs.reverse with
        | [] => (db, nil)
        | x :: t => (putColl db k ⟨.list xs, d⟩ (.list t.reverse), bulk x)
    | some _ => (db, wrongType)
  | _ => (db, err)

def cmdLlen (db : Db) (args : List Bytes) : Db × Frame :=
  match args with
  | [k] => match lookup db k with
    | none => (db, int 0)
    | some ⟨.list xs, _⟩ => (db, nat xs.length)
    | some _ => (db, wrongType)
  | _ => (db, err)

def cmdLrange (db : Db) (args : List Bytes) : Db × Frame :=
  match args with
  | [k, s, e] => match parseInt s, parseInt e with
    | some s, some e => match lookup db k with
      | none => (db, bulks [])
      | some ⟨.list xs, _⟩ => (db, bulks (slice xs (lrangeSel xs.length s e)))
      | some _ => (db, wrongType)
    | _, _ => (db, err)
  | _ => (db, err)

def cmdLindex (db : Db) (args : List Bytes) : Db × Frame :=
  match args with
  | [k, i] => match parseInt i with
    | none => (db, err)
    | some i => match lookup db k with
      | none => (db, nil)
      | some ⟨.list xs, _⟩ => match normIndex xs.length i with
        | none => (db, nil)
        | some j => match xs[j]? with
          | some x => (db, bulk x)
          | none => (db, nil)
      | some _ => (db, wrongType)
  | _ => (db, err)

def cmdLset (db : Db) (args : List Bytes) : Db × Frame :=
  match args with
  | [k, i, v] => match parseInt i with
    | none => (db, err)
    | some i => match lookup db k with
      | none => (db, err)
      | some ⟨.list xs, d⟩ => match normIndex xs.length i with
        | none => (db, err)
        | some j => (insert db k { val := .list (xs.set j v), deadline := d }, ok)
      | some _ => (db, wrongType)
  | _ => (db, err)

def cmdLtrim (db : Db) (args : List Bytes) : Db × Frame :=
  match args with
  | [k, s, e] => match parseInt s, parseInt e with
    | some s, some e => match lookup db k with
      | none => (db, ok)
      | some ⟨.list xs, d⟩ => (putColl db k ⟨.list xs, d⟩ (.list (slice xs (lrangeSel xs.length s e))), ok)
      | some _ => (db, wrongType)
    | _, _ => (db, err)
  | _ => (db, err)

/-- remove the first `n` occurrences of `v` (all when `n = none`); returns the list and the number removed -/
def removeFirst (v : Bytes) : Option Nat → List Bytes → List Bytes × Nat
  | _, [] => ([], 0)
  | some 0, l => (l, 0)
  | some (n+1), x :: t =>
    if x = v then let (r, c) := removeFirst v (some n) t; (r, c + 1)
    else let (r, c) := removeFirst v (some (n+1)) t; (x :: r, c)
  | none, x :: t =>
    if x = v then let (r, c) := removeFirst v none t; (r, c + 1)
    else let (r, c) := removeFirst v none t; (x :: r, c)

def cmdLrem (db : Db) (args : List Bytes) : Db × Frame :=
  match args with
  | [k, c, v] => match parseInt c with
    | none => (db, err)
    | some c => match lookup db k with
      | none => (db, int 0)
      | some ⟨.list xs, d⟩ =>
        let rn :=
          if c > 0 then removeFirst v (some c.toNat) xs
          else if c < 0 then
            ((removeFirst v (some (-c).toNat) xs.reverse).1.reverse, (removeFirst v (some (-c).toNat) xs.reverse).2)
          else removeFirst v none xs
        (putColl db k ⟨.list xs, d⟩ (.list rn.1), nat rn.2)
      | some _ => (db, wrongType)
  | _ => (db, err)

/-! #### Sets -/

def addAll : List Bytes → List Bytes → List Bytes × Nat
  | s, [] => (s, 0)
  | s, m :: r =>
    if s.contains m then addAll s r
    else let (s', n) := addAll (s ++ [m]) r; (s', n + 1)

def cmdSadd (db : Db) (args : List Bytes) : Db × Frame :=
  match args with
  | k :: m :: ms => match lookup db k with
    | none => (insert db k { val := .set (addAll [] (m :: ms)).1, deadline := none }, nat (addAll [] (m :: ms)).2)
    | some ⟨.set xs, d⟩ => (insert db k { val := .set (addAll xs (m :: ms)).1, deadline := d }, nat (addAll xs (m :: ms)).2)
    | some _ => (db, wrongType)
  | _ => (db, err)

def removeAll : List Bytes → List Bytes → List Bytes × Nat
  | s, [] => (s, 0)
  | s, m :: r =>
    if s.contains m then let (s', n) := removeAll (s.filter (· ≠ m)) r; (s', n + 1)
    else removeAll s r

def cmdSrem (db : Db) (args : List Bytes) : Db × Frame :=
  match args with
  | k :: m :: ms => match lookup db k with
    | none => (db, int 0)
    | some ⟨.set xs, d⟩ => (putColl db k ⟨.set xs, d⟩ (.set (removeAll xs (m :: ms)).1), nat (removeAll xs (m :: ms)).2)
    | some _ => (db, wrongType)
  | _ => (db, err)

def cmdSmembers (db : Db) (args : List Bytes) : Db × Frame :=
  match args with
  | [k] => match lookup db k with
    | none => (db, bulks [])
    | some ⟨.set xs, _⟩ => (db, bulks (sortBytes xs))
    | some _ => (db, wrongType)
  | _ => (db, err)

def cmdSismember (db : Db) (args : List Bytes) : Db × Frame :=
  match args with
  | [k, m] => match lookup db k with
    | none => (db, int 0)
    | some ⟨.set xs, _⟩ => (db, int (if xs.contains m then 1 else 0))
    | some _ => (db, wrongType)
  | _ => (db, err)

def cmdScard (db : Db) (args : List Bytes) : Db × Frame :=
  match args with
  | [k] => match lookup db k with
    | none => (db, int 0)
    | some ⟨.set xs, _⟩ => (db, nat xs.length)
    | some _ => (db, wrongType)
  | _ => (db, err)

/-- the sets named by `keys` (missing = empty); `none` if some key holds another type -/
def setsOf (db : Db) : List Bytes → Option (List (List Bytes))
  | [] => some []
  | k :: r => match lookup db k, setsOf db r with
    | none, some t => some ([] :: t)
    | some ⟨.set xs, _⟩, some t => some (xs :: t)
    | _, _ => none

inductive SetOp | union | inter | diff deriving DecidableEq

def dedup : List Bytes → List Bytes
  | [] => []
  | x :: t => if t.contains x then dedup t else x :: dedup t

def setAlgebra (op : SetOp) : List (List Bytes) → List Bytes
  | [] => []
  | s :: rest => match op with
    | .union => dedup (s ++ rest.flatten)
    | .inter => s.filter fun m => rest.all (·.contains m)
    | .diff => s.filter fun m => rest.all fun t => !t.contains m

/-- SINTER scans its keys in order: a missing key ends the scan with the empty result before the
    keys after it are looked at; a key of another type met before that is an error. -/
def interScan (db : Db) : List Bytes → Option (Option (List (List Bytes)))
  | [] => some (some [])
  | k :: r => match lookup db k with
    | none => some none                      -- empty result, later keys not examined
    | some ⟨.set xs, _⟩ => match interScan db r with
      | some (some t) => some (some (xs :: t))
      | other => other
    | some _ => none                         -- wrong type

def cmdSetAlgebra (db : Db) (op : SetOp) (args : List Bytes) : Db × Frame :=
  if args.isEmpty then (db, err) else
  -- every key is looked at (a missing key is an empty set, a key of another type an error wherever it stands):
  -- SINTER too, since 5507b3c (Redis 7; `interScan` above is the scan the tree had before)
  match setsOf db args with
  | none => (db, wrongType)
  | some ss => (db, bulks (sortBytes (setAlgebra op ss)))

def allIn (xs s : List Bytes) : Bool := xs.all s.contains

def nodupB : List Bytes → Bool
  | [] => true
  | x :: t => !t.contains x && nodupB t

def reject : Frame := .error (strBytes "ORACLE-REJECT")

/-- SPOP is a checked relation: `obs` = the members the implementation returned. -/
def cmdSpop (db : Db) (args : List Bytes) (obs : Option (List Bytes)) : Db × Frame :=
  let got := obs.getD []
  match args with
  | [k] => match lookup db k with
    | none => if got.isEmpty then (db, nil) else (db, reject)
    | some ⟨.set xs, d⟩ => match got with
      | [m] => if xs.contains m then (putColl db k ⟨.set xs, d⟩ (.set (xs.filter (· ≠ m))), bulk m) else (db, reject)
      | _ => (db, reject)
    | some _ => (db, wrongType)
  | [k, c] => match parseInt c with
    | none => (db, err)
    | some c =>
      if c < 0 then (db, err) else
      match lookup db k with
      | none => if got.isEmpty then (db, bulks []) else (db, reject)
      | some ⟨.set xs, d⟩ =>
        if allIn got xs && nodupB got && got.length = min c.toNat xs.length then
          (putColl db k ⟨.set xs, d⟩ (.set (xs.filter fun m => !got.contains m)), bulks (sortBytes got))
        else (db, reject)
      | some _ => (db, wrongType)
  | _ => (db, err)

/-- SRANDMEMBER is a checked relation. -/
def cmdSrandmember (db : Db) (args : List Bytes) (obs : Option (List Bytes)) : Db × Frame :=
  let got := obs.getD []
  match args with
  | [k] => match lookup db k with
    | none => if got.isEmpty then (db, nil) else (db, reject)
    | some ⟨.set xs, _⟩ => match got with
      | [m] => if xs.contains m then (db, bulk m) else (db, reject)
      | _ => (db, reject)
    | some _ => (db, wrongType)
  | [k, c] => match parseInt c with
    | none => (db, err)
    | some c =>
      match lookup db k with
      | none => if got.isEmpty then (db, bulks []) else (db, reject)
      | some ⟨.set xs, _⟩ =>
        if c ≥ 0 then
          if allIn got xs && nodupB got && got.length = min c.toNat xs.length then (db, bulks (sortBytes got)) else (db, reject)
        else
          -- |count| picks with repetition are built in memory: more than 10^7 (down to i64::MIN, whose negation
          -- does not exist) are refused (fix 1a0be8a; Redis refuses only LONG_MIN, and before looking at the key)
          if c < -10000000 then (db, err) else
          if allIn got xs && got.length = (-c).toNat then (db, bulks (sortBytes got)) else (db, reject)
      | some _ => (db, wrongType)
  | _ => (db, err)

/-! #### Hashes -/

def hget (fs : List (Bytes × Bytes)) (f : Bytes) : Option Bytes :=
  match fs with
  | [] => none
  | (f', v) :: t => if f' = f then some v else hget t f

def hput (fs : List (Bytes × Bytes)) (f v : Bytes) : List (Bytes × Bytes) :=
  match fs with
  | [] => [(f, v)]
  | (f', v') :: t => if f' = f then (f, v) :: t else (f', v') :: hput t f v

def hsetPairs : List (Bytes × Bytes) → List Bytes → Nat → List (Bytes × Bytes) × Nat
  | fs, f :: v :: r, n =>
    if (hget fs f).isSome then hsetPairs (hput fs f v) r n else hsetPairs (hput fs f v) r (n + 1)
  | fs, _, n => (fs, n)

def cmdHset (db : Db) (multi : Bool) (args : List Bytes) : Db × Frame :=
  match args with
  | k :: pairs =>
    if pairs.isEmpty ∨ pairs.length % 2 ≠ 0 then (db, err) else
    match lookup db k with
    | none =>
      (insert db k { val := .hash (hsetPairs [] pairs 0).1, deadline := none }, if multi then ok else nat (hsetPairs [] pairs 0).2)
    | some ⟨.hash old, d⟩ =>
      (insert db k { val := .hash (hsetPairs old pairs 0).1, deadline := d }, if multi then ok else nat (hsetPairs old pairs 0).2)
    | some _ => (db, wrongType)
  | _ => (db, err)

def cmdHget (db : Db) (args : List Bytes) : Db × Frame :=
  match args with
  | [k, f] => match lookup db k with
    | none => (db, nil)
    | some ⟨.hash fs, _⟩ => (db, match hget fs f with | some v => bulk v | none => nil)
    | some _ => (db, wrongType)
  | _ => (db, err)

def cmdHmget (db : Db) (args : List Bytes) : Db × Frame :=
  match args with
  | k :: f :: fl => match lookup db k with
    | none => (db, .array ((f :: fl).map fun _ => nil))
    | some ⟨.hash fs, _⟩ => (db, .array ((f :: fl).map fun x => match hget fs x with | some v => bulk v | none => nil))
    | some _ => (db, wrongType)
  | _ => (db, err)

/-- 0 = HGETALL (pairs sorted by field, flattened), 1 = HKEYS (sorted), 2 = HVALS (sorted) -/
def cmdHall (db : Db) (what : Nat) (args : List Bytes) : Db × Frame :=
  match args with
  | [k] => match lookup db k with
    | none => (db, bulks [])
    | some ⟨.hash fs, _⟩ =>
      if what = 0 then (db, bulks ((sortBy (·.1) fs).flatMap fun p => [p.1, p.2]))
      else if what = 1 then (db, bulks (sortBytes (fs.map (·.1))))
      else (db, bulks (sortBytes (fs.map (·.2))))
    | some _ => (db, wrongType)
  | _ => (db, err)

def hdelFields : List (Bytes × Bytes) → List Bytes → Nat → List (Bytes × Bytes) × Nat
  | fs, [], n => (fs, n)
  | fs, f :: r, n =>
    if (hget fs f).isSome then hdelFields (fs.filter (·.1 ≠ f)) r (n + 1) else hdelFields fs r n

def cmdHdel (db : Db) (args : List Bytes) : Db × Frame :=
  match args with
  | k :: f :: fl => match lookup db k with
    | none => (db, int 0)
    | some ⟨.hash fs, d⟩ =>
      (putColl db k ⟨.hash fs, d⟩ (.hash (hdelFields fs (f :: fl) 0).1), nat (hdelFields fs (f :: fl) 0).2)
    | some _ => (db, wrongType)
  | _ => (db, err)

def cmdHlen (db : Db) (args : List Bytes) : Db × Frame :=
  match args with
  | [k] => match lookup db k with
    | none => (db, int 0)
    | some ⟨.hash fs, _⟩ => (db, nat fs.length)
    | some _ => (db, wrongType)
  | _ => (db, err)

def cmdHexists (db : Db) (args : List Bytes) : Db × Frame :=
  match args with
  | [k, f] => match lookup db k with
    | none => (db, int 0)
    | some ⟨.hash fs, _⟩ => (db, int (if (hget fs f).isSome then 1 else 0))
    | some _ => (db, wrongType)
  | _ => (db, err)

def cmdHincrby (db : Db) (args : List Bytes) : Db × Frame :=
  match args with
  | [k, f, n] => match parseInt n with
    | none => (db, err)
    | some delta =>
      let apply (fs : List (Bytes × Bytes)) (d : Option Nat) : Db × Frame :=
        match hget fs f with
        | none => (insert db k { val := .hash (hput fs f (intDigits delta)), deadline := d }, int delta)
        | some cur => match parseInt cur with
          | none => (db, err)
          | some c =>
            let r := c + delta
            if r < i64Min ∨ r > i64Max then (db, err)
            else (insert db k { val := .hash (hput fs f (intDigits r)), deadline := d }, int r)
      match lookup db k with
      | none => apply [] none
      | some ⟨.hash fs, d⟩ => apply fs d
      | some _ => (db, wrongType)
  | _ => (db, err)

/-! #### Set-up commands for the opaque types (so that every command meets every existing type) -/

/-- `ZADD key score member`: only the exact 3-argument form the generators use. -/
def cmdZaddSetup (db : Db) (args : List Bytes) : Db × Frame :=
  match args with
  | [k, sc, m] => match lookup db k with
    | none => (insert db k { val := .zset [(m, sc)], deadline := none }, int 1)
    | some ⟨.zset zs, d⟩ =>
      if zs.any (·.1 = m) then (insert db k { val := .zset (zs.map fun p => if p.1 = m then (m, sc) else p), deadline := d }, int 0)
      else (insert db k { val := .zset (zs ++ [(m, sc)]), deadline := d }, int 1)
    | some _ => (db, wrongType)
  | _ => (db, err)

/-- `XADD key id field value`: only the exact form the generators use (one explicit id per history). -/
def cmdXaddSetup (db : Db) (args : List Bytes) : Db × Frame :=
  match args with
  | [k, id, _, _] => match lookup db k with
    | none => (insert db k { val := .stream 1, deadline := none }, bulk id)
    | some ⟨.stream _, _⟩ => (db, err)      -- same explicit id again: refused
    | some _ => (db, wrongType)
  | _ => (db, err)

/-! ### Dispatch -/

def cmdNames : List String :=
  ["SET", "GET", "MGET", "MSET", "GETSET", "SETNX", "SETEX", "PSETEX", "APPEND", "STRLEN", "GETRANGE", "SETRANGE",
   "INCR", "DECR", "INCRBY", "DECRBY", "DEL", "EXISTS", "TYPE", "RENAME", "RENAMENX", "KEYS", "DBSIZE", "RANDOMKEY",
   "FLUSHDB", "FLUSHALL", "EXPIRE", "PEXPIRE", "TTL", "PTTL", "PERSIST",
   "LPUSH", "RPUSH", "LPOP", "RPOP", "LLEN", "LRANGE", "LINDEX", "LSET", "LTRIM", "LREM",
   "SADD", "SREM", "SMEMBERS", "SISMEMBER", "SCARD", "SUNION", "SINTER", "SDIFF", "SPOP", "SRANDMEMBER",
   "HSET", "HMSET", "HGET", "HMGET", "HGETALL", "HDEL", "HLEN", "HEXISTS", "HKEYS", "HVALS", "HINCRBY", "ZADD", "XADD"]

/-- One command on one (already purged) database. `name` is upper-cased. -/
def stepDb (q : Quirks) (db : Db) (now : Nat) (name : String) (args : List Bytes) (obs : Option (List Bytes)) : Db × Frame :=
  match name with
  | "SET" => cmdSet db now args
  | "GET" => cmdGet db args
  | "MGET" => cmdMget db args
  | "MSET" => cmdMset db args
  | "GETSET" => cmdGetset db args
  | "SETNX" => cmdSetnx db args
  | "SETEX" => cmdSetex db now 1000 args
  | "PSETEX" => cmdSetex db now 1 args
  | "APPEND" => cmdAppend db args
  | "STRLEN" => cmdStrlen db args
  | "GETRANGE" => cmdGetrange db args
  | "SETRANGE" => cmdSetrange db args
  | "INCR" => cmdIncrDecr db 1 args
  | "DECR" => cmdIncrDecr db (-1) args
  | "INCRBY" => cmdIncrbyDecrby db 1 args
  | "DECRBY" => cmdIncrbyDecrby db (-1) args
  | "DEL" => cmdDel db args
  | "EXISTS" => cmdExists db args
  | "TYPE" => cmdType db args
  | "RENAME" => cmdRename db false args
  | "RENAMENX" => cmdRename db true args
  | "KEYS" => cmdKeys db args
  | "DBSIZE" => cmdDbsize db args
  | "RANDOMKEY" => cmdRandomkey db args obs
  | "FLUSHDB" => if args.isEmpty then ([], ok) else (db, err)
  | "EXPIRE" => cmdExpire db now 1000 args
  | "PEXPIRE" => cmdExpire db now 1 args
  | "TTL" => cmdTtl db now 1000 args
  | "PTTL" => cmdTtl db now 1 args
  | "PERSIST" => cmdPersist db args
  | "LPUSH" => cmdPush db true args
  | "RPUSH" => cmdPush db false args
  | "LPOP" => cmdPop db true args
  | "RPOP" => cmdPop db false args
  | "LLEN" => cmdLlen db args
  | "LRANGE" => cmdLrange db args
  | "LINDEX" => cmdLindex db args
  | "LSET" => cmdLset db args
  | "LTRIM" => cmdLtrim db args
  | "LREM" => cmdLrem db args
  | "SADD" => cmdSadd db args
  | "SREM" => cmdSrem db args
  | "SMEMBERS" => cmdSmembers db args
  | "SISMEMBER" => cmdSismember db args
  | "SCARD" => cmdScard db args
  | "SUNION" => cmdSetAlgebra db .union args
  | "SINTER" => cmdSetAlgebra db .inter args
  | "SDIFF" => cmdSetAlgebra db .diff args
  | "SPOP" => cmdSpop db args obs
  | "SRANDMEMBER" => cmdSrandmember db args obs
  | "HSET" => cmdHset db false args
  | "HMSET" => cmdHset db true args
  | "HGET" => cmdHget db args
  | "HMGET" => cmdHmget db args
  | "HGETALL" => cmdHall db 0 args
  | "HKEYS" => cmdHall db 1 args
  | "HVALS" => cmdHall db 2 args
  | "HDEL" => cmdHdel db args
  | "HLEN" => cmdHlen db args
  | "HEXISTS" => cmdHexists db args
  | "HINCRBY" => cmdHincrby db args
  | "ZADD" => cmdZaddSetup db args
  | "XADD" => cmdXaddSetup db args
  | _ => (db, err)

def getDb (s : Store) (i : Nat) : Db := s.getD i []
def setDb (s : Store) (i : Nat) (db : Db) : Store := s.set i db

/-- One command of one client on database `i` at time `now`. -/
def step (q : Quirks) (s : Store) (i : Nat) (now : Nat) (cmd : List Bytes) (obs : Option (List Bytes)) : Store × Frame :=
  match cmd with
  | [] => (s, err)
  | n :: args =>
    let name := String.ofList ((upperBytes n).map fun b => Char.ofNat b)
    if name = "FLUSHALL" then
      if args.isEmpty then (s.map fun _ => [], ok) else (s, err)
    else
      let db := purge now (getDb s i)
      let (db', r) := stepDb q db now name args obs
      (setDb s i db', r)

end Ferrous.KS
