/-
  MULTI / EXEC / DISCARD on top of the key-space machine (property C07).

  What is transliterated (file:function in /repo/src):

  * `network/server.rs: process_frame` — the ORDER of the tests for one frame of one connection:
    (auth gate — C17, not here), MONITOR, then the `match` that handles MULTI / EXEC / DISCARD /
    WATCH / UNWATCH / PUBLISH / SUBSCRIBE / UNSUBSCRIBE / PSUBSCRIBE / PUNSUBSCRIBE / AUTH directly,
    then REPLCONF, and only then `if in_transaction && should_queue_command(..)` → `queue_command`;
    everything else goes to `process_normal_command(parts, db_index, conn_id)`.
  * `storage/commands/transactions.rs`: `TransactionState {in_transaction, queued_commands, aborted}`
    (the watched keys are C08's: the outcome of the WATCH check is the input `Req.watchOk`),
    `handle_multi` (nested MULTI: error, nothing touched), `handle_discard`, `queue_command`
    (push + `QUEUED`, NO validation of name or arity), `should_queue_command`.
    No code path assigns `aborted = true` (translator: `Gen.abortedSetSites = 0`).
  * `network/server.rs: handle_exec` — not in a transaction: error; WATCH check fails: state cleared,
    null array; otherwise the queue is taken, the state cleared, `aborted` ⇒ null array, else every
    queued command is run by `process_command_parts(parts, db_index)` = `process_normal_command(parts,
    db_index, 0)`: with the database index read ONCE before the loop and the dummy connection id 0;
    an `Err` becomes an error frame in the command's slot.
  * `Server::run` / `process_connections` / `process_connection`: ONE thread; every frame of every
    connection is processed to completion, one after another (`run` below folds `stepEvent` over a
    schedule); what else the loop does (wake-ups serving blocked clients, time-outs) happens between
    frames (`Event.between`).

  One function with quirk switches: `Quirks.spec` is what the property prescribes (everything that is
  not a transaction-control command is queued; SELECT and blocking pops inside EXEC behave as in
  Redis), `Quirks.code` is the current tree.  Data commands execute through `KS.step`.

  Scope notes: command names are compared after ASCII upper-casing (the code trims and applies the
  Unicode `to_uppercase` in `process_frame` but not in `process_normal_command`; generators send
  ASCII names without blanks).  All arguments are bulk strings.  The time-out argument of BLPOP/BRPOP
  is recognised here only as an unsigned decimal integer of at most 15 digits (float syntax is C13's).
-/
import FerrousSpec.Model.Keyspace
namespace Ferrous.Tx
open Ferrous

abbrev Cmd := List Bytes

/-- upper-cased command name (`""` for an empty frame) -/
def nameOf (c : Cmd) : String :=
  match c with
  | [] => ""
  | n :: _ => String.ofList ((KS.upperBytes n).map fun b => Char.ofNat b)

/-- the transaction-control commands proper: never queued (as in Redis).  `should_queue_command` of
    the tree as found also lets UNWATCH through — that is a deviation, modelled by `Quirks.immediate` -/
def controlNames : List String := ["MULTI", "EXEC", "DISCARD", "WATCH"]

/-- commands about the issuing connection itself (`CLIENT ID | SETNAME | GETNAME | …`): handed to
    the connection table, not to the dataset -/
def connectionNames : List String := ["CLIENT"]

/-- names `process_frame` hands to another subsystem (monitor feed, pub/sub, authentication,
    replication) BEFORE the queue test; none of them touches the dataset -/
def externalNames : List String :=
  ["MONITOR", "PUBLISH", "SUBSCRIBE", "UNSUBSCRIBE", "PSUBSCRIBE", "PUNSUBSCRIBE", "AUTH", "REPLCONF"]

/-- every name special-cased in `process_frame` before the queue test, in source order -/
def preQueueNames : List String :=
  ["MONITOR", "MULTI", "EXEC", "DISCARD", "WATCH", "UNWATCH", "PUBLISH", "SUBSCRIBE", "UNSUBSCRIBE",
   "PSUBSCRIBE", "PUNSUBSCRIBE", "AUTH", "REPLCONF"]

inductive Kind where
  | multi | exec | discard | watch | other
  deriving DecidableEq, Repr

def kindOf (name : String) : Kind :=
  if name = "MULTI" then .multi
  else if name = "EXEC" then .exec
  else if name = "DISCARD" then .discard
  else if name = "WATCH" then .watch
  else .other

structure Quirks where
  ks : KS.Quirks := {}
  /-- names executed immediately even between MULTI and EXEC (besides the control commands).
      Prescribed: none.  Code: `externalNames` — they are matched before the queue test. -/
  immediate : List String := []
  /-- a queued SELECT is validated and answered `OK` but selects nothing: `handle_select` is called
      with the dummy connection id 0 and the loop keeps the index read before it. -/
  selectInExecIgnored : Bool := false
  /-- a queued BLPOP/BRPOP that finds every list empty returns the internal `NoResponse` marker into
      EXEC's array (which the serializer cannot write: the reply is cut short) and registers
      connection id 0 in the blocking registry.  Prescribed: a null array in the slot, nothing else. -/
  blockingInExecNoResponse : Bool := false
  /-- MULTI, EXEC, DISCARD and UNWATCH ignore surplus arguments (`EXEC junk` executes, `UNWATCH junk`
      drops the watches).  Prescribed: an arity error, nothing changes. -/
  controlArityUnchecked : Bool := false
  /-- a queued command about the issuing connection (CLIENT …) is run by EXEC under the dummy
      connection id 0 (`CLIENT ID` answers 0, `CLIENT SETNAME` finds no connection).  Prescribed: under
      the id of the connection that sent EXEC. -/
  connCommandsUnderConnZero : Bool := false
  deriving Repr

def Quirks.spec : Quirks := {}

/-- the tree as found (all three deviations); `Quirks.ofSource` (Proofs/TxSource.lean) is what the
    translator reads off the source on each run — the same until a fix lands -/
def Quirks.code : Quirks :=
  { immediate := externalNames ++ ["UNWATCH"], selectInExecIgnored := true, blockingInExecNoResponse := true,
    controlArityUnchecked := true, connCommandsUnderConnZero := true }

/-- one reply slot -/
inductive Out where
  | frame (f : Frame)
  /-- `RespFrame::NoResponse`: nothing to send now (a blocking command registered the client) -/
  | noResponse
  /-- produced by the subsystem the command was handed to (not modelled here) -/
  | external
  deriving Repr, BEq

inductive Reply where
  | one (o : Out)
  /-- EXEC's array: one slot per queued command, in queue order -/
  | exec (slots : List Out)
  deriving Repr, BEq

def queuedFrame : Frame := .simple [81, 85, 69, 85, 69, 68]   -- "QUEUED"

/-- the part of the server a command execution works on: dataset, the database index in force,
    and the log of commands handed to other subsystems `(connection id, command)` -/
structure ExecSt where
  store : KS.Store
  db : Nat
  ext : List (Nat × Cmd)

/-- SELECT's argument: `parse::<usize>()`, `< database_count()` = 16 -/
def selectArg (args : List Bytes) : Option Nat :=
  match args with
  | [a] => match parseU64 a with
    | some n => if n < 16 then some n else none
    | none => none
  | _ => none

def timeoutOk (t : Bytes) : Bool := !t.isEmpty && t.all isDigit && t.length ≤ 15

def lpopName : Bytes := [76, 80, 79, 80]
def rpopName : Bytes := [82, 80, 79, 80]

/-- the non-blocking fast path of BLPOP/BRPOP: `storage.lpop/rpop` on each key in order;
    `none` = every list is empty or missing (the command would block) -/
def popFirst (q : KS.Quirks) (s : KS.Store) (db now : Nat) (left : Bool) : List Bytes → KS.Store × Option Frame
  | [] => (s, none)
  | k :: ks =>
    match KS.step q s db now [if left then lpopName else rpopName, k] none with
    | (s', .bulk x) => (s', some (.array [.bulk k, .bulk x]))
    | (s', .nullBulk) => popFirst q s' db now left ks
    | (s', f) => (s', some f)

def runBlocking (q : Quirks) (inExec : Bool) (cid : Nat) (st : ExecSt) (now : Nat) (left : Bool) (cmd : Cmd) : ExecSt × Out :=
  match (cmd.drop 1).reverse with
  | t :: k :: ks =>
    if !timeoutOk t then (st, .frame KS.err) else
    match popFirst q.ks st.store st.db now left (k :: ks).reverse with
    | (s', some f) => ({ st with store := s' }, .frame f)
    | (s', none) =>
      if inExec then
        if q.blockingInExecNoResponse then
          ({ st with store := s', ext := st.ext ++ [(0, cmd)] }, .noResponse)
        else ({ st with store := s' }, .frame .nullArray)
      else ({ st with store := s', ext := st.ext ++ [(cid, cmd)] }, .noResponse)
  | _ => (st, .frame KS.err)

/-- `process_normal_command` for one command: `inExec` = called from EXEC's loop,
    `cid` = the issuing connection. -/
def runOne (q : Quirks) (inExec : Bool) (cid : Nat) (st : ExecSt) (now : Nat) (cmd : Cmd) : ExecSt × Out :=
  let name := nameOf cmd
  if name = "SELECT" then
    match selectArg (cmd.drop 1) with
    | none => (st, .frame KS.err)
    | some n =>
      if inExec && q.selectInExecIgnored then (st, .frame KS.ok)
      else ({ st with db := n }, .frame KS.ok)
  else if name = "BLPOP" then runBlocking q inExec cid st now true cmd
  else if name = "BRPOP" then runBlocking q inExec cid st now false cmd
  else if externalNames.contains name then ({ st with ext := st.ext ++ [(cid, cmd)] }, .external)
  else if connectionNames.contains name then
    ({ st with ext := st.ext ++ [(if inExec && q.connCommandsUnderConnZero then 0 else cid, cmd)] }, .external)
  else if name = "UNWATCH" then
    -- forgets the WATCH set (C08's; not in this model): no dataset effect.  Run by EXEC it is a no-op
    -- (the watches were checked and dropped before the loop)
    if cmd.length = 1 || (!inExec && q.controlArityUnchecked) then (st, .frame KS.ok) else (st, .frame KS.err)
  else
    let r := KS.step q.ks st.store st.db now cmd none
    ({ st with store := r.1 }, .frame r.2)

/-- commands run one after another on the same execution state; `inExec = true` is EXEC's loop,
    `inExec = false` is "the same commands sent directly, back to back" -/
def execFold (q : Quirks) (inExec : Bool) (cid now : Nat) : ExecSt → List Cmd → ExecSt × List Out
  | st, [] => (st, [])
  | st, c :: cs =>
    let r := runOne q inExec cid st now c
    let rest := execFold q inExec cid now r.1 cs
    (rest.1, r.2 :: rest.2)

/-! ### Connections and the server -/

/-- per-connection state (the connection id is the index in `Server.conns`) -/
structure Conn where
  db : Nat := 0
  inTx : Bool := false
  queue : List Cmd := []
  aborted : Bool := false
  deriving Repr, DecidableEq

def Conn.fresh : Conn := {}

structure Server where
  store : KS.Store := KS.emptyStore
  /-- total map: a connection that has not sent anything yet is in its initial state -/
  conns : Nat → Conn := fun _ => Conn.fresh
  ext : List (Nat × Cmd) := []

def setConn (s : Server) (cid : Nat) (c : Conn) : Server :=
  { s with conns := fun j => if j = cid then c else s.conns j }

/-- one request as the event loop sees it: the command words, the clock, and the outcome of the
    WATCH check should the command be EXEC (C08 owns that check) -/
structure Req where
  cmd : Cmd
  now : Nat := 0
  watchOk : Bool := true

def cleared (c : Conn) : Conn := { c with inTx := false, queue := [], aborted := false }

/-- `Server::handle_exec` -/
def exec (q : Quirks) (s : Server) (cid : Nat) (r : Req) : Server × Reply :=
  let c := s.conns cid
  if !c.inTx then (s, .one (.frame KS.err))
  else if !r.watchOk then (setConn s cid (cleared c), .one (.frame .nullArray))
  else if c.aborted then (setConn s cid (cleared c), .one (.frame .nullArray))
  else
    let res := execFold q true cid r.now ⟨s.store, c.db, s.ext⟩ c.queue
    (setConn { s with store := res.1.store, ext := res.1.ext } cid { cleared c with db := res.1.db }, .exec res.2)

/-- MULTI, EXEC, DISCARD take no argument: with surplus arguments they are refused and nothing changes
    (unless the switch is on) -/
def badArity (q : Quirks) (cmd : Cmd) : Bool :=
  (kindOf (nameOf cmd) == .multi || kindOf (nameOf cmd) == .exec || kindOf (nameOf cmd) == .discard) &&
    cmd.length != 1 && !q.controlArityUnchecked

/-- `Server::process_frame` for an authenticated connection -/
def processFrame (q : Quirks) (s : Server) (cid : Nat) (r : Req) : Server × Reply :=
  let c := s.conns cid
  if r.cmd.isEmpty then (s, .one (.frame KS.err)) else
  let name := nameOf r.cmd
  if badArity q r.cmd then (s, .one (.frame KS.err)) else
  match kindOf name with
  | .multi =>
    if c.inTx then (s, .one (.frame KS.err))
    else (setConn s cid { c with inTx := true, queue := [], aborted := false }, .one (.frame KS.ok))
  | .exec => exec q s cid r
  | .discard =>
    if !c.inTx then (s, .one (.frame KS.err))
    else (setConn s cid (cleared c), .one (.frame KS.ok))
  | .watch =>
    if r.cmd.length < 2 then (s, .one (.frame KS.err))
    else if c.inTx then (s, .one (.frame KS.err))
    else (s, .one (.frame KS.ok))
  | .other =>
    if c.inTx && !q.immediate.contains name then
      (setConn s cid { c with queue := c.queue ++ [r.cmd] }, .one (.frame queuedFrame))
    else
      let res := runOne q false cid ⟨s.store, c.db, s.ext⟩ r.now r.cmd
      (setConn { s with store := res.1.store, ext := res.1.ext } cid { c with db := res.1.db }, .one res.2)

/-! ### The event loop -/

inductive Event where
  /-- the loop processes one complete frame of connection `conn` -/
  | frame (conn : Nat) (r : Req)
  /-- the connection goes away (socket closed, QUIT, I/O error): its `Connection` is dropped -/
  | disconnect (conn : Nat)
  /-- anything else the loop does between two frames (serving a blocked client after a push,
      time-outs): some change of the dataset that is not a client frame -/
  | between (g : KS.Store → KS.Store)

def Event.conn? : Event → Option Nat
  | .frame c _ => some c
  | .disconnect c => some c
  | .between _ => none

def stepEvent (q : Quirks) (s : Server) : Event → Server × Option Reply
  | .frame c r => let res := processFrame q s c r; (res.1, some res.2)
  | .disconnect c => (setConn s c Conn.fresh, none)
  | .between g => ({ s with store := g s.store }, none)

/-- the state after a schedule: events are processed one at a time, each to completion -/
def run (q : Quirks) (s : Server) (evs : List Event) : Server :=
  evs.foldl (fun s e => (stepEvent q s e).1) s

/-- what the clients were sent, in order: `(event index's connection, reply)` -/
def trace (q : Quirks) : Server → List Event → List (Option Reply)
  | _, [] => []
  | s, e :: es => (stepEvent q s e).2 :: trace q (stepEvent q s e).1 es

/-- frames of one connection, back to back -/
def framesOf (cid now : Nat) (cmds : List Cmd) : List Event :=
  cmds.map fun c => .frame cid { cmd := c, now := now }

/-- a command the queue test lets through to the queue: non-empty, not a control command,
    not one of the names handled before the test -/
def queueable (q : Quirks) (c : Cmd) : Bool :=
  !c.isEmpty && kindOf (nameOf c) == .other && !q.immediate.contains (nameOf c)

def isBlockingName (n : String) : Bool := n == "BLPOP" || n == "BRPOP"

/-! ### Projection on one connection

The transaction state of a connection as a function of ITS OWN frames only (no dataset, no other
connection): `Proofs/TxSched.lean` proves that `run` agrees with it for every schedule. -/

/-- the database index after a command depends on the index before and the command only -/
def dbAfter (q : Quirks) (inExec : Bool) (db : Nat) (c : Cmd) : Nat :=
  if nameOf c = "SELECT" then
    match selectArg (c.drop 1) with
    | none => db
    | some n => if inExec && q.selectInExecIgnored then db else n
  else db

def connStep (q : Quirks) (c : Conn) (r : Req) : Conn :=
  if r.cmd.isEmpty then c else
  if badArity q r.cmd then c else
  match kindOf (nameOf r.cmd) with
  | .multi => if c.inTx then c else { c with inTx := true, queue := [], aborted := false }
  | .exec =>
    if !c.inTx then c
    else if !r.watchOk then cleared c
    else if c.aborted then cleared c
    else { cleared c with db := c.queue.foldl (dbAfter q true) c.db }
  | .discard => if !c.inTx then c else cleared c
  | .watch => c
  | .other =>
    if c.inTx && !q.immediate.contains (nameOf r.cmd) then { c with queue := c.queue ++ [r.cmd] }
    else { c with db := dbAfter q false c.db r.cmd }

def connEvent (q : Quirks) (c : Conn) : Event → Conn
  | .frame _ r => connStep q c r
  | .disconnect _ => Conn.fresh
  | .between _ => c

def ownEvents (cid : Nat) (evs : List Event) : List Event := evs.filter fun e => e.conn? == some cid
def otherEvents (cid : Nat) (evs : List Event) : List Event := evs.filter fun e => !(e.conn? == some cid)

/-! ### Blocked clients

A client whose BLPOP/BRPOP (sent directly) finds every list empty is registered as a waiter; the
loop serves waiters only once a whole frame is over — after a direct LPUSH/RPUSH (the pushed key),
after a direct RENAME/RENAMENX (every key of that database somebody waits on, sorted), and after an
EXEC (the keys its LPUSH/RPUSH commands named, in queue order, then the swept databases): inside
EXEC nobody else is served (`Server::serve_key`, the tail of `handle_exec`, the LPUSH/RPUSH arms of
`process_normal_command`: no notification when `conn_id == 0`).  `Loop.frame` is `processFrame`
followed by that service, i.e. a frame event followed by an `Event.between`.  EVAL/EVALSHA (which
sweep too) and time-outs of waiters are outside this model (C12, C13). -/

structure Waiter where
  cid : Nat
  db : Nat
  keys : List Bytes
  left : Bool
  deriving Repr, DecidableEq

structure Loop where
  srv : Server := {}
  /-- registration order -/
  waiters : List Waiter := []

/-- serve `(db, key)` while it has both a waiter (first registered first) and an element; fuel = number of waiters + 1 -/
def serveKey (q : KS.Quirks) (now : Nat) : Nat → KS.Store → List Waiter → Nat → Bytes → KS.Store × List Waiter × List (Nat × Frame)
  | 0, s, ws, _, _ => (s, ws, [])
  | f+1, s, ws, db, key =>
    match ws.find? (fun w => w.db == db && w.keys.contains key) with
    | none => (s, ws, [])
    | some w =>
      match KS.step q s db now [if w.left then lpopName else rpopName, key] none with
      | (s', .bulk x) =>
        let r := serveKey q now f s' (ws.filter fun v => v.cid != w.cid) db key
        (r.1, r.2.1, (w.cid, .array [.bulk key, .bulk x]) :: r.2.2)
      | _ => (s, ws, [])

def serveAll (q : KS.Quirks) (now : Nat) (s : KS.Store) (ws : List Waiter) : List (Nat × Bytes) → KS.Store × List Waiter × List (Nat × Frame)
  | [] => (s, ws, [])
  | (db, key) :: rest =>
    let r := serveKey q now (ws.length + 1) s ws db key
    let r2 := serveAll q now r.1 r.2.1 rest
    (r2.1, r2.2.1, r.2.2 ++ r2.2.2)

def isPushName (n : String) : Bool := n == "LPUSH" || n == "RPUSH"
def isSweepName (n : String) : Bool := n == "RENAME" || n == "RENAMENX"

/-- keys signalled ready by commands run one after another starting in database `db`: the keys of
    LPUSH/RPUSH in order, and the databases to sweep (first occurrence first) -/
def readyScan (q : Quirks) (inExec : Bool) : Nat → List Cmd → List (Nat × Bytes) × List Nat
  | _, [] => ([], [])
  | db, c :: cs =>
    let r := readyScan q inExec (dbAfter q inExec db c) cs
    match c with
    | _ :: key :: _ =>
      if isPushName (nameOf c) then ((db, key) :: r.1, r.2)
      else if isSweepName (nameOf c) then (r.1, db :: r.2.filter (· != db))
      else r
    | _ => r

def sweepKeys (ws : List Waiter) (db : Nat) : List Bytes :=
  KS.sortBytes (KS.dedup ((ws.filter (·.db == db)).flatMap (·.keys)))

/-- keys of a blocking pop: everything between the name and the time-out -/
def blockingKeys (cmd : Cmd) : List Bytes := ((cmd.drop 1).reverse.drop 1).reverse

/-- one frame, then the service of blocked clients it made possible; the third component is what
    is sent to OTHER (blocked) connections: `(connection, reply)` in the order served -/
def Loop.frame (q : Quirks) (L : Loop) (cid : Nat) (r : Req) : Loop × Reply × List (Nat × Frame) :=
  let c := L.srv.conns cid
  let res := processFrame q L.srv cid r
  let name := nameOf r.cmd
  let direct := !r.cmd.isEmpty && kindOf name == .other && !(c.inTx && !q.immediate.contains name)
  let ws1 := match res.2 with
    | .one .noResponse => L.waiters ++ [⟨cid, c.db, blockingKeys r.cmd, name == "BLPOP"⟩]
    | _ => L.waiters
  let scan := match res.2 with
    | .exec _ => readyScan q true c.db c.queue
    | _ => if direct then readyScan q false c.db [r.cmd] else ([], [])
  let ready := scan.1 ++ scan.2.flatMap fun db => (sweepKeys ws1 db).map fun k => (db, k)
  let sv := serveAll q.ks r.now res.1.store ws1 ready
  ({ srv := { res.1 with store := sv.1 }, waiters := sv.2.1 }, res.2, sv.2.2)

def Loop.disconnect (q : Quirks) (L : Loop) (cid : Nat) : Loop :=
  { srv := (stepEvent q L.srv (.disconnect cid)).1, waiters := L.waiters.filter fun w => w.cid != cid }

end Ferrous.Tx
