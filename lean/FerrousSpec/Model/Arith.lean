/-
  Arithmetic sites fed by client input, in Rust *release* arithmetic (C06).

  Each site is a total function into `Outcome`: `ok v` (the computation proceeds with sizes/indices
  `v`), `refused` (an error reply), or `panic why` (a slice bound, capacity or time overflow that
  would kill the command thread).  The models transliterate the code as it is on the current tree;
  the theorems of Props/C06.lean show `panic` is unreachable for ALL arguments.
  Sites whose arithmetic lives in another model are re-exported there:
  GETRANGE/LRANGE/LTRIM/LINDEX windows (Model/Keyspace.lean), parser reservation and nesting
  (Model/Resp.lean), ZRANGE windows (Model/ZSet.lean), XPENDING ranges (Model/Groups.lean).
-/
import FerrousSpec.Model.Bytes
namespace Ferrous.Arith

inductive Outcome (α : Type) where
  | ok (v : α)
  | refused
  | panic (why : String)
  deriving Repr, DecidableEq

def usizeMax : Nat := 18446744073709551615
def isizeMax : Nat := 9223372036854775807
def maxString : Nat := 536870912          -- 512 MB

/-- `Vec::with_capacity(n)` / `vec![0u8; n]` for elements of `size` bytes: capacity overflow panics. -/
def alloc (n size : Nat) : Outcome Nat :=
  if n * size > isizeMax then .panic "capacity overflow" else .ok (n * size)

/-- slice `bytes[a..=b]` on a buffer of length `len`: panics unless `a ≤ b + 1 ≤ len` (and `b < usize::MAX`). -/
def sliceIncl (len a b : Nat) : Outcome (Nat × Nat) :=
  if b ≥ usizeMax then .panic "range end overflows"
  else if a > b + 1 then .panic "slice index starts after end"
  else if b + 1 > len then .panic "range end out of bounds"
  else .ok (a, b)

/-- `engine.rs getrange` after the i128 normalisation, then the slice `bytes[s as usize..=e as usize]`
    (the three panic conditions of `sliceIncl` written out). -/
def getrange (len : Nat) (start stop : Int) : Outcome (Option (Nat × Nat)) :=
  if len = 0 ∨ (start < 0 ∧ stop < 0 ∧ start > stop) then .ok none else
  let s0 := if start < 0 then start + len else start
  let e0 := if stop < 0 then stop + len else stop
  let s1 := if s0 < 0 then 0 else s0
  let e1 := if e0 < 0 then 0 else e0
  let e2 := if e1 ≥ len then (len : Int) - 1 else e1
  if s1 > e2 then .ok none
  else if e2.toNat ≥ usizeMax then .panic "range end overflows"
  else if s1.toNat > e2.toNat + 1 then .panic "slice index starts after end"
  else if e2.toNat + 1 > len then .panic "range end out of bounds"
  else .ok (some (s1.toNat, e2.toNat))

/-- `engine.rs setrange`: `offset : usize`, `vlen = value.len()`, on a string of `cur` bytes (or absent: `none`);
    `bytes.resize(required, 0)` / `vec![0; offset + vlen]` allocate `max cur required` bytes. -/
def setrange (cur : Option Nat) (offset vlen : Nat) : Outcome Nat :=
  if vlen = 0 then .ok (cur.getD 0)
  -- `offset.checked_add(value.len())` and the 512 MB limit
  else if offset + vlen > usizeMax ∨ offset + vlen > maxString then .refused
  else if max (cur.getD 0) (offset + vlen) > isizeMax then .panic "capacity overflow"
  else .ok (max (cur.getD 0) (offset + vlen))

/-- `engine.rs srandmember` with a negative count: bytes reserved for the picks (`elemSize` per slot). -/
def srandPicks (count : Int) (elemSize : Nat) : Outcome Nat :=
  if count ≥ 0 then .ok 0
  else if count.natAbs > 10000000 then .refused
  else if count.natAbs * elemSize > isizeMax then .panic "capacity overflow"
  else .ok (count.natAbs * elemSize)

/-- `commands/lua.rs process_keys_and_args`: `parts` frames, keys start at index 3;
    `num_keys > parts.len()` is tested first so that `3 + num_keys` cannot wrap. -/
def evalKeys (parts numKeys : Nat) (elemSize : Nat) : Outcome Nat :=
  if numKeys > parts ∨ parts < 3 + numKeys then .refused
  else if numKeys * elemSize > isizeMax then .panic "capacity overflow"
  else .ok (numKeys * elemSize)

/-- `ValueMetadata::deadline_after`: `now + ttl`, saturating a century away.  Times in nanoseconds since
    the Instant epoch; `instantMax` is the largest representable instant. -/
def deadlineAfter (instantMax now ttl : Nat) : Outcome Nat :=
  let century := 100 * 365 * 24 * 60 * 60 * 1000000000
  if now + ttl ≤ instantMax then .ok (now + ttl)
  else if now + century ≤ instantMax then .ok (now + century)
  else .panic "Instant overflow"

/-- LINDEX / LSET index normalisation (`len + index` in isize cannot overflow: len ≤ isize::MAX, index ≥ isize::MIN). -/
def listIndex (len : Nat) (index : Int) : Outcome (Option Nat) :=
  let idx := if index < 0 then (len : Int) + index else index
  if idx ≥ 0 ∧ idx < len then .ok (some idx.toNat) else .ok none

def isPanic {α : Type} : Outcome α → Bool
  | .panic _ => true
  | _ => false

/-- The reviewed inventory of risky constructs (see `Gen.arithSites`): every row of the regenerated
    table must appear here, with the reason it cannot panic on client input. -/
def reviewed : List (String × String × String × String) := [
  -- sized by configuration constants at start-up
  ("network/blocking.rs", "new", "with_capacity", "num_databases"),
  ("storage/engine.rs", "with_config", "with_capacity", "num_databases"),
  -- sized by the length of data already in memory
  ("network/server.rs", "handle_zrange", "with_capacity", "members.len()*2"),
  ("network/server.rs", "handle_zrangebyscore", "with_capacity", "members.len()*2"),
  ("network/server.rs", "handle_zrevrange", "with_capacity", "members.len()*2"),
  ("network/server.rs", "handle_zrevrangebyscore", "with_capacity", "members.len()*2"),
  ("storage/commands/scan.rs", "handle_zscan", "with_capacity", "items.len()*2"),
  ("storage/engine.rs", "hmget", "vec_zeroed", "fields.len()"),
  ("storage/skiplist.rs", "get_all_items", "with_capacity", "inner.length"),
  ("storage/skiplist.rs", "insert_new_node", "vec_zeroed", "new_level+1"),          -- new_level < MAX_LEVEL = 32
  ("storage/commands/streams.rs", "handle_xadd", "with_capacity", "num_fields"),    -- (parts.len() - 3) / 2
  ("storage/commands/strings.rs", "handle_mset", "with_capacity", "parts.len()/2"), -- half the received frame's element count
  ("network/server.rs", "handle_zadd", "with_capacity", "(parts.len()-2)/2"),       -- behind `parts.len() < 4` (no underflow); bounded by the received frame
  ("network/server.rs", "handle_zrem", "with_capacity", "parts.len()-2"),           -- behind `parts.len() < 3`; bounded by the received frame
  -- parser: capped by the bytes received (C20 reserve_bounded); windows inside the buffer (C20 consumed_bounded)
  ("protocol/parser.rs", "parse_array", "with_capacity", "len.min(data.len()"),   -- …).min(MAX_RESERVE): the inventory cuts the operand at the first `).`; C20 reserve_bounded(_by_constant)
  ("protocol/parser.rs", "parse_map", "with_capacity", "len.min(data.len()"),   -- …).min(MAX_RESERVE): the inventory cuts the operand at the first `).`; C20 reserve_bounded(_by_constant)
  ("protocol/parser.rs", "parse_set", "with_capacity", "len.min(data.len()"),   -- …).min(MAX_RESERVE): the inventory cuts the operand at the first `).`; C20 reserve_bounded(_by_constant)
  ("protocol/parser.rs", "parse", "range_index", "self.position..self.position+4"),  -- guarded by position + 4 <= len
  ("protocol/parser.rs", "parse_bulk_string", "range_index", "header_consumed..header_consumed+len"),  -- after data.len() >= total_needed
  ("protocol/parser.rs", "parse_line", "range_index", "skip_prefix..i"),             -- i < data.len() - 1
  -- sites modelled above and proved panic-free
  ("storage/commands/lua.rs", "process_keys_and_args", "with_capacity", "num_keys"),  -- evalKeys
  ("storage/engine.rs", "getrange", "range_inclusive_index", "sasusize..=easusize"),  -- getrange
  ("storage/engine.rs", "setrange", "vec_zeroed", "offset+value.len()"),              -- setrange
  ("storage/engine.rs", "setrange", "range_index", "offset..offset+value.len()"),     -- setrange (after resize)
  ("storage/engine.rs", "srandmember", "with_capacity", "n"),                          -- srandPicks
  ("storage/consumer_groups.rs", "get_range", "btree_range", "start..=end"),           -- guarded: start > end returns empty (C16)
  ("storage/stream.rs", "from_string", "split_at", "dash_pos"),                        -- position returned by find('-')
  -- snapshot code: not reachable from client arguments (C10 owns the loader's allocation)
  ("storage/rdb.rs", "generate_rdb_bytes", "time_plus", "SystemTime::now()+ttl)"),    -- ttl = deadline - now, deadline saturated
  ("storage/rdb.rs", "read_string", "vec_zeroed", "len")
]

end Ferrous.Arith
