/-
  Pub/sub (`src/pubsub.rs`, the SUBSCRIBE-family handlers and `handle_publish` of
  `src/network/server.rs`) — import-free.

  `Code` side: the three hash maps of `PubSubManager` as association lists, the four
  subscription calls, `unsubscribe_all`, `publish` with its `seen_connections`
  de-duplication (switch `dedup`; `true` = the tree as pinned) and the glob matcher
  `pattern_matches` as a fuelled loop over suffixes.
  `Spec` side: the flat set of subscriptions currently held, one delivery per matching
  subscription, and the declarative meaning of `* ? \x`.

  Representation choices (validated by the correspondence run, see lib/c14.py):
  * `HashMap`/`HashSet` become lists in insertion order; iteration order of the real
    tables is arbitrary, so everything compared with the implementation is compared up to order.
  * SUBSCRIBE and PSUBSCRIBE (resp. UNSUBSCRIBE / PUNSUBSCRIBE) are textual twins in
    pubsub.rs that differ only in which map and which half of `SubscriberInfo` they touch;
    they are one function here, parameterised by `Kind`.
  * the matcher's indices `p_idx`, `c_idx`, `star_idx`, `star_match_idx` become the
    suffixes `pattern[p_idx..]`, `channel[c_idx..]`, `(pattern[star_idx+1..], channel[star_match_idx..])`.
-/
import FerrousSpec.Model.Bytes
namespace Ferrous.PubSub

abbrev ConnId := Nat

/-! ## Glob matcher

`pubsub::pattern_matches` is one call of the server's glob matcher
`storage::engine::pattern_matches` (KEYS, SCAN MATCH, PSUBSCRIBE all use it): a star-backtracking
loop with the arms `?`, `*`, `[`…`]`, `\x`, anything else.  `?` = 63, `*` = 42, `[` = 91,
`\` = 92, `]` = 93, `^` = 94, `-` = 45. -/

/-- What `match pattern_chars[p_idx] { … }` does with the text byte `c` (engine.rs `pattern_matches`). -/
inductive GStep where
  /-- `?`, a class, an escaped byte or a literal byte matched `c`: continue with the rest of the pattern. -/
  | advance (p' : Bytes)
  /-- `*`: remember the position, continue with the rest of the pattern on the same byte. -/
  | star (p' : Bytes)
  /-- fall through to the back-tracking code. -/
  | mismatch

/-- The `while i < pattern_chars.len()` walk over the members of a class, `q` = `pattern[i..]`,
    `m` = `matched` so far; returns `matched` and `pattern[i..]` after the class.
    Member by member, as Redis's `stringmatchlen`: `\x` is the member `x`; `]` ends the class;
    `a-b` (three bytes, whatever `b` is, also `]`) is the range between the two in either order;
    a class without `]` runs to the end of the pattern. -/
def isRange : Bytes → Bool
  | d :: _ :: _ => d == 45
  | _ => false

def classGo (c : Nat) : Bytes → Bool → Bool × Bytes
  | [], m => (m, [])
  | a :: q, m =>
    if a = 92 then
      match q with
      | x :: q' => classGo c q' (m || x == c)
      | [] => (m || 92 == c, [])
    else if a = 93 then (m, q)
    else if isRange q then          -- `i + 2 < len && pattern[i + 1] == b'-'`
      match q with
      | _ :: b :: q' => classGo c q' (m || (decide (min a b ≤ c) && decide (c ≤ max a b)))
      | _ => (m, [])                -- not reached
    else classGo c q (m || a == c)

/-- A trailing `\` is an ordinary byte (guard `p_idx + 1 < len`). -/
def gstep (p : Bytes) (c : Nat) : GStep :=
  match p with
  | [] => .mismatch
  | a :: p' =>
    if a = 63 then .advance p'
    else if a = 42 then .star p'
    else if a = 91 then
      let negate := p'.head? == some 94
      let r := classGo c (if negate then p'.tail else p') false
      if r.1 != negate then .advance r.2 else .mismatch
    else if a = 92 then
      match p' with
      | x :: p'' => if x = c then .advance p'' else .mismatch
      | [] => if a = c then .advance p' else .mismatch
    else if a = c then .advance p' else .mismatch

/-- The `while t_idx < text.len()` loop followed by the trailing-`*` loop.
    `star = some (ps, ss)`: `ps` is the pattern after the last `*` seen, `ss` the text suffix
    at `star_match_idx`.  The first argument is fuel (see `globFuel`; never exhausted:
    `Ferrous.PubSub.globLoop_fuel_irrelevant`). -/
def globLoop : Nat → Bytes → Bytes → Option (Bytes × Bytes) → Bool
  | 0, _, _, _ => false
  | _+1, p, [], _ => (p.dropWhile (· == 42)).isEmpty
  | fuel+1, p, c :: s, star =>
    match gstep p c with
    | .advance p' => globLoop fuel p' s star
    | .star p' => globLoop fuel p' (c :: s) (some (p', c :: s))
    | .mismatch =>
      match star with
      | some (ps, _ :: ss') => globLoop fuel ps ss' (some (ps, ss'))
      | _ => false

def globFuel (p s : Bytes) : Nat := (s.length + 2) * (p.length + s.length + 2)

/-- `pattern_matches(pattern, channel)`. -/
def globBytes (p s : Bytes) : Bool := globLoop (globFuel p s) p s none

namespace Spec

/-- `g` holds of some suffix of the argument (what `*` followed by `g` means). -/
def someSuffix (g : Bytes → Bool) : Bytes → Bool
  | [] => g []
  | c :: s => g (c :: s) || someSuffix g s

/-- A member of a character class. -/
inductive Item where
  | one (x : Nat)
  /-- `a-b`: the bounds in either order -/
  | range (a b : Nat)
  deriving DecidableEq, Repr

def Item.has (c : Nat) : Item → Bool
  | .one x => x == c
  | .range a b => decide (min a b ≤ c) && decide (c ≤ max a b)

/-- Reading a class body (what follows `[` or `[^`): its members and the pattern after it.
    Redis's rules: `\x` is the member `x` (also `\]`, `\-`); a final `\` is itself; `]` closes
    the class (also as its first byte: `[]` is empty); `a-b` is a range whatever `b` is (`a-]`
    is a range, the class goes on behind it); without `]` the class runs to the end of the pattern. -/
def classParse : Bytes → List Item × Bytes
  | [] => ([], [])
  | a :: q =>
    if a = 92 then
      match q with
      | x :: q' => (.one x :: (classParse q').1, (classParse q').2)
      | [] => ([.one 92], [])
    else if a = 93 then ([], q)
    else if isRange q then
      match q with
      | _ :: b :: q' => (.range a b :: (classParse q').1, (classParse q').2)
      | _ => ([], [])               -- not reached
    else (.one a :: (classParse q).1, (classParse q).2)

/-- A pattern element that stands for exactly one byte of the text. -/
inductive Tok where
  /-- `?` -/
  | any
  /-- a byte standing for itself, `\x`, a final `\` -/
  | lit (x : Nat)
  /-- `[…]` / `[^…]` -/
  | cls (neg : Bool) (items : List Item)
  deriving DecidableEq, Repr

/-- Does the element accept the byte `c`?  A class accepts `c` iff membership differs from
    negation: `[^` alone accepts every byte, `[` and `[]` none. -/
def Tok.takes (c : Nat) : Tok → Bool
  | .any => true
  | .lit x => x == c
  | .cls neg items => items.any (·.has c) != neg

/-- First element of a pattern and the rest. -/
inductive Head where
  | done
  | star (p' : Bytes)
  | tok (t : Tok) (p' : Bytes)

def head : Bytes → Head
  | [] => .done
  | a :: p =>
    if a = 42 then .star p
    else if a = 63 then .tok .any p
    else if a = 91 then
      let neg := p.head? == some 94
      let r := classParse (if neg then p.tail else p)
      .tok (.cls neg r.1) r.2
    else if a = 92 then
      match p with
      | x :: p' => .tok (.lit x) p'
      | [] => .tok (.lit 92) []
    else .tok (.lit a) p

/-- Declarative meaning of a glob pattern, element by element (the first argument bounds the
    number of elements; `glob` supplies enough): `*` any (possibly empty) run of bytes, every
    other element exactly one byte it accepts. -/
def globF : Nat → Bytes → Bytes → Bool
  | 0, _, _ => false
  | n+1, p, s =>
    match head p with
    | .done => s.isEmpty
    | .star p' => someSuffix (globF n p') s
    | .tok t p' =>
      match s with
      | [] => false
      | c :: s' => t.takes c && globF n p' s'

def glob (p s : Bytes) : Bool := globF (p.length + 1) p s

/-- The same meaning as a relation (no computation): the least relation closed under these rules. -/
inductive Glob : Bytes → Bytes → Prop
  | done {p} : head p = .done → Glob p []
  | starSkip {p p' s} : head p = .star p' → Glob p' s → Glob p s
  | starEat {p p' s} (c) : head p = .star p' → Glob p s → Glob p (c :: s)
  | tok {p p' s t} (c) : head p = .tok t p' → t.takes c = true → Glob p' s → Glob p (c :: s)

end Spec

/-! ## Hash maps and hash sets as lists -/

section AList
variable {κ ν : Type} [DecidableEq κ]

/-- `HashMap::get` -/
def aget : List (κ × ν) → κ → Option ν
  | [], _ => none
  | (k', v) :: m, k => if k' = k then some v else aget m k

/-- `HashMap::insert` (replace or add) -/
def aset : List (κ × ν) → κ → ν → List (κ × ν)
  | [], k, v => [(k, v)]
  | (k', v') :: m, k, v => if k' = k then (k, v) :: m else (k', v') :: aset m k v

/-- `HashMap::remove` -/
def adel (m : List (κ × ν)) (k : κ) : List (κ × ν) := m.filter (fun e => decide (e.1 ≠ k))

/-- `HashSet::insert` -/
def sins (l : List κ) (x : κ) : List κ := if x ∈ l then l else l ++ [x]

/-- `HashSet::remove` -/
def srem (l : List κ) (x : κ) : List κ := l.filter (fun y => decide (y ≠ x))

end AList

/-! ## `PubSubManager` -/

inductive Kind where
  | chan
  | pat
  deriving DecidableEq, Repr

/-- `SubscriberInfo`: (channels, patterns) of one connection. -/
abbrev Held := List Bytes × List Bytes

def Held.sel (h : Held) : Kind → List Bytes
  | .chan => h.1
  | .pat => h.2

def Held.upd (h : Held) (k : Kind) (l : List Bytes) : Held :=
  match k with
  | .chan => (l, h.2)
  | .pat => (h.1, l)

/-- `conn_info.channels.len() + conn_info.patterns.len()` -/
def Held.total (h : Held) : Nat := h.1.length + h.2.length

structure State where
  /-- channel → connections -/
  channels : List (Bytes × List ConnId) := []
  /-- pattern → connections -/
  patterns : List (Bytes × List ConnId) := []
  /-- connection → (channels, patterns) -/
  subs : List (ConnId × Held) := []
  deriving Repr

def State.idx (st : State) : Kind → List (Bytes × List ConnId)
  | .chan => st.channels
  | .pat => st.patterns

def State.withIdx (st : State) (k : Kind) (m : List (Bytes × List ConnId)) : State :=
  match k with
  | .chan => { st with channels := m }
  | .pat => { st with patterns := m }

def State.withSubs (st : State) (m : List (ConnId × Held)) : State := { st with subs := m }

/-- `SubResult` (+ which call produced it). `un = false`: (P)SUBSCRIBE, `true`: (P)UNSUBSCRIBE. -/
structure Ack where
  kind : Kind
  un : Bool
  name : Bytes
  count : Nat
  isNew : Bool
  deriving DecidableEq, Repr

/-- `for x in xs { … results.push(…) }` -/
def loop {σ : Type} (f : σ → Bytes → σ × Ack) : σ → List Bytes → σ × List Ack
  | st, [] => (st, [])
  | st, x :: xs =>
    let r := f st x
    let r' := loop f r.1 xs
    (r'.1, r.2 :: r'.2)

/-- `conn_subs.entry(connection_id).or_insert_with(…)` -/
def ensure (st : State) (c : ConnId) : State :=
  match aget st.subs c with
  | some _ => st
  | none => st.withSubs (aset st.subs c ([], []))

/-- Body of the loop of `subscribe` (k = chan, pubsub.rs:92-125) / `psubscribe` (k = pat, :196-215). -/
def sub1 (k : Kind) (c : ConnId) (st : State) (x : Bytes) : State × Ack :=
  let info := (aget st.subs c).getD ([], [])
  if x ∈ info.sel k then
    (st, ⟨k, false, x, info.total, false⟩)
  else
    let info' := info.upd k (info.sel k ++ [x])
    let subscribers := (aget (st.idx k) x).getD []
    let st' := st.withIdx k (aset (st.idx k) x (sins subscribers c))
    (st'.withSubs (aset st.subs c info'), ⟨k, false, x, info'.total, true⟩)

def subscribe (k : Kind) (c : ConnId) (st : State) (xs : List Bytes) : State × List Ack :=
  loop (sub1 k c) (ensure st c) xs

/-- Body of the loop of `unsubscribe` (pubsub.rs:149-169) / `punsubscribe` (:239-259). -/
def unsub1 (k : Kind) (c : ConnId) (st : State) (x : Bytes) : State × Ack :=
  let info := (aget st.subs c).getD ([], [])
  let info' := info.upd k (srem (info.sel k) x)
  let idx' :=
    if x ∈ info.sel k then
      match aget (st.idx k) x with
      | some subscribers =>
        let s' := srem subscribers c
        if s'.isEmpty then adel (st.idx k) x else aset (st.idx k) x s'
      | none => st.idx k
    else st.idx k
  ((st.withIdx k idx').withSubs (aset st.subs c info'), ⟨k, true, x, info'.total, false⟩)

/-- "Clean up connection if no subscriptions remain" -/
def cleanup (st : State) (c : ConnId) : State :=
  match aget st.subs c with
  | some i => if i.1.isEmpty && i.2.isEmpty then st.withSubs (adel st.subs c) else st
  | none => st

/-- `unsubscribe` / `punsubscribe`; `xs = none` is the call without arguments (all of them).
    A connection without an entry gets NO acknowledgement (early return). -/
def unsubscribe (k : Kind) (c : ConnId) (st : State) (xs : Option (List Bytes)) : State × List Ack :=
  match aget st.subs c with
  | none => (st, [])
  | some info =>
    let r := loop (unsub1 k c) st (xs.getD (info.sel k))
    (cleanup r.1 c, r.2)

/-- The two sweeps of `unsubscribe_all` over channel and pattern maps. -/
def purge (m : List (Bytes × List ConnId)) (c : ConnId) : List (Bytes × List ConnId) :=
  m.filterMap fun e =>
    let s := srem e.2 c
    if s.isEmpty then none else some (e.1, s)

/-- `unsubscribe_all`: what the server calls when it drops a connection. -/
def unsubscribeAll (st : State) (c : ConnId) : State :=
  { channels := purge st.channels c, patterns := purge st.patterns c, subs := adel st.subs c }

/-- `(conn_id, matching_pattern)` -/
abbrev Delivery := ConnId × Option Bytes

/-- `if seen_connections.insert(conn_id) { receivers.push(…) }` over the candidates in order. -/
def dedupGo : List ConnId → List Delivery → List Delivery
  | _, [] => []
  | seen, d :: ds => if d.1 ∈ seen then dedupGo seen ds else d :: dedupGo (d.1 :: seen) ds

/-- Candidates in the order the code visits them: direct subscribers, then every matching
    pattern's subscribers. -/
def candidates (st : State) (ch : Bytes) : List Delivery :=
  ((aget st.channels ch).getD []).map (fun c => (c, none)) ++
  st.patterns.flatMap (fun e => if globBytes e.1 ch then e.2.map (fun c => (c, some e.1)) else [])

/-- `publish` (pubsub.rs:271-302).  `dedup = true` is the pinned code. -/
def publish (dedup : Bool) (st : State) (ch : Bytes) : List Delivery :=
  if dedup then dedupGo [] (candidates st ch) else candidates st ch

/-! ## Spec: the set of subscriptions held -/

namespace Spec

structure Sub where
  conn : ConnId
  kind : Kind
  name : Bytes
  deriving DecidableEq, Repr

/-- All subscriptions currently held, oldest first. -/
abbrev State := List Sub

/-- Number of subscriptions (channels + patterns) connection `c` holds. -/
def count (s : State) (c : ConnId) : Nat := (s.filter (fun e => decide (e.conn = c))).length

/-- Names of kind `k` held by `c`, oldest first. -/
def heldBy (s : State) (c : ConnId) (k : Kind) : List Bytes :=
  (s.filter (fun e => decide (e.conn = c ∧ e.kind = k))).map (·.name)

def sub1 (k : Kind) (c : ConnId) (s : State) (x : Bytes) : State × Ack :=
  let isNew := decide (Sub.mk c k x ∉ s)
  let s' := if isNew then s ++ [⟨c, k, x⟩] else s
  (s', ⟨k, false, x, count s' c, isNew⟩)

def unsub1 (k : Kind) (c : ConnId) (s : State) (x : Bytes) : State × Ack :=
  let s' := s.filter (fun e => decide (e ≠ ⟨c, k, x⟩))
  (s', ⟨k, true, x, count s' c, false⟩)

def subscribe (k : Kind) (c : ConnId) (s : State) (xs : List Bytes) : State × List Ack :=
  loop (sub1 k c) s xs

/-- One acknowledgement per name given, or per subscription held when none is given. -/
def unsubscribe (k : Kind) (c : ConnId) (s : State) (xs : Option (List Bytes)) : State × List Ack :=
  loop (unsub1 k c) s (xs.getD (heldBy s c k))

def disconnect (s : State) (c : ConnId) : State := s.filter (fun e => decide (e.conn ≠ c))

/-- Does subscription `e` match a message published on `ch`, and what is delivered. -/
def deliveryOf (ch : Bytes) (e : Sub) : Option Delivery :=
  match e.kind with
  | .chan => if e.name = ch then some (e.conn, none) else none
  | .pat => if glob e.name ch then some (e.conn, some e.name) else none

/-- One delivery per matching subscription. -/
def deliveries (s : State) (ch : Bytes) : List Delivery := s.filterMap (deliveryOf ch)

end Spec

/-! ## Histories: operations, events, per-connection streams -/

inductive Op where
  /-- SUBSCRIBE (k = chan) / PSUBSCRIBE (k = pat) by connection `c` -/
  | subscribe (c : ConnId) (k : Kind) (xs : List Bytes)
  /-- UNSUBSCRIBE / PUNSUBSCRIBE; `none` = without arguments -/
  | unsubscribe (c : ConnId) (k : Kind) (xs : Option (List Bytes))
  /-- the connection goes away: the server calls `unsubscribe_all` -/
  | disconnect (c : ConnId)
  /-- PUBLISH sent by connection `c` -/
  | publish (c : ConnId) (ch msg : Bytes)
  deriving Repr

/-- What is appended to a connection's output buffer. -/
inductive Event where
  | ack (a : Ack)
  /-- confirmation with a nil name: argument-less (P)UNSUBSCRIBE by a client holding nothing of that kind -/
  | ackNil (k : Kind) (count : Nat)
  | message (ch msg : Bytes)
  | pmessage (pat ch msg : Bytes)
  /-- integer reply to PUBLISH -/
  | published (n : Nat)
  deriving DecidableEq, Repr

/-- `format_message` / `format_pmessage` appended to the receiver's buffer (server.rs:1611-1622). -/
def toEvent (ch msg : Bytes) (d : Delivery) : ConnId × Event :=
  match d.2 with
  | none => (d.1, .message ch msg)
  | some p => (d.1, .pmessage p ch msg)

/-- Events of a PUBLISH: one frame per receiver, then the integer reply to the publisher. -/
def pubEvents (c : ConnId) (ch msg : Bytes) (ds : List Delivery) : List (ConnId × Event) :=
  ds.map (toEvent ch msg) ++ [(c, .published ds.length)]

namespace Code

/-- State change and acknowledgements of one operation. -/
def apply (st : State) : Op → State × List Ack
  | .subscribe c k xs => PubSub.subscribe k c st xs
  | .unsubscribe c k xs => PubSub.unsubscribe k c st xs
  | .disconnect c => (unsubscribeAll st c, [])
  | .publish _ _ _ => (st, [])

def next (st : State) (op : Op) : State := (apply st op).1

/-- (P)UNSUBSCRIBE by a connection without an entry: `PubSubManager` returns early with no
    `SubResult` at all (the server handler then writes the confirmations itself: `unsubEvents`). -/
def silent (st : State) : Op → Bool
  | .unsubscribe c _ _ => (aget st.subs c).isNone
  | _ => false

/-- What a client can make the server do: SUBSCRIBE / PSUBSCRIBE carry at least one name
    (arity check of the handlers, server.rs `handle_subscribe` / `handle_psubscribe`). -/
def clientOp : Op → Bool
  | .subscribe _ _ xs => !xs.isEmpty
  | _ => true

/-- What `handle_unsubscribe` / `handle_punsubscribe` (server.rs) write for the manager's `results`.
    `idle = true` (the tree now): when the manager returned nothing — the client holds nothing to
    unsubscribe from — one confirmation per name given, or a single one with a nil name, each with
    `remaining` = `get_subscription_info(conn).map(channels + patterns).unwrap_or(0)`.
    `idle = false` (the tree as pinned): nothing at all in that case. -/
def unsubEvents (idle : Bool) (k : Kind) (xs : Option (List Bytes)) (results : List Ack) (remaining : Nat) : List Event :=
  if results.isEmpty && idle then
    match xs with
    | some l => l.map fun n => .ack ⟨k, true, n, remaining, false⟩
    | none => [.ackNil k remaining]
  else results.map .ack

/-- Everything the operation appends to output buffers, in order. -/
def emit (dedup idle : Bool) (st : State) (op : Op) : List (ConnId × Event) :=
  match op with
  | .subscribe c _ _ => (apply st op).2.map (fun a => (c, .ack a))
  | .unsubscribe c k xs =>
    let r := apply st op
    (unsubEvents idle k xs r.2 ((aget r.1.subs c).getD ([], [])).total).map (fun e => (c, e))
  | .disconnect _ => []
  | .publish c ch msg => pubEvents c ch msg (publish dedup st ch)

def after (st : State) (ops : List Op) : State := ops.foldl next st

def log (dedup idle : Bool) : State → List Op → List (ConnId × Event)
  | _, [] => []
  | st, op :: ops => emit dedup idle st op ++ log dedup idle (next st op) ops

end Code

namespace Spec

def apply (s : State) : Op → State × List Ack
  | .subscribe c k xs => subscribe k c s xs
  | .unsubscribe c k xs => unsubscribe k c s xs
  | .disconnect c => (disconnect s c, [])
  | .publish _ _ _ => (s, [])

def next (s : State) (op : Op) : State := (apply s op).1

/-- The confirmations (P)UNSUBSCRIBE is due: one per name given, each with the number of
    subscriptions the client holds after that name; without names one per subscription of that
    kind held — or, when none is held, a single confirmation with a nil name and the count. -/
def unsubEvents (k : Kind) (c : ConnId) (s : State) (xs : Option (List Bytes)) : List Event :=
  match xs with
  | some _ => (unsubscribe k c s xs).2.map .ack
  | none => if heldBy s c k = [] then [.ackNil k (count s c)] else (unsubscribe k c s xs).2.map .ack

def emit (s : State) (op : Op) : List (ConnId × Event) :=
  match op with
  | .subscribe c _ _ => (apply s op).2.map (fun a => (c, .ack a))
  | .unsubscribe c k xs => (unsubEvents k c s xs).map (fun e => (c, e))
  | .disconnect _ => []
  | .publish c ch msg => pubEvents c ch msg (deliveries s ch)

def after (s : State) (ops : List Op) : State := ops.foldl next s

def log : State → List Op → List (ConnId × Event)
  | _, [] => []
  | s, op :: ops => emit s op ++ log (next s op) ops

end Spec

/-- The stream connection `c` reads. -/
def received (l : List (ConnId × Event)) (c : ConnId) : List Event :=
  (l.filter (fun e => decide (e.1 = c))).map (·.2)

/-- `message` / `pmessage` frames only. -/
def Event.isMsg : Event → Bool
  | .message _ _ => true
  | .pmessage _ _ _ => true
  | _ => false

/-- The channel a `message` / `pmessage` frame was published on. -/
def Event.chan? : Event → Option Bytes
  | .message ch _ => some ch
  | .pmessage _ ch _ => some ch
  | _ => none

def msgsOf (es : List Event) : List Event := es.filter Event.isMsg

/-- Is `op` a SUBSCRIBE or PSUBSCRIBE issued by connection `c`? -/
def Op.subscribesAs : Op → ConnId → Bool
  | .subscribe c' _ _, c => decide (c' = c)
  | _, _ => false

/-- The frames one PUBLISH puts into the buffer of connection `c`: channel, pattern and payload
    exactly as published. -/
def msgBlock (c : ConnId) (ch msg : Bytes) (ds : List Delivery) : List Event :=
  (ds.filter (fun d => decide (d.1 = c))).map (fun d => (toEvent ch msg d).2)

/-- One block of frames for connection `c` per PUBLISH of the history, in publish order. -/
def Code.blocks (dedup : Bool) : State → List Op → ConnId → List (List Event)
  | _, [], _ => []
  | st, .publish p ch msg :: ops, c =>
    msgBlock c ch msg (publish dedup st ch) :: Code.blocks dedup (Code.next st (.publish p ch msg)) ops c
  | st, op :: ops, c => Code.blocks dedup (Code.next st op) ops c

/-- What the property prescribes for connection `c`, PUBLISH by PUBLISH: one frame per
    subscription of `c` matching the channel at that moment. -/
def Spec.blocks : Spec.State → List Op → ConnId → List (List Event)
  | _, [], _ => []
  | s, .publish p ch msg :: ops, c =>
    msgBlock c ch msg (Spec.deliveries s ch) :: Spec.blocks (Spec.next s (.publish p ch msg)) ops c
  | s, op :: ops, c => Spec.blocks (Spec.next s op) ops c

/-- Block-wise equality up to the order of the frames inside one block. -/
def BlocksPerm : List (List Event) → List (List Event) → Prop
  | [], [] => True
  | a :: as, b :: bs => a.Perm b ∧ BlocksPerm as bs
  | _, _ => False

/-- At no PUBLISH of the history does a connection hold two subscriptions matching the channel. -/
def Spec.neverOverlap : Spec.State → List Op → Prop
  | _, [] => True
  | s, .publish p ch msg :: ops =>
    ((Spec.deliveries s ch).map (·.1)).Nodup ∧ Spec.neverOverlap (Spec.next s (.publish p ch msg)) ops
  | s, op :: ops => Spec.neverOverlap (Spec.next s op) ops

/-! ## Connections: closing, subscriber context, blocking

One level above the pub/sub calls (`src/network/server.rs`): when the server decides to close a
connection, which commands a connection may send, and which connections the event loop serves.
Two switches, read off the source by the translator:
* `releaseAtClose` — `true`: `unsubscribe_all(id)` at the moment a connection is marked as closing
  (CLIENT KILL by another client, its own QUIT, a protocol error); `false` (the tree before the
  repair): only when it is physically removed, at the end of a later loop iteration.
* `gate` — `true`: subscriber context, a connection that holds subscriptions may only send
  (P)SUBSCRIBE, (P)UNSUBSCRIBE, PING, QUIT; `false`: any command, also one that blocks. -/

structure Quirks where
  releaseAtClose : Bool
  gate : Bool

inductive LOp where
  /-- a pub/sub command of a client, or the physical removal of a connection (`.disconnect c`) -/
  | op (o : Op)
  /-- the server marks connection `c` as closing -/
  | close (c : ConnId)
  /-- any other command sent by `c` (PING and QUIT aside); `blocks`: one that blocks when it is
      executed (BLPOP on an empty list, time-out 0) -/
  | cmd (c : ConnId) (blocks : Bool)
  /-- a blocked connection is served again -/
  | unblock (c : ConnId)
  deriving Repr

/-- The connection a command comes from (`none`: the removal is the server's own act). -/
def Op.sender : Op → Option ConnId
  | .subscribe c _ _ => some c
  | .unsubscribe c _ _ => some c
  | .publish c _ _ => some c
  | .disconnect _ => none

def Op.isPublish : Op → Bool
  | .publish _ _ _ => true
  | _ => false

/-- `PubSubManager::is_subscribed` -/
def subscribed (st : State) (c : ConnId) : Bool := (aget st.subs c).isSome

structure Sess where
  st : State := {}
  /-- marked as closing, not yet removed: executes nothing more -/
  closed : List ConnId := []
  /-- blocked: left out of the event loop's pass, executes nothing, its output is not flushed -/
  blocked : List ConnId := []

/-- One step: the new session and the pub/sub operations that were really executed. -/
def Sess.step (q : Quirks) (s : Sess) : LOp → Sess × List Op
  | .op (.disconnect c) =>
    ({ st := unsubscribeAll s.st c, closed := srem s.closed c, blocked := srem s.blocked c }, [.disconnect c])
  | .op o =>
    match o.sender with
    | some c =>
      if c ∈ s.closed ∨ c ∈ s.blocked then (s, [])
      else if q.gate && subscribed s.st c && o.isPublish then (s, [])      -- refused with an error
      else ({ s with st := Code.next s.st o }, [o])
    | none => (s, [])
  | .close c =>
    if q.releaseAtClose then ({ s with st := unsubscribeAll s.st c, closed := sins s.closed c }, [.disconnect c])
    else ({ s with closed := sins s.closed c }, [])
  | .cmd c blocks =>
    if c ∈ s.closed ∨ c ∈ s.blocked then (s, [])
    else if q.gate && subscribed s.st c then (s, [])                        -- refused with an error
    else if blocks then ({ s with blocked := sins s.blocked c }, [])
    else (s, [])
  | .unblock c => ({ s with blocked := srem s.blocked c }, [])

def Sess.run (q : Quirks) : Sess → List LOp → Sess × List Op
  | s, [] => (s, [])
  | s, lo :: l =>
    let r := Sess.step q s lo
    let r' := Sess.run q r.1 l
    (r'.1, r.2 ++ r'.2)

end Ferrous.PubSub
