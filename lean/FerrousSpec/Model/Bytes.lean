/-
  Bytes, decimal and hexadecimal text — import-free.

  A byte is a `Nat` (the harness only ever sends values < 256); byte strings are
  `List Nat`.  Using `Nat` keeps every arithmetic side condition inside `omega`.
-/
namespace Ferrous

abbrev Bytes := List Nat

/-! ### Decimal rendering (Rust `to_string` on integers) -/

/-- Most-significant-first ASCII digits of `n`; the first argument is fuel (`n` suffices). -/
def natDigitsF : Nat → Nat → Bytes
  | 0, n => [48 + n % 10]
  | f+1, n => if n < 10 then [48 + n] else natDigitsF f (n / 10) ++ [48 + n % 10]

def natDigits (n : Nat) : Bytes := natDigitsF n n

/-- Rust `i64::to_string`. -/
def intDigits (i : Int) : Bytes :=
  if i < 0 then 45 :: natDigits i.natAbs else natDigits i.natAbs

/-! ### Decimal parsing (Rust `str::parse::<i64|u64|usize>` on ASCII) -/

def isDigit (b : Nat) : Bool := 48 ≤ b && b ≤ 57

def decVal (ds : Bytes) : Nat := ds.foldl (fun acc d => acc * 10 + (d - 48)) 0

/-- Value of a digit string, `none` when empty or when a non-digit occurs. -/
def digitsVal (ds : Bytes) : Option Nat :=
  if ds.isEmpty then none else if ds.all isDigit then some (decVal ds) else none

def i64Min : Int := -9223372036854775808
def i64Max : Int := 9223372036854775807
def u64Max : Nat := 18446744073709551615

/-- Rust `parse::<i64>`: optional `+`/`-`, at least one digit, range-checked. -/
def parseI64 (s : Bytes) : Option Int :=
  match s with
  | [] => none
  | h :: t =>
    if h = 45 then
      match digitsVal t with
      | some v => if v ≤ 9223372036854775808 then some (-(v : Int)) else none
      | none => none
    else
      match digitsVal (if h = 43 then t else h :: t) with
      | some v => if v ≤ 9223372036854775807 then some (v : Int) else none
      | none => none

/-- Rust `parse::<usize>` / `parse::<u64>`: optional `+`, digits, `< 2^64`. -/
def parseU64 (s : Bytes) : Option Nat :=
  match s with
  | [] => none
  | h :: t =>
    match digitsVal (if h = 43 then t else h :: t) with
    | some v => if v ≤ 18446744073709551615 then some v else none
    | none => none

/-! ### Hex transport encoding of the line protocol (`-` = empty string) -/

def hexDigit (n : Nat) : Char :=
  if n < 10 then Char.ofNat (48 + n) else Char.ofNat (87 + n)

def toHex (b : Bytes) : String :=
  if b.isEmpty then "-" else
    String.ofList (b.flatMap fun x => [hexDigit (x / 16 % 16), hexDigit (x % 16)])

def hexVal (c : Char) : Option Nat :=
  let n := c.toNat
  if 48 ≤ n ∧ n ≤ 57 then some (n - 48)
  else if 97 ≤ n ∧ n ≤ 102 then some (n - 87)
  else if 65 ≤ n ∧ n ≤ 70 then some (n - 55)
  else none

def ofHexChars : List Char → Option Bytes
  | [] => some []
  | [_] => none
  | a :: b :: t => match hexVal a, hexVal b, ofHexChars t with
      | some x, some y, some r => some ((x * 16 + y) :: r)
      | _, _, _ => none

def ofHex (s : String) : Option Bytes :=
  if s == "-" then some [] else ofHexChars s.toList

def strBytes (s : String) : Bytes := s.toUTF8.toList.map (·.toNat)

end Ferrous
