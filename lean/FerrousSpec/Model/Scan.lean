/-
  SCAN / HSCAN / SSCAN / ZSCAN (`src/storage/engine.rs:2165-2447`), the glob matcher used by MATCH
  (`engine.rs:2626-2711`, run on `String::from_utf8_lossy` text) and the option parsing of
  `src/storage/commands/scan.rs` — import-free transliteration.

  `Code.*` is what the code does, quirks included:
  * the cursor is a *rank*: an index into the byte-wise sorted list of live keys (of the requested
    TYPE) that is rebuilt on every call;
  * `count = 0` means 10, `count` is capped at 1000, one call examines at most `10·count` keys and
    returns at most `count` keys; the returned cursor is the first unexamined index, or 0 when the
    end of the list was reached; a cursor at or beyond the end gives `(0, [])`;
  * HSCAN/SSCAN/ZSCAN have a fast path (collection not larger than `count`, cursor 0, no MATCH)
    which returns everything at once in hash-table order (modelled as sorted order; the order of a
    fast-path reply is not compared);
  * MATCH decodes pattern and key lossily to Unicode scalar values and runs an iterative
    single-star-backtracking matcher over code points.

  `Spec.*` is what C19 prescribes: the filter semantics of a glob pattern over *bytes*
  (tokenised pattern, textbook recursive matcher) and the iteration guarantees, stated in
  `Props/C19.lean`.
-/
import FerrousSpec.Model.Bytes
namespace Ferrous.Scan

/-! ## Byte-wise order of keys (`Vec<u8>: Ord`) and sorting (`all_keys.sort()`) -/

/-- `a ≤ b` in the lexicographic order of byte strings (a proper prefix is smaller). -/
def bytesLe : Bytes → Bytes → Bool
  | [], _ => true
  | _ :: _, [] => false
  | a :: as, b :: bs => if a < b then true else if a = b then bytesLe as bs else false

/-- Strict version: `a ≤ b` and `a ≠ b`. -/
def bytesLt (a b : Bytes) : Bool := bytesLe a b && !(a == b)

def insertKey (x : Bytes) : List Bytes → List Bytes
  | [] => [x]
  | y :: l => if bytesLe x y then x :: y :: l else y :: insertKey x l

/-- Insertion sort (the result of `sort()` on distinct keys is unique, so the algorithm is immaterial). -/
def sortKeys : List Bytes → List Bytes
  | [] => []
  | x :: l => insertKey x (sortKeys l)

/-! ## `String::from_utf8_lossy` as a list of Unicode scalar values

  Transliteration of `core::str::lossy::Utf8Chunks::next`: every maximal ill-formed prefix of a
  UTF-8 sequence (1 to 3 bytes) becomes one U+FFFD. -/

def replacement : Nat := 65533

/-- Decoder state: between characters, or inside a multi-byte sequence (`need` continuation
    bytes outstanding, the next one admissible in `lo..hi`, `acc` = bits read so far). -/
inductive DState where
  | idle
  | pend (need acc lo hi : Nat)
  deriving Repr, DecidableEq

/-- First byte of a sequence: an emitted scalar value (ASCII, or U+FFFD for a byte that cannot
    start a sequence) or the state expecting continuation bytes. -/
def startByte (b : Nat) : Option Nat × DState :=
  if b < 128 then (some b, .idle)
  else if 194 ≤ b ∧ b ≤ 223 then (none, .pend 1 (b - 192) 128 191)
  else if 224 ≤ b ∧ b ≤ 239 then
    (none, .pend 2 (b - 224) (if b = 224 then 160 else 128) (if b = 237 then 159 else 191))
  else if 240 ≤ b ∧ b ≤ 244 then
    (none, .pend 3 (b - 240) (if b = 240 then 144 else 128) (if b = 244 then 143 else 191))
  else (some replacement, .idle)

def emit (e : Option Nat) (l : List Nat) : List Nat :=
  match e with
  | none => l
  | some c => c :: l

def decodeAux : DState → Bytes → List Nat
  | .idle, [] => []
  | .pend _ _ _ _, [] => [replacement]
  | .idle, b :: r => emit (startByte b).1 (decodeAux (startByte b).2 r)
  | .pend need acc lo hi, b :: r =>
    if lo ≤ b ∧ b ≤ hi then
      (if need ≤ 1 then (acc * 64 + (b - 128)) :: decodeAux .idle r
       else decodeAux (.pend (need - 1) (acc * 64 + (b - 128)) 128 191) r)
    else
      -- the broken sequence becomes one U+FFFD; `b` starts a new sequence
      replacement :: emit (startByte b).1 (decodeAux (startByte b).2 r)

def decodeLossy (bs : Bytes) : List Nat := decodeAux .idle bs

/-! ## The glob matcher of `engine.rs:2626` over code points

  Indices into `pattern_chars` / `text_chars` are represented by the remaining suffixes
  (`p = pattern_chars[p_idx..]`, `t = text_chars[t_idx..]`); the saved star is the pair
  (pattern after the `*`, text from `star_match_idx`). -/

namespace Code

/-- Where the walk through a class stands (the `while i < pattern_chars.len()` loop of the `'['`
    arm, Redis's `stringmatchlen`); the list argument of `classWalk` is `pattern_chars[i..]`. -/
inductive CState where
  /-- at a fresh member position -/
  | member
  /-- after a `\\` that has a successor (`i + 1 < len`): the current character is the member -/
  | esc
  /-- at the `-` of a range that began with `lo` (`i + 2 < len && pattern_chars[i+1] == '-'`) -/
  | dash (lo : Nat)
  /-- at the other bound of that range -/
  | hi (lo : Nat)
  deriving Repr, DecidableEq

/-- The class is walked member by member: `\x` is the member `x` (also `\]`), `]` ends the class,
    `x-y` is a range with ordered bounds whenever two more characters follow (also `a-]`), a class
    that is not closed runs to the end of the pattern.  Returns `matched` and the pattern after
    the class (`pattern_chars[i..]` when the loop is left). -/
def classWalk (c : Nat) : CState → Bool → List Nat → Bool × List Nat
  | _, m, [] => (m, [])
  | .member, m, x :: r =>
    if x = 92 ∧ r ≠ [] then classWalk c .esc m r
    else if x = 93 then (m, r)
    else if 2 ≤ r.length ∧ r.head? = some 45 then classWalk c (.dash x) m r
    else classWalk c .member (m || x == c) r
  | .esc, m, x :: r => classWalk c .member (m || x == c) r
  | .dash lo, m, _ :: r => classWalk c (.hi lo) m r
  | .hi lo, m, x :: r => classWalk c .member (m || (decide (min lo x ≤ c) && decide (c ≤ max lo x))) r

/-- Outcome of one pass through the `match pattern_chars[p_idx]` of the main loop. -/
inductive GStep where
  /-- pattern advanced to the given suffix, text advanced by one (`continue`) -/
  | adv (p : List Nat)
  /-- `*`: remember it, pattern advanced, text unchanged (`continue`) -/
  | star (p : List Nat)
  /-- fell out of the `match`: backtrack to the last star or fail -/
  | fail
  deriving Repr, DecidableEq

/-- The `'['` arm; `q` is the pattern after the bracket. -/
def classStep (q : List Nat) (c : Nat) : GStep :=
  let negate := q.head? == some 94                 -- `i < len && pattern_chars[i] == '^'`
  let body := if negate then q.tail else q
  let w := classWalk c .member false body
  if w.1 != negate then .adv w.2 else .fail         -- `matched != negate`: `p_idx = i`

def globStep (p : List Nat) (c : Nat) : GStep :=
  match p with
  | [] => .fail                                    -- `p_idx < pattern_chars.len()` is false
  | x :: p' =>
    if x = 63 then .adv p'                         -- '?'
    else if x = 42 then .star p'                   -- '*'
    else if x = 91 then classStep p' c             -- '['
    else if x = 92 then                            -- '\\'
      match p' with
      | y :: p'' => if y = c then .adv p'' else .fail      -- guard `p_idx + 1 < len` holds
      | [] => if x = c then .adv p' else .fail               -- guard fails: the `_` arm
    else if x = c then .adv p' else .fail          -- `_`

/-- The main `while t_idx < text_chars.len()` loop followed by the trailing-`*` loop.
    `none` = fuel exhausted (never happens with `globFuel`, see `Proofs/ScanGlob.lean`). -/
def globLoop : Nat → List Nat → List Nat → Option (List Nat × List Nat) → Option Bool
  | 0, _, _, _ => none
  | _ + 1, p, [], _ => some (p.dropWhile (· == 42)).isEmpty
  | f + 1, p, c :: t, star =>
    match globStep p c with
    | .adv p' => globLoop f p' t star
    | .star p' => globLoop f p' (c :: t) (some (p', c :: t))
    | .fail =>
      match star with
      | none => some false
      | some (ps, ts) => globLoop f ps ts.tail (some (ps, ts.tail))

def globFuel (p t : List Nat) : Nat := p.length + (p.length + 1) * (t.length + 1) + 1

/-- `pattern_matches(pattern, text)` over the `char`s of both. -/
def globChars (p t : List Nat) : Bool := (globLoop (globFuel p t) p t none).getD false

/-- MATCH as the engine applies it: both sides lossily decoded first (`lossy = true`, the code as
    it is), or byte by byte (`lossy = false`, the prescribed behaviour). -/
def matchBytes (lossy : Bool) (pat key : Bytes) : Bool :=
  if lossy then globChars (decodeLossy pat) (decodeLossy key) else globChars pat key

def matchOpt (lossy : Bool) (pat : Option Bytes) (key : Bytes) : Bool :=
  match pat with
  | none => true
  | some p => matchBytes lossy p key

end Code

/-! ## What a glob pattern means (the filter semantics C19 refers to)

  Redis (`stringmatchlen`) matches MATCH patterns against the *bytes* of the key: `?` one byte,
  `*` any run, `[...]` / `[^...]` a class of bytes and ranges, `\x` the byte `x`.  The pattern is
  first cut into tokens — every pattern has a meaning: inside a class `\x` is the member `x`, a
  range's bounds are ordered, `x-y` is a range whenever two more characters follow, and a class
  without closing bracket runs to the end of the pattern — and the tokens are matched by the
  textbook recursive matcher. -/

namespace Spec

inductive Tok where
  | lit (c : Nat)
  | any
  | star
  | cls (neg : Bool) (items : List (Nat × Nat))
  deriving Repr, DecidableEq

/-- Tokenizer state: outside a class; after a `\\` outside a class; inside a class (`first`:
    nothing read yet, so `^` negates); inside a class after a `\\`; at the `-` of a range that
    began with `lo`; at the other bound of that range. -/
inductive TState where
  | out
  | esc
  | cls (first neg : Bool) (acc : List (Nat × Nat))
  | clsEsc (neg : Bool) (acc : List (Nat × Nat))
  | clsDash (neg : Bool) (acc : List (Nat × Nat)) (lo : Nat)
  | clsHi (neg : Bool) (acc : List (Nat × Nat)) (lo : Nat)
  deriving Repr, DecidableEq

/-- Cut a pattern into tokens, one character at a time.  Total: every pattern tokenises. -/
def tokenizeAux : TState → List Nat → List Tok
  | .out, [] => []
  | .esc, [] => [Tok.lit 92]                             -- a trailing `\\` is a literal backslash
  | .cls _ neg acc, [] => [Tok.cls neg acc.reverse]      -- a class that is not closed runs to the end
  | .clsEsc neg acc, [] => [Tok.cls neg acc.reverse]
  | .clsDash neg acc _, [] => [Tok.cls neg acc.reverse]
  | .clsHi neg acc _, [] => [Tok.cls neg acc.reverse]
  | .out, x :: r =>
    if x = 42 then Tok.star :: tokenizeAux .out r
    else if x = 63 then Tok.any :: tokenizeAux .out r
    else if x = 92 then tokenizeAux .esc r
    else if x = 91 then tokenizeAux (.cls true false []) r
    else Tok.lit x :: tokenizeAux .out r
  | .esc, y :: r => Tok.lit y :: tokenizeAux .out r
  | .cls first neg acc, x :: r =>
    if first ∧ x = 94 then tokenizeAux (.cls false true []) r
    else if x = 92 ∧ r ≠ [] then tokenizeAux (.clsEsc neg acc) r
    else if x = 93 then Tok.cls neg acc.reverse :: tokenizeAux .out r
    else if 2 ≤ r.length ∧ r.head? = some 45 then tokenizeAux (.clsDash neg acc x) r
    else tokenizeAux (.cls false neg ((x, x) :: acc)) r
  | .clsEsc neg acc, x :: r => tokenizeAux (.cls false neg ((x, x) :: acc)) r
  | .clsDash neg acc lo, _ :: r => tokenizeAux (.clsHi neg acc lo) r
  | .clsHi neg acc lo, x :: r => tokenizeAux (.cls false neg ((min lo x, max lo x) :: acc)) r

def tokenize (p : List Nat) : List Tok := tokenizeAux .out p

def tokAccepts : Tok → Nat → Bool
  | .lit x, c => x == c
  | .any, _ => true
  | .star, _ => false
  | .cls neg its, c => its.any (fun (lo, hi) => lo ≤ c && c ≤ hi) != neg

/-- `k` holds for some suffix of the text (what a `*` may leave unconsumed). -/
def someSuffix (k : List Nat → Bool) : List Nat → Bool
  | [] => k []
  | c :: t => k (c :: t) || someSuffix k t

def matchToks : List Tok → List Nat → Bool
  | [], t => t.isEmpty
  | .star :: ps, t => someSuffix (matchToks ps) t
  | _ :: _, [] => false
  | tk :: ps, c :: t => tokAccepts tk c && matchToks ps t

/-- The prescribed meaning of `MATCH pat` for a key, over bytes. -/
def matchBytes (pat key : Bytes) : Bool := matchToks (tokenize pat) key

end Spec

/-! ## One SCAN call over the sorted list of candidate keys -/

/-- The three constants of the scan loop and the MATCH switch (regenerated from the source into
    `Gen.scanCfg`). -/
structure Cfg where
  /-- `if count == 0 { 10 }` -/
  dflt : Nat
  /-- `min(scan_count, 1000)` -/
  cap : Nat
  /-- `keys_examined < max_scan_count * 10` -/
  factor : Nat
  /-- MATCH runs on `String::from_utf8_lossy` text (true) or on the bytes (false) -/
  lossy : Bool
  /-- the cursor is a slot (`scan_slot` of the next element, in the order of (slot, name)): true;
      or a rank in the list sorted by name, rebuilt on every call: false -/
  slotCursor : Bool
  /-- `handle_scan` lower-cases the TYPE value (`to_ascii_lowercase`) before the engine compares it
      with the lower-case type names: true; it passes the value as given: false -/
  typeFold : Bool
  deriving Repr, DecidableEq

def Cfg.ok (g : Cfg) : Prop := 1 ≤ g.dflt ∧ 1 ≤ g.cap ∧ 1 ≤ g.factor

instance (g : Cfg) : Decidable g.ok := by unfold Cfg.ok; exact inferInstance

namespace Code

/-- `max_scan_count` -/
def normCount (g : Cfg) (count : Nat) : Nat := min (if count = 0 then g.dflt else count) g.cap

/-- The `while keys_examined < max*10 && matching_keys.len() < max` loop over
    `all_keys[current_pos..]`; returns the matching keys and the number of keys examined. -/
def scanLoop (g : Cfg) (m : Bytes → Bool) (mx : Nat) : List Bytes → Nat → Nat → List Bytes × Nat
  | [], _, _ => ([], 0)                          -- `current_pos >= all_keys.len()` : break
  | k :: rest, ex, got =>
    if ex < mx * g.factor ∧ got < mx then
      let r := scanLoop g m mx rest (ex + 1) (if m k then got + 1 else got)
      (if m k then k :: r.1 else r.1, r.2 + 1)
    else ([], 0)

/-- `scan` after `all_keys.sort()`: `ks` is the sorted list of live keys of the requested type,
    `m` the MATCH filter. -/
def scanSorted (g : Cfg) (m : Bytes → Bool) (ks : List Bytes) (cursor count : Nat) : Nat × List Bytes :=
  if ks.length ≤ cursor ∧ ks ≠ [] then (0, [])
  else
    let r := scanLoop g m (normCount g count) (ks.drop cursor) 0 0
    (if ks.length ≤ cursor + r.2 then 0 else cursor + r.2, r.1)

/-! ### The slot cursor: a position that other elements cannot shift

  The elements are ordered by (slot, name), `slot` being a fixed hash of the name; the cursor is
  the slot at which the next call resumes (0 = from the beginning; a returned 0 = done).  A page
  never ends between two elements of the same slot.  Everything below is parametric in the hash
  `h`; the engine uses `scanSlot`. -/

/-- The loop with the condition `(examined < max*10 && matched < max) || same_slot_as_previous(..)`;
    `prev` is the slot of the element before the current one inside this page (`none` at the
    start of the page: `pos > start` is false). -/
def scanLoopS (g : Cfg) (h : Bytes → Nat) (m : Bytes → Bool) (mx : Nat) :
    List Bytes → Option Nat → Nat → Nat → List Bytes × Nat
  | [], _, _, _ => ([], 0)
  | k :: rest, prev, ex, got =>
    if (ex < mx * g.factor ∧ got < mx) ∨ prev = some (h k) then
      let r := scanLoopS g h m mx rest (some (h k)) (ex + 1) (if m k then got + 1 else got)
      (if m k then k :: r.1 else r.1, r.2 + 1)
    else ([], 0)

/-- One call over `ks`, the candidates sorted by (slot, name):
    `start_pos = partition_point(slot < cursor)`, the loop, `next = slot of the first unexamined`. -/
def scanSlots (g : Cfg) (h : Bytes → Nat) (m : Bytes → Bool) (ks : List Bytes) (cursor count : Nat) :
    Nat × List Bytes :=
  let cand := ks.dropWhile (fun k => h k < cursor)
  if cand = [] ∧ ks ≠ [] then (0, [])
  else
    let r := scanLoopS g h m (normCount g count) cand none 0 0
    (match cand.drop r.2 with
      | [] => 0
      | k :: _ => h k, r.1)

end Code

/-- FNV-1a 64 (bytes < 256), as `scan_slot` and `get_shard_index` compute it with `wrapping_mul`. -/
def fnv1a (bs : Bytes) : Nat :=
  bs.foldl (fun hh b => ((hh ^^^ b) * 1099511628211) % 18446744073709551616) 14695981039346656037

/-- `scan_slot`: the hash cut to 53 bits (`>> 11`). -/
def scanSlot (bs : Bytes) : Nat := fnv1a bs / 2048

def insertBy (le : Bytes → Bytes → Bool) (x : Bytes) : List Bytes → List Bytes
  | [] => [x]
  | y :: l => if le x y then x :: y :: l else y :: insertBy le x l

def sortBy (le : Bytes → Bytes → Bool) : List Bytes → List Bytes
  | [] => []
  | x :: l => insertBy le x (sortBy le l)

/-- Order of (slot, name): what `sort()` followed by the stable `sort_by_cached_key(scan_slot)` yields. -/
def slotLe (h : Bytes → Nat) (a b : Bytes) : Bool := h a < h b || (h a == h b && bytesLe a b)

def sortSlot (h : Bytes → Nat) (l : List Bytes) : List Bytes := sortBy (slotLe h) l

/-! ## The key space -/

/-- 0 string, 1 list, 2 set, 3 hash, 4 zset, 5 stream -/
def typeName (t : Nat) : Bytes :=
  match t with
  | 0 => [115, 116, 114, 105, 110, 103]
  | 1 => [108, 105, 115, 116]
  | 2 => [115, 101, 116]
  | 3 => [104, 97, 115, 104]
  | 4 => [122, 115, 101, 116]
  | _ => [115, 116, 114, 101, 97, 109]

/-- Live keys with their type (no key occurs twice: `HashMap`). -/
abbrev Db := List (Bytes × Nat)

/-- `value_type != type_name` on the (lossily decoded) TYPE argument: the names are ASCII, so
    the comparison succeeds exactly for the same bytes. -/
def typeOk (ty : Option Bytes) (t : Nat) : Bool :=
  match ty with
  | none => true
  | some s => typeName t == s

def lowerAscii (b : Nat) : Nat := if 65 ≤ b ∧ b ≤ 90 then b + 32 else b

namespace Spec

/-- What `TYPE name` selects: the keys whose type name equals `name` without regard to the case of
    ASCII letters (Redis: `strcasecmp`).  An unknown name selects nothing. -/
def typeOk (ty : Option Bytes) (t : Nat) : Bool :=
  match ty with
  | none => true
  | some s => typeName t == s.map lowerAscii

end Spec

/-- The list the cursor indexes: keys of the requested type, sorted. -/
def view (ty : Option Bytes) (db : Db) : List Bytes :=
  sortKeys ((db.filter fun kv => typeOk ty kv.2).map (·.1))

/-- The list the slot cursor walks: keys of the requested type in the order of (slot, name). -/
def viewSlot (ty : Option Bytes) (db : Db) : List Bytes :=
  sortSlot scanSlot ((db.filter fun kv => typeOk ty kv.2).map (·.1))

namespace Code

/-- `StorageEngine::scan(db, cursor, pattern, type_filter, count)`: the rank walk over the view
    sorted by name, or the slot walk over the view sorted by (slot, name). -/
def scan (g : Cfg) (db : Db) (cursor count : Nat) (pat ty : Option Bytes) : Nat × List Bytes :=
  if g.slotCursor then scanSlots g scanSlot (matchOpt g.lossy pat) (viewSlot ty db) cursor count
  else scanSorted g (matchOpt g.lossy pat) (view ty db) cursor count

/-- `sscan`: fast path (whole set, hash-table order — modelled in iteration order) or the cursor walk. -/
def sscan (g : Cfg) (members : List Bytes) (cursor count : Nat) (pat : Option Bytes) : Nat × List Bytes :=
  if g.slotCursor then
    (if members.length ≤ normCount g count ∧ cursor = 0 ∧ pat = none then (0, sortSlot scanSlot members)
     else scanSlots g scanSlot (matchOpt g.lossy pat) (sortSlot scanSlot members) cursor count)
  else
    (if members.length ≤ normCount g count ∧ cursor = 0 ∧ pat = none then (0, sortKeys members)
     else scanSorted g (matchOpt g.lossy pat) (sortKeys members) cursor count)

def fastPath (g : Cfg) (n cursor count : Nat) (pat : Option Bytes) : Bool :=
  n ≤ normCount g count ∧ cursor = 0 ∧ pat = none

def lookup {β : Type} (d : β) (k : Bytes) : List (Bytes × β) → β
  | [] => d
  | (k', v) :: l => if k' = k then v else lookup d k l

/-- `hscan`: as `sscan` over the field names; each returned field is followed by its value
    unless `no_values`.  (`result.len() / 2 < max` counts returned fields.) -/
def hscan (g : Cfg) (h : List (Bytes × Bytes)) (cursor count : Nat) (pat : Option Bytes) (noValues : Bool) :
    Nat × List Bytes :=
  let r := sscan g (h.map (·.1)) cursor count pat
  (r.1, if noValues then r.2 else r.2.flatMap fun f => [f, lookup [] f h])

/-- `zscan`: items sorted by member; the fast path returns the same sorted list. -/
def zscan (g : Cfg) (z : List (Bytes × Int)) (cursor count : Nat) (pat : Option Bytes) :
    Nat × List (Bytes × Int) :=
  let r := sscan g (z.map (·.1)) cursor count pat
  (r.1, r.2.map fun m => (m, lookup 0 m z))

/-! ### A full iteration against a changing key space

  `hist` lists, call by call, the sorted candidate list that the call sees (anything may have
  been added or deleted in between).  The client starts at cursor 0 and stops at the first
  returned 0. -/

/-- The batches returned by the successive calls. -/
def iter (g : Cfg) (m : Bytes → Bool) (count : Nat) : Nat → List (List Bytes) → List (List Bytes)
  | _, [] => []
  | c, ks :: rest =>
    let r := scanSorted g m ks c count
    r.2 :: (if r.1 = 0 then [] else iter g m count r.1 rest)

/-- The iteration uses every element of `hist` and ends (cursor 0) exactly at the last one. -/
def iterFinishes (g : Cfg) (m : Bytes → Bool) (count : Nat) : Nat → List (List Bytes) → Bool
  | _, [] => false
  | c, ks :: rest =>
    let c' := (scanSorted g m ks c count).1
    if c' = 0 then rest.isEmpty else iterFinishes g m count c' rest

/-- Number of calls until cursor 0 comes back; `none` if `hist` is exhausted first. -/
def iterCalls (g : Cfg) (m : Bytes → Bool) (count : Nat) : Nat → List (List Bytes) → Option Nat
  | _, [] => none
  | c, ks :: rest =>
    let c' := (scanSorted g m ks c count).1
    if c' = 0 then some 1 else (iterCalls g m count c' rest).map (· + 1)

/-- The decidable exclusion of `scan_complete_partial`: between two successive calls no key that
    ranks below the cursor handed out by the first call has disappeared. -/
def noDelBelow (g : Cfg) (m : Bytes → Bool) (count : Nat) : Nat → List (List Bytes) → Bool
  | _, [] => true
  | _, [_] => true
  | c, ks :: ks' :: rest =>
    let c' := (scanSorted g m ks c count).1
    if c' = 0 then true
    else (ks.take c').all (fun k => ks'.contains k) && noDelBelow g m count c' (ks' :: rest)

/-- Nothing disappears between successive calls (additions only). -/
def onlyAdditions : List (List Bytes) → Bool
  | [] => true
  | [_] => true
  | ks :: ks' :: rest => ks.all (fun k => ks'.contains k) && onlyAdditions (ks' :: rest)

/-! ### A full iteration with the slot cursor (same conventions as `iter`) -/

def iterS (g : Cfg) (h : Bytes → Nat) (m : Bytes → Bool) (count : Nat) : Nat → List (List Bytes) → List (List Bytes)
  | _, [] => []
  | c, ks :: rest =>
    let r := scanSlots g h m ks c count
    r.2 :: (if r.1 = 0 then [] else iterS g h m count r.1 rest)

def iterSFinishes (g : Cfg) (h : Bytes → Nat) (m : Bytes → Bool) (count : Nat) : Nat → List (List Bytes) → Bool
  | _, [] => false
  | c, ks :: rest =>
    let c' := (scanSlots g h m ks c count).1
    if c' = 0 then rest.isEmpty else iterSFinishes g h m count c' rest

def iterSCalls (g : Cfg) (h : Bytes → Nat) (m : Bytes → Bool) (count : Nat) : Nat → List (List Bytes) → Option Nat
  | _, [] => none
  | c, ks :: rest =>
    let c' := (scanSlots g h m ks c count).1
    if c' = 0 then some 1 else (iterSCalls g h m count c' rest).map (· + 1)

end Code

/-! ## A cursor that survives deletions (what the full statement needs)

  `Spec.scanAfter`: the cursor is the last key examined (resume strictly after it in the sorted
  order).  Used only to show that the full C19 statement is satisfiable by a stateless scan over a
  list that is rebuilt on every call; the wire format of ferrous (a `u64`) cannot carry it. -/

namespace Spec

def scanAfter (m : Bytes → Bool) (ks : List Bytes) (cursor : Option Bytes) (count : Nat) :
    Option Bytes × List Bytes :=
  let cand := match cursor with
    | none => ks
    | some c => ks.filter (fun k => bytesLt c k)
  let batch := cand.take (max count 1)
  (if cand.length ≤ max count 1 then none else batch.getLast?, batch.filter m)

def iterAfter (m : Bytes → Bool) (count : Nat) : Option Bytes → List (List Bytes) → List (List Bytes)
  | _, [] => []
  | c, ks :: rest =>
    let r := scanAfter m ks c count
    r.2 :: (match r.1 with
      | none => []
      | some c' => iterAfter m count (some c') rest)

def iterAfterFinishes (m : Bytes → Bool) (count : Nat) : Option Bytes → List (List Bytes) → Bool
  | _, [] => false
  | c, ks :: rest =>
    match (scanAfter m ks c count).1 with
    | none => rest.isEmpty
    | some c' => iterAfterFinishes m count (some c') rest

end Spec

/-! ## Option parsing of `commands/scan.rs` (all arguments are bulk strings) -/

def upperAscii (b : Nat) : Nat := if 97 ≤ b ∧ b ≤ 122 then b - 32 else b

structure Opts where
  pat : Option Bytes := none
  ty : Option Bytes := none
  count : Nat := 10
  noValues : Bool := false
  deriving Repr, DecidableEq

namespace Code

/-- The `while i < parts.len()` loop; `none` = an error reply. Option names are compared after
    upper-casing (ASCII letters; non-ASCII names are not generated). -/
def parseOpts (allowType allowNoValues : Bool) : List Bytes → Opts → Option Opts
  | [], o => some o
  | name :: rest, o =>
    let u := name.map upperAscii
    if u = [77, 65, 84, 67, 72] then                  -- MATCH
      match rest with
      | p :: r => parseOpts allowType allowNoValues r { o with pat := some p }
      | [] => none
    else if u = [84, 89, 80, 69] ∧ allowType then     -- TYPE
      match rest with
      | t :: r => parseOpts allowType allowNoValues r { o with ty := some t }
      | [] => none
    else if u = [67, 79, 85, 78, 84] then             -- COUNT
      match rest with
      | c :: r =>
        match parseU64 c with
        | some n => parseOpts allowType allowNoValues r { o with count := n }
        | none => none
      | [] => none
    else if u = [78, 79, 86, 65, 76, 85, 69, 83] ∧ allowNoValues then  -- NOVALUES
      parseOpts allowType allowNoValues rest { o with noValues := true }
    else none

/-- The TYPE value as `handle_scan` hands it to the engine: lower-cased (`to_ascii_lowercase` on
    the lossily decoded text; the type names are ASCII, so only the bytes `A`–`Z` matter) or as given. -/
def typeArg (g : Cfg) (ty : Option Bytes) : Option Bytes :=
  if g.typeFold then ty.map (·.map lowerAscii) else ty

/-- What `handle_scan` executes once the options are parsed. -/
def scanCmd (g : Cfg) (db : Db) (cursor count : Nat) (pat ty : Option Bytes) : Nat × List Bytes :=
  scan g db cursor count pat (typeArg g ty)

/-- `handle_scan` on `SCAN cursor [opts]` (arguments after the command name). -/
def cmdScan (g : Cfg) (db : Db) (args : List Bytes) : Option (Nat × List Bytes) :=
  match args with
  | [] => none
  | cur :: opts =>
    match parseU64 cur, parseOpts true false opts {} with
    | some c, some o => some (scanCmd g db c o.count o.pat o.ty)
    | _, _ => none

end Code

end Ferrous.Scan
