/-
  RDB snapshot codec — import-free, byte-exact transliteration of `/repo/src/storage/rdb.rs`
  (`RdbWriter`, `RdbEngine::write_snapshot`, `RdbReader::load_into`) together with the part of
  `storage/engine.rs` the loader re-inserts through (`set_string[_ex]`, `rpush`, `sadd`, `hset`,
  `zadd`, `xadd_with_id`, `expire`, `set_value`, `delete`).

  Conventions
  * bytes are `Nat` (the harness only sends values < 256); time is integer milliseconds on ONE clock;
    a key's deadline is an absolute millisecond (`Instant` deadlines and `SystemTime` stamps of the
    code are the same clock in the model; their sub-millisecond parts are "clock granularity").
  * decoders are "rest-returning": `Res.ok a rest allocs` carries the unconsumed suffix, so
    `dec (enc x ++ rest) = ok x rest` composes.  `allocs` is the list of buffer sizes the loader
    derives from a length field (`vec![0u8; len]` in `read_string`, the only such site), in order,
    including the one whose `read_exact` then fails — kept for C10 (`loader_alloc_bounded`).
  * `Fix` holds the quirk switches of the loader; `Fix.code` is the tree as pinned, `Fix.fixed` the
    prescribed behaviour.  The writer has ONE switch, the escape rule for lists (`escValue esc`,
    `saveSnapshot esc`): with it a genuine list whose first element is the stream marker string or
    the escape string is written with one extra first element, the escape string — by the SAME
    byte-level writer (`encValue`, `encSnapshot`: the format itself does not change).  The loader's
    side of the rule is `Fix.listEscape`.
  * hash-map iteration order is not modelled: encoders emit collections in the given order and the
    loader appends in file order; comparisons with the implementation are made on canonical
    (sorted) forms by the check.
-/
import FerrousSpec.Model.Bytes
namespace Ferrous.Rdb
open Ferrous

/-! ### Data -/

/-- One stream entry: ID `ms-seq` and its field map (a `HashMap` in the code). -/
structure SEntry where
  ms : Nat
  seq : Nat
  fields : List (Bytes × Bytes)
  deriving DecidableEq, Repr

/-- `storage::value::Value`.  A sorted-set score is the IEEE-754 bit pattern (`u64`) of the `f64`:
    the codec moves the eight bytes and never interprets them. -/
inductive Value where
  | str (b : Bytes)
  | list (xs : List Bytes)
  | set (xs : List Bytes)
  | hash (fs : List (Bytes × Bytes))
  | zset (zs : List (Bytes × Nat))
  | stream (es : List SEntry)
  deriving DecidableEq, Repr

structure Entry where
  key : Bytes
  val : Value
  /-- absolute deadline in ms, `none` = no TTL -/
  deadline : Option Nat
  deriving DecidableEq, Repr

abbrev Db := List Entry
/-- `(database index, its keys)`; only non-empty databases are listed. -/
abbrev Dataset := List (Nat × Db)

/-- Quirk switches of the loader. -/
structure Fix where
  /-- `true`: a pair whose stored expiry is `≤ now` is loaded and deleted again (proposed `fix:`);
      `false` (pinned tree): it is loaded with `ttl = None`, i.e. becomes immortal. -/
  dropExpired : Bool
  /-- `true`: a stream without entries comes back as an empty stream — a marker-only record (ad4770a) creates
      the key, and so does the last-ID pseudo entry (3c61a3a: `xrestore_last_id`);
      `false` (pinned tree): nothing is created, the key is lost. -/
  keepEmptyStream : Bool
  /-- `true`: under the LIST opcode a first element equal to the escape string is dropped and the
      elements after it are a plain list, whatever the first of them is (proposed `fix:`, the
      loader's half of the escape rule); `false` (pinned tree): the escape string is an element
      like any other. -/
  listEscape : Bool
  deriving DecidableEq, Repr

def Fix.code : Fix := ⟨false, false, false⟩
def Fix.fixed : Fix := ⟨true, true, true⟩

/-- `b"__FERROUS_STREAM_MARKER__"` (25 bytes). -/
def marker : Bytes :=
  [95, 95, 70, 69, 82, 82, 79, 85, 83, 95, 83, 84, 82, 69, 65, 77, 95, 77, 65, 82, 75, 69, 82, 95, 95]

/-- `b"__FERROUS_LIST_ESCAPE__"` (23 bytes). -/
def escape : Bytes :=
  [95, 95, 70, 69, 82, 82, 79, 85, 83, 95, 76, 73, 83, 84, 95, 69, 83, 67, 65, 80, 69, 95, 95]

def two32 : Nat := 4294967296
def two64 : Nat := 18446744073709551616

/-! ### Writer (`RdbWriter`) -/

/-- `n.to_le_bytes()` truncated to `k` bytes (`u64`: `k = 8`; wraps modulo `256^k` like `as u64`). -/
def leBytes : Nat → Nat → Bytes
  | 0, _ => []
  | k+1, n => n % 256 :: leBytes k (n / 256)

def u64le (n : Nat) : Bytes := leBytes 8 n

/-- `write_length`: 6-bit, 14-bit, else `0x80` + `(len as u32).to_be_bytes()` (lengths ≥ 2^32 are truncated). -/
def encLen (n : Nat) : Bytes :=
  if n ≤ 63 then [n]
  else if n ≤ 16383 then [n / 256 % 64 + 64, n % 256]
  else [128, n / 16777216 % 256, n / 65536 % 256, n / 256 % 256, n % 256]

/-- `write_string` -/
def encString (s : Bytes) : Bytes := encLen s.length ++ s

def encStrings (xs : List Bytes) : Bytes := xs.flatMap encString

def encPair (p : Bytes × Bytes) : Bytes := encString p.1 ++ encString p.2
def encPairs (fs : List (Bytes × Bytes)) : Bytes := fs.flatMap encPair

/-- member, then `write_f64` = the eight little-endian bytes of the score -/
def encZItem (p : Bytes × Nat) : Bytes := encString p.1 ++ u64le p.2
def encZItems (zs : List (Bytes × Nat)) : Bytes := zs.flatMap encZItem

/-- `StreamId::to_string` -/
def idString (e : SEntry) : Bytes := natDigits e.ms ++ 45 :: natDigits e.seq

/-- ID of the last entry, `0-0` for an empty stream (`last_id` of a stream built by `add_with_id`). -/
def lastId : List SEntry → Nat × Nat
  | [] => (0, 0)
  | [e] => (e.ms, e.seq)
  | _ :: e :: es => lastId (e :: es)

/-- `b"__FERROUS_STREAM_LAST_ID__"` (26 bytes): where an entry ID would be, it introduces the pseudo entry that
    carries the stream's last ID (3c61a3a). -/
def lastIdMarker : Bytes :=
  [95, 95, 70, 69, 82, 82, 79, 85, 83, 95, 83, 84, 82, 69, 65, 77, 95, 76, 65, 83, 84, 95, 73, 68, 95, 95]

def idText (p : Nat × Nat) : Bytes := natDigits p.1 ++ 45 :: natDigits p.2

/-- The pseudo entry written right after the stream marker: the marker string above as "entry ID", the pair
    count `1`, the last ID as the field name, an empty value.  A loader that does not know it reads an entry
    with an unparsable ID and skips it.
    MODELLED, NOT VERIFIED HERE: the code writes `stream.last_id()`, the greatest ID ever added; this model of the
    dump format has no such component and writes the greatest PRESENT ID (`0-0` for an emptied stream) — equal
    unless the top entries were deleted or trimmed.  That the last ID itself survives a restart is C15's
    (`last_id_monotone` over histories with restarts, tied by a real save + load in its harness). -/
def encLastId (es : List SEntry) : Bytes :=
  encString lastIdMarker ++ (encString [49] ++ (encString (idText (lastId es)) ++ encString []))

/-- ID string, field-count string, then the field/value strings -/
def encSEntry (e : SEntry) : Bytes :=
  encString (idString e) ++ (encString (natDigits e.fields.length) ++ encPairs e.fields)
def encSEntries (es : List SEntry) : Bytes := es.flatMap encSEntry

/-- items after the marker: `Σ (2 + 2·fields)` -/
def streamItems : List SEntry → Nat
  | [] => 0
  | e :: es => 2 + 2 * e.fields.length + streamItems es

/-- value-type opcode (a stream is written with the LIST opcode) -/
def typeByte : Value → Nat
  | .str _ => 0
  | .list _ => 1
  | .set _ => 2
  | .zset _ => 3
  | .hash _ => 4
  | .stream _ => 1

/-- what `write_key_value` writes after the key -/
def encValue : Value → Bytes
  | .str b => encString b
  | .list xs => encLen xs.length ++ encStrings xs
  | .set xs => encLen xs.length ++ encStrings xs
  | .hash fs => encLen fs.length ++ encPairs fs
  | .zset zs => encLen zs.length ++ encZItems zs
  | .stream es => encLen (1 + 4 + streamItems es) ++ (encString marker ++ (encLastId es ++ encSEntries es))

/-- type byte, key, value -/
def encKV (k : Bytes) (v : Value) : Bytes := typeByte v :: (encString k ++ encValue v)

/-! #### the escape rule of the writer (switch `esc`; `false` = pinned tree) -/

/-- `list_needs_escape`: the first element is the stream marker string or the escape string -/
def needsEscape : List Bytes → Bool
  | x :: _ => x == marker || x == escape
  | [] => false

/-- the elements `write_key_value` puts under the LIST opcode for a genuine list: with the rule,
    one extra first element (the escape string) when the list starts with a reserved string -/
def listItems (esc : Bool) (xs : List Bytes) : List Bytes :=
  if esc && needsEscape xs then escape :: xs else xs

/-- the value as the byte-level writer sees it (only lists are touched; a stream keeps its marker) -/
def escValue (esc : Bool) : Value → Value
  | .list xs => .list (listItems esc xs)
  | v => v

def escEntry (esc : Bool) (e : Entry) : Entry := { e with val := escValue esc e.val }
def escDb (esc : Bool) (db : Db) : Db := db.map (escEntry esc)
def escDataset (esc : Bool) (d : Dataset) : Dataset := d.map fun p => (p.1, escDb esc p.2)

/-- what `write_key_value` writes after the key, with the escape rule switched by `esc` -/
def saveValue (esc : Bool) (v : Value) : Bytes := encValue (escValue esc v)

/-- One key at save time `t`.  `storage.get` drops a key whose deadline has passed (`now > expires_at`);
    otherwise `ttl = max(deadline - now, 0)` and the stamp is `now_ms + ttl_ms` as `u64` (wrapping). -/
def encEntry (t : Nat) (e : Entry) : Bytes :=
  match e.deadline with
  | none => encKV e.key e.val
  | some d =>
    if d < t then []
    else 252 :: (u64le (t + (d - t)) ++ encKV e.key e.val)

def encEntries (t : Nat) (es : Db) : Bytes := es.flatMap (encEntry t)

/-- `write_db_selector`, `write_resize_db(keys.len(), keys.len())`, the pairs; nothing for an empty database. -/
def encDb (t : Nat) (p : Nat × Db) : Bytes :=
  if p.2.isEmpty then []
  else 254 :: (encLen p.1 ++ 251 :: (encLen p.2.length ++ (encLen p.2.length ++ encEntries t p.2)))

def encDbs (t : Nat) (d : Dataset) : Bytes := d.flatMap (encDb t)

/-- `write_aux` -/
def encAux (k v : Bytes) : Bytes := 250 :: (encString k ++ encString v)

/-- `"REDIS"` + `format!("{:04}", 9)` -/
def magic : Bytes := [82, 69, 68, 73, 83]
def header : Bytes := magic ++ [48, 48, 48, 57]
def auxVerKey : Bytes := [114, 101, 100, 105, 115, 45, 118, 101, 114]   -- "redis-ver"
def auxCtimeKey : Bytes := [99, 116, 105, 109, 101]                      -- "ctime"

/-- everything before the checksum, EOF opcode included -/
def encBody (ver : Bytes) (d : Dataset) (t : Nat) : Bytes :=
  header ++ (encAux auxVerKey ver ++ (encAux auxCtimeKey (natDigits (t / 1000)) ++ (encDbs t d ++ [255])))

/-- `write_snapshot`: the "checksum" is the wrapping byte sum of everything written before it.
    `ver` = `CARGO_PKG_VERSION`; `d` lists the databases in ascending index order (`0..16`). -/
def encSnapshot (ver : Bytes) (d : Dataset) (t : Nat) : Bytes :=
  let body := encBody ver d t
  body ++ u64le body.sum

/-- `write_snapshot` of a tree whose writer applies the escape rule iff `esc` -/
def saveSnapshot (esc : Bool) (ver : Bytes) (d : Dataset) (t : Nat) : Bytes :=
  encSnapshot ver (escDataset esc d) t

/-! ### Reader primitives (`RdbReader`) -/

inductive Err where
  | eof                        -- `read_exact` of a fixed-size field hit the end of the file
  | shortString (want avail : Nat)   -- `vec![0u8; want]` was allocated, then `read_exact` failed with `avail` bytes left
  | badLength                  -- first length byte `>> 6 == 3`
  | badMagic
  | badVersion
  | unknownType (t : Nat)
  | wrongType                  -- engine refused: key holds another type
  | invalidDb                  -- engine refused: database index ≥ 16
  | badExpire                  -- engine refused (`check_ttl`): the deadline does not fit signed 64-bit unix milliseconds
  | fuel                       -- model artefact; never returned (fuel = input length + 1)
  deriving DecidableEq, Repr

inductive Res (α : Type) where
  | ok (a : α) (rest : Bytes) (allocs : List Nat)
  | err (e : Err) (allocs : List Nat)
  deriving Repr, DecidableEq

/-- prepend earlier allocations -/
def Res.pre {α : Type} (al : List Nat) : Res α → Res α
  | .ok a r al' => .ok a r (al ++ al')
  | .err e al' => .err e (al ++ al')

def Res.bind {α β : Type} (r : Res α) (f : α → Bytes → Res β) : Res β :=
  match r with
  | .ok a rest al => (f a rest).pre al
  | .err e al => .err e al

/-- post-process the value (no bytes read, no allocation) -/
def Res.map {α β : Type} (f : α → β) : Res α → Res β
  | .ok a r al => .ok (f a) r al
  | .err e al => .err e al

def Res.allocs {α : Type} : Res α → List Nat
  | .ok _ _ al => al
  | .err _ al => al

/-- an engine call: no bytes consumed -/
def lift {α : Type} (x : Except Err α) (rest : Bytes) : Res α :=
  match x with
  | .ok a => .ok a rest []
  | .error e => .err e []

/-- `read_exact` into an `n`-byte buffer: looks at no more than `n` bytes of the input. -/
def readExact (n : Nat) (bs : Bytes) : Option (Bytes × Bytes) :=
  let h := bs.take n
  if h.length = n then some (h, bs.drop n) else none

def readFixed (n : Nat) (bs : Bytes) : Res Bytes :=
  match readExact n bs with
  | some (h, r) => .ok h r []
  | none => .err .eof []

def readByte : Bytes → Res Nat
  | [] => .err .eof []
  | b :: r => .ok b r []

/-- `from_be_bytes` -/
def beVal (bs : Bytes) : Nat := bs.foldl (fun a b => a * 256 + b) 0
/-- `from_le_bytes` -/
def leVal : Bytes → Nat
  | [] => 0
  | b :: r => b + 256 * leVal r

/-- `read_length`: `first >> 6` selects the form; in the 32-bit form the low six bits of the first
    byte are ignored (so `0x80 … 0xBF` are all accepted), non-minimal encodings are accepted. -/
def readLen : Bytes → Res Nat
  | [] => .err .eof []
  | b :: r =>
    if b / 64 = 0 then .ok b r []
    else if b / 64 = 1 then
      match r with
      | [] => .err .eof []
      | c :: r' => .ok (b % 64 * 256 + c) r' []
    else if b / 64 = 2 then
      match readExact 4 r with
      | some (h, r') => .ok (beVal h) r' []
      | none => .err .eof []
    else .err .badLength []

/-- `read_string`: the buffer is allocated from the length field before anything is read.
    A successful read lists its allocation in `allocs`; the failing one is carried by the error
    (`want` bytes allocated with `avail` bytes left), see `allocTrace`. -/
def readString (bs : Bytes) : Res Bytes :=
  (readLen bs).bind fun n r =>
    match readExact n r with
    | some (s, r') => .ok s r' [n]
    | none => .err (.shortString n r.length) []

def readStrings : Nat → Bytes → Res (List Bytes)
  | 0, bs => .ok [] bs []
  | n+1, bs =>
    (readString bs).bind fun s r =>
    (readStrings n r).map (s :: ·)

def readPairs : Nat → Bytes → Res (List (Bytes × Bytes))
  | 0, bs => .ok [] bs []
  | n+1, bs =>
    (readString bs).bind fun f r =>
    (readString r).bind fun v r' =>
    (readPairs n r').map ((f, v) :: ·)

/-! ### The engine operations the loader calls, on one database (`valid` = index < 16) -/

def findKey (db : Db) (k : Bytes) : Option Entry := List.find? (fun e => e.key == k) db

/-- `HashMap::insert` on the key space: replace in place or append. -/
def putEntry : Db → Entry → Db
  | [], e => [e]
  | x :: xs, e => if x.key = e.key then e :: xs else x :: putEntry xs e

/-- `storage.delete` (refused with `InvalidDatabase` for an index ≥ 16, see `loadExpiring`) -/
def eraseKey (db : Db) (k : Bytes) : Db := db.filter fun e => !(e.key == k)

/-- map insert: replace the value of an existing key in place, else append -/
def upsert {β : Type} : List (Bytes × β) → Bytes → β → List (Bytes × β)
  | [], k, v => [(k, v)]
  | (k', v') :: xs, k, v => if k' = k then (k, v) :: xs else (k', v') :: upsert xs k v

def upsertAll {β : Type} (m : List (Bytes × β)) (kvs : List (Bytes × β)) : List (Bytes × β) :=
  kvs.foldl (fun acc p => upsert acc p.1 p.2) m

/-- `HashSet::insert` -/
def insertNew (xs : List Bytes) (x : Bytes) : List Bytes := if x ∈ xs then xs else xs ++ [x]
def insertAll (xs : List Bytes) (ys : List Bytes) : List Bytes := ys.foldl insertNew xs

/-- `i64::MAX`: the largest deadline (unix milliseconds) the engine accepts (`StorageEngine::check_ttl`,
    called first in `set_string_ex` and `expire`). -/
def i64max : Nat := 9223372036854775807

def dlOk : Option Nat → Bool
  | none => true
  | some d => decide (d ≤ i64max)

/-- `set_value` (used by `set_string[_ex]`): overwrites whatever the key held. -/
def setValue (valid : Bool) (db : Db) (e : Entry) : Except Err Db :=
  if !dlOk e.deadline then .error .badExpire
  else if valid then .ok (putEntry db e) else .error .invalidDb

def rpush (valid : Bool) (db : Db) (k x : Bytes) : Except Err Db :=
  if !valid then .error .invalidDb else
  match findKey db k with
  | none => .ok (putEntry db ⟨k, .list [x], none⟩)
  | some ⟨_, .list xs, dl⟩ => .ok (putEntry db ⟨k, .list (xs ++ [x]), dl⟩)
  | some _ => .error .wrongType

/-- further `rpush` calls on a key that already holds a list (they cannot fail) -/
def rpushMore (db : Db) (k : Bytes) (ys : List Bytes) : Db :=
  match findKey db k with
  | some ⟨_, .list xs, dl⟩ => putEntry db ⟨k, .list (xs ++ ys), dl⟩
  | _ => db

def sadd (valid : Bool) (db : Db) (k : Bytes) (ms : List Bytes) : Except Err Db :=
  if !valid then .error .invalidDb else
  match findKey db k with
  | none => .ok (putEntry db ⟨k, .set (insertAll [] ms), none⟩)
  | some ⟨_, .set xs, dl⟩ => .ok (putEntry db ⟨k, .set (insertAll xs ms), dl⟩)
  | some _ => .error .wrongType

def hset (valid : Bool) (db : Db) (k : Bytes) (fvs : List (Bytes × Bytes)) : Except Err Db :=
  if !valid then .error .invalidDb else
  match findKey db k with
  | none => .ok (putEntry db ⟨k, .hash (upsertAll [] fvs), none⟩)
  | some ⟨_, .hash fs, dl⟩ => .ok (putEntry db ⟨k, .hash (upsertAll fs fvs), dl⟩)
  | some _ => .error .wrongType

def zadd (valid : Bool) (db : Db) (k m : Bytes) (score : Nat) : Except Err Db :=
  if !valid then .error .invalidDb else
  match findKey db k with
  | none => .ok (putEntry db ⟨k, .zset [(m, score)], none⟩)
  | some ⟨_, .zset zs, dl⟩ => .ok (putEntry db ⟨k, .zset (upsert zs m score), dl⟩)
  | some _ => .error .wrongType

/-- further `zadd` calls on a key that already holds a sorted set (they cannot fail) -/
def zaddMore (db : Db) (k : Bytes) (items : List (Bytes × Nat)) : Db :=
  match findKey db k with
  | some ⟨_, .zset zs, dl⟩ => putEntry db ⟨k, .zset (upsertAll zs items), dl⟩
  | _ => db

def idLt (a b : Nat × Nat) : Bool := a.1 < b.1 || (a.1 == b.1 && a.2 < b.2)

/-- `let _ = storage.xadd_with_id(…)`: every error (bad database, wrong type, ID not above the
    stream's top, `0-0` on a new stream) is ignored and leaves the database unchanged. -/
def xaddIgnore (valid : Bool) (db : Db) (k : Bytes) (e : SEntry) : Db :=
  if !valid then db else
  match findKey db k with
  | none => if idLt (0, 0) (e.ms, e.seq) then putEntry db ⟨k, .stream [e], none⟩ else db
  | some ⟨_, .stream es, dl⟩ =>
    if idLt (lastId es) (e.ms, e.seq) then putEntry db ⟨k, .stream (es ++ [e]), dl⟩ else db
  | some _ => db

/-- `storage.expire(db, key, ttl)?` with the deadline already made absolute. -/
def expire (valid : Bool) (db : Db) (k : Bytes) (deadline : Nat) : Except Err Db :=
  if !dlOk (some deadline) then .error .badExpire else
  if !valid then .error .invalidDb else
  match findKey db k with
  | none => .ok db
  | some e => .ok (putEntry db { e with deadline := some deadline })

def expireOpt (valid : Bool) (db : Db) (k : Bytes) : Option Nat → Except Err Db
  | none => .ok db
  | some d => expire valid db k d

/-! ### `read_key_value_with_type` -/

/-- `read_string` + `read_f64`, `n` times -/
def readZPairs : Nat → Bytes → Res (List (Bytes × Nat))
  | 0, bs => .ok [] bs []
  | n+1, bs =>
    (readString bs).bind fun m r =>
    (readFixed 8 r).bind fun sc r' =>
    (readZPairs n r').map ((m, leVal sc) :: ·)

/-- `StreamId::parse_u64_fast` (tree after commit 337653b): at least one byte, ASCII digits only,
    `checked_mul`/`checked_add` — i.e. a decimal numeral whose value fits `u64`. -/
def parseU64Fast (bs : Bytes) : Option Nat :=
  match digitsVal bs with
  | some v => if v < two64 then some v else none
  | none => none

/-- split at the first `-` -/
def splitDash : Bytes → Option (Bytes × Bytes)
  | [] => none
  | b :: r =>
    if b = 45 then some ([], r)
    else match splitDash r with
      | none => none
      | some (a, c) => some (b :: a, c)

/-- `StreamId::from_string(from_utf8(id).unwrap_or(""))`: a byte ≥ 0x80 is never a digit, so
    UTF-8 validity needs no separate model. -/
def parseStreamId (bs : Bytes) : Option (Nat × Nat) :=
  match splitDash bs with
  | none => none
  | some (a, c) =>
    match parseU64Fast a, parseU64Fast c with
    | some x, some y => some (x, y)
    | _, _ => none

/-- The loader's `while entry_idx < remaining_count` loop (`usize` arithmetic wraps modulo 2^64).
    First argument is fuel; the input length + 1 suffices because every round that does not leave
    the loop reads two strings, i.e. at least two bytes (`decSnapshot_never_fuel`). -/
def streamLoop (valid : Bool) (k : Bytes) (remaining : Nat) : Nat → Nat → Db → Bytes → Res Db
  | 0, _, _, _ => .err .fuel []
  | f+1, idx, db, bs =>
    if ¬ idx < remaining then .ok db bs []
    else if (idx + 2) % two64 ≥ remaining then .ok db bs []
    else
      (readString bs).bind fun idStr r1 =>
      (readString r1).bind fun fcStr r2 =>
      let fc := (parseU64 fcStr).getD 0
      if idx + 2 + fc * 2 > remaining then .ok db r2 []      -- `checked_mul` / `checked_add` since 0782b81: no wrap-around
      else
        (readPairs fc r2).bind fun fvs r3 =>
        let db' := match parseStreamId idStr with      -- (the last-ID pseudo entry has no parsable ID: skipped here)
          | some id => xaddIgnore valid db k ⟨id.1, id.2, fvs⟩      -- pairs as read, in order (a `Vec` since dba6ef6)
          | none => db
        streamLoop valid k remaining f ((idx + 2 + 2 * fc) % two64) db' r3

/-- `saved_last_id.is_some()` at the end of the same loop: the LATEST pseudo entry decides (its first field name
    must parse as an ID).  The loop's control flow does not depend on the database, so this reads the same
    strings as `streamLoop`; its value matters only when `streamLoop` succeeds. -/
def streamSaved (remaining : Nat) : Nat → Nat → Bool → Bytes → Bool
  | 0, _, s, _ => s
  | f+1, idx, s, bs =>
    if ¬ idx < remaining then s
    else if (idx + 2) % two64 ≥ remaining then s
    else
      match readString bs with
      | .err _ _ => s
      | .ok idStr r1 _ =>
        match readString r1 with
        | .err _ _ => s
        | .ok fcStr r2 _ =>
          let fc := (parseU64 fcStr).getD 0
          if idx + 2 + fc * 2 > remaining then s
          else
            match readPairs fc r2 with
            | .err _ _ => s
            | .ok fvs r3 _ =>
              let s' := if idStr = lastIdMarker then
                  (match fvs with
                   | (fld, _) :: _ => (parseStreamId fld).isSome
                   | [] => false)
                else s
              streamSaved remaining f ((idx + 2 + 2 * fc) % two64) s' r3

/-- `xrestore_last_id`: the key exists afterwards (an emptied stream comes back as an empty stream); the last
    ID it raises is not a component of this model (see `encLastId`). -/
def ensureStream (valid : Bool) (db : Db) (k : Bytes) : Except Err Db :=
  if !valid then .error .invalidDb else
  match findKey db k with
  | none => .ok (putEntry db ⟨k, .stream [], none⟩)
  | some ⟨_, .stream _, _⟩ => .ok db
  | some _ => .error .wrongType

/-- The plain-list loop of the loader on `n` elements: `read_string` + `rpush` each, then `expire`
    (summarised as explained at `loadTyped`).  Nothing is created for `n = 0`. -/
def loadPlainList (valid : Bool) (db : Db) (k : Bytes) (dl : Option Nat) (n : Nat) (bs : Bytes) : Res (Bytes × Db) :=
  if n ≥ 1 then
    (readString bs).bind fun x r =>
    (lift (rpush valid db k x) r).bind fun db0 r' =>
    (readStrings (n - 1) r').bind fun xs r3 =>
    (lift (expireOpt valid (rpushMore db0 k xs) k dl) r3).bind fun db2 r4 => .ok (k, db2) r4 []
  else
    (lift (expireOpt valid db k dl) bs).bind fun db2 r4 => .ok (k, db2) r4 []

/-- `read_key_value_with_type`: returns the key (the proposed `fix:` needs it) and the new database.
    `dl` is the absolute deadline for `expire`/`set_string_ex`, `none` for "no TTL".
    Loop summarisation (lists, sorted sets): the code interleaves `read_string` and `rpush`/`zadd` per
    element.  Once the first engine call has succeeded the key holds a list / sorted set and every
    later call on it succeeds, so reading the remaining elements first and inserting them in one
    step (`rpushMore`, `zaddMore`) gives the same result, the same error and the same allocation
    trace, in linear instead of quadratic time. -/
def loadTyped (fix : Fix) (valid : Bool) (db : Db) (ty : Nat) (dl : Option Nat) (bs : Bytes) : Res (Bytes × Db) :=
  if ty = 0 then
    (readString bs).bind fun k r =>
    (readString r).bind fun v r' =>
    (lift (setValue valid db ⟨k, .str v, dl⟩) r').bind fun db' r'' => .ok (k, db') r'' []
  else if ty = 3 ∨ ty = 5 then
    (readString bs).bind fun k r =>
    (readLen r).bind fun n r1 =>
    if n ≥ 1 then
      (readString r1).bind fun m r2 =>
      (readFixed 8 r2).bind fun sc r3 =>
      (lift (zadd valid db k m (leVal sc)) r3).bind fun db0 r3' =>
      (readZPairs (n - 1) r3').bind fun items r4 =>
      (lift (expireOpt valid (zaddMore db0 k items) k dl) r4).bind fun db2 r5 => .ok (k, db2) r5 []
    else
      (lift (expireOpt valid db k dl) r1).bind fun db2 r5 => .ok (k, db2) r5 []
  else if ty = 1 then
    (readString bs).bind fun k r =>
    (readLen r).bind fun n r1 =>
    if n ≥ 1 then
      (readString r1).bind fun first r2 =>
      if first = marker then
        (lift (if fix.keepEmptyStream ∧ n - 1 = 0 then setValue valid db ⟨k, .stream [], none⟩ else .ok db) r2).bind fun db0 r2' =>
        (streamLoop valid k (n - 1) (r2'.length + 1) 0 db0 r2').bind fun db1 r3 =>
        (lift (if fix.keepEmptyStream ∧ streamSaved (n - 1) (r2'.length + 1) 0 false r2' then ensureStream valid db1 k else .ok db1) r3).bind fun db1' r3' =>
        (lift (expireOpt valid db1' k dl) r3').bind fun db2 r4 => .ok (k, db2) r4 []
      else if fix.listEscape ∧ first = escape then
        loadPlainList valid db k dl (n - 1) r2
      else
        (lift (rpush valid db k first) r2).bind fun db0 r2' =>
        (readStrings (n - 1) r2').bind fun xs r3 =>
        (lift (expireOpt valid (rpushMore db0 k xs) k dl) r3).bind fun db2 r4 => .ok (k, db2) r4 []
    else
      (lift (expireOpt valid db k dl) r1).bind fun db2 r4 => .ok (k, db2) r4 []
  else if ty = 2 then
    (readString bs).bind fun k r =>
    (readLen r).bind fun n r1 =>
    (readStrings n r1).bind fun ms r2 =>
    (lift (sadd valid db k ms) r2).bind fun db1 r3 =>
    (lift (expireOpt valid db1 k dl) r3).bind fun db2 r4 => .ok (k, db2) r4 []
  else if ty = 4 then
    (readString bs).bind fun k r =>
    (readLen r).bind fun n r1 =>
    (readPairs n r1).bind fun fvs r2 =>
    (lift (hset valid db k fvs) r2).bind fun db1 r3 =>
    (lift (expireOpt valid db1 k dl) r3).bind fun db2 r4 => .ok (k, db2) r4 []
  else .err (.unknownType ty) []

/-- `read_key_value_with_expiry` after the type byte: `expiry > now` keeps the deadline; otherwise the
    pinned tree passes `ttl = None` (immortal), the repaired loader deletes the key again. -/
def loadExpiring (fix : Fix) (now : Nat) (valid : Bool) (db : Db) (ty expiry : Nat) (bs : Bytes) : Res Db :=
  if expiry > now then
    (loadTyped fix valid db ty (some expiry) bs).bind fun p r => .ok p.2 r []
  else if fix.dropExpired then
    (loadTyped fix valid db ty none bs).bind fun p r =>
      lift (if valid then .ok (eraseKey p.2 p.1) else .error .invalidDb) r
  else
    (loadTyped fix valid db ty none bs).bind fun p r => .ok p.2 r []

/-! ### The store (all databases) and `load_into` -/

abbrev Store := List (Nat × Db)

def getDb (s : Store) (i : Nat) : Db := (List.lookup i s).getD []

/-- write a database back; an empty one is not listed -/
def setDb : Store → Nat → Db → Store
  | [], i, db => if db.isEmpty then [] else [(i, db)]
  | (j, x) :: s, i, db =>
    if j = i then (if db.isEmpty then s else (i, db) :: s) else (j, x) :: setDb s i db

def numDbs : Nat := 16

/-- version field: `String::from_utf8_lossy(4 bytes).parse::<u16>()` — `dddd` or `+ddd`. -/
def versionOk (v : Bytes) : Bool :=
  match v with
  | [a, b, c, d] => (isDigit a || a == 43) && isDigit b && isDigit c && isDigit d
  | _ => false

/-- The opcode loop of `load_into`; first argument is fuel (each round consumes ≥ 1 byte). -/
def loadLoop (fix : Fix) (now : Nat) : Nat → Nat → Store → Bytes → Res Store
  | 0, _, _, _ => .err .fuel []
  | f+1, cur, s, bs =>
    (readByte bs).bind fun op r =>
      if op = 255 then
        (readFixed 8 r).bind fun _ r' => .ok s r' []
      else if op = 254 then
        (readLen r).bind fun n r' => loadLoop fix now f n s r'
      else if op = 251 then
        (readLen r).bind fun _ r1 => (readLen r1).bind fun _ r2 => loadLoop fix now f cur s r2
      else if op = 250 then
        (readString r).bind fun _ r1 => (readString r1).bind fun _ r2 => loadLoop fix now f cur s r2
      else if op = 252 then
        (readFixed 8 r).bind fun e r1 =>
        (readByte r1).bind fun ty r2 =>
        (loadExpiring fix now (decide (cur < numDbs)) (getDb s cur) ty (leVal e) r2).bind fun db' r3 =>
        loadLoop fix now f cur (setDb s cur db') r3
      else if op = 253 then
        (readFixed 4 r).bind fun e r1 =>
        (readByte r1).bind fun ty r2 =>
        (loadExpiring fix now (decide (cur < numDbs)) (getDb s cur) ty (leVal e * 1000) r2).bind fun db' r3 =>
        loadLoop fix now f cur (setDb s cur db') r3
      else
        (loadTyped fix (decide (cur < numDbs)) (getDb s cur) op none r).bind fun p r3 =>
        loadLoop fix now f cur (setDb s cur p.2) r3

/-- `read_header` + `load_into` into an engine holding `s`, at load time `now`. -/
def loadInto (fix : Fix) (s : Store) (bs : Bytes) (now : Nat) : Res Store :=
  (readFixed 5 bs).bind fun m r =>
    if m ≠ magic then .err .badMagic []
    else (readFixed 4 r).bind fun v r' =>
      if !versionOk v then .err .badVersion []
      else loadLoop fix now (r'.length + 1) 0 s r'

/-- Restart: load the file into a fresh engine.  Total; `allocs` is the allocation trace. -/
def decSnapshotT (fix : Fix) (bs : Bytes) (now : Nat) : Res Store := loadInto fix [] bs now

def decSnapshot (fix : Fix) (bs : Bytes) (now : Nat) : Except Err Dataset :=
  match decSnapshotT fix bs now with
  | .ok s _ _ => .ok s
  | .err e _ => .error e

/-- all allocations of a reader run: the successful ones, then the failing one if the run ended in it -/
def Res.trace {α : Type} : Res α → List Nat
  | .ok _ _ al => al
  | .err (.shortString want _) al => al ++ [want]
  | .err _ al => al

/-- allocation trace of a load (buffer sizes taken from length fields, in order) -/
def allocTrace (fix : Fix) (bs : Bytes) (now : Nat) : List Nat := (decSnapshotT fix bs now).trace

/-! ### Spec: what the property prescribes -/

/-- alive at `now`: no deadline, or a deadline still in the future -/
def alive (now : Nat) (e : Entry) : Bool :=
  match e.deadline with
  | none => true
  | some d => decide (now < d)

def liveDb (now : Nat) (db : Db) : Db := db.filter (alive now)

/-- The dataset a restart at `now` must yield: every key whose deadline has not passed, unchanged;
    databases left without keys are not listed. -/
def live (now : Nat) (d : Dataset) : Dataset :=
  d.flatMap fun p => if (liveDb now p.2).isEmpty then [] else [(p.1, liveDb now p.2)]

/-! ### Spec: the datasets the property speaks about (an engine state reachable by commands) -/

def strOk (s : Bytes) : Bool := decide (s.length < two32)
def pairOk (p : Bytes × Bytes) : Bool := strOk p.1 && strOk p.2

/-- stream IDs strictly increasing, the first above `prev` (`0-0` at the start) -/
def idsIncreasing : Nat × Nat → List SEntry → Bool
  | _, [] => true
  | prev, e :: es => idLt prev (e.ms, e.seq) && idsIncreasing (e.ms, e.seq) es

/-- `u64` ID parts, at least one field (XADD's arity), distinct field names (a `HashMap`) -/
def sentryWF (e : SEntry) : Bool :=
  decide (e.ms < two64) && decide (e.seq < two64) && !e.fields.isEmpty &&
  decide ((e.fields.map (·.1)).Nodup) && e.fields.all pairOk

/-- Values an engine can hold: every length below 2^32, members / fields distinct, no empty list or
    sorted set (the engine deletes those), stream IDs increasing.  An EMPTY stream is allowed
    (`XADD` + `XDEL` leaves one) and so is a list whose first element is the marker string — those two
    are the deviation predicates `isEmptyStream` / `startsWithMarker` below, not exclusions.
    The theorems ask for well-formedness of the value AS WRITTEN, `valueWF (escValue esc v)`: with the
    escape rule a list headed by a reserved string is written with one more element, and it is that
    count which must stay below 2^32 (without the rule `escValue false v = v`). -/
def valueWF : Value → Bool
  | .str b => strOk b
  | .list xs => !xs.isEmpty && decide (xs.length < two32) && xs.all strOk
  | .set xs => decide (xs.length < two32) && decide xs.Nodup && xs.all strOk
  | .hash fs => decide (fs.length < two32) && decide ((fs.map (·.1)).Nodup) && fs.all pairOk
  | .zset zs => !zs.isEmpty && decide (zs.length < two32) && decide ((zs.map (·.1)).Nodup) &&
      zs.all fun p => strOk p.1 && decide (p.2 < two64)
  | .stream es => decide (1 + 4 + streamItems es < two32) && idsIncreasing (0, 0) es && es.all sentryWF

def entryWF (e : Entry) : Bool :=
  strOk e.key && valueWF e.val &&
  match e.deadline with
  | none => true
  | some d => decide (d ≤ i64max)

def dbWF (db : Db) : Bool :=
  db.all entryWF && decide (db.length < two32) && decide ((db.map (·.key)).Nodup)

/-- databases: distinct indices below 16, each non-empty with distinct keys -/
def datasetWF (d : Dataset) : Bool :=
  (d.all fun p => decide (p.1 < numDbs) && !p.2.isEmpty && dbWF p.2) && decide ((d.map (·.1)).Nodup)

/-- deviation (without the escape rule): a LIST whose first element is the stream marker string -/
def startsWithMarker : Value → Bool
  | .list (x :: _) => x == marker
  | _ => false

/-- a LIST whose first element is the marker or the escape string: the values the escape rule
    touches.  Every other value is written and read the same way with and without the rule. -/
def reservedHead : Value → Bool
  | .list xs => needsEscape xs
  | _ => false

/-- deviation: a stream without entries -/
def isEmptyStream : Value → Bool
  | .stream [] => true
  | _ => false

/-- deviation: the key is written (deadline not before the save) but its deadline is reached by the load -/
def expiresInDowntime (t t' : Nat) (e : Entry) : Bool :=
  match e.deadline with
  | some d => decide (t ≤ d) && decide (d ≤ t')
  | none => false

def anyEntry (p : Entry → Bool) (d : Dataset) : Bool := d.any fun q => q.2.any p

end Ferrous.Rdb
