/-
  Saving an RDB snapshot — import-free model of `RdbEngine::{save, bgsave}`, of the save loop of
  `write_snapshot` seen from ONE key, and of the loader's allocations (C10).  Builds on Model/Rdb.lean.

  (i)  The writer as a sequence of `write_raw` calls ("chunks"): `cSnapshot` lists exactly the
       byte slices the code passes to `write_raw`, in order (`VERIF RDBWRITES` counts them,
       `VERIF RDBFAIL n` fails the n-th).  A tiny file system — two names (`dump.rdb`, `dump.tmp`)
       pointing to inodes with contents — and save runs as processes: open(create+truncate) the
       tmp name, one write per chunk at the run's own offset, rename tmp over dump.  A run can be
       told to fail at its n-th write.  `bgsave` adds the in-progress flag.  `exclusive` is the
       switch of the proposed repair (SAVE refuses while a background save runs).
       `BufWriter` is not modelled: it only delays when bytes reach the file inside ONE run (and
       flushes them when the run is dropped after a failure), so the file contents after a run
       and the schedules in which a run's writes all happen late are represented exactly.
  (ii) The save loop seen from one key: `storage.get` (value; a sorted set is an `Arc` to the live
       skip list), `storage.ttl`, and for a sorted set `skiplist.len()` then `range_by_rank` — four
       read steps that client commands on the key can interleave with.  `atomic` is the switch
       of the proposed repair (everything read under one lock), `itemsFirst` that of the smaller one
       (sorted-set items materialised before their number is written).
  (iii) `boundedTrace`: the loader's allocations when `read_string` reads in bounded chunks
       (the switch of the proposed repair) instead of `vec![0u8; len]`.
-/
import FerrousSpec.Model.Rdb
namespace Ferrous.RdbSave
open Ferrous Ferrous.Rdb

/-! ### (i-a) the writer, call by call -/

/-- `write_length`: one `write_byte` (6 bit), two `write_byte`s (14 bit), `write_byte` + `write_u32_be` -/
def cLen (n : Nat) : List Bytes :=
  if n ≤ 63 then [[n]]
  else if n ≤ 16383 then [[n / 256 % 64 + 64], [n % 256]]
  else [[128], [n / 16777216 % 256, n / 65536 % 256, n / 256 % 256, n % 256]]

/-- `write_string`: the length, then ONE `write_raw` of the bytes (also when there are none) -/
def cString (s : Bytes) : List Bytes := cLen s.length ++ [s]

def cStrings (xs : List Bytes) : List Bytes := xs.flatMap cString
def cPair (p : Bytes × Bytes) : List Bytes := cString p.1 ++ cString p.2
def cPairs (fs : List (Bytes × Bytes)) : List Bytes := fs.flatMap cPair
def cZItem (p : Bytes × Nat) : List Bytes := cString p.1 ++ [u64le p.2]
def cZItems (zs : List (Bytes × Nat)) : List Bytes := zs.flatMap cZItem
/-- the four `write_string` calls of the last-ID pseudo entry (3c61a3a) -/
def cLastId (es : List SEntry) : List Bytes :=
  cString lastIdMarker ++ (cString [49] ++ (cString (idText (lastId es)) ++ cString []))
def cSEntry (e : SEntry) : List Bytes :=
  cString (idString e) ++ (cString (natDigits e.fields.length) ++ cPairs e.fields)
def cSEntries (es : List SEntry) : List Bytes := es.flatMap cSEntry

def cValue : Value → List Bytes
  | .str b => cString b
  | .list xs => cLen xs.length ++ cStrings xs
  | .set xs => cLen xs.length ++ cStrings xs
  | .hash fs => cLen fs.length ++ cPairs fs
  | .zset zs => cLen zs.length ++ cZItems zs
  | .stream es => cLen (1 + 4 + streamItems es) ++ (cString marker ++ (cLastId es ++ cSEntries es))

def cKV (k : Bytes) (v : Value) : List Bytes := [typeByte v] :: (cString k ++ cValue v)

def cEntry (t : Nat) (e : Entry) : List Bytes :=
  match e.deadline with
  | none => cKV e.key e.val
  | some d =>
    if d < t then []
    else [252] :: u64le (t + (d - t)) :: cKV e.key e.val

def cEntries (t : Nat) (es : Db) : List Bytes := es.flatMap (cEntry t)

def cDb (t : Nat) (p : Nat × Db) : List Bytes :=
  if p.2.isEmpty then []
  else [254] :: (cLen p.1 ++ [251] :: (cLen p.2.length ++ (cLen p.2.length ++ cEntries t p.2)))

def cDbs (t : Nat) (d : Dataset) : List Bytes := d.flatMap (cDb t)

def cAux (k v : Bytes) : List Bytes := [250] :: (cString k ++ cString v)

/-- everything before the checksum: `write_header` (two calls), `write_metadata`, the databases, `write_eof` -/
def cBody (ver : Bytes) (d : Dataset) (t : Nat) : List Bytes :=
  magic :: [48, 48, 48, 57] :: (cAux auxVerKey ver ++ (cAux auxCtimeKey (natDigits (t / 1000)) ++ (cDbs t d ++ [[255]])))

/-- the `write_raw` calls of one `write_snapshot`, in order -/
def cSnapshot (ver : Bytes) (d : Dataset) (t : Nat) : List Bytes :=
  let body := cBody ver d t
  body ++ [u64le body.flatten.sum]

/-! ### (i-b) files, save runs, the in-progress flag -/

/-- two names, inodes with contents -/
structure FS where
  dump : Option Nat
  tmp : Option Nat
  data : Nat → Bytes
  next : Nat

def FS.set (fs : FS) (k : Nat) (b : Bytes) : FS := { fs with data := fun i => if i = k then b else fs.data i }

def dumpContent (fs : FS) : Option Bytes := fs.dump.map fs.data
def tmpContent (fs : FS) : Option Bytes := fs.tmp.map fs.data

/-- `write` of `b` at offset `off` of a file holding `f` (a gap is filled with zero bytes) -/
def writeAt (f : Bytes) (off : Nat) (b : Bytes) : Bytes :=
  f.take off ++ (List.replicate (off - f.length) 0 ++ (b ++ f.drop (off + b.length)))

/-- a save to run: its `write_raw` calls, and optionally the (1-based) call that fails -/
structure Job where
  chunks : List Bytes
  failAt : Option Nat

/-- a running save -/
structure Proc where
  bg : Bool              -- spawned by `bgsave` (else: SAVE on the command thread)
  ino : Option Nat       -- the opened tmp file, `none` before `OpenOptions::open`
  off : Nat              -- file offset of this run's handle
  todo : List Bytes      -- calls still to make
  failIn : Option Nat    -- `some 1`: the next call fails
  content : Bytes        -- what the run sets out to write (for the statements only)

inductive Outcome where
  | saved | failed | refused
  deriving DecidableEq, Repr

structure Sys where
  fs : FS
  flag : Bool            -- `bgsave_in_progress`
  procs : List Proc
  log : List Outcome     -- replies / thread results, most recent first

inductive Ev where
  | startSave (j : Job)       -- `SAVE`
  | startBgsave (j : Job)     -- `BGSAVE` / auto-save (`StorageMonitor` calls `bgsave`)
  | step (i : Nat)            -- the i-th running save performs its next file operation

def mkProc (bg : Bool) (j : Job) : Proc :=
  ⟨bg, none, 0, j.chunks, j.failAt, j.chunks.flatten⟩

def setNth {α : Type} : List α → Nat → α → List α
  | [], _, _ => []
  | _ :: xs, 0, a => a :: xs
  | x :: xs, i+1, a => x :: setNth xs i a

/-- a run ends: it leaves the table, a background run clears the flag -/
def finish (s : Sys) (i : Nat) (p : Proc) (fs : FS) (o : Outcome) : Sys :=
  { fs := fs, flag := if p.bg then false else s.flag, procs := s.procs.eraseIdx i, log := o :: s.log }

/-- one file operation of run `p` (the i-th of the table) -/
def stepProc (s : Sys) (i : Nat) (p : Proc) : Sys :=
  match p.ino with
  | none =>
    -- OpenOptions::new().write(true).create(true).truncate(true).open(tmp)
    match s.fs.tmp with
    | some k => { s with fs := s.fs.set k [], procs := setNth s.procs i { p with ino := some k, off := 0 } }
    | none =>
      let k := s.fs.next
      { s with fs := { (s.fs.set k []) with tmp := some k, next := k + 1 },
               procs := setNth s.procs i { p with ino := some k, off := 0 } }
  | some k =>
    match p.todo with
    | c :: rest =>
      if p.failIn = some 1 then finish s i p s.fs .failed
      else
        { s with fs := s.fs.set k (writeAt (s.fs.data k) p.off c),
                 procs := setNth s.procs i { p with off := p.off + c.length, todo := rest,
                                                    failIn := p.failIn.map (· - 1) } }
    | [] =>
      -- flush, then std::fs::rename(tmp, dump)
      match s.fs.tmp with
      | some j => finish s i p { s.fs with dump := some j, tmp := none } .saved
      | none => finish s i p s.fs .failed

/-- `exclusive = true`: SAVE refuses while a background save is in progress (proposed repair).
    Commands are not processed while a SAVE runs (it occupies the only command thread). -/
def step (exclusive : Bool) (s : Sys) : Ev → Sys
  | .startSave j =>
    if s.procs.any (fun p => !p.bg) then s
    else if exclusive && s.flag then { s with log := .refused :: s.log }
    else { s with procs := s.procs ++ [mkProc false j] }
  | .startBgsave j =>
    if s.procs.any (fun p => !p.bg) then s
    else if s.flag then { s with log := .refused :: s.log }
    else { s with flag := true, procs := s.procs ++ [mkProc true j] }
  | .step i =>
    match s.procs[i]? with
    | none => s
    | some p => stepProc s i p

def run (exclusive : Bool) (s : Sys) (evs : List Ev) : Sys := evs.foldl (step exclusive) s

/-- decidable exclusion for the unrepaired server: no SAVE is issued while the flag is set -/
def noSaveDuringBgsave (exclusive : Bool) : Sys → List Ev → Bool
  | _, [] => true
  | s, e :: es =>
    (match e with
     | .startSave _ => !s.flag
     | _ => true) && noSaveDuringBgsave exclusive (step exclusive s e) es

/-- a whole save run alone: start it and let it make all its file operations -/
def soloEvents (n : Nat) : List Ev := List.replicate (n + 2) (.step 0)
def runSave (x : Bool) (s : Sys) (j : Job) : Sys := run x s (.startSave j :: soloEvents j.chunks.length)
def runBgsave (x : Bool) (s : Sys) (j : Job) : Sys := run x s (.startBgsave j :: soloEvents j.chunks.length)

/-- a server at rest with an optional previous dump -/
def initSys (old : Option Bytes) : Sys :=
  match old with
  | none => ⟨⟨none, none, fun _ => [], 0⟩, false, [], []⟩
  | some b => ⟨⟨some 0, none, fun i => if i = 0 then b else [], 1⟩, false, [], []⟩

/-! ### (i′) every saver, with the save lock (b09a77b)

`RdbEngine::save` holds `save_lock` from opening the temporary file to renaming it.  Savers that
the flag does not keep apart — SHUTDOWN's save (no flag test at all) and the auto-save thread
starting a background save in the middle of a SAVE — therefore wait instead of opening (and
truncating) the file under the first writer.  A waiting saver has made no file operation yet;
it gets the lock (gets the lock) only when no save holds it. -/

structure SysL where
  core : Sys                      -- files, the save that holds the lock (at most one), results; `core.flag` mirrors "the holder is a background save"
  flag : Bool                     -- `bgsave_in_progress`
  waiting : List (Bool × Job)     -- started, blocked in `save_lock.lock()`

inductive EvL where
  | save (j : Job)        -- `SAVE` (handle_save tests the flag, then calls `save`)
  | bgsave (j : Job)      -- `BGSAVE`, or the auto-save thread calling `bgsave` — at any moment, also during a SAVE
  | shutdown (j : Job)    -- `SHUTDOWN`: calls `save` without looking at the flag
  | grant (i : Nat)       -- the i-th waiting saver gets the lock (any order: a mutex is not fair)
  | step                  -- the holder performs its next file operation

def stepL (s : SysL) : EvL → SysL
  | .save j =>
    if s.flag then { s with core := { s.core with log := .refused :: s.core.log } }
    else { s with waiting := s.waiting ++ [(false, j)] }
  | .bgsave j =>
    if s.flag then { s with core := { s.core with log := .refused :: s.core.log } }
    else { s with flag := true, waiting := s.waiting ++ [(true, j)] }
  | .shutdown j => { s with waiting := s.waiting ++ [(false, j)] }
  | .grant i =>
    match s.core.procs, s.waiting[i]? with
    | [], some (bg, j) =>
      { s with core := { s.core with flag := bg, procs := s.core.procs ++ [mkProc bg j] }, waiting := s.waiting.eraseIdx i }
    | _, _ => s
  | .step =>
    match s.core.procs with
    | [p] =>
      let c := stepProc s.core 0 p
      { s with core := c, flag := if c.procs.isEmpty && p.bg then false else s.flag }
    | _ => s

def runL (s : SysL) (evs : List EvL) : SysL := evs.foldl stepL s

def initSysL (old : Option Bytes) : SysL := ⟨initSys old, false, []⟩

/-! ### (ii) the save loop seen from one key -/

/-- client commands on the key, by their effect -/
inductive Cmd where
  | set (v : Value) (dl : Option Nat)   -- the key gets a NEW object (SET, DEL + re-create, RENAME onto it, …)
  | del                                 -- DEL, or removal by expiry
  | ttl (dl : Option Nat)               -- EXPIRE / PEXPIRE / PERSIST
  | mutate (v : Value)                  -- in-place change of a string/list/set/hash/stream (APPEND, RPUSH, LPOP, SADD, HSET, XADD, …)
  | zmutate (zs : List (Bytes × Nat))   -- ZADD / ZREM / ZINCRBY on the existing sorted set: SAME skip list, new contents
                                        -- (rank order); `[]` = last member removed (the key disappears, the list is empty)

abbrev KeyState := Option (Value × Option Nat)

/-- what the saver wrote for the key: the value (for a sorted set: the items it got), the declared
    sorted-set length, the deadline -/
structure Rec where
  val : Value
  zlen : Option Nat
  ttl : Option Nat
  deriving DecidableEq, Repr

inductive Phase where
  | start
  | gotValue (v : Value)                                 -- after `storage.get`
  | gotTtl (v : Value) (ttl : Option Nat)                -- after `storage.ttl` (only a sorted set goes on from here)
  | gotLen (ttl : Option Nat) (len : Nat)                -- after `skiplist.len()` — the length is written now
  | done (r : Option Rec)                                -- `none`: the key was not there, nothing written
  deriving DecidableEq, Repr

structure KM where
  cur : KeyState
  hist : List KeyState                   -- every state the key had since the save began, newest first
  phase : Phase
  held : List (Bytes × Nat)              -- contents of the skip list the saver holds an `Arc` to
  attached : Bool                        -- the key still holds that very skip list
  disturbed : Bool                       -- a command ran between the saver's first and last read of the key

def isZset : Value → Bool
  | .zset _ => true
  | _ => false

def zitems : Value → List (Bytes × Nat)
  | .zset zs => zs
  | _ => []

def applyCmd (st : KeyState) : Cmd → KeyState
  | .set v dl => some (v, dl)
  | .del => none
  | .ttl dl => st.map fun p => (p.1, dl)
  | .mutate v => st.map fun p => (if isZset p.1 then p.1 else v, p.2)
  | .zmutate zs =>
    match st with
    | some (.zset _, dl) => if zs.isEmpty then none else some (.zset zs, dl)
    | other => other

def midKey : Phase → Bool
  | .gotValue _ => true
  | .gotTtl _ _ => true
  | .gotLen _ _ => true
  | _ => false

def cmdStep (m : KM) (c : Cmd) : KM :=
  let cur' := applyCmd m.cur c
  let sameObject : Bool := match c, m.cur with
    | .zmutate _, some (.zset _, _) => true
    | .ttl _, _ => true
    | _, _ => false
  { m with cur := cur', hist := cur' :: m.hist,
           held := (match c, m.cur with
                    | .zmutate zs, some (.zset _, _) => if m.attached then zs else m.held
                    | _, _ => m.held),
           attached := m.attached && sameObject,
           disturbed := m.disturbed || midKey m.phase }

def recOf (v : Value) (ttl : Option Nat) : Rec :=
  ⟨v, if isZset v then some (zitems v).length else none, ttl⟩

/-- one read step of the saver.  `atomic = true`: value, deadline and sorted-set members under one lock
    (proposed repair).  `itemsFirst = true`: the sorted-set items are materialised BEFORE the length is
    written, so the declared length is their number (smaller proposed repair). -/
def saverStep (atomic itemsFirst : Bool) (m : KM) : KM :=
  match m.phase with
  | .start =>
    match m.cur with
    | none => { m with phase := .done none }
    | some (v, dl) =>
      if atomic then { m with phase := .done (some (recOf v dl)) }
      else { m with phase := .gotValue v, held := zitems v, attached := isZset v }
  | .gotValue v =>
    let ttl := match m.cur with
      | some (_, dl) => dl
      | none => none
    if isZset v then { m with phase := .gotTtl v ttl }
    else { m with phase := .done (some ⟨v, none, ttl⟩) }
  | .gotTtl _ ttl =>
    if itemsFirst then { m with phase := .done (some ⟨.zset m.held, some m.held.length, ttl⟩) }
    else { m with phase := .gotLen ttl m.held.length }
  | .gotLen ttl len => { m with phase := .done (some ⟨.zset (m.held.take len), some len, ttl⟩) }
  | .done r => { m with phase := .done r }

inductive KEv where
  | saver
  | cmd (c : Cmd)

def kstep (atomic itemsFirst : Bool) (m : KM) : KEv → KM
  | .saver => saverStep atomic itemsFirst m
  | .cmd c => cmdStep m c

def krun (atomic itemsFirst : Bool) (m : KM) (evs : List KEv) : KM := evs.foldl (kstep atomic itemsFirst) m

def kinit (st : KeyState) : KM := ⟨st, [st], .start, [], false, false⟩

/-- the record is the key's state at one of the instants in `hist` -/
def Rec.consistent (r : Rec) (hist : List KeyState) : Prop :=
  some (r.val, r.ttl) ∈ hist ∧ r.zlen = (if isZset r.val then some (zitems r.val).length else none)

instance (r : Rec) (h : List KeyState) : Decidable (r.consistent h) := by
  unfold Rec.consistent; infer_instance

/-- bytes of the pair the saver writes for record `r` under key `k` (save instant `t`) -/
def recBytes (t : Nat) (k : Bytes) (r : Rec) : Bytes :=
  let body : Bytes := match r.val, r.zlen with
    | .zset zs, some n => 3 :: (encString k ++ (encLen n ++ encZItems zs))
    | v, _ => encKV k v
  match r.ttl with
  | none => body
  | some d => 252 :: (u64le (t + (d - t)) ++ body)

/-- a dump whose database `db` holds just these pair bytes (header, aux fields, selector, hints, EOF, checksum) -/
def fileOf (ver : Bytes) (t db : Nat) (pairs : Bytes) : Bytes :=
  let body := header ++ (encAux auxVerKey ver ++ (encAux auxCtimeKey (natDigits (t / 1000)) ++
    (254 :: (encLen db ++ 251 :: (encLen 1 ++ (encLen 1 ++ pairs))) ++ [255])))
  body ++ u64le body.sum

/-! ### (iii) allocations of the loader with a bounded `read_string` -/

/-- `bounded = true`: `read_string` reads through `take(len).read_to_end`, so a failing read has
    allocated no more than the bytes that were available; `false`: `vec![0u8; len]`. -/
def traceOf (bounded : Bool) {α : Type} : Res α → List Nat
  | .ok _ _ al => al
  | .err (.shortString want avail) al => al ++ [if bounded then min want avail else want]
  | .err _ al => al

def loaderAllocs (bounded : Bool) (fix : Fix) (bs : Bytes) (now : Nat) : List Nat :=
  traceOf bounded (decSnapshotT fix bs now)

end Ferrous.RdbSave
