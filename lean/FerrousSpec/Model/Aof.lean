/-
  C11 — the append-only file as a redo log, on top of the key-space machine `KS`.

  What the code does (src/network/server.rs, src/storage/aof.rs):

  * `process_normal_command` — the route of every command sent directly and of every command executed by
    EXEC (`process_command_parts`) — appends `serialize(Array(parts))` to the file iff
    `is_write_command(name)`, BEFORE dispatching and without looking at the outcome; since
    `fix: the AOF carried no database …` through `append_command_in_db(db, parts)`, which writes a `SELECT db` entry
    first whenever the previous entry ran in another database (`Code.appendInDb`, `Code.fileStep`);
  * the pop made for a BLPOP/BRPOP client (at once, or by `wake_client` when it is served) is appended by
    `log_blocking_pop` as `LPOP key` / `RPOP key`; SELECT itself is not in the table; a script is logged as its
    whole `EVAL …` command (EVAL is in the table), the `redis.call`s inside it are not logged separately;
  * start-up replay (`AofEngine::load`/`replay_command`) executes nothing, so "replay" is: read the file with an
    independent reader and send its commands, in file order, to an empty server on a fresh connection (db 0).

  `log cfg h` is ONE function parameterised by `Cfg`: `Cfg.tree w sel wake` follows the switches the translator
  regenerates from the source (`Cfg.code w` = no SELECT tracking, pops not logged: the tree as it was pinned);
  `Cfg.fixed w` is what the property prescribes.

  Scope of the model: the 65 commands of `KS.stepDb`, SELECT, and the script path through the one wrapper script
  `return redis.call(unpack(ARGV))` (whose effect is the inner command on the selected database).
  Import-free apart from Model/Keyspace (and through it Model/Resp, Model/Bytes).
-/
import FerrousSpec.Model.Keyspace
namespace Ferrous.Aof
open Ferrous Ferrous.KS

/-! ### The file: a concatenation of RESP arrays of bulk strings -/

/-- `RespFrame::Array(Some(parts))` for a command whose parts are all bulk strings -/
def cmdFrame (c : List Bytes) : Frame := .array (c.map .bulk)

/-- `serialize_resp_frame(&Array(parts), writer)` -/
def serCmd (c : List Bytes) : Bytes := ser (cmdFrame c)

/-- the bytes of a file to which exactly the commands `cs` were appended, in order -/
def fileOf : List (List Bytes) → Bytes
  | [] => []
  | c :: cs => serCmd c ++ fileOf cs

def bulksOf : List Frame → Option (List Bytes)
  | [] => some []
  | f :: r => match f, bulksOf r with
    | .bulk b, some t => some (b :: t)
    | _, _ => none

/-- a frame that is a command: an array of bulk strings -/
def cmdOfFrame : Frame → Option (List Bytes)
  | .array xs => bulksOf xs
  | _ => none

/-- how a reading of the file ends -/
inductive Tail where
  /-- the file ends at a frame end -/
  | clean
  /-- the remaining bytes are the beginning of a frame that was not written completely ("need more data") -/
  | torn (rest : Bytes)
  /-- the remaining bytes are not RESP, or not an array of bulk strings -/
  | corrupt (rest : Bytes)
  deriving Repr, DecidableEq

/-- The harness's reader (strict: no white-space skipping, no inline commands): complete command frames from the
    start of the file, and how the reading ended.  Fuel: one per frame. -/
def readLogF : Nat → Bytes → List (List Bytes) × Tail
  | 0, d => ([], .corrupt d)
  | n+1, d =>
    if d.isEmpty then ([], .clean) else
    match parseBytes d with
    | .need => ([], .torn d)
    | .err => ([], .corrupt d)
    | .ok f r => match cmdOfFrame f with
      | none => ([], .corrupt d)
      | some c => ((c :: (readLogF n r).1), (readLogF n r).2)

def readLog (d : Bytes) : List (List Bytes) × Tail := readLogF (d.length + 1) d

/-! ### Commands, names, the script wrapper -/

/-- the command name as `process_normal_command` computes it (`to_uppercase`, ASCII part) — the same expression
    `KS.step` dispatches on -/
def nameOf : List Bytes → String
  | [] => ""
  | n :: _ => String.ofList ((upperBytes n).map fun b => Char.ofNat b)

/-- `return redis.call(unpack(ARGV))` -/
def wrapperScript : Bytes :=
  [114, 101, 116, 117, 114, 110, 32, 114, 101, 100, 105, 115, 46, 99, 97, 108, 108, 40, 117, 110, 112, 97, 99, 107, 40, 65, 82, 71, 86, 41, 41]

/-- `EVAL <wrapper> 0 inner…` ↦ `inner`: the script path as the correspondence run drives it -/
def unwrap (raw : List Bytes) : Option (List Bytes) :=
  if nameOf raw = "EVAL" then
    match raw with
    | _ :: s :: z :: inner => if s = wrapperScript ∧ z = [48] then some inner else none
    | _ => none
  else none

/-- `EVAL <wrapper> 0 inner…` -/
def wrap (inner : List Bytes) : List Bytes := [69, 86, 65, 76] :: wrapperScript :: [48] :: inner

/-- the name of the command that touches the dataset: the inner command of a wrapper script, else the command itself -/
def effName (raw : List Bytes) : String :=
  match unwrap raw with
  | some inner => nameOf inner
  | none => nameOf raw

/-- the command that touches the dataset -/
def effCmd (raw : List Bytes) : List Bytes := (unwrap raw).getD raw

def delCmd (key : Bytes) : List Bytes := [[68, 69, 76], key]
def selectCmd (db : Nat) : List Bytes := [[83, 69, 76, 69, 67, 84], natDigits db]
def popCmd (left : Bool) (key : Bytes) : List Bytes := [if left then [76, 80, 79, 80] else [82, 80, 79, 80], key]

/-! ### One connection of the server -/

structure Conn where
  store : Store := emptyStore
  /-- `conn.db_index` -/
  cur : Nat := 0
  deriving Repr, DecidableEq

/-- `handle_select`: exactly one argument, `parse::<usize>()`, `< 16` — otherwise the selection stays -/
def selTarget (cur : Nat) (raw : List Bytes) : Nat :=
  match raw with
  | [_, d] => match parseU64 d with
    | some n => if n < 16 then n else cur
    | none => cur
  | _ => cur

/-- one command arriving at `process_normal_command` from a client connection -/
def execRaw (q : Quirks) (c : Conn) (now : Nat) (obs : Option (List Bytes)) (raw : List Bytes) : Conn :=
  if nameOf raw = "SELECT" then { c with cur := selTarget c.cur raw }
  else match unwrap raw with
    | some inner => { c with store := (KS.step q c.store c.cur now inner obs).1 }
    | none => { c with store := (KS.step q c.store c.cur now raw obs).1 }

/-- a restart that brings the dataset back (e.g. from a snapshot taken right before): the connection is a new one -/
def Conn.restarted (c : Conn) : Conn := { c with cur := 0 }

/-- One thing that happened on the server, in execution order. -/
inductive Ev where
  /-- a command of the observed connection that is executed: sent directly (`viaExec = false`) or executed by EXEC
      (`viaExec = true`).  Both reach `process_normal_command` (EXEC through `process_command_parts`), with one exception:
      EXEC runs a queued SELECT through `handle_select` directly, so it changes the connection's database like a
      direct SELECT but can never be appended — which coincides with the table rule as long as SELECT is not in the
      table (`Cfg.wf`).  The flag is informational.  `EVAL <wrapper> 0 inner…` is the script path. -/
  | cmd (viaExec : Bool) (now : Nat) (obs : Option (List Bytes)) (raw : List Bytes)
  /-- the pop (`storage.lpop/rpop(db, key)`) performed on behalf of a BLPOP/BRPOP client: by `wake_client` when a blocked
      client is served, or at once by `handle_blpop`/`handle_brpop` on a non-empty list (the BLPOP command itself, which
      is not in the table, is a separate `cmd` event without effect) -/
  | wake (db : Nat) (now : Nat) (left : Bool) (key : Bytes)
  /-- TIME PASSES: the server removes `key` from database `db` because its time to live has elapsed — lazily, when a
      command is about to look at it (`StorageEngine::get_shard`), or by the sweeper thread.  No client sent anything;
      the dataset changes all the same. -/
  | expire (db : Nat) (now : Nat) (key : Bytes)
  deriving Repr, DecidableEq

def execEv (q : Quirks) (c : Conn) : Ev → Conn
  | .cmd _ now obs raw => execRaw q c now obs raw
  | .wake db now left key => { c with store := (KS.step q c.store db now (popCmd left key) none).1 }
  | .expire db _ key => { c with store := setDb c.store db (erase (getDb c.store db) key) }

/-- the live server after a history -/
def liveFrom (q : Quirks) (c : Conn) (h : List Ev) : Conn := h.foldl (execEv q) c
def live (q : Quirks) (h : List Ev) : Conn := liveFrom q {} h

/-! ### The log -/

structure Cfg where
  /-- the names whose commands are appended -/
  writes : List String
  /-- a `SELECT n` is emitted before an entry whenever the entry's database is not the one a reader of the log has
      selected at that point (what Redis does; the code never does) -/
  logSelect : Bool
  /-- the pop made for a BLPOP/BRPOP client is appended as `LPOP key` / `RPOP key` -/
  logWake : Bool
  /-- a write whose text does not replay to the same outcome is appended, once its outcome is known, by its effect:
      `SPOP key [count]` that took `m…` as `SREM key m…` (nothing if it took nothing), `XADD key * f v…` that was
      assigned `id` as `XADD key id f v…` (nothing if refused) — instead of verbatim before the dispatch -/
  byEffect : Bool := false
  /-- the removal of a key whose time to live elapsed is appended as `DEL key` (ahead of the entries of the command
      that was about to look at it) -/
  logExpiry : Bool := false
  deriving Repr, DecidableEq

/-- the code as it is, with write table `w` (= `Gen.writeCommands`) -/
def Cfg.code (w : List String) : Cfg := { writes := w, logSelect := false, logWake := false }
/-- the tree as the translator sees it: write table, "is a SELECT emitted on a database change?", "does the pop made
    for a blocking client get logged?" (`Cfg.tree w false false = Cfg.code w`) -/
def Cfg.tree (w : List String) (sel wake : Bool) : Cfg := { writes := w, logSelect := sel, logWake := wake }
/-- … plus "are random / clock outcomes logged by their effect?" -/
def Cfg.treeE (w : List String) (sel wake eff : Bool) : Cfg := { writes := w, logSelect := sel, logWake := wake, byEffect := eff }
/-- … plus "is the removal of an expired key logged as a DEL?" -/
def Cfg.treeX (w : List String) (sel wake eff exp : Bool) : Cfg :=
  { writes := w, logSelect := sel, logWake := wake, byEffect := eff, logExpiry := exp }
/-- what the property prescribes, with write table `w` -/
def Cfg.fixed (w : List String) : Cfg := { writes := w, logSelect := true, logWake := true, byEffect := true, logExpiry := true }

def isWrite (w : List String) (name : String) : Bool := w.contains name

structure LogSt where
  /-- database selected on the observed connection -/
  conn : Nat := 0
  /-- database a reader of the entries so far has selected -/
  file : Nat := 0
  deriving Repr, DecidableEq

/-- "no database": what the engine's `last_db` is (`None`) when it inherits a non-empty file from an earlier run — it does
    not know where a reader of that file stands, so the first entry of the new run is preceded by a `SELECT` whatever
    its database (every database is `< 16`, hence `≠ unknownDb`) -/
def unknownDb : Nat := 16

/-- after a restart in the same directory: every client connects anew (database 0), the engine knows nothing of the file -/
def LogSt.restarted : LogSt := { conn := 0, file := unknownDb }

/-- the `SELECT` to emit before an entry that must run in database `d` -/
def selFor (cfg : Cfg) (st : LogSt) (d : Nat) : List (List Bytes) :=
  if cfg.logSelect ∧ st.file ≠ d then [selectCmd d] else []

def fileAfter (cfg : Cfg) (st : LogSt) (d : Nat) : Nat := if cfg.logSelect then d else st.file

/-- The entry written for a command of the table (`obs` = what it drew: the members a SPOP took, the id an `XADD *` was
    assigned; `none`/empty = nothing, e.g. refused).  Verbatim — before the dispatch, whatever the outcome will be —
    unless `eff` and the command is one of the two logged by their effect. -/
def entryOf (eff : Bool) (raw : List Bytes) (obs : Option (List Bytes)) : Option (List Bytes) :=
  if eff ∧ nameOf raw = "SPOP" then
    match raw, obs with
    | _ :: key :: _, some (m :: ms) => some ([83, 82, 69, 77] :: key :: m :: ms)
    | _, _ => none
  else if eff ∧ nameOf raw = "XADD" ∧ raw[2]? = some [42] then
    match raw, obs with
    | n :: key :: _ :: rest, some [id] => some (n :: key :: id :: rest)
    | _, _ => none
  else some raw

/-- entries appended by one event, and the tracking state afterwards -/
def logEv (cfg : Cfg) (st : LogSt) : Ev → List (List Bytes) × LogSt
  | .cmd _ _ obs raw =>
    let name := nameOf raw
    let conn' := if name = "SELECT" then selTarget st.conn raw else st.conn
    if isWrite cfg.writes name then
      match entryOf cfg.byEffect raw obs with
      | some e =>
        let file1 := fileAfter cfg st st.conn
        (selFor cfg st st.conn ++ [e],
         { conn := conn', file := if name = "SELECT" then selTarget file1 raw else file1 })
      | none => ([], { st with conn := conn' })
    else ([], { st with conn := conn' })
  | .wake db _ left key =>
    if cfg.logWake then (selFor cfg st db ++ [popCmd left key], { st with file := fileAfter cfg st db })
    else ([], st)
  | .expire db _ key =>
    if cfg.logExpiry then (selFor cfg st db ++ [delCmd key], { st with file := fileAfter cfg st db })
    else ([], st)

def logFrom (cfg : Cfg) (st : LogSt) : List Ev → List (List Bytes)
  | [] => []
  | ev :: h => (logEv cfg st ev).1 ++ logFrom cfg (logEv cfg st ev).2 h

/-- the commands in the file after history `h` -/
def log (cfg : Cfg) (h : List Ev) : List (List Bytes) := logFrom cfg {} h

namespace Code

/-- `AofEngine::append_command_in_db(db, command)` (`sel = true`: a `SELECT db` entry first whenever the previous entry
    ran in another database; `last` is the engine's `last_db`) / plain `append_command(command)` (`sel = false`) -/
def appendInDb (sel : Bool) (last : Nat) (file : Bytes) (db : Nat) (cmd : List Bytes) : Bytes × Nat :=
  if sel ∧ last ≠ db then (file ++ (serCmd (selectCmd db) ++ serCmd cmd), db)
  else (file ++ serCmd cmd, if sel then db else last)

/-- the file, the connection's `db_index`, the engine's `last_db` -/
structure FileSt where
  file : Bytes := []
  conn : Nat := 0
  last : Nat := 0
  deriving Repr, DecidableEq

/-- What one event appends.  `process_normal_command`, the block before the dispatch:
    `if is_write_command(name) { aof.append_command_in_db(db, parts) }` — whatever the outcome will be;
    `log_blocking_pop` (`wake = true`): the pop made for a BLPOP/BRPOP client, as `LPOP key` / `RPOP key`. -/
def fileStep (w : List String) (sel wake eff exp : Bool) (s : FileSt) : Ev → FileSt
  | .cmd _ _ obs raw =>
    let conn' := if nameOf raw = "SELECT" then selTarget s.conn raw else s.conn
    if isWrite w (nameOf raw) then
      -- `is_logged_by_effect` / `effect_entry`: SPOP and `XADD *` are appended after the dispatch, from the reply
      match entryOf eff raw obs with
      | some e => { file := (appendInDb sel s.last s.file s.conn e).1, conn := conn', last := (appendInDb sel s.last s.file s.conn e).2 }
      | none => { s with conn := conn' }
    else { s with conn := conn' }
  | .wake db _ left key =>
    if wake then
      { s with file := (appendInDb sel s.last s.file db (popCmd left key)).1, last := (appendInDb sel s.last s.file db (popCmd left key)).2 }
    else s
  | .expire db _ key =>
    -- `log_expired_keys`: `DEL key` for every key the storage engine reports as removed by expiry
    if exp then
      { s with file := (appendInDb sel s.last s.file db (delCmd key)).1, last := (appendInDb sel s.last s.file db (delCmd key)).2 }
    else s

/-- the state of the file after a history -/
def fileAfter (w : List String) (sel wake eff exp : Bool) (s : FileSt) (h : List Ev) : FileSt := h.foldl (fileStep w sel wake eff exp) s

end Code

/-! ### Replay: the entries of the file, in order, on a fresh connection of an empty server -/

/-- an entry being replayed: when it runs and (for commands with a random outcome) what the replaying server draws -/
structure REntry where
  now : Nat
  obs : Option (List Bytes)
  cmd : List Bytes
  deriving Repr, DecidableEq

def replayFrom (q : Quirks) (c : Conn) (es : List REntry) : Conn :=
  es.foldl (fun c e => execRaw q c e.now e.obs e.cmd) c

def replay (q : Quirks) (es : List REntry) : Conn := replayFrom q {} es

/-- replay with every entry at the same instant and no random draws -/
def replayAt (q : Quirks) (t : Nat) (cs : List (List Bytes)) : Conn :=
  replay q (cs.map fun c => { now := t, obs := none, cmd := c })

/-! ### The catalogue -/

namespace Spec

/-- The commands of the key-space machine that can change the dataset.  Trust in this hand-written list comes from
    two theorems: a command NOT in the list never changes the database it runs on (`Proofs/AofReadOnly`), and every
    command in the list changes some database (`writeNames_all_mutate`, by the witnesses below). -/
def writeNames : List String :=
  ["SET", "MSET", "GETSET", "SETNX", "SETEX", "PSETEX", "APPEND", "SETRANGE", "INCR", "DECR", "INCRBY", "DECRBY",
   "DEL", "RENAME", "RENAMENX", "FLUSHDB", "FLUSHALL", "EXPIRE", "PEXPIRE", "PERSIST",
   "LPUSH", "RPUSH", "LPOP", "RPOP", "LSET", "LTRIM", "LREM",
   "SADD", "SREM", "SPOP", "HSET", "HMSET", "HDEL", "HINCRBY", "ZADD", "XADD"]

/-- write commands whose effect depends on a random draw of the executing server -/
def randomWrites : List String := ["SPOP"]

/-- Dispatched commands outside the key-space machine that change the dataset (by reading the handlers; the
    correspondence run validates the classification: a mutation by a name not listed here shows up as live ≠ replay). -/
def outsideWrites : List String :=
  ["BLPOP", "BRPOP", "ZREM", "ZINCRBY", "ZPOPMIN", "ZPOPMAX", "XTRIM", "XDEL", "XGROUP", "XREADGROUP", "XACK", "XCLAIM",
   "EVAL", "EVALSHA"]

/-- Dispatched commands outside the key-space machine that do not change the dataset. -/
def outsideReads : List String :=
  ["VERIF", "PING", "ECHO", "SELECT", "SLEEP", "CONFIG", "ZSCORE", "ZCARD", "ZRANK", "ZREVRANK", "ZRANGE", "ZREVRANGE",
   "ZRANGEBYSCORE", "ZREVRANGEBYSCORE", "ZCOUNT", "XRANGE", "XREVRANGE", "XLEN", "XREAD", "XPENDING", "XINFO",
   "SAVE", "BGSAVE", "LASTSAVE", "SCAN", "HSCAN", "SSCAN", "ZSCAN", "BGREWRITEAOF", "INFO", "SLOWLOG", "MEMORY",
   "CLIENT", "AUTH", "REPLICAOF", "SLAVEOF", "SYNC", "PSYNC", "QUIT", "COMMAND", "SHUTDOWN", "SCRIPT",
   -- connection / transaction / pub-sub state, wherever the tree dispatches them
   "PUBLISH", "SUBSCRIBE", "UNSUBSCRIBE", "PSUBSCRIBE", "PUNSUBSCRIBE", "MONITOR", "REPLCONF",
   "MULTI", "EXEC", "DISCARD", "WATCH", "UNWATCH"]

/-- Mutating commands of the key-space machine that the table does not contain: none (GETSET, PEXPIRE, HMSET were
    missing until `fix: is_write_command lacked …`). -/
def notLogged : List String := []
/-- Mutating commands outside the machine that are not in the table BY DESIGN: a BLPOP/BRPOP may block, so it cannot be
    replayed verbatim; the pop it performs is logged by its effect, as `LPOP key` / `RPOP key` (`Ev.wake`, `Cfg.logWake`). -/
def notLoggedOutside : List String := ["BLPOP", "BRPOP"]

/-- for every name of `writeNames`: a database and arguments on which the command changes the database -/
def mutWitness : List (String × Db × List Bytes) :=
  let k : Bytes := [107]
  let v : Bytes := [118]
  let s : Db := [(k, ⟨.str [53], none⟩)]
  let sT : Db := [(k, ⟨.str [53], some 99999⟩)]
  let l : Db := [(k, ⟨.list [[97], [98]], none⟩)]
  let st : Db := [(k, ⟨.set [[97], [98]], none⟩)]
  let hh : Db := [(k, ⟨.hash [([102], [49])], none⟩)]
  [("SET", [], [k, v]), ("MSET", [], [k, v]), ("GETSET", [], [k, v]), ("SETNX", [], [k, v]),
   ("SETEX", [], [k, [49, 48, 48], v]), ("PSETEX", [], [k, [49, 48, 48], v]), ("APPEND", [], [k, v]),
   ("SETRANGE", [], [k, [48], v]), ("INCR", [], [k]), ("DECR", [], [k]), ("INCRBY", [], [k, [50]]),
   ("DECRBY", [], [k, [50]]), ("DEL", s, [k]), ("RENAME", s, [k, v]), ("RENAMENX", s, [k, v]), ("FLUSHDB", s, []),
   ("EXPIRE", s, [k, [49, 48, 48]]), ("PEXPIRE", s, [k, [49, 48, 48]]), ("PERSIST", sT, [k]),
   ("LPUSH", [], [k, v]), ("RPUSH", [], [k, v]), ("LPOP", l, [k]), ("RPOP", l, [k]), ("LSET", l, [k, [48], v]),
   ("LTRIM", l, [k, [48], [48]]), ("LREM", l, [k, [48], [97]]),
   ("SADD", [], [k, v]), ("SREM", st, [k, [97]]), ("SPOP", st, [k]), ("HSET", [], [k, [102], v]),
   ("HMSET", [], [k, [102], v]), ("HDEL", hh, [k, [102]]), ("HINCRBY", [], [k, [102], [50]]),
   ("ZADD", [], [k, [49], v]), ("XADD", [], [k, [49, 45, 49], [102], v])]

end Spec

/-! ### Decidable side conditions of the partial theorem -/

/-- The event is inside the model: a command of the key-space machine, SELECT, or the wrapper script around one
    (other scripts, EVALSHA, sorted-set/stream/blocking commands are covered by the correspondence run only;
    `XADD key * …` — an id drawn from the clock — is outside as well: the machine knows explicit ids only). -/
def inModel : Ev → Bool
  | .cmd _ _ _ raw =>
    nameOf raw = "SELECT" ∨ (KS.cmdNames.contains (effName raw) ∧ ¬ (effName raw = "XADD" ∧ (effCmd raw)[2]? = some [42]))
  | .wake db _ _ _ => db < 16
  | .expire db _ _ => db < 16

/-- The event is one the log `cfg` represents faithfully:
    * a command that can change the dataset is in the table (for the script path: EVAL is);
    * it is not a write with a random outcome logged verbatim (the replaying server draws again): either it is not
      SPOP, or SPOP itself (not inside a script) is logged by its effect;
    * whenever an entry is written, the reader of the log is in the database the command ran in
      (always true with SELECT tracking; without it, the connection must be in the database the reader is in);
    * a pop served to a blocked client is logged;
    * the removal of an expired key is logged. -/
def covered (cfg : Cfg) (st : LogSt) : Ev → Bool
  | .cmd _ _ _ raw =>
    nameOf raw = "SELECT" ∨
      ((Spec.writeNames.contains (effName raw) → isWrite cfg.writes (nameOf raw)) ∧
       (¬ Spec.randomWrites.contains (effName raw) ∨ (cfg.byEffect ∧ nameOf raw = "SPOP")) ∧
       (isWrite cfg.writes (nameOf raw) → cfg.logSelect ∨ st.conn = st.file))
  | .wake db _ _ _ => cfg.logWake ∧ (cfg.logSelect ∨ db = st.file)
  | .expire db _ _ => cfg.logExpiry ∧ (cfg.logSelect ∨ db = st.file)

def coveredFrom (cfg : Cfg) (st : LogSt) : List Ev → Bool
  | [] => true
  | ev :: h => covered cfg st ev && coveredFrom cfg (logEv cfg st ev).2 h

/-- every event of the history is represented faithfully by the log `cfg` -/
def coveredAll (cfg : Cfg) (h : List Ev) : Bool := coveredFrom cfg {} h

/-- the table is usable: SELECT is connection state, never an entry of its own -/
def Cfg.wf (cfg : Cfg) : Bool := !cfg.writes.contains "SELECT"

/-- no deadline has passed when a command runs (`purge` finds nothing to drop in the database it runs on):
    the model then speaks about TTL *presence* only, never about remaining time -/
def quietStep (c : Conn) (db now : Nat) : Bool := decide (purge now (getDb c.store db) = getDb c.store db)

def isErrReply : Frame → Bool
  | .error _ => true
  | _ => false

/-- The draw reported for a SPOP is what the command really took: members are reported only by a SPOP that answered
    without an error (in particular not by one whose reported draw the machine rejects as impossible). -/
def drawOk (q : Quirks) (c : Conn) : Ev → Bool
  | .cmd _ now obs raw =>
    nameOf raw = "SPOP" → obs.getD [] ≠ [] → isErrReply (KS.step q c.store c.cur now raw obs).2 = false
  | .wake _ _ _ _ => true
  | .expire _ _ _ => true

def drawsOk (q : Quirks) (c : Conn) : List Ev → Bool
  | [] => true
  | ev :: h => drawOk q c ev && drawsOk q (execEv q c ev) h

def evDb (c : Conn) : Ev → Nat
  | .cmd _ _ _ _ => c.cur
  | .wake db _ _ _ => db
  | .expire db _ _ => db

def evNow : Ev → Nat
  | .cmd _ now _ _ => now
  | .wake _ now _ _ => now
  | .expire _ now _ => now

/-- a command (or a pop made for a blocking client) finds no dead entry left in its database: whatever deadline has
    passed by then, the key was removed — an `expire` event — before.  (An `expire` event itself asks for nothing.) -/
def quietEv (c : Conn) : Ev → Bool
  | .expire _ _ _ => true
  | ev => quietStep c (evDb c ev) (evNow ev)

def quietLive (q : Quirks) (c : Conn) : List Ev → Bool
  | [] => true
  | ev :: h => quietEv c ev && quietLive q (execEv q c ev) h

def quietReplay (q : Quirks) (c : Conn) : List REntry → Bool
  | [] => true
  | e :: es => quietStep c c.cur e.now && quietReplay q (execRaw q c e.now e.obs e.cmd) es

end Ferrous.Aof
