/-
  Consumer groups (C16) — import-free model.

  `Code.*`  : transliteration of /repo/src/storage/consumer_groups.rs (ConsumerGroup, PendingEntryList)
              and of the group entry points of /repo/src/storage/stream.rs (create_consumer_group,
              read_group, acknowledge_messages, claim_messages, auto_claim_messages), quirks included.
              ALL representations the Rust keeps are kept: `entries_by_id` (BTreeMap → list sorted by id),
              `entries_by_consumer` (HashMap → association list), `consumers[..].pending_count`,
              `total_pending`, `min_pending_id` / `max_pending_id`, `last_delivered_id`.
  `Spec.*`  : what property C16 prescribes: a cursor and a finite map Id → owner.

  Hash maps are association lists (`alGet/alSet/alErase`); their iteration order is never observable
  (the drivers sort by name).  Idle times are not modelled: the only time-dependent decision, the
  XCLAIM idle test `idle_ms < min_idle_ms`, is the Boolean input `elig` (true for min-idle 0 or FORCE,
  false for a huge min-idle).
-/
namespace Ferrous.Grp

abbrev Id := Nat × Nat
abbrev Name := Nat

/-- Order of `StreamId` (packed u128 = lexicographic on (millis, seq)). -/
def idLt (a b : Id) : Bool := decide (a.1 < b.1 ∨ (a.1 = b.1 ∧ a.2 < b.2))
def idLe (a b : Id) : Bool := !idLt b a

/-! ### association lists (HashMap<String, _>) -/

def alGet {β : Type} (k : Name) : List (Name × β) → Option β
  | [] => none
  | p :: t => if p.1 = k then some p.2 else alGet k t

/-- replace the value in place, or append a new pair -/
def alSet {β : Type} (k : Name) (v : β) : List (Name × β) → List (Name × β)
  | [] => [(k, v)]
  | p :: t => if p.1 = k then (k, v) :: t else p :: alSet k v t

def alErase {β : Type} (k : Name) (l : List (Name × β)) : List (Name × β) :=
  l.filter (fun p => p.1 != k)

def keys {β : Type} (l : List (Name × β)) : List Name := l.map (·.1)

/-! ### the pending entries list -/

structure PEntry where
  id : Id
  owner : Name
  count : Nat
deriving DecidableEq, Repr

def pelFind (id : Id) (l : List PEntry) : Option PEntry := l.find? (fun e => e.id == id)

/-- `BTreeMap::insert`: sorted insert, replacing an entry with the same id. -/
def pelInsert (e : PEntry) : List PEntry → List PEntry
  | [] => [e]
  | x :: xs =>
    if idLt e.id x.id then e :: x :: xs
    else if e.id = x.id then e :: xs
    else x :: pelInsert e xs

def pelRemove (id : Id) (l : List PEntry) : List PEntry := l.filter (fun e => e.id != id)

def pelSetOwner (id : Id) (c : Name) (l : List PEntry) : List PEntry :=
  l.map (fun e => if e.id = id then { e with owner := c, count := e.count + 1 } else e)

def pelIds (l : List PEntry) : List Id := l.map (·.id)

/-- `entries_by_consumer.entry(c).or_insert_with(Vec::new).push(id)` -/
def bcPush (c : Name) (id : Id) (bc : List (Name × List Id)) : List (Name × List Id) :=
  match alGet c bc with
  | some l => alSet c (l ++ [id]) bc
  | none => alSet c [id] bc

/-- `retain(|x| x != id)` on the consumer's vector; the vector is dropped when it becomes empty -/
def bcRemoveId (c : Name) (id : Id) (bc : List (Name × List Id)) : List (Name × List Id) :=
  match alGet c bc with
  | some l =>
    if (l.filter (fun x => x != id)).isEmpty then alErase c bc
    else alSet c (l.filter (fun x => x != id)) bc
  | none => bc

def consCreate (c : Name) (cs : List (Name × Nat)) : List (Name × Nat) :=
  match alGet c cs with
  | some _ => cs
  | none => alSet c 0 cs

def consAdjust (c : Name) (f : Nat → Nat) (cs : List (Name × Nat)) : List (Name × Nat) :=
  match alGet c cs with
  | some n => alSet c (f n) cs
  | none => cs

/-- Everything `ConsumerGroup` + `PendingEntryList` keep about pending entries. -/
structure Group where
  lastDelivered : Id
  byId : List PEntry
  byConsumer : List (Name × List Id)
  consumers : List (Name × Nat)
  totalPending : Nat
  minPending : Option Id
  maxPending : Option Id
  /-- ghost: `entries_by_id` has had an entry inserted at some time (the BTreeMap then keeps a root node
      even when emptied; `BTreeMap::range` validates its bounds only when there is a root) -/
  rooted : Bool
deriving DecidableEq, Repr

/-- Which of the proposed repairs are present in the tree (`true` = prescribed behaviour). -/
structure Quirks where
  /-- `ConsumerGroup::new` initialises the cursor from the start id (pinned tree: always 0-0) -/
  startFix : Bool
  /-- a NOACK read advances `last_delivered_id` (pinned tree: it does not) -/
  noackFix : Bool
  /-- `get_pending_range` with start > end returns nothing (pinned tree: `BTreeMap::range` panics
      once the map has ever held an entry) -/
  rangeFix : Bool
  /-- XREADGROUP with an explicit id reads the consumer's own pending history and changes nothing
      (pinned tree: it re-reads the stream and re-adds the entries to the PEL) -/
  histFix : Bool
  /-- `add_pending` of an id that is already pending moves it to the reader exactly as XCLAIM does and counts it once
      (pinned tree: the owner is overwritten in `entries_by_id`, the id stays in the old owner's vector, both
      counters grow) -/
  redeliverFix : Bool
  /-- `get_pending_range` with a consumer filter walks the requested range of `entries_by_id` and keeps the
      consumer's rows (pinned tree: it walks the consumer's vector and ignores the range) -/
  filterFix : Bool
  /-- a multi-stream XREADGROUP validates every (stream, group, id) before delivering anything (pinned tree: the
      streams named before the failing one have already been delivered when the error is returned) -/
  multiFix : Bool
  /-- group / consumer names that are not valid UTF-8 are refused (pinned tree: `String::from_utf8_lossy` makes
      distinct binary names the same name) -/
  nameFix : Bool
  /-- an explicit id equal to `StreamId::max()` is not `>` (pinned tree: it is the internal marker of `>`) -/
  maxIdFix : Bool
  /-- XCLAIM FORCE as in Redis: the idle test applies to every pending entry with or without FORCE, and FORCE creates
      the missing pending row of an id that exists in the stream (pinned tree: FORCE switches the idle test off and
      creates nothing) -/
  forceFix : Bool
  /-- XREADGROUP COUNT 0 is "no limit" (pinned tree: it delivers nothing) -/
  countZeroFix : Bool
  /-- XGROUP CREATE parses the start id before it creates the stream (pinned tree: a refused
      `CREATE key g <bad id> MKSTREAM` leaves the new key behind) -/
  createParseFix : Bool
  /-- the extended XPENDING parses its bounds (`-`/`+` in either position, incomplete ids, `(`; anything else an
      error); pinned tree: every bound it cannot parse is "unbounded" -/
  boundFix : Bool
deriving DecidableEq, Repr

def Quirks.pinned : Quirks := ⟨false, false, false, false, false, false, false, false, false, false, false, false, false⟩
def Quirks.fixed : Quirks := ⟨true, true, true, true, true, true, true, true, true, true, true, true, true⟩

inductive Reply
  | ok | busy | nogroup | err | panic | refused
  | num (n : Nat)
  | ids (l : List Id)
  | next (n : Id) (l : List Id)
  | summary (n : Nat) (mn mx : Option Id) (cons : List (Name × Nat))
  | entries (l : List (Id × Name × Nat))
deriving DecidableEq, Repr

/-- Operations on one existing group. -/
inductive GOp
  | setid (id : Id)
  | createc (c : Name)
  | delc (c : Name)
  /-- `from = none` is `>` -/
  | read (c : Name) (frm : Option Id) (count : Option Nat) (noack : Bool)
  | ack (ids : List Id)
  | claim (c : Name) (elig : Bool) (ids : List Id)
  | autoclaim (c : Name) (elig : Bool) (start : Id) (count : Nat)
  | pending
  | prange (s e : Option Id) (count : Nat) (c : Option Name)
deriving DecidableEq, Repr

/-- `StreamData::range_after` on the sorted id list (the binary search of the code is C15's subject;
    on a strictly sorted vector it selects exactly the ids greater than `after`). -/
def rangeAfter (stream : List Id) (after : Id) (count : Option Nat) : List Id :=
  match count with
  | none => stream.filter (fun x => idLt after x)
  | some n => (stream.filter (fun x => idLt after x)).take n

/-- `s ≤ i ≤ e`, a missing bound being no bound (`-` / `+`) -/
def inRange (s e : Option Id) (i : Id) : Bool :=
  (match s with | some lo => idLe lo i | none => true) && (match e with | some hi => idLe i hi | none => true)

namespace Code

def newGroup (q : Quirks) (start : Id) : Group :=
  { lastDelivered := if q.startFix then start else (0, 0),
    byId := [], byConsumer := [], consumers := [], totalPending := 0, minPending := none, maxPending := none,
    rooted := false }

/-- `PendingEntryList::update_bounds` -/
def updateBounds (g : Group) : Group :=
  { g with minPending := g.byId.head?.map (·.id), maxPending := g.byId.getLast?.map (·.id) }

/-- `PendingEntryList::add_entry` -/
def addEntry (c : Name) (g : Group) (id : Id) : Group :=
  updateBounds { g with byId := pelInsert ⟨id, c, 1⟩ g.byId, byConsumer := bcPush c id g.byConsumer, rooted := true }

/-- `ConsumerGroup::create_consumer` (state part) -/
def createConsumer (g : Group) (c : Name) : Group := { g with consumers := consCreate c g.consumers }

/-- `ConsumerGroup::add_pending` -/
def addPending (g : Group) (c : Name) (ids : List Id) : Group :=
  let g2 := ids.foldl (addEntry c) (createConsumer g c)
  let g3 := { g2 with consumers := consAdjust c (· + ids.length) g2.consumers,
                      totalPending := g2.totalPending + ids.length }
  match ids.getLast? with
  | some l => if idLt g3.lastDelivered l then { g3 with lastDelivered := l } else g3
  | none => g3

/-- one iteration of the loop of `ConsumerGroup::acknowledge` (`PendingEntryList::remove_entry` inlined) -/
def ackOne (g : Group) (id : Id) : Group × Bool :=
  match pelFind id g.byId with
  | some e =>
    (updateBounds { g with byId := pelRemove id g.byId,
                           byConsumer := bcRemoveId e.owner id g.byConsumer,
                           consumers := consAdjust e.owner (· - 1) g.consumers }, true)
  | none => (g, false)

def ackLoop : Group → List Id → Nat → Group × Nat
  | g, [], n => (g, n)
  | g, id :: ids, n => ackLoop (ackOne g id).1 ids (if (ackOne g id).2 then n + 1 else n)

/-- `ConsumerGroup::acknowledge` -/
def acknowledge (g : Group) (ids : List Id) : Group × Nat :=
  let r := ackLoop g ids 0
  ({ r.1 with totalPending := r.1.totalPending - r.2 }, r.2)

/-- `PendingEntryList::transfer_ownership` -/
def transfer (g : Group) (id : Id) (c : Name) : Group :=
  match pelFind id g.byId with
  | some e => { g with byConsumer := bcPush c id (bcRemoveId e.owner id g.byConsumer),
                       byId := pelSetOwner id c g.byId }
  | none => g

/-- one iteration of the loop of `ConsumerGroup::claim_messages` -/
def claimOne (c : Name) (elig : Bool) (g : Group) (id : Id) : Group × Bool :=
  match pelFind id g.byId with
  | some e =>
    if elig then
      (transfer { g with consumers := consAdjust c (· + 1) (consAdjust e.owner (· - 1) g.consumers) } id c, true)
    else (g, false)
  | none => (g, false)

/-- one iteration of the loop of the repaired `add_pending`: an id that is already pending changes hands exactly as
    in `claim_messages` (`claimOne`), a new id is inserted and counted at once; the second component counts the new ids -/
def deliverOneFixed (c : Name) (s : Group × Nat) (id : Id) : Group × Nat :=
  match pelFind id s.1.byId with
  | some _ => ((claimOne c true s.1 id).1, s.2)
  | none => ({ addEntry c s.1 id with consumers := consAdjust c (· + 1) s.1.consumers }, s.2 + 1)

/-- the repaired `ConsumerGroup::add_pending` -/
def addPendingFixed (g : Group) (c : Name) (ids : List Id) : Group :=
  let r := ids.foldl (deliverOneFixed c) (createConsumer g c, 0)
  let g3 := { r.1 with totalPending := r.1.totalPending + r.2 }
  match ids.getLast? with
  | some l => if idLt g3.lastDelivered l then { g3 with lastDelivered := l } else g3
  | none => g3

/-- `add_pending` of the tree described by `q` -/
def addPendingQ (q : Quirks) (g : Group) (c : Name) (ids : List Id) : Group :=
  if q.redeliverFix then addPendingFixed g c ids else addPending g c ids

def claimLoop (c : Name) (elig : Bool) : Group → List Id → Group × List Id
  | g, [] => (g, [])
  | g, id :: ids =>
    let r := claimLoop c elig (claimOne c elig g id).1 ids
    (r.1, if (claimOne c elig g id).2 then id :: r.2 else r.2)

/-- `ConsumerGroup::claim_messages`: the claimer is created even when nothing is claimed -/
def claim (g : Group) (c : Name) (elig : Bool) (ids : List Id) : Group × List Id :=
  claimLoop c elig (createConsumer g c) ids

/-- one new pending row with its share of the counters: what XCLAIM FORCE creates for an id that is pending for nobody
    (`add_entry`, `pending_count += 1`, `total_pending += 1`) — also the unit step of a delivery -/
def addOne (c : Name) (g : Group) (id : Id) : Group :=
  { addEntry c g id with consumers := consAdjust c (· + 1) g.consumers, totalPending := g.totalPending + 1 }

/-! #### the idle test of XCLAIM made explicit

`PendingEntry::last_delivery` (set by every delivery and by every successful claim) is kept beside the group as a
map id → milliseconds; `now` is an input.  `claim_messages` skips an entry iff `!force && now - last_delivery < min_idle`
(`duration_since(..).unwrap_or_default()` saturates at 0, as `Nat` subtraction does).  The Boolean `elig` of `claimOne`
is this test; `claimT` threads the clock through the loop. -/

abbrev Times := List (Id × Nat)

def lastOf (ts : Times) (id : Id) : Nat := ((ts.find? (fun p => p.1 == id)).map (·.2)).getD 0
def setLast (ts : Times) (id : Id) (t : Nat) : Times := (id, t) :: ts.filter (fun p => p.1 != id)

def idleOk (now last minIdle : Nat) (force : Bool) : Bool := force || decide (minIdle ≤ now - last)

/-- one iteration of the loop of `claim_messages` with the real idle test.  A pending id changes hands iff the idle
    test passes — FORCE replaces the test only on the pinned tree; an id that is pending for nobody is, on the repaired
    tree and with FORCE, given a new row if the entry exists in the stream. -/
def claimStepT (q : Quirks) (c : Name) (now minIdle : Nat) (force : Bool) (stream : List Id) (s : Group × Times)
    (id : Id) : (Group × Times) × Bool :=
  match pelFind id s.1.byId with
  | some _ =>
    let r := claimOne c (idleOk now (lastOf s.2 id) minIdle (force && !q.forceFix)) s.1 id
    ((r.1, if r.2 then setLast s.2 id now else s.2), r.2)
  | none =>
    if q.forceFix && force && stream.contains id then ((addOne c s.1 id, setLast s.2 id now), true) else (s, false)

def claimLoopT (q : Quirks) (c : Name) (now minIdle : Nat) (force : Bool) (stream : List Id) :
    Group × Times → List Id → (Group × Times) × List Id
  | s, [] => (s, [])
  | s, id :: ids =>
    let r := claimStepT q c now minIdle force stream s id
    let rest := claimLoopT q c now minIdle force stream r.1 ids
    (rest.1, if r.2 then id :: rest.2 else rest.2)

/-- `Stream::claim_messages` / `ConsumerGroup::claim_messages` with the real idle test -/
def claimT (q : Quirks) (stream : List Id) (s : Group × Times) (c : Name) (now minIdle : Nat) (force : Bool)
    (ids : List Id) : (Group × Times) × List Id :=
  claimLoopT q c now minIdle force stream (createConsumer s.1 c, s.2) ids

/-- a delivery (`add_pending`) stamps every delivered id with `now` -/
def stamp (ts : Times) (ids : List Id) (now : Nat) : Times := ids.foldl (fun ts id => setLast ts id now) ts

/-- `PendingEntryList::remove_consumer_entries` -/
def removeConsumerEntries (g : Group) (c : Name) : Group × Nat :=
  match alGet c g.byConsumer with
  | some l =>
    (updateBounds { g with byConsumer := alErase c g.byConsumer,
                           byId := g.byId.filter (fun e => !l.contains e.id) }, l.length)
  | none => (g, 0)

/-- `ConsumerGroup::delete_consumer` -/
def deleteConsumer (g : Group) (c : Name) : Group × Nat :=
  match alGet c g.consumers with
  | some _ =>
    let r := removeConsumerEntries { g with consumers := alErase c g.consumers } c
    ({ r.1 with totalPending := r.1.totalPending - r.2 }, r.2)
  | none => (g, 0)

def setId (g : Group) (id : Id) : Group := { g with lastDelivered := id }

/-- `ConsumerGroup::get_pending_info` (consumer rows in map order; drivers sort them) -/
def pendingInfo (g : Group) : Reply :=
  .summary g.byId.length g.minPending g.maxPending (g.consumers.filter (fun p => p.2 > 0))

def showEntry (e : PEntry) : Id × Name × Nat := (e.id, e.owner, e.count)

/-- `PendingEntryList::get_range` + `take(count)`.  With a consumer filter the range is ignored and the
    consumer's vector is walked in insertion order. -/
def pendingRange (q : Quirks) (g : Group) (s e : Option Id) (count : Nat) (c : Option Name) : Reply :=
  match c with
  | some c =>
    if q.filterFix then
      if (match e with | some hi => idLt hi (s.getD (0, 0)) | none => false) then .entries []
      else .entries (((g.byId.filter (fun x => inRange s e x.id && x.owner == c)).take count).map showEntry)
    else
      match alGet c g.byConsumer with
      | some l => .entries (((l.filterMap (fun id => pelFind id g.byId)).take count).map showEntry)
      | none => .entries []
  | none =>
    let lo := s.getD (0, 0)
    let inRange := fun (x : PEntry) => idLe lo x.id && (match e with | some hi => idLe x.id hi | none => true)
    match e with
    | some hi =>
      -- `BTreeMap::range` checks the bounds only when the map has a root node
      if idLt hi lo then (if q.rangeFix || !g.rooted then .entries [] else .panic)
      else .entries (((g.byId.filter inRange).take count).map showEntry)
    | none => .entries (((g.byId.filter inRange).take count).map showEntry)

/-- The consumer's own pending ids greater than `after` (history read of the repaired tree). -/
def history (g : Group) (c : Name) (after : Id) (count : Option Nat) : List Id :=
  let l := (g.byId.filter (fun e => e.owner == c && idLt after e.id)).map (·.id)
  match count with
  | none => l
  | some n => l.take n

/-- `Stream::read_group` -/
def readGroup (q : Quirks) (stream : List Id) (g : Group) (c : Name) (frm : Option Id)
    (count : Option Nat) (noack : Bool) : Group × List Id :=
  match frm with
  | none =>
    let es := rangeAfter stream g.lastDelivered count
    if !noack && !es.isEmpty then (addPendingQ q g c es, es)
    else if q.noackFix then
      (match es.getLast? with
       | some l => if idLt g.lastDelivered l then ({ g with lastDelivered := l }, es) else (g, es)
       | none => (g, es))
    else (g, es)
  | some a =>
    if q.histFix then (g, (history g c a count).filter (fun x => stream.contains x))
    else
      let es := rangeAfter stream a count
      if !noack && !es.isEmpty then (addPendingQ q g c es, es) else (g, es)

/-- `ConsumerGroup::auto_claim` + the entry lookup of `Stream::auto_claim_messages` -/
def autoClaim (stream : List Id) (g : Group) (c : Name) (elig : Bool) (start : Id) (count : Nat) : Group × Reply :=
  let cand := if elig then ((g.byId.filter (fun e => idLt start e.id)).take count).map (·.id) else []
  let r := claim g c elig cand
  let nxt : Id := match r.2.getLast? with
    | some l => (l.1, (l.2 + 1) % 18446744073709551616)
    | none => (0, 0)
  (r.1, .next nxt (r.2.filter (fun x => stream.contains x)))

/-! #### handler-level behaviour around `read_group` (commands/consumer_groups.rs) -/

/-- `StreamId::max()`, which `handle_xreadgroup` passes to `read_group` for `>` -/
def maxId : Id := (18446744073709551615, 18446744073709551615)

/-- how the handler hands an explicit id to `read_group`: the id equal to the marker IS `>` on the pinned tree;
    the repaired handler returns the (empty) history after it -/
def explicitFrom (q : Quirks) (a : Id) : Option Id := if !q.maxIdFix && a = maxId then none else some a

/-- XREADGROUP over two streams, `>` on this one, whose SECOND stream fails (NOGROUP / wrong type / bad id): the
    reply is the error; the pinned handler has delivered this stream before it notices -/
def multiReadFailing (q : Quirks) (stream : List Id) (g : Group) (c : Name) (count : Option Nat) (noack : Bool) :
    Group × Reply :=
  if q.multiFix then (g, .refused) else ((readGroup q stream g c none count noack).1, .refused)

/-- the name the handlers store for a transported name: 100 / 101 stand for the distinct byte strings `g\xff` / `g\xfe`
    (`c\xff` / `c\xfe`), which `String::from_utf8_lossy` both turns into `g\u{FFFD}` — transported back as 199 -/
def lossyName (n : Name) : Name := if n = 100 ∨ n = 101 then 199 else n

def isBinaryName (n : Name) : Bool := n = 100 || n = 101

/-- how `handle_xreadgroup` hands COUNT to `read_group`: 0 is "no limit" for the repaired handler -/
def countFrom (q : Quirks) (n : Nat) : Option Nat := if q.countZeroFix && n = 0 then none else some n

/-- a bound of the extended XPENDING as the client writes it -/
inductive Bound
  | minus | plus
  | full (id : Id)
  /-- an incomplete id: milliseconds only -/
  | ms (n : Nat)
  /-- anything that is not a bound (`junk`, `7-`) -/
  | junk
deriving DecidableEq, Repr

def u64Max : Nat := 18446744073709551615

/-- the next / previous id in 64-bit arithmetic (`none`: there is none) -/
def idSucc (i : Id) : Option Id :=
  if i.2 < u64Max then some (i.1, i.2 + 1) else if i.1 < u64Max then some (i.1 + 1, 0) else none
def idPred (i : Id) : Option Id :=
  if 0 < i.2 then some (i.1, i.2 - 1) else if 0 < i.1 then some (i.1 - 1, u64Max) else none

/-- what the property prescribes for a bound (Redis): `-`/`+` are the smallest / greatest id in either position, an
    incomplete id is completed (`n-0` as a start, `n-MAX` as an end), `(` makes it exclusive; `none` = an error -/
def boundSpec (isStart : Bool) (excl : Bool) : Bound → Option Id
  | .junk => none
  | b =>
    let id : Id := match b with
      | .minus => (0, 0)
      | .plus => maxId
      | .full i => i
      | .ms n => (n, if isStart then 0 else u64Max)
      | .junk => (0, 0)
    if excl then (if isStart then idSucc id else idPred id) else some id

/-- what `handle_xpending` makes of a bound: `some none` = unbounded.  The pinned handler knows `-` as a start, `+` as
    an end and complete ids; everything else is silently "unbounded".  The repaired one is `boundSpec`. -/
def boundCode (q : Quirks) (isStart : Bool) (excl : Bool) (b : Bound) : Option (Option Id) :=
  if q.boundFix then (boundSpec isStart excl b).map some
  else match excl, b with
    | false, .full i => some (some i)
    | _, _ => some none

/-- `XGROUP CREATE key g <invalid id> MKSTREAM` on a key that does not exist: refused; does the key exist afterwards? -/
def refusedCreateLeavesKey (q : Quirks) (keyExisted : Bool) : Bool := keyExisted || !q.createParseFix

/-- One operation on an existing group, given the ids currently in the stream. -/
def gstep (q : Quirks) (stream : List Id) (g : Group) : GOp → Group × Reply
  | .setid id => (setId g id, .ok)
  | .createc c => (createConsumer g c, .num (if (alGet c g.consumers).isSome then 0 else 1))
  | .delc c => let r := deleteConsumer g c; (r.1, .num r.2)
  | .read c frm count noack => let r := readGroup q stream g c frm count noack; (r.1, .ids r.2)
  | .ack ids => let r := acknowledge g ids; (r.1, .num r.2)
  | .claim c elig ids =>
    let r := claim g c elig ids
    -- `Stream::claim_messages` returns the claimed entries that still exist in the stream
    (r.1, .ids (r.2.filter (fun x => stream.contains x)))
  | .autoclaim c elig start count => autoClaim stream g c elig start count
  | .pending => (g, pendingInfo g)
  | .prange s e count c => (g, pendingRange q g s e count c)

end Code

/-! ### What the property prescribes -/

namespace Spec

/-- cursor + finite map Id → owner (sorted by id, one row per id) -/
structure Group where
  cursor : Id
  pending : List (Id × Name)
deriving DecidableEq, Repr

def newGroup (start : Id) : Group := { cursor := start, pending := [] }

/-- `pending[id] := c` -/
def assign (c : Name) : List (Id × Name) → Id → List (Id × Name)
  | [], id => [(id, c)]
  | x :: xs, id =>
    if idLt id x.1 then (id, c) :: x :: xs
    else if id = x.1 then (id, c) :: xs
    else x :: assign c xs id

def owner (p : List (Id × Name)) (id : Id) : Option Name := (p.find? (fun x => x.1 == id)).map (·.2)

/-- XREADGROUP … `>`: the entries after the cursor, in order, at most `count`; the cursor moves to the
    last one; they become pending for `c` unless NOACK. -/
def readNew (stream : List Id) (g : Group) (c : Name) (count : Option Nat) (noack : Bool) : Group × List Id :=
  let es := rangeAfter stream g.cursor count
  ({ cursor := (es.getLast?).getD g.cursor,
     pending := if noack then g.pending else es.foldl (assign c) g.pending }, es)

/-- XREADGROUP with an explicit id: the consumer's own pending entries after it; nothing changes. -/
def readHist (g : Group) (c : Name) (after : Id) (count : Option Nat) : List Id :=
  let l := (g.pending.filter (fun x => x.2 == c && idLt after x.1)).map (·.1)
  match count with
  | none => l
  | some n => l.take n

/-- XACK: removes exactly the listed pending ids; counts each once. -/
def ack (g : Group) (ids : List Id) : Group × Nat :=
  ({ g with pending := g.pending.filter (fun x => !ids.contains x.1) },
   (g.pending.filter (fun x => ids.contains x.1)).length)

/-- XCLAIM: every listed pending id now belongs to `c`. -/
def claim (g : Group) (c : Name) (elig : Bool) (ids : List Id) : Group × List Id :=
  if elig then
    ({ g with pending := g.pending.map (fun x => if ids.contains x.1 then (x.1, c) else x) },
     ids.filter (fun i => (owner g.pending i).isSome))
  else (g, [])

/-- XCLAIM per id, as prescribed: a pending id changes owner iff it meets the idle threshold (FORCE does not replace the
    threshold); an id that is pending for nobody becomes pending for the claimer iff FORCE is given and the entry
    exists in the stream.  `idleMet` is the (here uniform) outcome of the idle test. -/
def claimStepF (stream : List Id) (c : Name) (idleMet force : Bool) (s : List (Id × Name) × List Id) (id : Id) :
    List (Id × Name) × List Id :=
  match owner s.1 id with
  | some _ => if idleMet then (assign c s.1 id, s.2 ++ [id]) else s
  | none => if force && stream.contains id then (assign c s.1 id, s.2 ++ [id]) else s

def claimF (stream : List Id) (g : Group) (c : Name) (idleMet force : Bool) (ids : List Id) : Group × List Id :=
  let r := ids.foldl (claimStepF stream c idleMet force) (g.pending, [])
  ({ g with pending := r.1 }, r.2)

def delConsumer (g : Group) (c : Name) : Group × Nat :=
  ({ g with pending := g.pending.filter (fun x => x.2 != c) }, (g.pending.filter (fun x => x.2 == c)).length)

def countOf (p : List (Id × Name)) (c : Name) : Nat := (p.filter (fun x => x.2 == c)).length

/-- XPENDING summary of the actual pending set; one row per owner (order of first appearance). -/
def pendingInfo (g : Group) : Reply :=
  .summary g.pending.length (g.pending.head?.map (·.1)) (g.pending.getLast?.map (·.1))
    ((g.pending.map (·.2)).eraseDups.map (fun c => (c, countOf g.pending c)))

/-- XPENDING with a range: pending rows with `s ≤ id ≤ e`, of consumer `c` if given, in id order.
    Delivery counts are not prescribed (reported as 0). -/
def pendingRange (g : Group) (s e : Option Id) (count : Nat) (c : Option Name) : Reply :=
  let ok := fun (x : Id × Name) => inRange s e x.1 && (match c with | some c => x.2 == c | none => true)
  .entries (((g.pending.filter ok).take count).map (fun x => (x.1, x.2, 0)))

/-- One operation; `none` as reply = the property does not prescribe the reply. -/
def gstep (stream : List Id) (g : Group) : GOp → Group × Option Reply
  | .setid id => ({ g with cursor := id }, some .ok)
  | .createc _ => (g, none)
  | .delc c => let r := delConsumer g c; (r.1, some (.num r.2))
  | .read c none count noack => let r := readNew stream g c count noack; (r.1, some (.ids r.2))
  | .read c (some a) count _ => (g, some (.ids ((readHist g c a count).filter (fun x => stream.contains x))))
  | .ack ids => let r := ack g ids; (r.1, some (.num r.2))
  | .claim c elig ids =>
    let r := claim g c elig ids
    (r.1, some (.ids (r.2.filter (fun x => stream.contains x))))
  | .autoclaim _ _ _ _ => (g, none)
  | .pending => (g, some (pendingInfo g))
  | .prange s e count c => (g, some (pendingRange g s e count c))

end Spec

/-- Abstraction: what a `Code.Group` says the pending set is. -/
def abs (g : Group) : Spec.Group :=
  { cursor := g.lastDelivered, pending := g.byId.map (fun e => (e.id, e.owner)) }

/-! ### representation agreement (decidable: every quantifier is bounded by a list) -/

/-- All representations of the pending state describe the same set:
    * `byId` is strictly sorted (one row per id);
    * one vector per consumer name, none empty, no id twice;
    * an id is in `c`'s vector iff `byId` says `c` owns it (so the vectors are a disjoint cover of the keys);
    * `pending_count c` is the length of `c`'s vector (0 when there is none), every vector has a consumer;
    * `min/max` are the first/last key.  -/
structure AgreeCore (g : Group) : Prop where
  sorted : g.byId.Pairwise (fun a b => idLt a.id b.id = true)
  bcKeys : (keys g.byConsumer).Nodup
  csKeys : (keys g.consumers).Nodup
  lists : ∀ p ∈ g.byConsumer, p.2 ≠ [] ∧ p.2.Nodup
  own₁ : ∀ e ∈ g.byId, ∃ p ∈ g.byConsumer, p.1 = e.owner ∧ e.id ∈ p.2
  own₂ : ∀ p ∈ g.byConsumer, ∀ id ∈ p.2, ∃ e ∈ g.byId, e.id = id ∧ e.owner = p.1
  cnt₁ : ∀ p ∈ g.byConsumer, ∃ r ∈ g.consumers, r.1 = p.1 ∧ r.2 = p.2.length
  cnt₂ : ∀ r ∈ g.consumers, r.2 = 0 ∨ ∃ p ∈ g.byConsumer, p.1 = r.1
  bmin : g.minPending = g.byId.head?.map (·.id)
  bmax : g.maxPending = g.byId.getLast?.map (·.id)

structure Agree (g : Group) : Prop extends AgreeCore g where
  total : g.totalPending = g.byId.length

/-- executable form of `Agree` for the driver, clause by clause (first failing clause is reported) -/
def agreeClauses (g : Group) : List (String × Bool) :=
  [ ("byId-sorted", decide (g.byId.Pairwise (fun a b => idLt a.id b.id = true))),
    ("byConsumer-keys-nodup", decide (keys g.byConsumer).Nodup),
    ("consumers-keys-nodup", decide (keys g.consumers).Nodup),
    ("vectors-nonempty-nodup", decide (∀ p ∈ g.byConsumer, p.2 ≠ [] ∧ p.2.Nodup)),
    ("owner-in-own-vector", decide (∀ e ∈ g.byId, ∃ p ∈ g.byConsumer, p.1 = e.owner ∧ e.id ∈ p.2)),
    ("vector-ids-owned", decide (∀ p ∈ g.byConsumer, ∀ id ∈ p.2, ∃ e ∈ g.byId, e.id = id ∧ e.owner = p.1)),
    ("pending_count=vector-length", decide (∀ p ∈ g.byConsumer, ∃ r ∈ g.consumers, r.1 = p.1 ∧ r.2 = p.2.length)),
    ("pending_count-zero-without-vector", decide (∀ r ∈ g.consumers, r.2 = 0 ∨ ∃ p ∈ g.byConsumer, p.1 = r.1)),
    ("min", decide (g.minPending = g.byId.head?.map (·.id))),
    ("max", decide (g.maxPending = g.byId.getLast?.map (·.id))),
    ("total_pending=|byId|", decide (g.totalPending = g.byId.length)) ]

def agreeB (g : Group) : Bool := (agreeClauses g).all (·.2)

/-! ### the server-side state the drivers keep: one stream, several groups -/

structure St where
  stream : List Id
  lastId : Id
  groups : List (Name × Group)
  /-- the key exists in the keyspace (created by the first XADD or by XGROUP CREATE … MKSTREAM) -/
  keyExists : Bool := false
deriving Repr

def St.empty : St := ⟨[], (0, 0), [], false⟩

/-- `StreamData::add_with_id` (ids only) -/
def St.add (s : St) (id : Id) : St × Reply :=
  if idLe id s.lastId then (s, .err) else ({ s with stream := s.stream ++ [id], lastId := id, keyExists := true }, .ok)

/-- `Stream::delete` -/
def St.del (s : St) (ids : List Id) : St × Reply :=
  ({ s with stream := s.stream.filter (fun x => !ids.contains x) },
   .num (s.stream.filter (fun x => ids.contains x)).length)

/-- `$` as the XGROUP handlers resolve it: id of the last entry present, else 0-0 -/
def St.dollar (s : St) : Id := s.stream.getLast?.getD (0, 0)

def St.create (q : Quirks) (s : St) (g : Name) (start : Id) : St × Reply :=
  match alGet g s.groups with
  | some _ => (s, .busy)
  | none => ({ s with groups := alSet g (Code.newGroup q start) s.groups, keyExists := true }, .ok)

def St.destroy (s : St) (g : Name) : St × Reply :=
  match alGet g s.groups with
  | some _ => ({ s with groups := alErase g s.groups }, .num 1)
  | none => (s, .num 0)

def St.gop (q : Quirks) (s : St) (g : Name) (op : GOp) : St × Reply :=
  match alGet g s.groups with
  | some grp =>
    let r := Code.gstep q s.stream grp op
    ({ s with groups := alSet g r.1 s.groups }, r.2)
  | none => (s, .nogroup)

/-! ### histories of one group over a changing stream (for `exactly_once`) -/

inductive HOp
  | add (id : Id)
  | del (ids : List Id)
  | g (op : GOp)
deriving DecidableEq, Repr

namespace Spec
structure Sys where
  stream : List Id
  lastId : Id
  grp : Group
  log : List (Id × Name)
deriving Repr

def init (stream : List Id) (lastId start : Id) : Sys := ⟨stream, lastId, newGroup start, []⟩

def hstep (σ : Sys) : HOp → Sys
  | .add id => if idLe id σ.lastId then σ else { σ with stream := σ.stream ++ [id], lastId := id }
  | .del ids => { σ with stream := σ.stream.filter (fun x => !ids.contains x) }
  | .g op =>
    let r := gstep σ.stream σ.grp op
    { σ with grp := r.1,
             log := σ.log ++ (match op, r.2 with
                              | .read c none _ _, some (.ids l) => l.map (fun i => (i, c))
                              | _, _ => []) }

def run (σ : Sys) (ops : List HOp) : Sys := ops.foldl hstep σ
end Spec

namespace Code
structure Sys where
  stream : List Id
  lastId : Id
  grp : Group
  log : List (Id × Name)
deriving Repr

def init (q : Quirks) (stream : List Id) (lastId start : Id) : Sys := ⟨stream, lastId, newGroup q start, []⟩

def hstep (q : Quirks) (σ : Sys) : HOp → Sys
  | .add id => if idLe id σ.lastId then σ else { σ with stream := σ.stream ++ [id], lastId := id }
  | .del ids => { σ with stream := σ.stream.filter (fun x => !ids.contains x) }
  | .g op =>
    let r := gstep q σ.stream σ.grp op
    { σ with grp := r.1,
             log := σ.log ++ (match op, r.2 with
                              | .read c none _ _, .ids l => l.map (fun i => (i, c))
                              | _, _ => []) }

def run (q : Quirks) (σ : Sys) (ops : List HOp) : Sys := ops.foldl (hstep q) σ
end Code

end Ferrous.Grp
