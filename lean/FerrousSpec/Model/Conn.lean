/-
  The connection loop (`Server::process_connection`, src/network/server.rs): read a chunk, parse
  every complete frame, execute each in order, append the replies in order; a frame that violates
  the protocol is answered with an error after the replies to the commands before it, and the
  connection is closed.  The command handlers are a parameter `h`.
-/
import FerrousSpec.Model.Resp
namespace Ferrous.Conn
open Ferrous

def protoErr : Frame := .error (strBytes "ERR Protocol error")

/-- execute parsed events in order; an error event ends the batch with the protocol-error reply -/
def applyEvs {σ : Type} (h : σ → Frame → σ × Frame) : σ → List Ev → σ × List Frame
  | s, [] => (s, [])
  | s, .frame f :: r =>
    let s1 := (h s f).1
    ((applyEvs h s1 r).1, (h s f).2 :: (applyEvs h s1 r).2)
  | s, .err :: _ => (s, [protoErr])

structure Out (σ : Type) where
  state : σ
  replies : List Frame
  closed : Bool

/-- feed the chunks of one connection one read at a time (`buf` = bytes not yet parsed) -/
def connRun {σ : Type} (h : σ → Frame → σ × Frame) : σ → Bytes → List Bytes → Out σ
  | s, _, [] => ⟨s, [], false⟩
  | s, buf, c :: cs =>
    let d := drain true (buf ++ c)
    let a := applyEvs h s d.1
    if d.2.2 then ⟨a.1, a.2, true⟩
    else
      let o := connRun h a.1 d.2.1 cs
      ⟨o.state, a.2 ++ o.replies, o.closed⟩

/-- the same commands executed one after another -/
def execAll {σ : Type} (h : σ → Frame → σ × Frame) : σ → List Frame → σ × List Frame
  | s, [] => (s, [])
  | s, f :: r => ((execAll h (h s f).1 r).1, (h s f).2 :: (execAll h (h s f).1 r).2)

end Ferrous.Conn
