/-
  C18 — the connection machine over the 16 numbered databases.

  `KS.step q store i now cmd obs` (Model/Keyspace.lean) runs one command on database `i`.  This file
  adds what decides WHICH `i` a command gets: connections with a selected database, `SELECT`,
  `MULTI`/`EXEC`/`DISCARD` queues, scripts (`EVAL` / `EVALSHA`, a script = the list of `redis.call`s it
  performs), blocking pops and the wake-up that serves them later.  Every store access of the machine
  goes through ONE primitive, `access`, which runs `KS.step` and appends a record to a ghost log:
  the database used (`db`), the database the property prescribes (`sel`: the connection's selection
  at that moment; for a served blocking pop the database recorded when the client blocked), the
  connection and the execution path.

  ONE machine with a record of switches: `Switches.fixed` (all off) is the prescribed behaviour, the
  switches reproduce the places where /repo deviated (src/network/server.rs, src/storage/commands/executor.rs) until
  commits b74cb7f, 0c66cae and 2147747 repaired them; they stay in the model so that the translator can turn one on
  again if the source regresses (Proofs/DbsCode.lean), and the witness lemmas of Props/C18.lean speak about them:

  * `evalshaDb0`       — the `EVALSHA` arm calls `handle_evalsha_command(parts)` without `db`, which ends in
                         `handle_eval` = `handle_eval_with_db(.., 0)`: the script runs on database 0;
  * `scriptDbCmdsDb0`  — `UnifiedCommandExecutor::execute_database(cmd)` ignores the script's `db_override` and reads
                         `conn_context` (absent for scripts): `redis.call('FLUSHDB'|'DBSIZE'|'KEYS')` act on database 0;
  * `execSelectNoop`   — `EXEC` re-dispatches queued commands with connection id 0, so a queued `SELECT` validates its
                         argument, answers OK and selects nothing (`with_connection(0, ..)` finds no connection).

  Import-free apart from Model/Keyspace.
-/
import FerrousSpec.Model.Keyspace
namespace Ferrous.Dbs
open Ferrous Ferrous.KS

structure Switches where
  evalshaDb0 : Bool := false
  scriptDbCmdsDb0 : Bool := false
  execSelectNoop : Bool := false
  deriving Repr, DecidableEq

/-- the behaviour the property prescribes -/
def Switches.fixed : Switches := {}

/-- number of databases (`StorageEngine::database_count`, fixed at 16) -/
def numDbs : Nat := 16

/-- What a client sends: a command line, or a script invocation (EVAL / EVALSHA) performing the given
    `redis.call`s / `redis.pcall`s (`pcalls`: one flag per call) in order and returning the last reply. -/
inductive Req where
  | plain (args : List Bytes) (obs : Option (List Bytes))
  | script (viaSha : Bool) (cmds : List (List Bytes)) (pcalls : List Bool := [])
  deriving Repr, DecidableEq

inductive Path where
  | direct
  | exec
  | script (viaSha : Bool)
  | served
  deriving Repr, DecidableEq

/-- One `KS.step` performed by the machine (ghost record). -/
structure Access where
  db : Nat
  sel : Nat
  conn : Nat
  path : Path
  now : Nat
  cmd : List Bytes
  obs : Option (List Bytes)
  deriving Repr, DecidableEq

structure Conn where
  db : Nat := 0
  inMulti : Bool := false
  queue : List Req := []
  blocked : Bool := false
  deriving Repr, DecidableEq

/-- a client blocked in BLPOP/BRPOP: registered in the registry of database `db` (recorded at block time) -/
structure Waiter where
  conn : Nat
  db : Nat
  keys : List Bytes
  left : Bool
  deriving Repr, DecidableEq

/-- work a transaction leaves for its end: serve the waiters of `key` in database `db` (`pushed_keys`), or — `none` — of every
    key of database `db` (`swept_dbs`) -/
structure Wake where
  db : Nat
  key : Option Bytes
  deriving Repr, DecidableEq

structure State where
  store : Store := emptyStore
  conns : Nat → Conn := fun _ => {}
  waiting : List Waiter := []       -- arrival order (per-key FIFO = this order filtered)
  wakes : List Wake := []
  outbox : List (Nat × Frame) := [] -- frames delivered to blocked clients during the current request (emptied by `exec`)
  log : List Access := []           -- ghost
  /- configuration of the wake-up machinery (never changed by the machine; read off Gen/Blocking.lean by the driver —
     C13's subject, irrelevant to WHICH database is used, so every theorem quantifies over it with the state): -/
  cfgDeferExecWakes : Bool := false -- wake-ups requested by queued pushes are carried out after the whole EXEC
  cfgNotifyOnce : Bool := false     -- one notification per push command instead of one per pushed element
  cfgNoticeHangup : Bool := false   -- the server notices that a blocked client went away and drops its registrations
  cfgSweepAfterScript : Bool := false -- after EVAL/EVALSHA/RENAME/RENAMENX every key with a waiter and an element is served

/-- upper-cased command name, computed exactly as `KS.step` does -/
def nameOf (cmd : List Bytes) : String :=
  match cmd with
  | [] => ""
  | n :: _ => String.ofList ((upperBytes n).map fun b => Char.ofNat b)

def isError : Frame → Bool
  | .error _ => true
  | _ => false

def updConn (st : State) (c : Nat) (f : Conn → Conn) : State :=
  { st with conns := fun i => if i = c then f (st.conns i) else st.conns i }

/-- THE store primitive: run one command on database `a.db` and log it. -/
def access (q : Quirks) (st : State) (a : Access) : State × Frame :=
  ({ st with store := (KS.step q st.store a.db a.now a.cmd a.obs).1, log := st.log ++ [a] },
   (KS.step q st.store a.db a.now a.cmd a.obs).2)

/-! ### SELECT (`handle_select`) -/

/-- exactly one argument, `String::from_utf8_lossy(..).parse::<usize>()` (optional `+`, ASCII digits, below 2^64),
    then `n >= database_count` is refused -/
def selectArg (args : List Bytes) : Option Nat :=
  match args with
  | [a] => match parseU64 a with
    | some n => if n < numDbs then some n else none
    | none => none
  | _ => none

def doSelect (st : State) (c : Nat) (args : List Bytes) (effective : Bool) : State × Frame :=
  match selectArg args with
  | none => (st, err)
  | some n => (if effective then updConn st c (fun x => { x with db := n }) else st, ok)

/-! ### Scripts (`handle_eval_with_db` → `execute_unified_redis_command` → `LuaCommandAdapter`) -/

/-- names `redis.call` refuses before reaching the executor (lua_engine.rs) -/
def scriptRefused : List String :=
  ["EVAL", "EVALSHA", "SCRIPT", "SELECT", "AUTH", "QUIT", "CLIENT", "MULTI", "EXEC", "DISCARD", "WATCH", "UNWATCH",
   "BLPOP", "BRPOP", "BZPOPMIN", "BZPOPMAX", "SUBSCRIBE", "UNSUBSCRIBE", "PSUBSCRIBE", "PUNSUBSCRIBE", "PUBSUB",
   "MONITOR", "RESET", "CONFIG", "SHUTDOWN", "DEBUG", "ACL"]

/-- `Command::Database` of the executor -/
def scriptDbCmds : List String := ["FLUSHDB", "DBSIZE", "KEYS"]

/-- the database handed to the script: the arm of the dispatch passes the connection's `db` (EVAL) or nothing (EVALSHA today) -/
def scriptDb (w : Switches) (sel : Nat) (viaSha : Bool) : Nat :=
  if viaSha && w.evalshaDb0 then 0 else sel

/-- the database one `redis.call` uses -/
def scriptCmdDb (w : Switches) (db : Nat) (cmd : List Bytes) : Nat :=
  if w.scriptDbCmdsDb0 && scriptDbCmds.contains (nameOf cmd) then 0 else db

/-- run the calls in order.  `redis.call`: an error reply aborts the script (the effects so far stay) and becomes its reply;
    `redis.pcall` (the flags `pcs`, one per call, missing = `call`): the error is a value and the script goes on.  Both are handed
    the SAME database (`create_lua_context` captures one `db_index` for the two closures). -/
def runScript (w : Switches) (q : Quirks) (c sel : Nat) (sha : Bool) (now : Nat) :
    State → List (List Bytes) → List Bool → Frame → State × Frame
  | st, [], _, last => (st, last)
  | st, cmd :: rest, pcs, _ =>
    if scriptRefused.contains (nameOf cmd) then
      (if pcs.headD false then runScript w q c sel sha now st rest pcs.tail err else (st, err))
    else
    let r := access q st { db := scriptCmdDb w (scriptDb w sel sha) cmd, sel := sel, conn := c, path := .script sha,
                           now := now, cmd := cmd, obs := none }
    if isError r.2 && !pcs.headD false then r else runScript w q c sel sha now r.1 rest pcs.tail r.2

/-! ### Blocking pops (`handle_blpop` / `handle_brpop`, `notify_key_ready`, `wake_client`) -/

def popCmd (left : Bool) (k : Bytes) : List Bytes :=
  [if left then [76, 80, 79, 80] else [82, 80, 79, 80], k]

/-- fast path: the keys in order, first non-empty list wins; a key of another type is an error reply -/
def tryPops (q : Quirks) (c : Nat) (path : Path) (now : Nat) (left : Bool) : State → List Bytes → State × Option Frame
  | st, [] => (st, none)
  | st, k :: rest =>
    let r := access q st { db := (st.conns c).db, sel := (st.conns c).db, conn := c, path := path, now := now,
                           cmd := popCmd left k, obs := none }
    match r.2 with
    | .bulk v => (r.1, some (.array [.bulk k, .bulk v]))
    | .nullBulk => tryPops q c path now left r.1 rest
    | other => (r.1, some other)

/-- only non-negative decimal integers are modelled as timeouts (fractions, `inf`, `nan` are C13's / C06's business) -/
def timeoutOk (t : Bytes) : Bool :=
  match parseI64 t with
  | some n => decide (n ≥ 0)
  | none =>
    -- `digits.digits` (the generators use 0.05 / 0.1 for time-outs that are meant to fire)
    let i := t.takeWhile isDigit
    let f := t.drop (i.length + 1)
    !i.isEmpty && !f.isEmpty && f.all isDigit && t.drop i.length != f && (t.drop i.length).head? == some 46

def doBpop (q : Quirks) (st : State) (c now : Nat) (inExec left : Bool) (args : List Bytes) : State × Option Frame :=
  if args.length < 2 then (st, some err) else
  if !timeoutOk (args.getLast?.getD []) then (st, some err) else
  let r := tryPops q c (if inExec then .exec else .direct) now left st args.dropLast
  match r.2 with
  | some f => (r.1, some f)
  | none =>
    if inExec then (r.1, some .nullArray)      -- inside EXEC a blocking pop never blocks: fast path, else a null array (since bb515cb)
    else ({ updConn r.1 c (fun x => { x with blocked := true }) with
              waiting := r.1.waiting ++ [{ conn := c, db := (r.1.conns c).db, keys := args.dropLast, left := left }] }, none)

def firstWaiter (ws : List Waiter) (db : Nat) (k : Bytes) : Option Waiter :=
  ws.find? fun w => w.db == db && w.keys.contains k

/-- `serve_key(db, key)` (= `notify_key_ready` + `wake_client`, repeated): while the registry OF THAT DATABASE has a waiter
    on the key and the list has an element, the head waiter leaves the registry (all its keys), the element is popped on the
    database the waiter was registered in, and delivered.  The first argument bounds the number of clients served
    (one per pushed element / per waiter). -/
def serveKey (q : Quirks) (now db : Nat) (k : Bytes) : Nat → State → State
  | 0, st => st
  | f + 1, st =>
    match firstWaiter st.waiting db k with
    | none => st
    | some x =>
      let r := access q st { db := x.db, sel := x.db, conn := x.conn, path := .served, now := now, cmd := popCmd x.left k, obs := none }
      match r.2 with
      | .bulk v =>
        serveKey q now db k f
          { updConn r.1 x.conn (fun y => { y with blocked := false }) with
              waiting := r.1.waiting.filter (fun y => y.conn != x.conn),
              outbox := r.1.outbox ++ [(x.conn, .array [.bulk k, .bulk v])] }
      | _ => r.1                                 -- no element (or not a list): nobody is served

/-- `blocked_keys(db)`: the keys of that database's registry, sorted -/
def blockedKeys (st : State) (db : Nat) : List Bytes :=
  sortBytes (dedup ((st.waiting.filter fun x => x.db == db).flatMap fun x => x.keys))

def sweepKeys (q : Quirks) (now db : Nat) : List Bytes → State → State
  | [], st => st
  | k :: ks, st => sweepKeys q now db ks (serveKey q now db k (st.waiting.length + 1) st)

/-- after a script or a RENAME (which can make a list appear under a key without LPUSH/RPUSH; since f24849a): every key of
    the database that has both a waiter and an element is served -/
def sweepDb (q : Quirks) (now db : Nat) (st : State) : State := sweepKeys q now db (blockedKeys st db) st

/-- what a transaction leaves to be done once it is over (`handle_exec`: `pushed_keys`, then `swept_dbs`) -/
def servePushed (q : Quirks) (now : Nat) : List Wake → State → State
  | [], st => st
  | wk :: r, st =>
    servePushed q now r (match wk.key with
      | some k => serveKey q now wk.db k (st.waiting.length + 1) st
      | none => st)

def serveSwept (q : Quirks) (now : Nat) : List Wake → State → State
  | [], st => st
  | wk :: r, st =>
    serveSwept q now r (match wk.key with
      | some _ => st
      | none => sweepDb q now wk.db st)

def processWakes (q : Quirks) (now : Nat) (st : State) : State :=
  serveSwept q now st.wakes (servePushed q now st.wakes { st with wakes := [] })

/-- LPUSH/RPUSH: the push; the clients blocked on the key IN THE DATABASE PUSHED TO are served at the end of this very command
    (64dea68) — or, for a push run by EXEC, once the transaction is over (629f564, `cfgDeferExecWakes`) -/
def doPush (q : Quirks) (st : State) (c now : Nat) (path : Path) (cmd : List Bytes) : State × Frame :=
  let r := access q st { db := (st.conns c).db, sel := (st.conns c).db, conn := c, path := path, now := now, cmd := cmd, obs := none }
  match r.2, cmd with
  | .int n, _ :: k :: _ :: _ =>
    if n > 0 then
      if st.cfgDeferExecWakes && path == .exec then
        ({ r.1 with wakes := r.1.wakes ++ [{ db := (st.conns c).db, key := some k }] }, r.2)
      else (serveKey q now (st.conns c).db k (if st.cfgNotifyOnce then 1 else r.1.waiting.length + 1) r.1, r.2)
    else r
  | _, _ => r

/-- after a script / RENAME / RENAMENX ran on database `db`: sweep now, or leave it to the end of the transaction -/
def afterSweep (q : Quirks) (st : State) (now db : Nat) (inExec : Bool) : State :=
  if !st.cfgSweepAfterScript then st
  else if inExec then { st with wakes := st.wakes ++ [{ db := db, key := none }] }
  else sweepDb q now db st

/-! ### Dispatch (`process_normal_command`), EXEC, and a client request (`process_frame`) -/

/-- one command or script on behalf of connection `c`; `inExec` = re-dispatched by EXEC -/
def dispatch (w : Switches) (q : Quirks) (st : State) (c now : Nat) (inExec : Bool) (r : Req) : State × Option Frame :=
  match r with
  | .script sha cmds pcs =>
    let x := runScript w q c (st.conns c).db sha now st cmds pcs nil
    (afterSweep q x.1 now (st.conns c).db inExec, some x.2)
  | .plain [] _ => (st, some err)
  | .plain (n :: args) obs =>
    let name := nameOf (n :: args)
    if name = "SELECT" then
      let x := doSelect st c args (!(inExec && w.execSelectNoop))
      (x.1, some x.2)
    else if name = "BLPOP" then doBpop q st c now inExec true args
    else if name = "BRPOP" then doBpop q st c now inExec false args
    else if name = "LPUSH" ∨ name = "RPUSH" then
      let x := doPush q st c now (if inExec then .exec else .direct) (n :: args)
      (x.1, some x.2)
    else
      let x := access q st { db := (st.conns c).db, sel := (st.conns c).db, conn := c,
                             path := (if inExec then .exec else .direct), now := now, cmd := n :: args, obs := obs }
      if name = "RENAME" ∨ name = "RENAMENX" then (afterSweep q x.1 now (st.conns c).db inExec, some x.2)
      else (x.1, some x.2)

def execQueue (w : Switches) (q : Quirks) (c now : Nat) : State → List Req → State × List Frame
  | st, [] => (st, [])
  | st, r :: rest =>
    let x := dispatch w q st c now true r
    let y := execQueue w q c now x.1 rest
    (y.1, x.2.getD .nullArray :: y.2)

structure Out where
  reply : Option Frame                 -- `none`: nothing is sent now (the client blocks, or is blocked and not read)
  served : List (Nat × Frame)          -- frames delivered to blocked clients as a consequence

def queued : Frame := .simple [81, 85, 69, 85, 69, 68]

def reqName : Req → String
  | .plain a _ => nameOf a
  | .script _ _ _ => "EVAL"

/-- one request of connection `c` (WATCH, pub/sub, AUTH are not modelled here) -/
def exec (w : Switches) (q : Quirks) (st : State) (now c : Nat) (r : Req) : State × Out :=
  if (st.conns c).blocked then (st, ⟨none, []⟩) else
  if reqName r = "MULTI" then
    if (st.conns c).inMulti then (st, ⟨some err, []⟩)
    else (updConn st c fun x => { x with inMulti := true, queue := [] }, ⟨some ok, []⟩)
  else if reqName r = "DISCARD" then
    if (st.conns c).inMulti then (updConn st c fun x => { x with inMulti := false, queue := [] }, ⟨some ok, []⟩)
    else (st, ⟨some err, []⟩)
  else if reqName r = "EXEC" then
    if !(st.conns c).inMulti then (st, ⟨some err, []⟩) else
    let x := execQueue w q c now (updConn st c fun x => { x with inMulti := false, queue := [] }) (st.conns c).queue
    let y := processWakes q now x.1
    ({ y with outbox := [] }, ⟨some (.array x.2), y.outbox⟩)
  else if (st.conns c).inMulti then
    (updConn st c fun x => { x with queue := x.queue ++ [r] }, ⟨some queued, []⟩)
  else
    let x := dispatch w q st c now false r
    let y := processWakes q now x.1
    ({ y with outbox := [] }, ⟨x.2, y.outbox⟩)

/-! ### What happens to a blocked client without a push: its time-out fires, or it goes away -/

def dropWaiters (st : State) (c : Nat) : State :=
  { st with waiting := st.waiting.filter (fun x => x.conn != c) }

/-- `process_timeouts`: the client leaves the registry of every key it waited on and is answered the null array -/
def timeoutConn (st : State) (c : Nat) : State × List (Nat × Frame) :=
  if (st.conns c).blocked && st.waiting.any (fun x => x.conn == c) then
    (updConn (dropWaiters st c) c (fun x => { x with blocked := false }), [(c, .nullArray)])
  else (st, [])

/-- the client closes its socket.  A blocked connection is not read, so unless the server probes it (`cfgNoticeHangup`)
    it stays registered (and blocked) until a push serves it — into the void; otherwise its registrations are dropped.
    The connection id is never used again. -/
def closeConn (st : State) (c : Nat) : State :=
  if (st.conns c).blocked && !st.cfgNoticeHangup then st
  else updConn (dropWaiters st c) c (fun _ => {})

/-- a history: requests of several connections, time-outs and hang-ups, interleaved in any way -/
inductive Ev where
  | req (now conn : Nat) (r : Req)
  | timeout (conn : Nat)
  | close (conn : Nat)
  deriving Repr, DecidableEq

def Ev.conn : Ev → Nat
  | .req _ c _ => c
  | .timeout c => c
  | .close c => c

def stepEv (w : Switches) (q : Quirks) (st : State) : Ev → State
  | .req now c r => (exec w q st now c r).1
  | .timeout c => (timeoutConn st c).1
  | .close c => closeConn st c

def run (w : Switches) (q : Quirks) (st : State) (evs : List Ev) : State :=
  evs.foldl (stepEv w q) st

/-- the store after a list of accesses -/
def runAcc (q : Quirks) (s : Store) (as : List Access) : Store :=
  as.foldl (fun s a => (KS.step q s a.db a.now a.cmd a.obs).1) s

def isFlushAll (cmd : List Bytes) : Bool := nameOf cmd == "FLUSHALL"

end Ferrous.Dbs
