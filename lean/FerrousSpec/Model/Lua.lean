/-
  Lua scripting (property C12) — NOT a model of Lua.

  The fragment the property talks about: a *call program* is a list of `redis.call` / `redis.pcall`
  steps followed by a return expression over the call results (and pure return-value shapes).
  The Lua interpreter itself (mlua, vendored Lua 5.1) is trusted.

  What is transliterated (file:function in /repo/src):

  * `storage/lua_engine.rs: resp_frame_to_lua_value` (RESP reply → Lua value), `lua_value_to_resp`
    (Lua return value → RESP reply), `handle_command_error_with_context` (`redis.call` aborts the
    script, `redis.pcall` yields **nil**), `setup_keys_and_args` (KEYS / ARGV through
    `String::from_utf8_lossy`), `execute_unified_redis_command` (arguments must be valid UTF-8; the
    refusal arms; everything else goes to the command executor with the script's database index).
  * `storage/commands/lua.rs: handle_eval_with_db` (the database index of the connection is passed)
    and `network/server.rs: handle_evalsha_command` (looks the source up in the cache and runs it like
    EVAL; until commit b74cb7f it called `handle_eval`, i.e. database 0: switch `evalshaDb0`).
  * Lua 5.1 numbers are IEEE doubles: an integer reply passes through a double (`f64Int`).

  One set of functions with quirk switches (`Quirks`): `Quirks.spec` (all `false`) is the standard
  Redis conversion table and script semantics the property prescribes; `Quirks.code` has every
  deviation on (the tree as first analysed).  Which switches the tree has NOW is re-read from the
  source on every run (`Gen.luaQuirksSeen`, translator/lua_tables.py) and sent to the driver by
  lib/c12.py, so a repaired deviation needs no edit here.  `Code.f = f Quirks.code`, `Spec.f = f Quirks.spec`.

  A `redis.call` of a command executes `KS.step` on the script's database: the SAME function that
  models the direct command.  That is the property ("the same effect and the same reply as sending
  the command directly"); that the second command implementation in `commands/executor.rs` really
  behaves like the handlers is NOT proved — it is what the twin-server correspondence run of
  lib/c12.py measures, command by command.

  Scope notes.  Replies are RESP2 frames (the server never emits RESP3 frames for data commands).
  An error frame nested inside an array reply is converted like a top-level one (an error table);
  no data command produces such a reply (EXEC is refused inside scripts).  NaN and infinities as
  return values are not modelled.  Error wording is not modelled (the code prefixes `ERR `).
-/
import FerrousSpec.Model.Keyspace
namespace Ferrous.Lua
open Ferrous

/-! ### `String::from_utf8_lossy` (Rust `Utf8Chunks`): every maximal invalid part becomes U+FFFD -/

def isCont (b : Nat) : Bool := 128 ≤ b && b ≤ 191

/-- U+FFFD in UTF-8 -/
def repl : Bytes := [239, 191, 189]

/-- admissible second byte after the lead byte `b` of a three-byte sequence -/
def ok3 (b c : Nat) : Bool :=
  (b == 224 && 160 ≤ c && c ≤ 191) || (225 ≤ b && b ≤ 236 && isCont c) ||
  (b == 237 && 128 ≤ c && c ≤ 159) || (238 ≤ b && b ≤ 239 && isCont c)

/-- admissible second byte after the lead byte `b` of a four-byte sequence -/
def ok4 (b c : Nat) : Bool :=
  (b == 240 && 144 ≤ c && c ≤ 191) || (241 ≤ b && b ≤ 243 && isCont c) ||
  (b == 244 && 128 ≤ c && c ≤ 143)

/-- `from_utf8_lossy`; the first argument is fuel (`length + 1` suffices: every step consumes a byte). -/
def lossyF : Nat → Bytes → Bytes
  | 0, _ => []
  | _+1, [] => []
  | f+1, b :: r =>
    if b < 128 then b :: lossyF f r
    else if 194 ≤ b ∧ b ≤ 223 then
      match r with
      | [] => repl
      | c :: r1 => if isCont c then b :: c :: lossyF f r1 else repl ++ lossyF f r
    else if 224 ≤ b ∧ b ≤ 239 then
      match r with
      | [] => repl
      | c :: r1 =>
        if ok3 b c then
          match r1 with
          | [] => repl
          | d :: r2 => if isCont d then b :: c :: d :: lossyF f r2 else repl ++ lossyF f r1
        else repl ++ lossyF f r
    else if 240 ≤ b ∧ b ≤ 244 then
      match r with
      | [] => repl
      | c :: r1 =>
        if ok4 b c then
          match r1 with
          | [] => repl
          | d :: r2 =>
            if isCont d then
              match r2 with
              | [] => repl
              | e :: r3 => if isCont e then b :: c :: d :: e :: lossyF f r3 else repl ++ lossyF f r2
            else repl ++ lossyF f r1
        else repl ++ lossyF f r
    else repl ++ lossyF f r

def lossy (b : Bytes) : Bytes := lossyF (b.length + 1) b

/-- `str::from_utf8(b).is_ok()`: nothing had to be replaced. -/
def validUtf8 (b : Bytes) : Bool := lossy b == b

/-! ### Lua 5.1 numbers are doubles: an `i64` reply is rounded to 53 significant bits (ties to even)
    on its way into Lua, and cast back with Rust's saturating `as i64`. -/

def two53 : Nat := 9007199254740992

/-- how many low bits a natural number loses in a double -/
def shiftF : Nat → Nat → Nat
  | 0, _ => 0
  | f+1, a => if a < two53 then 0 else 1 + shiftF f (a / 2)

def roundShift (a e : Nat) : Nat :=
  let q := a / 2 ^ e
  let r := a % 2 ^ e
  let h := 2 ^ e / 2
  (if r > h ∨ (r = h ∧ q % 2 = 1) then q + 1 else q) * 2 ^ e

def f64Nat (a : Nat) : Nat := if a < two53 then a else roundShift a (shiftF 80 a)

def satI64 (n : Int) : Int := if n < i64Min then i64Min else if n > i64Max then i64Max else n

/-- integer → double → integer -/
def f64Int (n : Int) : Int := satI64 (if n < 0 then -((f64Nat n.natAbs : Nat) : Int) else ((f64Nat n.natAbs : Nat) : Int))

/-! ### Values on the Lua side -/

/-- The Lua values the property talks about.  `num n d` is the number `n / d` (`d > 0`) when it is
    not an integer that mlua reports as `Integer` (the harness sends the exact ratio of the double);
    `table` is the array part, positions `1 … n`, holes are `nil`; `errTable` / `statusTable` are the
    single-field tables `{err = msg}` / `{ok = msg}` of the standard conversion. -/
inductive LuaVal where
  | nil
  | bool (b : Bool)
  | int (n : Int)
  | num (n : Int) (d : Nat)
  | str (b : Bytes)
  | table (xs : List LuaVal)
  | errTable (msg : Bytes)
  | statusTable (msg : Bytes)
  deriving Repr, BEq, Inhabited

def LuaVal.isNil : LuaVal → Bool
  | .nil => true
  | _ => false

/-- Switches for the places where the code deviates from the standard table. `false` = prescribed. -/
structure Quirks where
  /-- `RespFrame::BulkString(None)` / `Array(None)` → `LuaValue::Nil` (standard: `false`). -/
  nilBulkIsNil : Bool := false
  /-- `RespFrame::SimpleString` → plain Lua string (standard: the table `{ok = …}`). -/
  statusIsString : Bool := false
  /-- reply strings, KEYS and ARGV pass through `String::from_utf8_lossy` (standard: byte-for-byte). -/
  lossyStrings : Bool := false
  /-- a failing `redis.pcall` yields `nil` (standard: the table `{err = …}`). -/
  pcallErrIsNil : Bool := false
  /-- Lua `false` → `:0` (standard: nil bulk). -/
  falseIsZero : Bool := false
  /-- a number with a fractional part (or outside the `i64` range) → bulk string of its decimal
      expansion `{:.17}` with trailing zeros removed (standard: integer, truncated toward zero). -/
  fracIsBulk : Bool := false
  /-- a table whose array part is empty → nil bulk (standard: empty array). -/
  emptyTableIsNil : Bool := false
  /-- `{err = …}` / `{ok = …}` are not recognised: converted like any table (standard: error / status reply). -/
  okErrTablesIgnored : Bool := false
  /-- string arguments of `redis.call` must be valid UTF-8, otherwise the call fails (standard: any bytes). -/
  utf8ArgsOnly : Bool := false
  /-- EVALSHA runs the cached script on database 0 (standard: the connection's selected database). -/
  evalshaDb0 : Bool := false
  deriving Repr, DecidableEq

def Quirks.spec : Quirks := {}

/-- Every deviation on: the tree as first analysed for C12 (each switch was confirmed on the real
    server).  The switches of the tree as it is now are `Gen.luaQuirksSeen` (re-read on every run). -/
def Quirks.code : Quirks :=
  { nilBulkIsNil := true, statusIsString := true, lossyStrings := true, pcallErrIsNil := true,
    falseIsZero := true, fracIsBulk := true, emptyTableIsNil := true, okErrTablesIgnored := true,
    utf8ArgsOnly := true, evalshaDb0 := true }

def Quirks.ls (q : Quirks) (b : Bytes) : Bytes := if q.lossyStrings then lossy b else b

/-! ### RESP reply → Lua value (`resp_frame_to_lua_value`) -/

mutual
def respToLua (q : Quirks) : Frame → LuaVal
  | .simple b => if q.statusIsString then .str (q.ls b) else .statusTable b
  | .error b => .errTable b
  | .int n => .int (f64Int n)
  | .bulk b => .str (q.ls b)
  | .nullBulk => if q.nilBulkIsNil then .nil else .bool false
  | .array xs => .table (respToLuaList q xs)
  | .nullArray => if q.nilBulkIsNil then .nil else .bool false
  | _ => .nil                                   -- RESP3 frames: `_ => Ok(LuaValue::Nil)`; never produced by data commands
def respToLuaList (q : Quirks) : List Frame → List LuaVal
  | [] => []
  | f :: fs => respToLua q f :: respToLuaList q fs
end

/-! ### Lua value → RESP reply (`lua_value_to_resp`) -/

def pow17 : Nat := 100000000000000000

def trimEnd (c : Nat) (l : Bytes) : Bytes := (l.reverse.dropWhile (· == c)).reverse

/-- Rust `format!("{:.17}", x)` for `x = n / d` (exact decimal expansion, round half to even),
    then `trim_end_matches('0')`, then `trim_end_matches('.')`. -/
def fmt17 (n : Int) (d : Nat) : Bytes :=
  let a := n.natAbs * pow17
  let q := a / d
  let r := a % d
  let q' := if 2 * r > d ∨ (2 * r = d ∧ q % 2 = 1) then q + 1 else q
  let ds := natDigits q'
  let ds := List.replicate (18 - ds.length) 48 ++ ds
  let txt := (if n < 0 then [45] else []) ++ ds.take (ds.length - 17) ++ [46] ++ ds.drop (ds.length - 17)
  trimEnd 46 (trimEnd 48 txt)

/-- `n.fract() == 0.0 && n >= i64::MIN as f64 && n <= i64::MAX as f64` (`i64::MAX as f64` is 2^63) -/
def numIsInt (n : Int) (d : Nat) : Bool :=
  d ≠ 0 && n % (d : Int) == 0 && decide (i64Min ≤ n / (d : Int)) && decide (n / (d : Int) ≤ i64Max + 1)

/-- the array part up to the first `nil` (`for i in 1.. { match table.get(i) { Nil => break …`) -/
def untilNil : List LuaVal → List LuaVal
  | [] => []
  | v :: t => if v.isNil then [] else v :: untilNil t

mutual
def luaToResp (q : Quirks) : LuaVal → Frame
  | .nil => .nullBulk
  | .bool true => .int 1
  | .bool false => if q.falseIsZero then .int 0 else .nullBulk
  | .int n => .int n
  | .num n d =>
    if numIsInt n d then .int (satI64 (n / (d : Int)))
    else if q.fracIsBulk then .bulk (fmt17 n d)
    else .int (satI64 (Int.tdiv n (d : Int)))
  | .str b => .bulk b
  | .table xs =>
    -- nil elements end the array; an empty result is the quirk `emptyTableIsNil`
    let items := luaToRespList q xs
    if q.emptyTableIsNil && items.isEmpty then .nullBulk else .array items
  | .errTable m =>
    if q.okErrTablesIgnored then (if q.emptyTableIsNil then .nullBulk else .array []) else .error m
  | .statusTable m =>
    if q.okErrTablesIgnored then (if q.emptyTableIsNil then .nullBulk else .array []) else .simple m
/-- elements up to the first `nil` -/
def luaToRespList (q : Quirks) : List LuaVal → List Frame
  | [] => []
  | v :: t => if v.isNil then [] else luaToResp q v :: luaToRespList q t
end

/-! ### The same conversion with the depth limit of `lua_value_to_resp(value, depth)`

The conversion recurses once per level of tables; like the parser (`parse_frame`, `MAX_NESTING`) it stops when more than `limit`
tables surround a value: such a return value has no reply form (`none`; the script's reply is then the error
`ERR reached lua stack limit`).  A table that contains itself is not a `LuaVal` (those are finite trees): it is deeper than every
limit.  Elements after the first `nil` are never looked at, as in `luaToResp`. -/

mutual
def luaToRespD (q : Quirks) (limit : Nat) : LuaVal → Nat → Option Frame
  | .table xs, d =>
    if d > limit then none else
    match luaToRespListD q limit xs (d + 1) with
    | none => none
    | some items => some (if q.emptyTableIsNil && items.isEmpty then .nullBulk else .array items)
  | v, d => if d > limit then none else some (luaToResp q v)
def luaToRespListD (q : Quirks) (limit : Nat) : List LuaVal → Nat → Option (List Frame)
  | [], _ => some []
  | v :: t, d =>
    if v.isNil then some [] else
    match luaToRespD q limit v d, luaToRespListD q limit t d with
    | some f, some fs => some (f :: fs)
    | _, _ => none
end

mutual
/-- how many levels of tables lie below a value on the deepest path the conversion follows -/
def nest : LuaVal → Nat
  | .table xs => nestList xs
  | _ => 0
def nestList : List LuaVal → Nat
  | [] => 0
  | v :: t => if v.isNil then 0 else max (nest v + 1) (nestList t)
end

def stackLimitErr : Frame := .error (strBytes "ERR reached lua stack limit")

/-! ### Call programs -/

/-- An argument of `redis.call`: a string literal, `ARGV[i]`, `KEYS[i]` (1-based) or `unpack(ARGV)`. -/
inductive Arg where
  | lit (b : Bytes)
  | argv (i : Nat)
  | key (i : Nat)
  | unpackArgv
  deriving Repr, BEq, DecidableEq

structure Step where
  /-- `redis.pcall` (true) or `redis.call` (false) -/
  pcall : Bool
  args : List Arg
  deriving Repr, BEq, DecidableEq

/-- The return expression; `i` refers to the result of the i-th step (1-based, `nil` when absent). -/
inductive Ret where
  | val (v : LuaVal)            -- a pure value: `return nil`, `return {1,'a',{2}}`, …
  | res (i : Nat)               -- `return r_i`
  | typeOf (i : Nat)            -- `return type(r_i)`
  | isFalse (i : Nat)           -- `return r_i == false`
  | isNil (i : Nat)             -- `return r_i == nil`
  | wrap (i : Nat)              -- `return {r_i}`
  | lenRes (i : Nat)            -- `return #r_i`   (string or table; anything else is a script error)
  | argv (i : Nat)              -- `return ARGV[i]`
  | key (i : Nat)               -- `return KEYS[i]`
  | lenArgv (i : Nat)           -- `return #ARGV[i]`
  | lenKey (i : Nat)            -- `return #KEYS[i]`
  | all                         -- `return {r_1, …, r_n}`
  deriving Repr, BEq

structure Program where
  steps : List Step
  ret : Ret
  deriving Repr, BEq

/-- KEYS and ARGV as the script sees them (`setup_keys_and_args`). -/
structure Env where
  keys : List Bytes
  argv : List Bytes
  deriving Repr, DecidableEq

def mkEnv (q : Quirks) (keys argv : List Bytes) : Env :=
  { keys := keys.map q.ls, argv := argv.map q.ls }

def nth1 {α : Type} (l : List α) (i : Nat) : Option α := if i = 0 then none else l[i - 1]?

/-- the byte strings handed to `redis.call`; `none` when an argument is Lua `nil`
    (index out of range: "Invalid argument type") -/
def resolveArgs (env : Env) : List Arg → Option (List Bytes)
  | [] => some []
  | a :: rest =>
    match resolveArgs env rest with
    | none => none
    | some t =>
      match a with
      | .lit b => some (b :: t)
      | .argv i => (nth1 env.argv i).map (· :: t)
      | .key i => (nth1 env.keys i).map (· :: t)
      | .unpackArgv => some (env.argv ++ t)

/-- upper-cased command name (`""` for an empty command) -/
def nameOf (c : List Bytes) : String :=
  match c with
  | [] => ""
  | n :: _ => String.ofList ((KS.upperBytes n).map fun b => Char.ofNat b)

/-- What the property says scripts cannot reach: blocking, connection, pub/sub subscription,
    transaction, scripting, and process / administration commands. -/
def refusedNames : List String :=
  ["BLPOP", "BRPOP", "BZPOPMIN", "BZPOPMAX",
   "SELECT", "AUTH", "QUIT", "CLIENT", "RESET",
   "SUBSCRIBE", "UNSUBSCRIBE", "PSUBSCRIBE", "PUNSUBSCRIBE",
   "MULTI", "EXEC", "DISCARD", "WATCH", "UNWATCH",
   "EVAL", "EVALSHA", "SCRIPT",
   "MONITOR", "SHUTDOWN", "DEBUG", "CONFIG"]

def argErr : Frame := .error (strBytes "ERR Invalid argument")
def refusedErr : Frame := .error (strBytes "ERR command not allowed inside scripts")
def noScript : Frame := .error (strBytes "NOSCRIPT No matching script")
def scriptErr : Frame := .error (strBytes "ERR Error running script")

/-- One `redis.call` / `redis.pcall` of the byte strings `cmd` on database `db`: the reply frame the
    conversion sees, and the store afterwards.  Anything not refused is THE direct command. -/
def execCall (q : Quirks) (kq : KS.Quirks) (s : KS.Store) (db now : Nat) (cmd : List Bytes) : KS.Store × Frame :=
  if cmd.isEmpty then (s, argErr)                                        -- "No command specified"
  else if q.utf8ArgsOnly && !cmd.all validUtf8 then (s, argErr)          -- "Invalid UTF-8 in command argument"
  else if refusedNames.contains (nameOf cmd) then (s, refusedErr)
  else KS.step kq s db now cmd none

/-- the value a failing `redis.pcall` evaluates to -/
def pcallFailure (q : Quirks) (m : Bytes) : LuaVal := if q.pcallErrIsNil then .nil else .errTable m

/-- The steps of a script, in order.  Result: the store, and either the error that aborted the
    script or the list of call results. -/
def runSteps (q : Quirks) (kq : KS.Quirks) (env : Env) (db now : Nat) :
    KS.Store → List LuaVal → List Step → KS.Store × Except Bytes (List LuaVal)
  | s, acc, [] => (s, .ok acc)
  | s, acc, st :: rest =>
    match resolveArgs env st.args with
    | none =>
      if st.pcall then runSteps q kq env db now s (acc ++ [pcallFailure q (strBytes "ERR Invalid argument type")]) rest
      else (s, .error (strBytes "ERR Invalid argument type"))
    | some cmd =>
      match respToLua q (execCall q kq s db now cmd).2 with
      | .errTable m =>
        if st.pcall then runSteps q kq env db now (execCall q kq s db now cmd).1 (acc ++ [pcallFailure q m]) rest
        else ((execCall q kq s db now cmd).1, .error m)
      | v => runSteps q kq env db now (execCall q kq s db now cmd).1 (acc ++ [v]) rest

def typeName : LuaVal → String
  | .nil => "nil"
  | .bool _ => "boolean"
  | .int _ => "number"
  | .num _ _ => "number"
  | .str _ => "string"
  | .table _ => "table"
  | .errTable _ => "table"
  | .statusTable _ => "table"

def resOf (rs : List LuaVal) (i : Nat) : LuaVal := (nth1 rs i).getD .nil

def optStr (o : Option Bytes) : LuaVal :=
  match o with
  | some b => .str b
  | none => .nil

/-- `#v` for strings and tables; `none` = "attempt to get length of …" (script error).
    For a table with holes Lua 5.1 may answer ANY border; this is the first one (lib/c12.py accepts
    any border in that case and keeps `#` away from array replies with nil elements). -/
def lenOf : LuaVal → Option LuaVal
  | .str b => some (.int b.length)
  | .table xs => some (.int (untilNil xs).length)
  | .errTable _ => some (.int 0)
  | .statusTable _ => some (.int 0)
  | _ => none

/-- value of the return expression; `none` = the expression raises a Lua error -/
def evalRet (env : Env) (rs : List LuaVal) : Ret → Option LuaVal
  | .val v => some v
  | .res i => some (resOf rs i)
  | .typeOf i => some (.str (strBytes (typeName (resOf rs i))))
  | .isFalse i => some (.bool (match resOf rs i with | .bool false => true | _ => false))
  | .isNil i => some (.bool (resOf rs i).isNil)
  | .wrap i => some (.table [resOf rs i])
  | .lenRes i => lenOf (resOf rs i)
  | .argv i => some (optStr (nth1 env.argv i))
  | .key i => some (optStr (nth1 env.keys i))
  | .lenArgv i => lenOf (optStr (nth1 env.argv i))
  | .lenKey i => lenOf (optStr (nth1 env.keys i))
  | .all => some (.table rs)

/-- EVAL: the script runs on the connection's database `db`; the reply is the converted return
    value, or the error that aborted it (the effects made before the error stay). -/
def eval (q : Quirks) (kq : KS.Quirks) (s : KS.Store) (db now : Nat) (keys argv : List Bytes) (p : Program) : KS.Store × Frame :=
  match runSteps q kq (mkEnv q keys argv) db now s [] p.steps with
  | (s', .error m) => (s', .error m)
  | (s', .ok rs) =>
    match evalRet (mkEnv q keys argv) rs p.ret with
    | some v => (s', luaToResp q v)
    | none => (s', scriptErr)

/-- EVAL with the reply-depth limit: the script runs exactly as in `eval`; only the conversion of its return value can now fail. -/
def evalB (q : Quirks) (kq : KS.Quirks) (limit : Nat) (s : KS.Store) (db now : Nat) (keys argv : List Bytes) (p : Program) : KS.Store × Frame :=
  match runSteps q kq (mkEnv q keys argv) db now s [] p.steps with
  | (s', .error m) => (s', .error m)
  | (s', .ok rs) =>
    match evalRet (mkEnv q keys argv) rs p.ret with
    | some v => (s', (luaToRespD q limit v 0).getD stackLimitErr)
    | none => (s', scriptErr)

/-- the script cache: SHA-1 (as sent by the client) → program -/
abbrev Cache := List (Bytes × Program)

def cacheGet (c : Cache) (sha : Bytes) : Option Program :=
  match c with
  | [] => none
  | (k, p) :: t => if k = sha then some p else cacheGet t sha

/-- EVALSHA: the cached program, run exactly like EVAL (quirk: on database 0). -/
def evalsha (q : Quirks) (kq : KS.Quirks) (c : Cache) (s : KS.Store) (db now : Nat) (sha : Bytes) (keys argv : List Bytes) : KS.Store × Frame :=
  match cacheGet c sha with
  | none => (s, noScript)
  | some p => eval q kq s (if q.evalshaDb0 then 0 else db) now keys argv p

/-! ### The event loop, as far as scripts are concerned

`Server::run` is one thread: every complete frame of every connection is processed to completion,
one after another.  A schedule is the list of frames in the order the loop takes them up. -/

inductive Req where
  | cmd (c : List Bytes)
  | eval (keys argv : List Bytes) (p : Program)
  | evalsha (sha : Bytes) (keys argv : List Bytes)
  deriving Repr, BEq

/-- one frame: the connection it came from, that connection's selected database, the clock -/
structure Ev where
  conn : Nat
  db : Nat
  now : Nat
  req : Req
  deriving Repr, BEq

def processFrame (q : Quirks) (kq : KS.Quirks) (c : Cache) (s : KS.Store) (e : Ev) : KS.Store × Frame :=
  match e.req with
  | .cmd cmd => KS.step kq s e.db e.now cmd none
  | .eval keys argv p => eval q kq s e.db e.now keys argv p
  | .evalsha sha keys argv => evalsha q kq c s e.db e.now sha keys argv

/-- the loop: frames one after another; the replies in the same order -/
def runLoop (q : Quirks) (kq : KS.Quirks) (c : Cache) : KS.Store → List Ev → KS.Store × List Frame
  | s, [] => (s, [])
  | s, e :: rest =>
    let r := processFrame q kq c s e
    let t := runLoop q kq c r.1 rest
    (t.1, r.2 :: t.2)

/-- every store a connection could ever observe: the states between frames -/
def observable (q : Quirks) (kq : KS.Quirks) (c : Cache) : KS.Store → List Ev → List KS.Store
  | s, [] => [s]
  | s, e :: rest => s :: observable q kq c (processFrame q kq c s e).1 rest

/-! #### The same run seen at the grain of single data commands

`Micro` is one data command executed on the store on behalf of a connection.  `callsOf` lists the
commands a script actually executes (in order, up to and including the one that aborts it). -/

structure Micro where
  conn : Nat
  db : Nat
  now : Nat
  /-- `true`: through `redis.call` / `redis.pcall` (refusal list and UTF-8 test apply) -/
  scripted : Bool
  cmd : List Bytes
  deriving Repr, BEq

def microStep (q : Quirks) (kq : KS.Quirks) (s : KS.Store) (m : Micro) : KS.Store :=
  if m.scripted then (execCall q kq s m.db m.now m.cmd).1 else (KS.step kq s m.db m.now m.cmd none).1

/-- the commands the steps execute, from store `s` on -/
def callsOf (q : Quirks) (kq : KS.Quirks) (env : Env) (conn db now : Nat) : KS.Store → List Step → List Micro
  | _, [] => []
  | s, st :: rest =>
    match resolveArgs env st.args with
    | none => if st.pcall then callsOf q kq env conn db now s rest else []
    | some cmd =>
      let m : Micro := { conn := conn, db := db, now := now, scripted := true, cmd := cmd }
      match respToLua q (execCall q kq s db now cmd).2 with
      | .errTable _ =>
        if st.pcall then m :: callsOf q kq env conn db now (execCall q kq s db now cmd).1 rest else [m]
      | _ => m :: callsOf q kq env conn db now (execCall q kq s db now cmd).1 rest

def microsOf (q : Quirks) (kq : KS.Quirks) (c : Cache) (s : KS.Store) (e : Ev) : List Micro :=
  match e.req with
  | .cmd cmd => [{ conn := e.conn, db := e.db, now := e.now, scripted := false, cmd := cmd }]
  | .eval keys argv p => callsOf q kq (mkEnv q keys argv) e.conn e.db e.now s p.steps
  | .evalsha sha keys argv =>
    match cacheGet c sha with
    | none => []
    | some p => callsOf q kq (mkEnv q keys argv) e.conn (if q.evalshaDb0 then 0 else e.db) e.now s p.steps

/-- The whole schedule at command grain: each frame's commands as ONE contiguous block, blocks in
    schedule order. -/
def flatten (q : Quirks) (kq : KS.Quirks) (c : Cache) : KS.Store → List Ev → List Micro
  | _, [] => []
  | s, e :: rest => microsOf q kq c s e ++ flatten q kq c (processFrame q kq c s e).1 rest

end Ferrous.Lua
