/-
  Sorted sets (C04) — import-free.

  * `Score` is the exact value of a non-NaN f64: the harness maps sign-magnitude bits to a
    monotone integer (`fin k`; +0.0 is `fin 0`, the smallest positive denormal `fin 1`, …) and
    -0.0 to its own constructor `nzero`, so that the sign of zero is observable in every reply.
    -0.0 and +0.0 COMPARE EQUAL (`Score.eqv`, Rust `==` / `partial_cmp == Equal`, as in Redis):
    between two members they are ordered by member bytes like any equal scores.
    `CScore` (Code layer only) adds NaN.
  * `Spec.*`  : what the property prescribes — a list of `(score, member)` strictly sorted by
    score and then by member bytes, each member once; queries defined from that order.
  * `Code.*`  : transliteration of `src/storage/skiplist.rs` (`SkipList<Vec<u8>, f64>`: level
    chains, key index, length; the tower height of a new node is an ARGUMENT) and of the zset
    functions of `src/storage/engine.rs` (index normalisation of ZRANGE/ZREVRANGE exactly as the
    Rust computes it; nothing there can wrap for i64 arguments because `len as isize + start`
    is only evaluated for `start < 0`).
-/
import FerrousSpec.Model.Bytes
namespace Ferrous.ZSet
open Ferrous

/-! ### Scores and the order on `(score, member)` -/

inductive Score where
  | ninf
  | fin (k : Int)
  /-- -0.0 (`fin 0` is +0.0) -/
  | nzero
  | pinf
  deriving DecidableEq, Repr, Inhabited

/-- An f64 as the code sees it: a number or NaN (Code layer only). -/
inductive CScore where
  | num (s : Score)
  | nan
  deriving DecidableEq, Repr, Inhabited

/-- -inf / finite / +inf -/
def Score.cls : Score → Int
  | .ninf => -1
  | .pinf => 1
  | _ => 0
/-- numeric position among the finite values (both zeros at 0) -/
def Score.mag : Score → Int
  | .fin k => k
  | _ => 0
/-- distinguishes the two zeros (never decides an order between two members) -/
def Score.zz : Score → Int
  | .nzero => 0
  | _ => 1

/-- f64 `<` -/
def Score.lt (a b : Score) : Bool :=
  decide (a.cls < b.cls) || (decide (a.cls = b.cls) && decide (a.mag < b.mag))

/-- f64 `==` (`partial_cmp == Equal`): -0.0 and +0.0 are equal -/
def Score.eqv (a b : Score) : Bool := decide (a.cls = b.cls) && decide (a.mag = b.mag)

def Score.le (a b : Score) : Bool := !(b.lt a)

/-- Lexicographic order on byte strings (`Vec<u8>::cmp`). -/
def bytesLt : Bytes → Bytes → Bool
  | [], [] => false
  | [], _ :: _ => true
  | _ :: _, [] => false
  | a :: as, b :: bs => decide (a < b) || (decide (a = b) && bytesLt as bs)

abbrev Entry := Score × Bytes
abbrev CEntry := CScore × Bytes

/-- The prescribed order: by score, then by member bytes.  The last stage (the sign of a zero score
    of the SAME member) never decides between two entries of a set, whose members are distinct
    (`entLt_of_ne_member`); it only makes the relation total on arbitrary pairs of values. -/
def entLt (a b : Entry) : Bool :=
  a.1.lt b.1 || (a.1.eqv b.1 && (bytesLt a.2 b.2 || (decide (a.2 = b.2) && decide (a.1.zz < b.1.zz))))

def CScore.lt : CScore → CScore → Bool
  | .num a, .num b => a.lt b
  | .num _, .nan => true
  | .nan, _ => false

/-- `partial_cmp == Equal`, or both NaN (the branch of `compare_nodes` that falls through to the key) -/
def CScore.eqv : CScore → CScore → Bool
  | .num a, .num b => a.eqv b
  | .nan, .nan => true
  | _, _ => false

def CScore.zz : CScore → Int
  | .num s => s.zz
  | .nan => 1

/-- `compare_nodes` / `compare_with_query` of skiplist.rs `== Less`: `partial_cmp` on the scores, NaN
    "greater than any other value", equal scores (and two NaNs) ordered by key. -/
def ccmpLt (a b : CEntry) : Bool := a.1.lt b.1 || (a.1.eqv b.1 && bytesLt a.2 b.2)
/-- `compare_with_query … == Equal` -/
def ccmpEq (a b : CEntry) : Bool := a.1.eqv b.1 && decide (a.2 = b.2)

/-- The total order used in the proofs: `ccmpLt` refined by the sign of zero of one and the same
    member.  On every list the code can reach it coincides with `ccmpLt` (members are unique). -/
def centLt (a b : CEntry) : Bool :=
  a.1.lt b.1 || (a.1.eqv b.1 && (bytesLt a.2 b.2 || (decide (a.2 = b.2) && decide (a.1.zz < b.1.zz))))

/-- Rust `==` on f64: NaN is not equal to itself; -0.0 == +0.0. -/
def feq : CScore → CScore → Bool
  | .num a, .num b => a.eqv b
  | _, _ => false

/-- Rust `<` / `<=` on f64 (false whenever a NaN is involved): used by `range_by_score`. -/
def rawLt : CScore → CScore → Bool
  | .num a, .num b => a.lt b
  | _, _ => false
def rawLe : CScore → CScore → Bool
  | .num a, .num b => a.le b
  | _, _ => false

def lift (e : Entry) : CEntry := (.num e.1, e.2)

/-! ### Sorted insertion — the walk `while next < x { advance }` followed by a splice -/

def insSorted {α : Type} (lt : α → α → Bool) (x : α) : List α → List α
  | [] => [x]
  | y :: ys => if lt y x then y :: insSorted lt x ys else x :: y :: ys

/-- Inclusive rank slice `[a, b]` of a list. -/
def slice {α : Type} (l : List α) (a b : Nat) : List α := (l.drop a).take (b + 1 - a)

/-! ## Spec -/
namespace Spec

abbrev ZSet := List Entry

/-- Strictly sorted by `(score, member)` and every member at most once. -/
def WF (z : ZSet) : Prop :=
  z.Pairwise (fun a b => entLt a b = true) ∧ (z.map Prod.snd).Nodup

def zrem (m : Bytes) (z : ZSet) : ZSet := z.filter (fun e => e.2 != m)

/-- ZADD of one pair: the member ends up exactly once, with the latest score, in order. -/
def zadd (m : Bytes) (s : Score) (z : ZSet) : ZSet := insSorted entLt (s, m) (zrem m z)

def zscore (m : Bytes) (z : ZSet) : Option Score := (z.find? (fun e => e.2 == m)).map Prod.fst

def zcard (z : ZSet) : Nat := z.length

/-- Rank = number of entries strictly below `(score m, m)` in the prescribed order. -/
def zrank (m : Bytes) (z : ZSet) : Option Nat :=
  (zscore m z).map fun s => z.countP (fun e => entLt e (s, m))

def zrevrank (m : Bytes) (z : ZSet) : Option Nat :=
  (zscore m z).map fun s => z.countP (fun e => entLt (s, m) e)

/-- Redis' rank-range normalisation: negative indices count from the end; the answer is the
    inclusive index interval, `none` = empty reply. -/
def rangeIdx (len : Nat) (start stop : Int) : Option (Nat × Nat) :=
  let s := if start < 0 then start + len else start
  let e := if stop < 0 then stop + len else stop
  let s := if s < 0 then 0 else s
  if s > e ∨ s ≥ len then none
  else some (s.toNat, (if e ≥ len then (len : Int) - 1 else e).toNat)

def zrange (z : ZSet) (start stop : Int) : ZSet :=
  match rangeIdx z.length start stop with
  | none => []
  | some (a, b) => slice z a b

/-- ZREVRANGE: the same index rule applied to the set read from the highest entry down. -/
def zrevrange (z : ZSet) (start stop : Int) : ZSet :=
  match rangeIdx z.length start stop with
  | none => []
  | some (a, b) => slice z.reverse a b

def zrangebyscore (z : ZSet) (lo hi : Score) : ZSet := z.filter (fun e => lo.le e.1 && e.1.le hi)
def zrevrangebyscore (z : ZSet) (lo hi : Score) : ZSet := (zrangebyscore z lo hi).reverse
def zcount (z : ZSet) (lo hi : Score) : Nat := z.countP (fun e => lo.le e.1 && e.1.le hi)

/-- ZPOPMIN / ZPOPMAX with a count: the first / last `count` entries, lowest resp. highest first. -/
def zpopN (max : Bool) (count : Nat) (z : ZSet) : ZSet × ZSet :=
  if max then (z.take (z.length - count), (z.drop (z.length - count)).reverse)
  else (z.drop count, z.take count)

def zpopmin (z : ZSet) : Option (Entry × ZSet) :=
  match z with
  | [] => none
  | e :: r => some (e, r)

def zpopmax (z : ZSet) : Option (Entry × ZSet) :=
  match z.getLast? with
  | none => none
  | some e => some (e, z.dropLast)

/-- ZINCRBY: the new score (old + increment in IEEE arithmetic, computed by the harness and
    passed in) replaces the old one. -/
def zincrby (m : Bytes) (sum : Score) (z : ZSet) : ZSet := zadd m sum z

/-- The key exists iff the set is non-empty. -/
def keyExists (z : ZSet) : Bool := !z.isEmpty

/-- One ZADD command with several pairs: refused as a whole (nothing added) when any score is
    not a number (`none` = unparsable, `some nan` = NaN); otherwise applied left to right. -/
def zaddAll (ps : List (Score × Bytes)) (z : ZSet) : ZSet :=
  ps.foldl (fun z p => zadd p.2 p.1 z) z

def validPairs : List (Option CScore × Bytes) → Option (List (Score × Bytes))
  | [] => some []
  | (some (.num s), m) :: r => (validPairs r).map ((s, m) :: ·)
  | _ :: _ => none

def zaddCmd (ps : List (Option CScore × Bytes)) (z : ZSet) : ZSet × Bool :=
  match validPairs ps with
  | some vs => (zaddAll vs z, true)
  | none => (z, false)

def zremAll (ms : List Bytes) (z : ZSet) : ZSet := ms.foldl (fun z m => zrem m z) z

/-- Prescribed argument validation: only WITHSCORES may follow the bounds; a NaN bound is not a float. -/
def rangeOption (opt : Option Bool) : Option Bool :=
  match opt with
  | none => some false
  | some true => some true
  | some false => none

def scoreBounds (lo hi : CScore) : Option (Score × Score) :=
  match lo, hi with
  | .num l, .num h => some (l, h)
  | _, _ => none

/-- ZINCRBY as a command: refused (nothing changes) when the increment or the sum is NaN. -/
def zincrbyCmd (sum : CScore) (m : Bytes) (z : ZSet) : ZSet × Option Score :=
  match sum with
  | .nan => (z, none)
  | .num s => (zincrby m s z, some s)

end Spec

/-- The mutating sorted-set commands on one key (scores are numbers; `h` is the tower height
    the skip list will draw, `sum` the IEEE sum computed by the caller). -/
inductive Cmd where
  | zadd (h : Nat) (m : Bytes) (s : Score)
  | zincrby (h : Nat) (m : Bytes) (sum : Score)
  | zrem (m : Bytes)
  | popmin
  | popmax
  deriving Repr

namespace Spec
def applyCmd (z : ZSet) : Cmd → ZSet
  | .zadd _ m s => zadd m s z
  | .zincrby _ m sum => zincrby m sum z
  | .zrem m => zrem m z
  | .popmin => match zpopmin z with | none => z | some (_, r) => r
  | .popmax => match zpopmax z with | none => z | some (_, r) => r
def runCmds (cs : List Cmd) : ZSet := cs.foldl applyCmd []
end Spec

/-! ## Code: skiplist.rs -/
namespace Code

structure SkipList where
  /-- chain of every level, level 0 first; `levels.length = inner.level + 1` -/
  levels : List (List CEntry)
  /-- `key_index`, kept sorted by key (the dump hook sorts the HashMap the same way) -/
  keyIndex : List (Bytes × CScore)
  length : Nat
  deriving Repr, DecidableEq

/-- `SkipList::new()`: level 0 (one empty chain), no keys. -/
def empty : SkipList := ⟨[[]], [], 0⟩

def level0 (sl : SkipList) : List CEntry := sl.levels.headD []

/-! key index (HashMap) as an association list sorted by key -/
def keyLt (a b : Bytes × CScore) : Bool := bytesLt a.1 b.1
def idxGet (m : Bytes) (idx : List (Bytes × CScore)) : Option CScore :=
  (idx.find? (fun p => p.1 == m)).map Prod.snd
def idxDel (m : Bytes) (idx : List (Bytes × CScore)) : List (Bytes × CScore) :=
  idx.filter (fun p => p.1 != m)
def idxSet (m : Bytes) (s : CScore) (idx : List (Bytes × CScore)) : List (Bytes × CScore) :=
  insSorted keyLt (m, s) (idxDel m idx)

/-- `insert_new_node`: splice `x` into levels `0 .. n-1` (`n = new_level + 1`), growing the
    level list with singleton chains when the tower is higher than the list.
    (The comparator is a parameter: the code uses `ccmpLt`, the proofs relate it to `centLt`.) -/
def insLevels (lt : CEntry → CEntry → Bool) (x : CEntry) : Nat → List (List CEntry) → List (List CEntry)
  | 0, ls => ls
  | n + 1, [] => [x] :: insLevels lt x n []
  | n + 1, l :: ls => insSorted lt x l :: insLevels lt x n ls

def insertNode (h : Nat) (x : CEntry) (sl : SkipList) : SkipList :=
  { sl with levels := insLevels ccmpLt x (h + 1) sl.levels, length := sl.length + 1 }

/-- `update[0].forward[0]` after the search walk of `remove_node_by_score`. -/
def findTarget (lt : CEntry → CEntry → Bool) (q : CEntry) : List CEntry → Option CEntry
  | [] => none
  | y :: ys => if lt y q then findTarget lt q ys else some y

/-- One level of the unlink loop: walk to `update[i]`; `forward[i] == None` → continue
    (`some`, unchanged); `forward[i] == target` → unlink; anything else → `break` (`none`).
    Node identity is the node's exact `(score, member)` (a node with a non-NaN score is unique per member). -/
def unlinkAt (lt : CEntry → CEntry → Bool) (q t : CEntry) : List CEntry → Option (List CEntry)
  | [] => some []
  | y :: ys =>
    if lt y q then (unlinkAt lt q t ys).map (y :: ·)
    else if y = t then some ys else none

def unlinkLevels (lt : CEntry → CEntry → Bool) (q t : CEntry) : List (List CEntry) → List (List CEntry)
  | [] => []
  | l :: ls =>
    match unlinkAt lt q t l with
    | some l' => l' :: unlinkLevels lt q t ls
    | none => l :: ls

/-- `while inner.level > 0 && head.forward[inner.level].is_none() { inner.level -= 1 }` -/
def dropTrailingEmpty : List (List CEntry) → List (List CEntry)
  | [] => []
  | l :: ls =>
    match dropTrailingEmpty ls with
    | [] => if l.isEmpty then [] else [l]
    | r => l :: r

def trimLevels : List (List CEntry) → List (List CEntry)
  | [] => []
  | l :: ls => l :: dropTrailingEmpty ls

/-- `remove_node_by_score(key = m, score = s)`: the node is unlinked only when the node found
    satisfies `target.key == key && target.value == *score` — false for a NaN score. -/
def removeNode (m : Bytes) (s : CScore) (sl : SkipList) : SkipList :=
  match findTarget ccmpLt (s, m) (level0 sl) with
  | none => sl
  | some t =>
    if t.2 == m && feq t.1 s then
      { sl with levels := trimLevels (unlinkLevels ccmpLt (s, m) t sl.levels), length := sl.length - 1 }
    else sl

/-- `SkipList::insert(key, value)` with the random level `h` made explicit; returns the old score. -/
def insert (h : Nat) (m : Bytes) (s : CScore) (sl : SkipList) : SkipList × Option CScore :=
  match idxGet m sl.keyIndex with
  | some old =>
    let sl1 := removeNode m old sl
    (insertNode h (s, m) { sl1 with keyIndex := idxSet m s sl1.keyIndex }, some old)
  | none =>
    (insertNode h (s, m) { sl with keyIndex := idxSet m s sl.keyIndex }, none)

/-- `SkipList::remove(key)`. -/
def remove (m : Bytes) (sl : SkipList) : SkipList × Option CScore :=
  match idxGet m sl.keyIndex with
  | none => (sl, none)
  | some s => (removeNode m s { sl with keyIndex := idxDel m sl.keyIndex }, some s)

def getScore (m : Bytes) (sl : SkipList) : Option CScore := idxGet m sl.keyIndex

/-- The counting walk of `get_rank` along level 0 (`Less` → count on, `Equal` → found, `Greater` → give up). -/
def rankWalk (lt eq : CEntry → CEntry → Bool) (q : CEntry) : List CEntry → Nat → Option Nat
  | [], _ => none
  | y :: ys, r => if lt y q then rankWalk lt eq q ys (r + 1) else if eq y q then some r else none

def getRank (m : Bytes) (sl : SkipList) : Option Nat :=
  match idxGet m sl.keyIndex with
  | none => none
  | some s => rankWalk ccmpLt ccmpEq (s, m) (level0 sl) 0

/-- `range_by_rank(a, b)`: nothing when `a >= length`; otherwise ranks `a ..= min(b, length-1)`. -/
def rangeByRank (a b : Nat) (sl : SkipList) : List CEntry :=
  if a ≥ sl.length then [] else ((level0 sl).drop a).take (min (b + 1) sl.length - a)

/-- `range_by_score(lo, hi)`: skip while `value < lo`, collect while `value <= hi`. -/
def rangeByScore (lo hi : CScore) (sl : SkipList) : List CEntry :=
  ((level0 sl).dropWhile (fun e => rawLt e.1 lo)).takeWhile (fun e => rawLe e.1 hi)

/-! ### The operation alphabet of the skip list and its runs (for the invariant theorem) -/

inductive Op where
  | ins (h : Nat) (m : Bytes) (s : Score)
  | rem (m : Bytes)
  deriving Repr

def applyOp (sl : SkipList) : Op → SkipList
  | .ins h m s => (insert h m (.num s) sl).1
  | .rem m => (remove m sl).1

def run (ops : List Op) : SkipList := ops.foldl applyOp empty

/-! ## Code: the zset functions of engine.rs (`none` = key absent) -/

abbrev ZKey := Option SkipList

def zadd (h : Nat) (m : Bytes) (s : CScore) (k : ZKey) : ZKey × Bool :=
  match k with
  | some sl => let r := insert h m s sl; (some r.1, r.2.isNone)
  | none => (some (insert h m s empty).1, true)

def zrem (m : Bytes) (k : ZKey) : ZKey × Bool :=
  match k with
  | none => (none, false)
  | some sl =>
    let r := remove m sl
    if r.2.isSome then (if r.1.length == 0 then none else some r.1, true) else (some r.1, false)

def zscore (m : Bytes) (k : ZKey) : Option CScore := k.bind (getScore m)

def zrank (m : Bytes) (rev : Bool) (k : ZKey) : Option Nat :=
  match k with
  | none => none
  | some sl => (getRank m sl).map fun r => if rev then sl.length - 1 - r else r

/-- `if i < 0 { (len as isize + i).max(0) as usize } else { i as usize }` -/
def normIdx (len : Nat) (i : Int) : Nat :=
  if i < 0 then (max ((len : Int) + i) 0).toNat else i.toNat

/-- The index arithmetic of `StorageEngine::zrange` for `len > 0`: the arguments passed to
    `range_by_rank`, `none` = `Vec::new()`.  `fixed = true` adds the proposed repair (the
    emptiness tests hoisted in front of both branches, plus "stop still negative after adding len"). -/
def zrangeIdx (fixed rev : Bool) (len : Nat) (start stop : Int) : Option (Nat × Nat) :=
  let startIdx := normIdx len start
  let stopIdx := normIdx len stop
  if fixed && (decide (stop < 0 ∧ (len : Int) + stop < 0) || decide (startIdx ≥ len) || decide (startIdx > stopIdx)) then none
  else if rev then
    let realStart := (len - 1) - min stopIdx (len - 1)
    let realStop := (len - 1) - min startIdx (len - 1)
    some (realStart, realStop)
  else
    if startIdx ≥ len ∨ startIdx > stopIdx then none
    else some (min startIdx (len - 1), min stopIdx (len - 1))

/-- Exactly the arguments on which the unrepaired arithmetic selects a member although the
    prescribed range is empty (deviation tag printed by the driver):
    forward — `stop` lies before the first element and `start` normalises to 0 (`ZRANGE k 0 -100`);
    reverse — the same, or `start` lies past the last element while `stop` reaches it (`ZREVRANGE k 5 10`). -/
def zrangeDev (rev : Bool) (len : Nat) (start stop : Int) : Bool :=
  if len = 0 then false else
  let startIdx := normIdx len start
  let stopIdx := normIdx len stop
  let stopOut := decide (stop < 0 ∧ (len : Int) + stop < 0)
  if rev then
    (stopOut && (decide (startIdx = 0) || decide (len = 1))) || (decide (startIdx ≥ len) && decide (stopIdx + 1 ≥ len))
  else stopOut && decide (startIdx = 0)

def zrange (fixed : Bool) (start stop : Int) (rev : Bool) (k : ZKey) : List CEntry :=
  match k with
  | none => []
  | some sl =>
    if sl.length == 0 then []
    else match zrangeIdx fixed rev sl.length start stop with
      | none => []
      | some (a, b) => if rev then (rangeByRank a b sl).reverse else rangeByRank a b sl

def zrangebyscore (lo hi : CScore) (rev : Bool) (k : ZKey) : List CEntry :=
  match k with
  | none => []
  | some sl => if rev then (rangeByScore lo hi sl).reverse else rangeByScore lo hi sl

def zcount (lo hi : CScore) (k : ZKey) : Nat := (zrangebyscore lo hi false k).length

/-- `zincrby`: the sum `current + increment` (or the increment for a new member) is IEEE
    arithmetic done by the harness and passed in; the code stores it whatever it is. -/
def zincrby (h : Nat) (m : Bytes) (sum : CScore) (k : ZKey) : ZKey × CScore :=
  ((zadd h m sum k).1, sum)

def zcard (k : ZKey) : Nat := match k with | none => 0 | some sl => sl.length

/-- One iteration of the loop of `handle_zpopmin` / `handle_zpopmax`:
    `zrange(0,0)` resp. `zrange(-1,-1)`, then `zrem` of the member found. -/
def zpop (fixed max : Bool) (k : ZKey) : ZKey × Option CEntry :=
  match zrange fixed (if max then -1 else 0) (if max then -1 else 0) false k with
  | [] => (k, none)
  | e :: _ => let r := zrem e.2 k; if r.2 then (r.1, some e) else (r.1, none)

/-- `handle_zadd` after the arity test: pairs are parsed and applied one by one; the first
    unparsable score (`none`) stops the command with an error, keeping what was already added;
    NaN parses and is stored.  `fixed = true`: all pairs are validated (NaN refused) before the
    first mutation.  `hs` are the tower heights observed for the nodes actually inserted. -/
def zaddCmd (fixed : Bool) : List Nat → List (Option CScore × Bytes) → ZKey → Nat → ZKey × Option Nat
  | _, [], k, n => (k, some n)
  | hs, (sc, m) :: ps, k, n =>
    match sc with
    | none => (k, none)
    | some s =>
      if fixed && (decide (s = .nan) || ps.any (fun p => decide (p.1 = none) || decide (p.1 = some .nan))) then (k, none)
      else
        let r := zadd (hs.headD 0) m s k
        zaddCmd fixed hs.tail ps r.1 (if r.2 then n + 1 else n)

/-- `handle_zincrby` + `StorageEngine::zincrby`: the sum is stored whatever it is;
    `fixed = true`: a NaN sum is refused before the mutation. -/
def zincrbyCmd (fixed : Bool) (h : Nat) (m : Bytes) (sum : CScore) (k : ZKey) : ZKey × Option CScore :=
  if fixed && decide (sum = .nan) then (k, none) else ((zincrby h m sum k).1, some sum)

/-- The loop of `handle_zpopmin` / `handle_zpopmax` (`count` iterations): an empty `zrange`
    reply ends it; a member that `zrem` does not find (possible only after a NaN was stored) is
    skipped without ending it. -/
def zpopLoop (fixed max : Bool) : Nat → ZKey → List CEntry → ZKey × List CEntry
  | 0, k, acc => (k, acc)
  | n + 1, k, acc =>
    match zrange fixed (if max then -1 else 0) (if max then -1 else 0) false k with
    | [] => (k, acc)
    | e :: _ => let r := zrem e.2 k; zpopLoop fixed max n r.1 (if r.2 then acc ++ [e] else acc)

/-! ### One command = one storage call (since db4c992: `zadd_many`, `zrem_many`, `zpop`)

  Every storage call reaches the shard once (`get_shard`: one deadline test, at its start) and holds the
  shard's write lock until it returns.  So the only points at which the key's deadline can take effect, or
  at which another reader (the BGSAVE thread's copy, another connection) can see the key, lie BETWEEN two
  storage calls.  The functions below make the calls of one command explicit. -/

/-- `StorageEngine::zadd_many`: every (validated) pair applied under one lock; returns the number of new members. -/
def zaddMany : List Nat → List (Score × Bytes) → ZKey → Nat → ZKey × Nat
  | _, [], k, n => (k, n)
  | hs, (s, m) :: vs, k, n =>
    let r := zadd (hs.headD 0) m (.num s) k
    zaddMany hs.tail vs r.1 (if r.2 then n + 1 else n)

/-- The loop the handler was before db4c992: pair `i` is storage call `i`; `deadAt = some i` = the key's
    deadline passes just before call `i`, whose `get_shard` deletes the key.  The last component collects the
    states a reader can see between the calls of this one command. -/
def zaddPerCall : Nat → List Nat → List (Score × Bytes) → Option Nat → ZKey → Nat → List ZKey → ZKey × Nat × List ZKey
  | _, _, [], _, k, n, obs => (k, n, obs)
  | i, hs, (s, m) :: vs, d, k, n, obs =>
    let k0 := if d = some i then none else k
    let r := zadd (hs.headD 0) m (.num s) k0
    zaddPerCall (i + 1) hs.tail vs d r.1 (if r.2 then n + 1 else n) (if vs.isEmpty then obs else obs ++ [r.1])

/-- One accepted `ZADD k pairs` under a schedule of the environment: final key, reply, and the intermediate
    states observable by others.  `oneCall = true` is the tree since db4c992 (the whole command is call 0). -/
def zaddSched (oneCall : Bool) (hs : List Nat) (vs : List (Score × Bytes)) (deadAt : Option Nat) (k : ZKey) :
    ZKey × Nat × List ZKey :=
  if oneCall then
    let r := zaddMany hs vs (if deadAt = some 0 then none else k) 0
    (r.1, r.2, [])
  else zaddPerCall 0 hs vs deadAt k 0 []

/-- `StorageEngine::zrem_many`: members removed one after the other under one lock; the loop ends when the
    key has gone (unobservable: removing from a missing key removes nothing). -/
def zremMany : List Bytes → ZKey → Nat → ZKey × Nat
  | [], k, n => (k, n)
  | m :: ms, k, n =>
    match k with
    | none => (none, n)
    | some _ => let r := zrem m k; zremMany ms r.1 (if r.2 then n + 1 else n)

/-- One iteration of `StorageEngine::zpop`: the node of rank 0 / `len-1` (`range_by_rank(rank, rank)`), removed
    by member; the key is deleted when the list is empty afterwards. -/
def zpopStep (max : Bool) (k : ZKey) : Option (CEntry × ZKey) :=
  match k with
  | none => none
  | some sl =>
    if sl.length == 0 then none else
    match (rangeByRank (if max then sl.length - 1 else 0) (if max then sl.length - 1 else 0) sl).head? with
    | none => none
    | some e => let r := remove e.2 sl; some (e, if r.1.length == 0 then none else some r.1)

/-- `StorageEngine::zpop(key, count, min)`: up to `count` iterations under one lock. -/
def zpopMany (max : Bool) : Nat → ZKey → List CEntry → ZKey × List CEntry
  | 0, k, acc => (k, acc)
  | n + 1, k, acc =>
    match zpopStep max k with
    | none => (k, acc)
    | some (e, k') => zpopMany max n k' (acc ++ [e])

/-! ### Argument validation of the range commands and the shape of an empty pop reply (handlers) -/

/-- The optional fifth argument of ZRANGE / ZREVRANGE / ZRANGEBYSCORE / ZREVRANGEBYSCORE (`isWithscores` = it
    is `WITHSCORES`, case-insensitively): `some withscores` or `none` = syntax error.
    As it is (`fixed = false`) anything else is dropped silently and the command answers as the plain form. -/
def rangeOption (fixed : Bool) (opt : Option Bool) : Option Bool :=
  match opt with
  | none => some false
  | some true => some true
  | some false => if fixed then none else some false

/-- Score bounds of ZRANGEBYSCORE / ZREVRANGEBYSCORE / ZCOUNT after `parse::<f64>()`: `fixed = true` refuses NaN
    ("min or max is not a float"); as it is NaN goes into `range_by_score` (`rawLt` / `rawLe`). -/
def scoreBounds (fixed : Bool) (lo hi : CScore) : Option (CScore × CScore) :=
  if fixed && (decide (lo = .nan) || decide (hi = .nan)) then none else some (lo, hi)

/-- ZPOPMIN / ZPOPMAX reply when nothing was popped: `true` = null array `*-1` (as it is), `false` = empty array. -/
def zpopEmptyIsNull (fixed : Bool) : Bool := !fixed

def applyCmd (fixed : Bool) (k : ZKey) : Cmd → ZKey
  | .zadd h m s => (zadd h m (.num s) k).1
  | .zincrby h m sum => (zincrby h m (.num sum) k).1
  | .zrem m => (zrem m k).1
  | .popmin => (zpop fixed false k).1
  | .popmax => (zpop fixed true k).1
def runCmds (fixed : Bool) (cs : List Cmd) : ZKey := cs.foldl (applyCmd fixed) none

/-! Executable check of the structural invariant (printed by the driver as `inv=`). -/
def sortedB : List CEntry → Bool
  | [] => true
  | [_] => true
  | a :: b :: r => centLt a b && sortedB (b :: r)
def sublistB : List CEntry → List CEntry → Bool
  | [], _ => true
  | _ :: _, [] => false
  | a :: u, b :: l => if a = b then sublistB u l else sublistB (a :: u) l
def chainB : List (List CEntry) → Bool
  | [] => true
  | [_] => true
  | l :: u :: r => sublistB u l && chainB (u :: r)
def invB (sl : SkipList) : Bool :=
  !sl.levels.isEmpty && sl.levels.all sortedB && chainB sl.levels &&
  (level0 sl).all (fun e => decide (e.1 ≠ .nan)) &&
  decide (sl.keyIndex.map (fun p => (p.2, p.1)) = insSortedAll (level0 sl)) &&
  decide (sl.length = (level0 sl).length)
where
  /-- level 0 re-sorted by key (what the key index must list) -/
  insSortedAll (l : List CEntry) : List CEntry :=
    l.foldl (fun acc e => insSorted (fun a b => bytesLt a.2 b.2) e acc) []

end Code

/-- Level 0 without NaN nodes, read as a `Spec.ZSet` (the abstraction function). -/
def unlift : CEntry → Option Entry
  | (.num s, m) => some (s, m)
  | (.nan, _) => none

def abs (sl : Code.SkipList) : Spec.ZSet := (Code.level0 sl).filterMap unlift

end Ferrous.ZSet
