/-
  RESP frames, the serializer (`src/protocol/serializer.rs`) and the parser
  (`src/protocol/parser.rs`) — import-free transliteration.

  The parser is written in "rest-returning" style: a successful parse returns the
  unconsumed suffix, so `consumed = d.length - rest.length`.
-/
import FerrousSpec.Model.Bytes
namespace Ferrous

/-- `RespFrame` without the internal `NoResponse` marker (the serializer refuses it).
    A double is carried as its lexeme (Rust's float formatter/parser is a parameter).
    A map is carried flattened `k₁ v₁ k₂ v₂ …` (the parser reads `2·len` frames in a row). -/
inductive Frame where
  | simple (b : Bytes)
  | error (b : Bytes)
  | int (n : Int)
  | bulk (b : Bytes)
  | nullBulk
  | array (xs : List Frame)
  | nullArray
  | null
  | bool (b : Bool)
  | double (lex : Bytes)
  | map (kvs : List Frame)
  | set (xs : List Frame)
  deriving Repr, BEq, Inhabited

def crlf : Bytes := [13, 10]

/-! ### Serializer -/

/-- `write_line_payload`: a CR or LF inside a simple-string / error payload is written as a space,
    so that the payload can never end the line early. -/
def sanitizeLine (b : Bytes) : Bytes := b.map fun x => if x = 13 ∨ x = 10 then 32 else x

mutual
def ser : Frame → Bytes
  | .simple b => 43 :: (sanitizeLine b ++ crlf)
  | .error b => 45 :: (sanitizeLine b ++ crlf)
  | .int n => 58 :: (intDigits n ++ crlf)
  | .bulk b => 36 :: (natDigits b.length ++ crlf ++ (b ++ crlf))
  | .nullBulk => [36, 45, 49, 13, 10]
  | .array xs => 42 :: (natDigits xs.length ++ crlf ++ serList xs)
  | .nullArray => [42, 45, 49, 13, 10]
  | .null => [95, 13, 10]
  | .bool true => [35, 116, 13, 10]
  | .bool false => [35, 102, 13, 10]
  | .double lex => 44 :: (lex ++ crlf)
  | .map kvs => 37 :: (natDigits (kvs.length / 2) ++ crlf ++ serList kvs)
  | .set xs => 126 :: (natDigits xs.length ++ crlf ++ serList xs)
def serList : List Frame → Bytes
  | [] => []
  | f :: fs => ser f ++ serList fs
end

/-! ### `f64::from_str` grammar (acceptance only) -/

def lower (b : Nat) : Nat := if 65 ≤ b ∧ b ≤ 90 then b + 32 else b

def isSpecialFloat (s : Bytes) : Bool :=
  let l := s.map lower
  l == [110, 97, 110] || l == [105, 110, 102] || l == [105, 110, 102, 105, 110, 105, 116, 121]

def stripSign (s : Bytes) : Bytes :=
  match s with
  | 43 :: t => t
  | 45 :: t => t
  | t => t

/-- `Digit+ | Digit+ '.' Digit* | Digit* '.' Digit+`, then optional `[eE] [+-]? Digit+`, all consumed. -/
def isNumberLit (s : Bytes) : Bool :=
  let intPart := s.takeWhile isDigit
  let r1 := s.dropWhile isDigit
  let (fracPart, r2, _hasDot) :=
    match r1 with
    | 46 :: t => (t.takeWhile isDigit, t.dropWhile isDigit, true)
    | _ => (([] : Bytes), r1, false)
  if intPart.isEmpty && fracPart.isEmpty then false
  else match r2 with
    | [] => true
    | e :: t =>
      if e == 101 || e == 69 then
        let ds := stripSign t
        !ds.isEmpty && ds.all isDigit
      else false

def isF64Literal (s : Bytes) : Bool :=
  let t := stripSign s
  isNumberLit t || isSpecialFloat t

/-! ### Parser -/

/-- Split at the first adjacent `\r\n`: `(line, rest-after-CRLF)`. -/
def splitCRLF : Bytes → Option (Bytes × Bytes)
  | [] => none
  | [_] => none
  | a :: b :: t =>
    if a = 13 ∧ b = 10 then some ([], t)
    else match splitCRLF (b :: t) with
      | none => none
      | some (l, r) => some (a :: l, r)

inductive Res where
  | need
  | err
  | ok (f : Frame) (rest : Bytes)
  deriving Repr, BEq

inductive ERes where
  | need
  | err
  | ok (fs : List Frame) (rest : Bytes)
  deriving Repr, BEq

/-- Parse `k` frames in a row with element parser `p`. -/
def parseElemsWith (p : Bytes → Res) : Nat → Bytes → ERes
  | 0, d => .ok [] d
  | k+1, d => match p d with
    | .need => .need
    | .err => .err
    | .ok f r => match parseElemsWith p k r with
      | .need => .need
      | .err => .err
      | .ok fs r' => .ok (f :: fs) r'

/-- `parse_simple_string`, `parse_error`, `parse_integer`, `parse_double`: one CRLF-terminated
    line turned into a frame by `mk` (`none` = protocol error). -/
def parseLineWith (mk : Bytes → Option Frame) (body : Bytes) : Res :=
  match splitCRLF body with
  | none => .need
  | some (l, r) => match mk l with
    | none => .err
    | some f => .ok f r

/-- `parse_bulk_string` after the type byte. -/
def parseBulk (body : Bytes) : Res :=
  match splitCRLF body with
  | none => .need
  | some (l, r) => match parseI64 l with
    | none => .err
    | some n =>
      if n = -1 then .ok .nullBulk r
      else if n < 0 then .err
      else
        if r.length < n.toNat + 2 then .need
        else if (r.drop n.toNat).take 2 = crlf then .ok (.bulk (r.take n.toNat)) (r.drop (n.toNat + 2))
        else .err

/-- `parse_array` after the type byte; `p` parses one element. -/
def parseArray (p : Bytes → Res) (body : Bytes) : Res :=
  match splitCRLF body with
  | none => .need
  | some (l, r) => match parseI64 l with
    | none => .err
    | some n =>
      if n = -1 then .ok .nullArray r
      else if n < 0 then .err
      else match parseElemsWith p n.toNat r with
        | .need => .need
        | .err => .err
        | .ok fs r' => .ok (.array fs) r'

/-- `parse_map` (`isMap`, reads `2·len` frames) and `parse_set` after the type byte. -/
def parseAgg (p : Bytes → Res) (isMap : Bool) (body : Bytes) : Res :=
  match splitCRLF body with
  | none => .need
  | some (l, r) => match parseU64 l with
    | none => .err
    | some n => match parseElemsWith p (if isMap then 2 * n else n) r with
      | .need => .need
      | .err => .err
      | .ok fs r' => .ok (if isMap then .map fs else .set fs) r'

/-- `parse_null` after the type byte. -/
def parseNull (body : Bytes) : Res :=
  match body with
  | a :: b :: r => if a = 13 ∧ b = 10 then .ok .null r else .err
  | _ => .need

/-- `parse_boolean` after the type byte. -/
def parseBool (body : Bytes) : Res :=
  match body with
  | a :: b :: c :: r =>
    if a = 116 ∧ b = 13 ∧ c = 10 then .ok (.bool true) r
    else if a = 102 ∧ b = 13 ∧ c = 10 then .ok (.bool false) r
    else .err
  | _ => .need

/-- `MAX_NESTING` of parser.rs: containers may be nested this deep around a frame. -/
def maxNesting : Nat := 128

/-- `parse_frame`; the first argument is the nesting budget left (`MAX_NESTING + 1 - depth`): when it is
    used up the frame is refused ("Nesting too deep"), before the data is looked at. -/
def parseFrame : Nat → Bytes → Res
  | 0, _ => .err
  | _+1, [] => .need
  | fuel+1, t :: body =>
      if t = 43 then parseLineWith (fun l => some (.simple l)) body
      else if t = 45 then parseLineWith (fun l => some (.error l)) body
      else if t = 58 then parseLineWith (fun l => (parseI64 l).map .int) body
      else if t = 36 then parseBulk body
      else if t = 42 then parseArray (parseFrame fuel) body
      else if t = 95 then parseNull body
      else if t = 35 then parseBool body
      else if t = 44 then parseLineWith (fun l => if isF64Literal l then some (.double l) else none) body
      else if t = 37 then parseAgg (parseFrame fuel) true body
      else if t = 126 then parseAgg (parseFrame fuel) false body
      else .err

/-- `parse_resp_frame` on a whole slice. -/
def parseBytes (d : Bytes) : Res := parseFrame (maxNesting + 1) d

/-! ### Capacity requests (`Vec::with_capacity(len)`) made while parsing `d`

`reserveMode` selects the code's sizing rule: `false` = the pinned tree
(`with_capacity(len)` straight from the header), `true` = capped by the bytes
actually buffered and by a constant (`len.min(data.len()).min(MAX_RESERVE)`). The translator sets it from the source. -/

/-- no container is pre-sized beyond this many elements, whatever it declares and however much is buffered
    (`MAX_RESERVE` in parser.rs; the vector grows as elements really arrive) -/
def reserveMax : Nat := 1024

def capReq (capped : Bool) (declared avail : Nat) : Nat :=
  if capped then min (min declared avail) reserveMax else declared

def reserveElemsWith (p : Bytes → Res) (rv : Bytes → Nat) : Nat → Bytes → Nat
  | 0, _ => 0
  | k+1, d => match p d with
    | .ok _ r => max (rv d) (reserveElemsWith p rv k r)
    | _ => rv d

/-- Largest `Vec::with_capacity` request made while parsing `d`, in frame slots
    (a map pair counts as two). -/
def reserveOf (capped : Bool) : Nat → Bytes → Nat
  | 0, _ => 0
  | fuel+1, d =>
    match d with
    | [] => 0
    | t :: body =>
      if t = 42 then
        match splitCRLF body with
        | none => 0
        | some (l, r) => match parseI64 l with
          | none => 0
          | some n => if n < 0 then 0 else
              max (capReq capped n.toNat d.length)
                (reserveElemsWith (parseFrame fuel) (reserveOf capped fuel) n.toNat r)
      else if t = 37 then
        match splitCRLF body with
        | none => 0
        | some (l, r) => match parseU64 l with
          | none => 0
          | some n =>
              max (2 * capReq capped n d.length)
                (reserveElemsWith (parseFrame fuel) (reserveOf capped fuel) (2 * n) r)
      else if t = 126 then
        match splitCRLF body with
        | none => 0
        | some (l, r) => match parseU64 l with
          | none => 0
          | some n =>
              max (capReq capped n d.length)
                (reserveElemsWith (parseFrame fuel) (reserveOf capped fuel) n r)
      else 0

/-! ### The incremental parser object (`RespParser`) -/

def isWs (b : Nat) : Bool := b == 32 || b == 13 || b == 10 || b == 9
def isNl (b : Nat) : Bool := b == 13 || b == 10
def isSpNl (b : Nat) : Bool := b == 32 || b == 13 || b == 10

def pingFrame : Frame := .array [.bulk [80, 73, 78, 71]]

/-- Is `b` a non-empty proper prefix of `PING`? -/
def isPingProperPrefix (b : Bytes) : Bool :=
  b == [80] || b == [80, 73] || b == [80, 73, 78]

inductive PRes where
  | none
  | err
  | frame (f : Frame)
  deriving Repr, BEq

def pingBytes : Bytes := [80, 73, 78, 71]

/-- The unread bytes after a leading raw `PING`, if there is one. -/
def stripPing (b : Bytes) : Option Bytes :=
  if b.take 4 = pingBytes then some (b.drop 4) else none

/-- `RespParser::parse` on the unread bytes; returns the result and the new unread bytes.
    `pingFix = false` is the pinned tree (a split inline `PING` falls through to
    "invalid type byte"); `true` waits for more data on a proper prefix of `PING`. -/
def parserParse (pingFix : Bool) (buf : Bytes) : PRes × Bytes :=
  let b := buf.dropWhile isWs
  if b.isEmpty then (.none, b)
  else match stripPing b with
    | some t => (.frame pingFrame, t.dropWhile isSpNl)
    | none =>
      if pingFix && isPingProperPrefix b then (.none, b)
      else match parseBytes b with
        | .need => (.none, b)
        | .err => (.err, b)
        | .ok f r => (.frame f, r.dropWhile isNl)

/-- Events a reader of the parser sees. -/
inductive Ev where
  | frame (f : Frame)
  | err
  deriving Repr, BEq

/-- Call `parse` until it asks for more data or fails. Fuel: one per frame. -/
def drainF (pingFix : Bool) : Nat → Bytes → List Ev × Bytes × Bool
  | 0, buf => ([], buf, false)
  | n+1, buf => match parserParse pingFix buf with
    | (.none, b) => ([], b, false)
    | (.err, b) => ([.err], b, true)
    | (.frame f, b) =>
      let (evs, b', e) := drainF pingFix n b
      (.frame f :: evs, b', e)

def drain (pingFix : Bool) (buf : Bytes) : List Ev × Bytes × Bool :=
  drainF pingFix (buf.length + 1) buf

/-- Feed chunks one at a time, draining after each; stop at the first error
    (the connection is dead or wedged from then on). -/
def runChunks (pingFix : Bool) : Bytes → List Bytes → List Ev
  | _, [] => []
  | buf, c :: cs =>
    let (evs, b', e) := drain pingFix (buf ++ c)
    if e then evs else evs ++ runChunks pingFix b' cs

def runWhole (pingFix : Bool) (s : Bytes) : List Ev := (drain pingFix s).1

end Ferrous
