/-
  The connection-level order of processing and the authentication gate (C17) — import-free
  (core Lean and other Model files only).

  Transliteration of `src/network/server.rs` as it is NOW:

    accept_single_connection   initial state: `Connected` when a password is configured, else `Authenticated`
    process_connection         per parsed frame: (a) the special cases of the frame loop that run BEFORE
                               `process_frame` — today `command == "SYNC" || command == "PSYNC"` →
                               `handle_sync_command` — then (b) `process_frame`
    process_frame              frame shape, name = lossy-UTF-8 · trim · upper-case, connection lookup,
                               THE GATE `password.is_some() && conn_status != Authenticated` with its
                               allow-list `match`, then (c) dispatch
    handle_auth                arity, bulk string, `String::from_utf8`, `==` with the configured password
    handle_sync_command        SYNC / PSYNC: RDB image of the whole dataset written to the connection,
                               connection registered as a replica
    wake_client / process_blocked_timeouts   `Blocked → Authenticated`

  Dispatch (everything after the gate: MONITOR, MULTI/EXEC, pub/sub, REPLCONF, the 120-arm `match` of
  `process_normal_command`, EVAL …) is a PARAMETER `h` of the model: the gate precedes it, so the
  theorems hold for every dispatch function.  The two name normalisations
  (`String::from_utf8_lossy(..).to_uppercase()` in the connection loop, with `.trim()` in
  `process_frame`) are parameters too (fields of `Cfg`); `Code.normLoop` / `Code.normFrame` are the
  concrete ones used by the driver and the witness lemmas.

  The lists `Cfg.preGate` / `Cfg.allow` come from `Gen/Auth.lean` (regenerated from server.rs on every
  run).  `preGate = []` is the repaired order of processing (the prescribed behaviour).

  Not part of the state: statistics counters (`total_commands_processed`, `auth_failures`,
  `auth_successes`) — a refused frame increments them.
-/
import FerrousSpec.Model.Bytes
import FerrousSpec.Model.Keyspace
namespace Ferrous.Auth
open Ferrous

/-! ### Names and normalisation -/

/-- ASCII code points of a table name (kernel-reducible, unlike `String.toUTF8`). -/
def nameBytes (s : String) : Bytes := s.toList.map Char.toNat

def AUTH : Bytes := [65, 85, 84, 72]
def PING : Bytes := [80, 73, 78, 71]
def QUIT : Bytes := [81, 85, 73, 84]
def SYNC : Bytes := [83, 89, 78, 67]
def PSYNC : Bytes := [80, 83, 89, 78, 67]

/-- `String::from_utf8_lossy(bytes).to_uppercase()`, exact on the only question the server asks of the
    result — "is it equal to this ASCII name?": ASCII letters are upper-cased; the ten non-ASCII
    characters whose Unicode upper-case mapping is pure ASCII are mapped (ß→SS, ı→I, ſ→S, ﬀ→FF, ﬁ→FI,
    ﬂ→FL, ﬃ→FFI, ﬄ→FFL, ﬅ→ST, ﬆ→ST); every other byte is kept (the real result is then non-ASCII as well:
    an upper-cased non-ASCII character or U+FFFD, never equal to an ASCII name). -/
def upperLossy : Bytes → Bytes
  | [] => []
  | 195 :: 159 :: t => 83 :: 83 :: upperLossy t            -- ß
  | 196 :: 177 :: t => 73 :: upperLossy t                  -- ı
  | 197 :: 191 :: t => 83 :: upperLossy t                  -- ſ
  | 239 :: 172 :: 128 :: t => 70 :: 70 :: upperLossy t     -- ﬀ
  | 239 :: 172 :: 129 :: t => 70 :: 73 :: upperLossy t     -- ﬁ
  | 239 :: 172 :: 130 :: t => 70 :: 76 :: upperLossy t     -- ﬂ
  | 239 :: 172 :: 131 :: t => 70 :: 70 :: 73 :: upperLossy t   -- ﬃ
  | 239 :: 172 :: 132 :: t => 70 :: 70 :: 76 :: upperLossy t   -- ﬄ
  | 239 :: 172 :: 133 :: t => 83 :: 84 :: upperLossy t     -- ﬅ
  | 239 :: 172 :: 134 :: t => 83 :: 84 :: upperLossy t     -- ﬆ
  | b :: t => (if 97 ≤ b ∧ b ≤ 122 then b - 32 else b) :: upperLossy t

/-- Strip leading Unicode `White_Space` (what `str::trim` removes), as UTF-8 byte sequences. Fuel = length. -/
def trimStartF : Nat → Bytes → Bytes
  | 0, s => s
  | f+1, s =>
    match s with
    | 194 :: 133 :: t => trimStartF f t                     -- U+0085
    | 194 :: 160 :: t => trimStartF f t                     -- U+00A0
    | 225 :: 154 :: 128 :: t => trimStartF f t              -- U+1680
    | 226 :: 128 :: b :: t =>
      if (128 ≤ b ∧ b ≤ 138) ∨ b = 168 ∨ b = 169 ∨ b = 175 then trimStartF f t else s   -- U+2000–200A, 2028, 2029, 202F
    | 226 :: 129 :: 159 :: t => trimStartF f t              -- U+205F
    | 227 :: 128 :: 128 :: t => trimStartF f t              -- U+3000
    | b :: t => if (9 ≤ b ∧ b ≤ 13) ∨ b = 32 then trimStartF f t else s
    | [] => []

/-- The same from the end, on the reversed string (byte sequences reversed). -/
def trimEndRevF : Nat → Bytes → Bytes
  | 0, s => s
  | f+1, s =>
    match s with
    | 133 :: 194 :: t => trimEndRevF f t
    | 160 :: 194 :: t => trimEndRevF f t
    | 128 :: 154 :: 225 :: t => trimEndRevF f t
    | 159 :: 129 :: 226 :: t => trimEndRevF f t
    | 128 :: 128 :: 227 :: t => trimEndRevF f t
    | b :: 128 :: 226 :: t =>
      if (128 ≤ b ∧ b ≤ 138) ∨ b = 168 ∨ b = 169 ∨ b = 175 then trimEndRevF f t
      else if (9 ≤ b ∧ b ≤ 13) ∨ b = 32 then trimEndRevF f (128 :: 226 :: t) else s
    | b :: t => if (9 ≤ b ∧ b ≤ 13) ∨ b = 32 then trimEndRevF f t else s
    | [] => []

def trim (s : Bytes) : Bytes :=
  let a := trimStartF s.length s
  (trimEndRevF a.length a.reverse).reverse

namespace Code
/-- the connection loop: `String::from_utf8_lossy(bytes).to_uppercase()` -/
def normLoop (name : Bytes) : Bytes := upperLossy name
/-- `process_frame`: `String::from_utf8_lossy(bytes).to_uppercase()` like the frame loop (`trimmed = false`, the code since
    40429aa: a name with blanks around it is an unknown command everywhere), or `.trim().to_uppercase()` (`trimmed = true`,
    the code before: `Gen.frameNameTrimmed`) -/
def normFrame (trimmed : Bool) (name : Bytes) : Bytes := if trimmed then upperLossy (trim name) else upperLossy name
end Code

/-! ### UTF-8 validity (`String::from_utf8`) -/

/-- `need` continuation bytes are outstanding, the next one must lie in `[lo, hi]`
    (Rust's validator: no overlong forms, no surrogates, nothing above U+10FFFF). -/
def utf8Go : Nat → Nat → Nat → Bytes → Bool
  | need, _, _, [] => need == 0
  | 0, _, _, b :: t =>
    if b < 128 then utf8Go 0 0 0 t
    else if 194 ≤ b ∧ b ≤ 223 then utf8Go 1 128 191 t
    else if b = 224 then utf8Go 2 160 191 t
    else if b = 237 then utf8Go 2 128 159 t
    else if 225 ≤ b ∧ b ≤ 239 then utf8Go 2 128 191 t
    else if b = 240 then utf8Go 3 144 191 t
    else if b = 244 then utf8Go 3 128 143 t
    else if 241 ≤ b ∧ b ≤ 243 then utf8Go 3 128 191 t
    else false
  | n+1, lo, hi, b :: t => if lo ≤ b ∧ b ≤ hi then utf8Go n 128 191 t else false

def utf8Valid (s : Bytes) : Bool := utf8Go 0 0 0 s

/-! ### State -/

/-- `ConnectionState` (src/network/connection.rs). -/
inductive CState | connected | authenticated | blocked | closing
  deriving DecidableEq, Repr

structure Conn where
  id : Nat
  state : CState
  deriving DecidableEq, Repr

/-- A request argument: a bulk string, or any other RESP value (`none`). -/
abbrev Arg := Option Bytes

/-- The shapes `process_frame` distinguishes. -/
inductive Req where
  /-- non-empty array whose first element is a bulk string -/
  | cmd (name : Bytes) (args : List Arg)
  /-- non-empty array whose first element is not a bulk string: `ERR invalid command format` -/
  | badName
  /-- anything else (empty or null array, a scalar): `ERR invalid request format` -/
  | notArray
  deriving DecidableEq, Repr

/-- What an arm of the gate's allow-list `match` does. -/
inductive Arm | auth | ping | okOnly | other
  deriving DecidableEq, Repr

/-- The server: `D` is the dataset (all databases). -/
structure Server (D : Type) where
  /-- `config.password` — fixed at start-up -/
  password : Option Bytes
  /-- connection table (`ShardedConnections`): first entry with the id counts -/
  conns : List Conn
  store : D
  /-- channel and pattern subscriptions `(connection, channel-or-pattern)` -/
  subs : List (Nat × Bytes)
  /-- `ReplicationManager.replicas`: connections that receive every later write -/
  replicas : List Nat
  /-- `monitor_subscribers` -/
  monitors : List Nat
  /-- replication id, backlog window `[start, start+size)` (PSYNC's partial resynchronisation) -/
  replId : Bytes := []
  backlogStart : Nat := 0
  backlogSize : Nat := 0
  deriving DecidableEq, Repr

inductive ErrKind | noauth | other
  deriving DecidableEq, Repr

/-- Replies, as far as this property looks at them. `R` = reply type of dispatch. -/
inductive Reply (D R : Type) where
  | error (k : ErrKind)
  | ok
  | pong
  /-- `PING x` answers `x` (the client's own argument) -/
  | echo (a : Arg)
  /-- the RDB image of the WHOLE dataset written to the connection, then `+FULLRESYNC <replid> <offset>` -/
  | fullResync (image : D)
  | continue_
  | dispatched (r : R)
  deriving DecidableEq, Repr

def Reply.isError {D R : Type} : Reply D R → Bool
  | .error _ => true
  | _ => false

/-- Dispatch: everything `process_frame` does after the gate. -/
abbrev Dispatch (D R : Type) := Server D → Nat → Bytes → List Arg → Server D × R

/-- The order of processing as regenerated from the source, plus the two normalisations. -/
structure Cfg where
  /-- names handled in the connection loop before `process_frame` without an authentication test (`Gen.preGate`) -/
  preGate : List Bytes
  /-- arms of the gate's `match` (`Gen.authAllow`) -/
  allow : List (Bytes × Arm)
  normLoop : Bytes → Bytes
  normFrame : Bytes → Bytes
  /-- `responses.push(response); if should_close { break; }`: the frames behind QUIT in the same read are neither executed
      nor answered (`Gen.quitEndsBatch`; false = the code before 2edcdbe, which executed them all and closed afterwards) -/
  quitEndsBatch : Bool := false

def stateOf (cs : List Conn) (c : Nat) : Option CState :=
  match cs with
  | [] => none
  | x :: t => if x.id = c then some x.state else stateOf t c

/-- `connections.with_connection(c, |conn| conn.state = st)`: nothing happens when `c` is unknown. -/
def setState (cs : List Conn) (c : Nat) (st : CState) : List Conn :=
  match cs with
  | [] => []
  | x :: t => if x.id = c then { x with state := st } :: t else x :: setState t c st

def removeConn (cs : List Conn) (c : Nat) : List Conn :=
  match cs with
  | [] => []
  | x :: t => if x.id = c then removeConn t c else x :: removeConn t c

/-- first arm whose pattern equals the name (Rust `match`) -/
def findArm (arms : List (Bytes × Arm)) (n : Bytes) : Option Arm :=
  match arms with
  | [] => none
  | (k, a) :: t => if k = n then some a else findArm t n

def armOfString (s : String) : Arm :=
  if s = "auth" then .auth else if s = "ping" then .ping else if s = "okOnly" then .okOnly else .other

/-- `Cfg` from the generated tables. -/
def Cfg.ofTables (preGate : List String) (allow : List (String × String))
    (normLoop normFrame : Bytes → Bytes) (quitEndsBatch : Bool := false) : Cfg :=
  { preGate := preGate.map nameBytes
    allow := allow.map fun p => (nameBytes p.1, armOfString p.2)
    normLoop := normLoop, normFrame := normFrame, quitEndsBatch := quitEndsBatch }

/-- The tree as pinned when this model was written: SYNC and PSYNC run before the gate. -/
def Cfg.pinned : Cfg :=
  { preGate := [SYNC, PSYNC], allow := [(AUTH, .auth), (PING, .ping), (QUIT, .okOnly)]
    normLoop := Code.normLoop, normFrame := Code.normFrame true }

/-- The repaired order of processing: nothing runs before the gate. -/
def Cfg.repaired (cfg : Cfg) : Cfg := { cfg with preGate := [] }

/-- every arm of the allow-list is one the model knows (AUTH-, PING-, `+OK`-like) -/
def Cfg.allowKnown (cfg : Cfg) : Bool := cfg.allow.all fun p => p.2 != .other

namespace Code
variable {D R : Type}

/-- `handle_auth`: `AUTH password` authenticates the CALLING connection iff the argument is a bulk string,
    valid UTF-8, and equal to the configured password.  Every other outcome is an error reply and
    changes nothing. -/
def auth (s : Server D) (c : Nat) (args : List Arg) : Server D × Reply D R :=
  match args with
  | [some p] =>
    if utf8Valid p then
      match s.password with
      | some pw =>
        if p = pw then ({ s with conns := setState s.conns c .authenticated }, .ok)
        else (s, .error .other)                       -- ERR invalid password
      | none => (s, .error .other)                    -- ERR Client sent AUTH, but no password is set
    else (s, .error .other)                           -- ERR invalid password format
  | [none] => (s, .error .other)                      -- ERR invalid password format
  | _ => (s, .error .other)                           -- ERR wrong number of arguments

/-- `handle_ping`: `parts[1].clone()` if present, else `+PONG`. -/
def ping (args : List Arg) : Reply D R :=
  match args with
  | [] => .pong
  | a :: _ => .echo a

/-- `ReplicationManager::add_replica`: a map keyed by the connection id (entries are never removed). -/
def registerReplica (s : Server D) (c : Nat) : Server D :=
  { s with replicas := if c ∈ s.replicas then s.replicas else c :: s.replicas }

/-- `handle_sync_command` on a master.  SYNC: always a full resynchronisation.  PSYNC: arity 2, both bulk,
    offset `-1` or a u64; partial resynchronisation (`+CONTINUE`, nothing else) when an id other than `?`
    equal to the master's and an offset inside the backlog are given; else full.  A full resynchronisation
    writes the RDB image of the whole dataset to the connection and registers it as a replica.
    Any other name that reaches this point is unknown to the model: worst case, dispatch. -/
def syncCommand (h : Dispatch D R) (s : Server D) (c : Nat) (n name : Bytes) (args : List Arg) : Server D × Reply D R :=
  if n = SYNC then (registerReplica s c, .fullResync s.store)
  else if n = PSYNC then
    match args with
    | [some rid, some off] =>
      if off = [45, 49] then (registerReplica s c, .fullResync s.store)
      else match parseU64 off with
        | none => (s, .error .other)                  -- ERR invalid offset format
        | some o =>
          if rid ≠ [63] ∧ rid = s.replId ∧ s.backlogStart ≤ o ∧ o < s.backlogStart + s.backlogSize
          then (s, .continue_)
          else (registerReplica s c, .fullResync s.store)
    | [_, _] => (s, .error .other)                    -- ERR invalid replication ID / offset format
    | _ => (s, .error .other)                         -- ERR wrong number of arguments for 'psync'
  else let (s', r) := h s c name args; (s', .dispatched r)

/-- `process_frame`. -/
def processFrame (cfg : Cfg) (h : Dispatch D R) (s : Server D) (c : Nat) (req : Req) : Server D × Reply D R :=
  match req with
  | .notArray => (s, .error .other)
  | .badName => (s, .error .other)
  | .cmd name args =>
    let n := cfg.normFrame name
    match stateOf s.conns c with
    | none => (s, .error .other)                      -- ERR connection not found
    | some st =>
      if s.password.isSome ∧ st ≠ .authenticated then
        -- THE GATE
        match findArm cfg.allow n with
        | some .auth => auth s c args
        | some .ping => (s, ping args)
        | some .okOnly => (s, .ok)
        | some .other => let (s', r) := h s c name args; (s', .dispatched r)
        | none => (s, .error .noauth)
      else if n = AUTH then auth s c args            -- "Handle AUTH after authentication too"
      else let (s', r) := h s c name args; (s', .dispatched r)

/-- One parsed frame in the frame loop of `process_connection`. -/
def processConnectionFrame (cfg : Cfg) (h : Dispatch D R) (s : Server D) (c : Nat) (req : Req) : Server D × Reply D R :=
  match req with
  | .cmd name args =>
    if cfg.normLoop name ∈ cfg.preGate then syncCommand h s c (cfg.normLoop name) name args
    else processFrame cfg h s c req
  | _ => processFrame cfg h s c req

/-- The frames of one read, in order (a pipeline). -/
def runFrames (cfg : Cfg) (h : Dispatch D R) (s : Server D) (c : Nat) : List Req → Server D × List (Reply D R)
  | [] => (s, [])
  | r :: rs =>
    let (s1, a) := processConnectionFrame cfg h s c r
    let (s2, as) := runFrames cfg h s1 c rs
    (s2, a :: as)

/-- `if command == "QUIT" { should_close = true; }` in the frame loop: the name as the LOOP normalises it, whoever sends it -/
def isQuit (cfg : Cfg) : Req → Bool
  | .cmd name _ => cfg.normLoop name == QUIT
  | _ => false

/-- `process_connection` since the deferred-frames repair (c0e7003): the loop stops at a frame that left the
    connection `Blocked` (a BLPOP/BRPOP that blocked); the rest of the batch is kept in
    `Connection::deferred_frames` and is executed — frame by frame through this same function, so through the
    gate — at the head of the connection's next `process_connection`, after the client was unblocked.
    Returns the frames kept back.  In the event language below a deferred execution is simply a later
    `batch` of the same connection (`[batch c pre, wake c, batch c rest]`), so every theorem about histories
    covers it; `deferral_needs_authentication` (Props/C17) shows that nothing is ever kept back for a
    connection that has not authenticated (it cannot block).
    Since 2edcdbe (`cfg.quitEndsBatch`) the loop also stops behind a QUIT: what follows it in the same read is dropped —
    neither executed nor answered, for authenticated and unauthenticated connections alike (`nothing_runs_behind_quit`). -/
def runFramesD (cfg : Cfg) (h : Dispatch D R) (s : Server D) (c : Nat) : List Req → Server D × List (Reply D R) × List Req
  | [] => (s, [], [])
  | r :: rs =>
    let (s1, a) := processConnectionFrame cfg h s c r
    if cfg.quitEndsBatch && isQuit cfg r then (s1, [a], [])
    else if stateOf s1.conns c = some .blocked then (s1, [a], rs)
    else
      let (s2, as, d) := runFramesD cfg h s1 c rs
      (s2, a :: as, d)

/-- `process_connection`: the frames of the read are processed by the loop above (which may stop early: behind QUIT, at a
    command that blocked), then `should_close` (a QUIT among the frames that were processed) moves the connection to
    `Closing`.  The frames kept back are not part of the state here: they are a later `batch` event. -/
def processBatch (cfg : Cfg) (h : Dispatch D R) (s : Server D) (c : Nat) (reqs : List Req) : Server D × List (Reply D R) :=
  let r := runFramesD cfg h s c reqs
  (if (reqs.take r.2.1.length).any (isQuit cfg) then { r.1 with conns := setState r.1.conns c .closing } else r.1, r.2.1)

/-- What the event loop does, as far as connection states are concerned. -/
inductive Event where
  | accept (c : Nat)                       -- accept_single_connection (ids are fresh: an existing id is left alone)
  | batch (c : Nat) (reqs : List Req)      -- process_connection
  | wake (c : Nat)                         -- wake_client / process_blocked_timeouts: Blocked → Authenticated
  | close (c : Nat)                        -- I/O error, time-out: → Closing
  | drop (c : Nat)                         -- cleanup_connections: connection, subscriptions, monitor entry removed
  deriving DecidableEq, Repr

def applyEvent (cfg : Cfg) (h : Dispatch D R) (s : Server D) : Event → Server D × List (Reply D R)
  | .accept c =>
    (match stateOf s.conns c with
     | some _ => s
     | none => { s with conns := ⟨c, if s.password.isSome then .connected else .authenticated⟩ :: s.conns }, [])
  | .batch c reqs => processBatch cfg h s c reqs
  | .wake c =>
    (match stateOf s.conns c with
     | some .blocked => { s with conns := setState s.conns c .authenticated }
     | _ => s, [])
  | .close c => ({ s with conns := setState s.conns c .closing }, [])
  | .drop c =>
    ({ s with conns := removeConn s.conns c, subs := s.subs.filter (fun p => p.1 ≠ c),
              monitors := s.monitors.filter (· ≠ c) }, [])

/-- A history of the event loop; the replies of each event are kept apart. -/
def run (cfg : Cfg) (h : Dispatch D R) (s : Server D) : List Event → Server D × List (List (Reply D R))
  | [] => (s, [])
  | e :: es =>
    let (s1, a) := applyEvent cfg h s e
    let (s2, as) := run cfg h s1 es
    (s2, a :: as)

end Code

/-! ### Where the password comes from (src/config: cli.rs, parser.rs, mod.rs `apply_cli_args`, main.rs) -/

/-- `apply_cli_args`: the command-line password replaces the file's only when one was given (`ifGiven`, the code as
    it is), or the field is assigned the command line's `Option` unconditionally (`always`: no command-line
    password wipes the one from the file). -/
inductive CliRule | ifGiven | always
  deriving DecidableEq, Repr

/-- `str::splitn(2, ' ')`: the text before the first blank and the whole rest; `none` when there is no blank. -/
def splitFirstBlank : Bytes → Option (Bytes × Bytes)
  | [] => none
  | b :: t => if b = 32 then some ([], t) else (splitFirstBlank t).map fun p => (b :: p.1, p.2)

def REQUIREPASS : Bytes := [114, 101, 113, 117, 105, 114, 101, 112, 97, 115, 115]

namespace Code
/-- One line of the configuration file (`parse_config_file`): trim; nothing if empty or if the first character is `#`;
    split at the first blank (no blank: a format error, the server does not start — `none` here as well); the
    directive is trimmed and lower-cased, the value is the WHOLE rest, trimmed.  `hashCuts = true` is a variant that
    first drops everything from the first `#` on (a "trailing comment"), which truncates values containing `#`. -/
def parseConfigLine (hashCuts : Bool) (line : Bytes) : Option (Bytes × Bytes) :=
  let l := trim line
  if l = [] ∨ l.head? = some 35 then none else
  let l := if hashCuts then trim (l.takeWhile (· ≠ 35)) else l
  match splitFirstBlank l with
  | none => none
  | some (p, v) => some ((trim p).map (fun b => if 65 ≤ b ∧ b ≤ 90 then b + 32 else b), trim v)

/-- the values of the `requirepass` lines of a file, in order -/
def filePasswords (hashCuts : Bool) (lines : List Bytes) : List Bytes :=
  lines.filterMap fun l => match parseConfigLine hashCuts l with
    | some (p, v) => if p = REQUIREPASS then some v else none
    | none => none

/-- `cli`: the values of `--requirepass` / `--password` in command-line order (the last one stays in `CliArgs`);
    `file`: the values of the configuration file's `requirepass` lines in order (the last one stays).
    main.rs: file first, then the command line on top. -/
def effectivePassword (rule : CliRule) (cli file : List Bytes) : Option Bytes :=
  match rule with
  | .ifGiven => match cli.getLast? with
    | some p => some p
    | none => file.getLast?
  | .always => cli.getLast?
end Code

/-! ### The line grammar of the configuration file, with its switches (src/config/parser.rs) -/

/-- `sdssplitargs` white space (C `isspace`). -/
def isSp (b : Nat) : Bool := b == 32 || (9 ≤ b && b ≤ 13)

def hexv (b : Nat) : Option Nat :=
  if 48 ≤ b ∧ b ≤ 57 then some (b - 48) else if 97 ≤ b ∧ b ≤ 102 then some (b - 87) else if 65 ≤ b ∧ b ≤ 70 then some (b - 55) else none

def hexd (n : Nat) : Nat := if n < 10 then 48 + n else 87 + n

/-- the character behind a backslash inside double quotes -/
def escChar (c : Nat) : Nat :=
  if c = 110 then 10 else if c = 114 then 13 else if c = 116 then 9 else if c = 98 then 8 else if c = 97 then 7 else c

/-- inside double quotes: `\\xHH`, `\\n \\r \\t \\b \\a`, `\\c` = c; the closing quote must be followed by white space or the end.
    Returns the argument and what follows it; `none` = unbalanced quotes.  First argument: fuel (the length suffices). -/
def dqF : Nat → Bytes → Bytes → Option (Bytes × Bytes)
  | 0, _, _ => none
  | _, _, [] => none
  | f+1, acc, b :: t =>
    if b = 92 then
      match t with
      | [] => none
      | c :: t' =>
        if c = 120 then
          match t' with
          | h1 :: h2 :: t'' =>
            (match hexv h1, hexv h2 with
             | some x, some y => dqF f (acc ++ [x * 16 + y]) t''
             | _, _ => dqF f (acc ++ [120]) t')
          | _ => dqF f (acc ++ [120]) t'
        else dqF f (acc ++ [escChar c]) t'
    else if b = 34 then
      match t with
      | [] => some (acc, [])
      | c :: _ => if isSp c then some (acc, t) else none
    else dqF f (acc ++ [b]) t

def dq (acc s : Bytes) : Option (Bytes × Bytes) := dqF (s.length + 1) acc s

/-- inside single quotes: only `\\'` is an escape -/
def sqF : Nat → Bytes → Bytes → Option (Bytes × Bytes)
  | 0, _, _ => none
  | _, _, [] => none
  | f+1, acc, b :: t =>
    if b = 92 then
      match t with
      | 39 :: t' => sqF f (acc ++ [39]) t'
      | _ => sqF f (acc ++ [92]) t
    else if b = 39 then
      match t with
      | [] => some (acc, [])
      | c :: _ => if isSp c then some (acc, t) else none
    else sqF f (acc ++ [b]) t

def sq (acc s : Bytes) : Option (Bytes × Bytes) := sqF (s.length + 1) acc s

/-- an argument that starts unquoted: up to white space; a quote switches to the quoted mode, which ends the argument -/
def tokU : Bytes → Bytes → Option (Bytes × Bytes)
  | acc, [] => some (acc, [])
  | acc, b :: t =>
    if isSp b || b == 0 then some (acc, t)
    else if b = 34 then dq acc t
    else if b = 39 then sq acc t
    else tokU (acc ++ [b]) t

def skipSp : Bytes → Bytes
  | [] => []
  | b :: t => if isSp b then skipSp t else b :: t

/-- Redis's `sdssplitargs`: the arguments of a line; `none` = unbalanced quotes (or a closing quote followed by text). -/
def splitArgsF : Nat → Bytes → Option (List Bytes)
  | 0, _ => none
  | f+1, s =>
    match skipSp s with
    | [] => some []
    | b :: t =>
      match tokU [] (b :: t) with
      | none => none
      | some (a, rest) => (splitArgsF f rest).map fun as => a :: as

def splitArgs (s : Bytes) : Option (List Bytes) := splitArgsF (s.length + 1) s

/-- byte length of a `char::is_whitespace` character at the head of a UTF-8 string (0: none) -/
def wsLen : Bytes → Nat
  | 194 :: 133 :: _ => 2
  | 194 :: 160 :: _ => 2
  | 225 :: 154 :: 128 :: _ => 3
  | 226 :: 128 :: b :: _ => if (128 ≤ b ∧ b ≤ 138) ∨ b = 168 ∨ b = 169 ∨ b = 175 then 3 else 0
  | 226 :: 129 :: 159 :: _ => 3
  | 227 :: 128 :: 128 :: _ => 3
  | b :: _ => if (9 ≤ b ∧ b ≤ 13) ∨ b = 32 then 1 else 0
  | [] => 0

/-- `str::split_once(char::is_whitespace)`: the text before the first white-space character of any kind, and the rest -/
def splitFirstWs : Bytes → Option (Bytes × Bytes)
  | [] => none
  | b :: t => if wsLen (b :: t) > 0 then some ([], (b :: t).drop (wsLen (b :: t)))
              else (splitFirstWs t).map fun p => (b :: p.1, p.2)

def BOM : Bytes := [239, 187, 191]

def lowerAscii (s : Bytes) : Bytes := s.map fun b => if 65 ≤ b ∧ b ≤ 90 then b + 32 else b

/-- The switches of the configuration-file grammar.  All `false` = the code as pinned (`Grammar.pinned`); all `true` = what
    the property prescribes (`Grammar.spec`: Redis's reading of a redis.conf line). -/
structure Grammar where
  /-- the directive name ends at the first white space of ANY kind (false: at the first blank only — a TAB-separated line is
      cut at a blank further right, e.g. inside a quoted password, and the mangled name is skipped as unknown) -/
  anyWs : Bool
  /-- a UTF-8 byte-order mark in front of the first line is not part of the directive name -/
  bom : Bool
  /-- the value of `requirepass` is the single `sdssplitargs` argument of the rest of the line (quotes and escapes removed;
      no argument, several arguments or unbalanced quotes: the server does not start); false: the rest of the line verbatim -/
  unquote : Bool
  deriving DecidableEq, Repr

def Grammar.pinned : Grammar := ⟨false, false, false⟩
def Grammar.spec : Grammar := ⟨true, true, true⟩

inductive LineResult
  | skip                       -- empty line or comment
  | requirepass (v : Bytes)    -- the password becomes `v`
  | other                      -- another directive, known or (with a warning) unknown: the password is not touched
  | error                      -- the server does not start
  deriving DecidableEq, Repr

inductive Outcome
  | startError
  | running (password : Option Bytes)
  deriving DecidableEq, Repr

namespace Code

/-- the line as `parse_config_file` sees it before it cuts it: BOM (first line, if the grammar strips it), then `trim` -/
def prepLine (g : Grammar) (first : Bool) (line : Bytes) : Bytes :=
  trim (if g.bom && first && line.take 3 == BOM then line.drop 3 else line)

/-- One line of the configuration file under grammar `g`. -/
def parseLine (g : Grammar) (first : Bool) (line : Bytes) : LineResult :=
  let l := prepLine g first line
  if l = [] ∨ l.head? = some 35 then .skip else
  match (if g.anyWs then splitFirstWs l else splitFirstBlank l) with
  | none => .error                                       -- ConfigParseError::Format
  | some (p, v) =>
    if lowerAscii (if g.anyWs then p else trim p) = REQUIREPASS then
      if g.unquote then
        match splitArgs (trim v) with
        | some [a] => if utf8Valid a then .requirepass a else .error      -- the password is a `String`
        | _ => .error
      else .requirepass (trim v)
    else .other

def loadFrom (g : Grammar) : Bool → Option Bytes → List Bytes → Outcome
  | _, pw, [] => .running pw
  | first, pw, l :: ls =>
    match parseLine g first l with
    | .error => .startError
    | .requirepass v => loadFrom g false (some v) ls
    | _ => loadFrom g false pw ls

/-- The whole file: does the server start, and with which password (before the command line is applied)? -/
def loadConfig (g : Grammar) (lines : List Bytes) : Outcome := loadFrom g true none lines

end Code

/-- A line that anybody reads as a `requirepass` directive: after an optional byte-order mark (first line) and surrounding
    white space, its first white-space-delimited word is `requirepass` in any letter case.  (Independent of the switches.) -/
def looksLikeRequirepass (first : Bool) (line : Bytes) : Bool :=
  let l := trim (if first && line.take 3 == BOM then line.drop 3 else line)
  match splitFirstWs l with
  | some (p, _) => lowerAscii p == REQUIREPASS
  | none => lowerAscii l == REQUIREPASS

/-- the quoted form of an arbitrary byte string: printable ASCII except `"` and `\` as it is, everything else `\xHH` -/
def quoteArg (p : Bytes) : Bytes :=
  34 :: (p.flatMap fun b => if 32 ≤ b ∧ b < 127 ∧ b ≠ 34 ∧ b ≠ 92 then [b] else [92, 120, hexd (b / 16), hexd (b % 16)]) ++ [34]

/-! ### What the property prescribes -/

namespace Spec

/-- A server that was given a password by ANY supported means has one: the command line's last, else the
    file's last. -/
def configuredPassword (cli file : List Bytes) : Option Bytes :=
  match cli.getLast? with
  | some p => some p
  | none => file.getLast?

/-- The three commands an unauthenticated connection may use. -/
def harmless : List Bytes := [AUTH, PING, QUIT]

/-- May a connection in this situation have the request `name` carried out?  (`name` already normalised.) -/
def mayExecute (passwordSet authenticated : Bool) (name : Bytes) : Bool :=
  !passwordSet || authenticated || decide (name ∈ harmless)

/-- `AUTH` with these arguments authenticates iff it carries exactly the configured password. -/
def authenticates (password : Option Bytes) (args : List Arg) : Bool :=
  match password, args with
  | some pw, [some p] => decide (p = pw)
  | _, _ => false

end Spec

/-- "Not authenticated, never was": the gate refuses, and no wake-up can promote. -/
def low (st : Option CState) : Prop := st ≠ some .authenticated ∧ st ≠ some .blocked

instance (st : Option CState) : Decidable (low st) := by unfold low; exact inferInstance

/-- What the theorems about whole histories assume of dispatch (it runs only for connections that passed the
    gate): it does not reassign the password and never moves a connection that is neither `Authenticated` nor
    `Blocked` into one of these states.  Tie to the code: `Gen.authenticatedWriters`, `Gen.blockedWriters`,
    `Gen.passwordRuntimeWrites`. -/
structure Honest {D R : Type} (h : Dispatch D R) : Prop where
  keepsPassword : ∀ s c n a, (h s c n a).1.password = s.password
  keepsLow : ∀ s c n a b, low (stateOf s.conns b) → low (stateOf (h s c n a).1.conns b)

/-- Does `process_frame` hand this (normalised) name to `handle_auth`? -/
def isAuthName (cfg : Cfg) (n : Bytes) : Bool := findArm cfg.allow n == some .auth || n == AUTH

/-- A request that reaches `handle_auth` and carries exactly the password. -/
def isExactAuth (cfg : Cfg) (pw : Bytes) : Req → Bool
  | .cmd name args => isAuthName cfg (cfg.normFrame name) && Spec.authenticates (some pw) args
  | _ => false

/-- How an UNAUTHENTICATED connection's request with this name is treated when a password is set. -/
inductive Class | pregate | allowed | refused
  deriving DecidableEq, Repr

def classify (cfg : Cfg) (name : Bytes) : Class :=
  if cfg.normLoop name ∈ cfg.preGate then .pregate
  else if (findArm cfg.allow (cfg.normFrame name)).isSome then .allowed
  else .refused

/-! ### An instance of dispatch: the key-space machine (used by the driver and the non-vacuity examples) -/

/-- Data commands on database 0 through `KS.step`; a non-bulk argument is an error. -/
def ksDispatch (q : KS.Quirks) (now : Nat) : Dispatch KS.Store Frame := fun s _ name args =>
  match args.mapM id with
  | some bs => let r := KS.step q s.store 0 now (name :: bs) none; ({ s with store := r.1 }, r.2)
  | none => (s, KS.err)

end Ferrous.Auth
