/-
  The write path of a connection (network/connection.rs: `send_frame`, `send_raw`, `flush`,
  `has_pending_writes`): replies are appended to `write_buffer`; `flush` hands
  `write_buffer[write_offset..]` to the socket, which accepts SOME of it (a partial write, or nothing when
  it would block); `write_offset` remembers how far the buffer has gone out; the buffer is cleared once
  everything has.  `adv` is the one decision that matters: after the socket accepted `k` bytes the offset
  is ADVANCED by `k` (`+=`, the code) — the variant that assigns (`=`) is kept to show what the theorem rules out.
-/
import FerrousSpec.Model.Bytes
namespace Ferrous.WBuf

structure W where
  buf : Bytes := []
  off : Nat := 0
deriving Repr, DecidableEq

inductive Ev where
  | send (bs : Bytes)        -- a reply serialised into the buffer (send_frame / send_raw)
  | write (n : Nat)          -- one `stream.write` call in which the socket takes at most `n` bytes (0 = would block)
deriving Repr

def pending (w : W) : Bytes := w.buf.drop w.off

/-- `Connection::flush`'s bookkeeping for one `write` call that accepted `k = min n remaining` bytes. -/
def step (adv : Bool) (w : W) : Ev → W × Bytes
  | .send bs => ({ w with buf := w.buf ++ bs }, [])
  | .write n =>
    let k := min n (pending w).length
    let out := (pending w).take k
    let off' := if adv then w.off + k else k
    (if off' ≥ w.buf.length then { buf := [], off := 0 } else { w with off := off' }, out)

/-- bytes put on the wire, in order, by a history of sends and partial writes; and the final state -/
def run (adv : Bool) : W → List Ev → W × Bytes
  | w, [] => (w, [])
  | w, e :: r =>
    let (w1, o1) := step adv w e
    let (w2, o2) := run adv w1 r
    (w2, o1 ++ o2)

/-- everything that was ever handed to the connection, in order -/
def sent : List Ev → Bytes
  | [] => []
  | .send bs :: r => bs ++ sent r
  | .write _ :: r => sent r

end Ferrous.WBuf
