/-
  Streams (C15) — import-free transliteration of `src/storage/stream.rs`
  (`StreamId`, `StreamData::{add_auto, add_with_id, range, range_after}`,
  `Stream::{trim_by_count, trim_by_min_id, delete, len}`), of the ID text parser
  (`StreamId::from_string` / `parse_u64_fast`) and of the stream handlers of
  `src/storage/commands/streams.rs` over the `StorageEngine` key lookup, plus what the
  property prescribes (`Spec.*`: filters over the ID-ordered list of present entries).

  Conventions
  * `Id` is the pair (millis, seq) with the lexicographic order, which is the order of the
    packed `u128` the code compares (`packed = millis <<< 64 ||| seq`).
  * `Code.*` does what the Rust does in *release* arithmetic; the three places where the
    pinned tree deviates from the property are switches of `Quirks` (`fixed = all true`).
  * `binary_search_by` is modelled by its documented contract on a strictly sorted slice
    (`Ok(i)` with `entries[i].id = t`, else `Err(insertion point)`): `bsearch` returns the
    number of leading entries below the target and whether the entry there is the target.
    A real halving search (`bsLoop`) is given as well and proved equal on sorted lists.
  * The wall clock (`get_cached_millis`) is an input `now` of `nextAuto`.
  * Fields are a `HashMap` in the code: the model carries them as an association list kept
    sorted by key with the last value winning (`insertField`), which is also the form in which
    both sides are compared.
-/
import FerrousSpec.Model.Bytes
namespace Ferrous.Stream

/-- 2^64 -/
def u64Mod : Nat := 18446744073709551616

/-! ### Stream IDs -/

structure Id where
  ms : Nat
  seq : Nat
  deriving DecidableEq, Repr, Inhabited

namespace Id
instance : LT Id := ⟨fun a b => a.ms < b.ms ∨ (a.ms = b.ms ∧ a.seq < b.seq)⟩
instance : LE Id := ⟨fun a b => a.ms < b.ms ∨ (a.ms = b.ms ∧ a.seq ≤ b.seq)⟩
instance (a b : Id) : Decidable (a < b) := inferInstanceAs (Decidable (_ ∨ _))
instance (a b : Id) : Decidable (a ≤ b) := inferInstanceAs (Decidable (_ ∨ _))

/-- `StreamId::new(millis, seq).packed` -/
def packed (a : Id) : Nat := a.ms * u64Mod + a.seq
/-- `StreamId::min()`, also the initial `last_id` -/
def zero : Id := ⟨0, 0⟩
/-- `StreamId::max()` -/
def top : Id := ⟨u64Max, u64Max⟩
/-- `to_string`: `millis-seq` -/
def text (a : Id) : Bytes := natDigits a.ms ++ 45 :: natDigits a.seq
end Id

abbrev Fields := List (Bytes × Bytes)
abbrev Entry := Id × Fields

/-- lexicographic order on byte strings (Rust `Vec<u8>: Ord`), used only to canonicalise field maps -/
def bytesLt : Bytes → Bytes → Bool
  | [], [] => false
  | [], _ :: _ => true
  | _ :: _, [] => false
  | a :: r, b :: s => if a < b then true else if b < a then false else bytesLt r s

/-- `HashMap::insert`: last value wins; kept sorted by key (canonical form of a map). -/
def insertField (k v : Bytes) : Fields → Fields
  | [] => [(k, v)]
  | (k', v') :: r =>
    if k = k' then (k, v) :: r
    else if bytesLt k k' then (k, v) :: (k', v') :: r
    else (k', v') :: insertField k v r

/-- the map built by the handler's loop `fields.insert(field, value)` over `f v f v …` -/
def fieldsOfArgs : List Bytes → Fields → Fields
  | k :: v :: r, acc => fieldsOfArgs r (insertField k v acc)
  | _, acc => acc

/-- the pairs `f v f v …` as given (a trailing odd argument cannot occur: the handler checks the arity) -/
def pairsOfArgs : List Bytes → Fields
  | k :: v :: r => (k, v) :: pairsOfArgs r
  | _ => []

/-- a list of pairs as the map it collapses to (canonical form) -/
def canonFields (f : Fields) : Fields := f.foldl (fun acc p => insertField p.1 p.2 acc) []

/-- Where the pinned tree deviates from the property; `true` = prescribed behaviour. -/
structure Quirks where
  /-- `range`: an end bound below every entry (`Err(0)`) selects nothing (`true`) /
      is turned into index 0 (`false`, stream.rs:281-282). -/
  rangeEndFix : Bool
  /-- auto ID when `seq = 2^64-1` and the clock has not advanced: carry into the next millisecond, and
      `StorageEngine::xadd` refuses at the very top (`true`) / `seq + 1` wraps to 0 (`false`, stream.rs:180-181). -/
  seqCarry : Bool
  /-- ID text: empty or overflowing components are refused (`true`) /
      empty reads as 0 and digits wrap modulo 2^64 (`false`, `parse_u64_fast`). -/
  parseChecked : Bool
  /-- SAVE + restart: the dump carries the stream's last ID and the loader restores it (`true`) /
      only the present entries are written, so the last ID falls back to the greatest present ID,
      0-0 for an emptied stream (`false`, rdb.rs stream writer/loader). -/
  persistLastId : Bool := false
  /-- an entry's pairs are a list in the order given, repeated names kept (`true`) /
      a `HashMap`: a repeated name keeps its last value, the order is the hasher's (`false`). -/
  fieldsList : Bool := false
  /-- `XREAD COUNT 0` means no limit (`true`) / returns nothing (`false`, `handle_xread`). -/
  readCountZeroAll : Bool := false
  /-- IDs without sequence number (`5` = `5-0`, as a range end `5-18446744073709551615`) and exclusive
      range bounds (`(5-0`) are understood (`true`) / refused (`false`, `StreamId::from_string`). -/
  idIncomplete : Bool := false
  deriving DecidableEq, Repr

/-- the tree as pinned -/
def pinned : Quirks := ⟨false, false, false, false, false, false, false⟩
/-- everything repaired -/
def fixed : Quirks := ⟨true, true, true, true, true, true, true⟩

/-! ### `binary_search_by(|e| e.id.cmp(t))` -/

/-- number of leading entries with `id < t` (on a sorted list: the insertion point) -/
def lowerBound : List Entry → Id → Nat
  | [], _ => 0
  | x :: r, t => if x.1 < t then lowerBound r t + 1 else 0

/-- number of leading entries with `id ≤ t` -/
def upperBound : List Entry → Id → Nat
  | [], _ => 0
  | x :: r, t => if x.1 ≤ t then upperBound r t + 1 else 0

/-- `(true, i)` = `Ok(i)`, `(false, i)` = `Err(i)`. -/
def bsearch (es : List Entry) (t : Id) : Bool × Nat :=
  let i := lowerBound es t
  match es[i]? with
  | some x => (decide (x.1 = t), i)
  | none => (false, i)

/-- The halving loop of `core::slice::binary_search_by` (Rust ≥ 1.82: no early exit):
    `while size > 1 { half = size/2; mid = base+half; base = if cmp(mid) == Greater {base} else {mid}; size -= half }`.
    The first argument is fuel (`size` suffices). -/
def bsLoop (es : List Entry) (t : Id) : Nat → Nat → Nat → Nat
  | 0, base, _ => base
  | f+1, base, size =>
    if size ≤ 1 then base
    else
      let half := size / 2
      let mid := base + half
      let base' := match es[mid]? with
        | some x => if t < x.1 then base else mid
        | none => base
      bsLoop es t f base' (size - half)

/-- the whole of `binary_search_by`, same result convention as `bsearch` -/
def bsearchLoop (es : List Entry) (t : Id) : Bool × Nat :=
  if es.length = 0 then (false, 0)
  else
    let base := bsLoop es t es.length 0 es.length
    match es[base]? with
    | some x => if x.1 = t then (true, base) else (false, base + (if x.1 < t then 1 else 0))
    | none => (false, base)

namespace Code

/-- `Stream` + `StreamData`: the vector, `StreamData.last_id`, and the atomics
    `last_id_millis`, `last_id_seq`, `length` (XLEN reads `length`, not the vector). -/
structure Stream where
  entries : List Entry
  lastId : Id
  atomMs : Nat
  atomSeq : Nat
  length : Nat
  deriving DecidableEq, Repr

def Stream.new : Stream := ⟨[], Id.zero, 0, 0, 0⟩

/-- `StreamId::generate_next_atomic` with clock reading `now` (single-threaded: the CAS succeeds).
    Result: the ID and the new `(last_id_millis, last_id_seq)`.  The function is total in the code;
    the `Option` is kept for the model's callers and is always `some`.
    `seqCarry = false` (pinned): `fetch_add(1)` and `seq + 1` wrap.
    `seqCarry = true`: `last_seq.checked_add(1)`, else carry `prev_millis.checked_add(1)`, else — the top of
    the ID space, which `StorageEngine::xadd` refuses before getting here — saturate at `(prev_millis, u64::MAX)`. -/
def nextAuto (q : Quirks) (now : Nat) (s : Stream) : Option (Id × Nat × Nat) :=
  if now > s.atomMs then some (⟨now, 0⟩, now, 0)
  else if q.seqCarry && decide (s.atomSeq + 1 ≥ u64Mod) then
    if s.atomMs + 1 ≥ u64Mod then some (⟨s.atomMs, u64Max⟩, s.atomMs, s.atomSeq)
    else some (⟨s.atomMs + 1, 0⟩, s.atomMs + 1, 0)
  else
    -- `let seq = last_seq.fetch_add(1)` (wraps) ; `StreamId::new(prev_millis, seq + 1)` (wraps in release)
    let seq' := (s.atomSeq + 1) % u64Mod
    some (⟨s.atomMs, seq'⟩, s.atomMs, seq')

/-- `StreamData::add_auto`: no comparison with `last_id`, plain push. -/
def addAuto (q : Quirks) (now : Nat) (f : Fields) (s : Stream) : Stream × Option Id :=
  match nextAuto q now s with
  | none => (s, none)
  | some (id, ms, sq) =>
    ({ entries := s.entries ++ [(id, f)], lastId := id, atomMs := ms, atomSeq := sq, length := s.length + 1 }, some id)

/-- `id == StreamId::max()` for u64 halves (`v = u64::MAX ↔ v + 1 ≥ 2^64`): no greater ID exists. -/
def isTopId (a : Id) : Bool := decide (a.ms + 1 ≥ u64Mod) && decide (a.seq + 1 ≥ u64Mod)

/-- `StorageEngine::xadd` on an existing stream: with the repair, `XADD *` is refused (command error, nothing
    changes) when the stream's last ID is the greatest possible one; otherwise `add_auto`. -/
def xaddAuto (q : Quirks) (now : Nat) (f : Fields) (s : Stream) : Stream × Option Id :=
  if q.seqCarry && isTopId s.lastId then (s, none) else addAuto q now f s

/-- `StreamData::add_with_id`: `id <= last_id` refused, duplicate refused, else push and set all three copies of the last ID. -/
def addWithId (id : Id) (f : Fields) (s : Stream) : Stream × Bool :=
  if id ≤ s.lastId then (s, false)
  else if (bsearch s.entries id).1 then (s, false)
  else ({ entries := s.entries ++ [(id, f)], lastId := id, atomMs := id.ms, atomSeq := id.seq, length := s.length + 1 }, true)

/-- the `for i in …` loop of `range`/`range_after`: stop when `count` results are collected, push `entries[i]` when `i < len`. -/
def rangeLoop (es : List Entry) (count : Option Nat) : List Nat → List Entry → List Entry
  | [], acc => acc
  | i :: is, acc =>
    if (match count with | some c => decide (acc.length ≥ c) | none => false) then acc
    else match es[i]? with
      | some x => rangeLoop es count is (acc ++ [x])
      | none => rangeLoop es count is acc

/-- `start_idx` and `end_idx.min(len.saturating_sub(1))` of `StreamData::range`
    (`none` = the early return of the repaired code). -/
def rangeIdx (q : Quirks) (es : List Entry) (s e : Id) : Option (Nat × Nat) :=
  let startIdx := (bsearch es s).2                       -- .unwrap_or_else(|idx| idx)
  match bsearch es e with
  | (true, i) => some (startIdx, min i (es.length - 1))
  | (false, i) =>
    if i > 0 then some (startIdx, min (i - 1) (es.length - 1))
    else if q.rangeEndFix then none
    else some (startIdx, min 0 (es.length - 1))          -- `else { 0 }`

/-- `StreamData::range(start, end, count, reverse)` -/
def range (q : Quirks) (es : List Entry) (s e : Id) (count : Option Nat) (rev : Bool) : List Entry :=
  match rangeIdx q es s e with
  | none => []
  | some (lo, hi) =>
    let idxs := List.range' lo (hi + 1 - lo)             -- lo..=hi
    rangeLoop es count (if rev then idxs.reverse else idxs) []

/-- `StreamData::range_after(after, count)` -/
def rangeAfter (es : List Entry) (after : Id) (count : Option Nat) : List Entry :=
  let start := match bsearch es after with
    | (true, i) => i + 1
    | (false, i) => i
  let maxCount := count.getD es.length
  rangeLoop es (some maxCount) (List.range' start (es.length - start)) []

/-- `sorted_ids.sort()` -/
def insertId (a : Id) : List Id → List Id
  | [] => [a]
  | b :: r => if a ≤ b then a :: b :: r else b :: insertId a r
def sortIds (l : List Id) : List Id := l.foldr insertId []
/-- `sorted_ids.dedup()` -/
def dedupIds : List Id → List Id
  | a :: b :: r => if a = b then dedupIds (b :: r) else a :: dedupIds (b :: r)
  | l => l

/-- one iteration of the loop of `Stream::delete` -/
def deleteOne (es : List Entry) (id : Id) : List Entry × Nat :=
  match bsearch es id with
  | (true, i) => (es.eraseIdx i, 1)
  | (false, _) => (es, 0)

def deleteIds (es : List Entry) (ids : List Id) : List Entry × Nat :=
  (dedupIds (sortIds ids)).reverse.foldl
    (fun (acc : List Entry × Nat) id => ((deleteOne acc.1 id).1, acc.2 + (deleteOne acc.1 id).2)) (es, 0)

/-- `Stream::delete`; `last_id` and the atomics keep their values (also when the top entry goes). -/
def delete (s : Stream) (ids : List Id) : Stream × Nat :=
  let r := deleteIds s.entries ids
  ({ s with entries := r.1, length := s.length - r.2 }, r.2)

/-- `Stream::trim_by_count` -/
def trimByCount (s : Stream) (maxCount : Nat) : Stream × Nat :=
  if s.entries.length ≤ maxCount then (s, 0)
  else
    let k := s.entries.length - maxCount
    ({ s with entries := s.entries.drop k, length := s.length - k }, k)

/-- `Stream::trim_by_min_id` -/
def trimByMinId (s : Stream) (m : Id) : Stream × Nat :=
  let k := (bsearch s.entries m).2
  if k = 0 then (s, 0)
  else ({ s with entries := s.entries.drop k, length := s.length - k }, k)

/-! ### SAVE + restart -/

/-- the RDB loader: a fresh stream, the dump's entries re-added in file order with `xadd_with_id`
    (an entry that is refused is dropped) -/
def rebuild (es : List Entry) : Stream :=
  es.foldl (fun acc e => (addWithId e.1 e.2 acc).1) Stream.new

/-- `Stream::raise_last_id`: only ever moves up; the generator state follows -/
def raiseLastId (s : Stream) (id : Id) : Stream :=
  if s.lastId < id then { s with lastId := id, atomMs := id.ms, atomSeq := id.seq } else s

/-- SAVE (the present entries; with the repair also the last ID), stop, start, load -/
def restart (q : Quirks) (s : Stream) : Stream :=
  if q.persistLastId then raiseLastId (rebuild s.entries) s.lastId else rebuild s.entries

/-! ### Histories -/

inductive Op where
  | addAuto (now : Nat) (f : Fields)
  | addId (id : Id) (f : Fields)
  | del (ids : List Id)
  | trimCount (n : Nat)
  | trimMinId (m : Id)
  | restart
  deriving Repr

/-- A state together with the (ghost) record of the run: every accepted XADD in order, whether
    some auto ID was generated at `seq = 2^64-1` without clock progress, and whether some restart
    lost the last ID (came back with a smaller one). -/
structure Run where
  st : Stream
  added : List Entry
  wrapped : Bool
  lost : Bool := false
  deriving Repr

/-- the one situation in which `generate_next_atomic` has no greater sequence number left -/
def wrapsAt (now : Nat) (s : Stream) : Bool := decide (now ≤ s.atomMs) && decide (s.atomSeq + 1 ≥ u64Mod)

def step (q : Quirks) (r : Run) : Op → Run
  | .addAuto now f =>
    match xaddAuto q now f r.st with
    | (st', some id) => ⟨st', r.added ++ [(id, f)], r.wrapped || wrapsAt now r.st, r.lost⟩
    | (st', none) => ⟨st', r.added, r.wrapped || wrapsAt now r.st, r.lost⟩
  | .addId id f =>
    match addWithId id f r.st with
    | (st', true) => ⟨st', r.added ++ [(id, f)], r.wrapped, r.lost⟩
    | (st', false) => ⟨st', r.added, r.wrapped, r.lost⟩
  | .del ids => ⟨(delete r.st ids).1, r.added, r.wrapped, r.lost⟩
  | .trimCount n => ⟨(trimByCount r.st n).1, r.added, r.wrapped, r.lost⟩
  | .trimMinId m => ⟨(trimByMinId r.st m).1, r.added, r.wrapped, r.lost⟩
  | .restart => ⟨restart q r.st, r.added, r.wrapped, r.lost || decide ((restart q r.st).lastId ≠ r.st.lastId)⟩

def Run.init : Run := ⟨Stream.new, [], false, false⟩

def run (q : Quirks) (ops : List Op) : Run := ops.foldl (step q) Run.init

/-! ### ID text (`StreamId::from_string`, `parse_u64_fast`) -/

/-- `parse_u64_fast`: `None` on a non-digit; the accumulator wraps; the empty string is 0.
    `checked = true`: empty and overflowing inputs are refused. -/
def parseU64Fast (checked : Bool) (bs : Bytes) : Option Nat :=
  if checked && bs.isEmpty then none
  else
    bs.foldl (fun acc b =>
      match acc with
      | none => none
      | some r =>
        if b < 48 || b > 57 then none
        else if checked && decide (r * 10 + (b - 48) ≥ u64Mod) then none
        else some ((r * 10 + (b - 48)) % u64Mod)) (some 0)

/-- split at the first `-` (`s.find('-')`) -/
def splitDash : Bytes → Option (Bytes × Bytes)
  | [] => none
  | b :: r => if b = 45 then some ([], r) else (splitDash r).map fun (x, y) => (b :: x, y)

def parseId (q : Quirks) (s : Bytes) : Option Id :=
  match splitDash s with
  | none => none
  | some (m, sq) =>
    match parseU64Fast q.parseChecked m, parseU64Fast q.parseChecked sq with
    | some a, some b => some ⟨a, b⟩
    | _, _ => none

/-- `StreamId::from_string_with_seq`: with the repair, a text without a dash is the millisecond and the
    sequence number is `missing` (0 for XADD / XDEL / XREAD / a range start, 2^64-1 for a range end) -/
def parseIdSeq (q : Quirks) (missing : Nat) (s : Bytes) : Option Id :=
  if q.idIncomplete && !(s.contains 45) then (parseU64Fast q.parseChecked s).map fun ms => ⟨ms, missing⟩
  else parseId q s

/-- `packed.checked_add(1)`: the next ID among u64 pairs -/
def nextId (a : Id) : Option Id :=
  if a.seq + 1 < u64Mod then some ⟨a.ms, a.seq + 1⟩
  else if a.ms + 1 < u64Mod then some ⟨a.ms + 1, 0⟩
  else none

/-- `packed.checked_sub(1)`: the previous ID among u64 pairs -/
def prevId (a : Id) : Option Id :=
  if a.seq > 0 then some ⟨a.ms, a.seq - 1⟩
  else if a.ms > 0 then some ⟨a.ms - 1, u64Max⟩
  else none

/-- `StreamId::parse_range_bound`: a bound of XRANGE / XREVRANGE, possibly incomplete, possibly exclusive (`(`):
    an exclusive start is the next ID, an exclusive end the previous one -/
def parseBound (q : Quirks) (isStart : Bool) (s : Bytes) : Option Id :=
  match s with
  | 40 :: body =>
    if q.idIncomplete then
      match parseIdSeq q (if isStart then 0 else u64Max) body with
      | some id => if isStart then nextId id else prevId id
      | none => none
    else parseId q s
  | _ => parseIdSeq q (if isStart then 0 else u64Max) s

end Code

/-! ### What the property prescribes -/
namespace Spec

def takeOpt (c : Option Nat) (l : List Entry) : List Entry :=
  match c with
  | some n => l.take n
  | none => l

/-- XRANGE: present entries with `s ≤ id ≤ e`, in ID order, at most `count`. -/
def range (es : List Entry) (s e : Id) (count : Option Nat) : List Entry :=
  takeOpt count (es.filter fun x => decide (s ≤ x.1) && decide (x.1 ≤ e))

/-- XREVRANGE: the same entries in reverse ID order, at most `count` (from the top). -/
def revrange (es : List Entry) (s e : Id) (count : Option Nat) : List Entry :=
  takeOpt count (es.filter fun x => decide (s ≤ x.1) && decide (x.1 ≤ e)).reverse

/-- XREAD: present entries with `id > after`, in ID order, at most `count`. -/
def readAfter (es : List Entry) (after : Id) (count : Option Nat) : List Entry :=
  takeOpt count (es.filter fun x => decide (after < x.1))

def del (es : List Entry) (ids : List Id) : List Entry := es.filter fun x => !(ids.contains x.1)
/-- XTRIM MAXLEN n keeps the `n` newest entries -/
def trimCount (es : List Entry) (n : Nat) : List Entry := es.drop (es.length - n)
/-- XTRIM MINID m keeps the entries with `id ≥ m` -/
def trimMinId (es : List Entry) (m : Id) : List Entry := es.filter fun x => decide (m ≤ x.1)

/-- Abstract stream: the present entries in ID order and the greatest ID ever added (0-0 if none). -/
structure Stream where
  entries : List Entry
  maxEver : Id
  deriving DecidableEq, Repr

def Stream.new : Stream := ⟨[], Id.zero⟩

/-- an XADD (explicit or auto) may add `id` iff it is greater than every ID ever added -/
def add (id : Id) (f : Fields) (s : Stream) : Option Stream :=
  if s.maxEver < id then some ⟨s.entries ++ [(id, f)], id⟩ else none

/-- the least ID greater than `a` among u64 pairs, if any (what a correct `*` may fall back to) -/
def succId (a : Id) : Option Id :=
  if a.seq + 1 < u64Mod then some ⟨a.ms, a.seq + 1⟩
  else if a.ms + 1 < u64Mod then some ⟨a.ms + 1, 0⟩
  else none

/-- decimal u64: non-empty, digits only, `< 2^64` -/
def parseU64 (bs : Bytes) : Option Nat :=
  match digitsVal bs with
  | some v => if v < u64Mod then some v else none
  | none => none

/-- `<u64>-<u64>` -/
def parseId (s : Bytes) : Option Id :=
  match Code.splitDash s with
  | none => none
  | some (m, sq) =>
    match parseU64 m, parseU64 sq with
    | some a, some b => some ⟨a, b⟩
    | _, _ => none

end Spec

/-! ### Handlers (`commands/streams.rs`) over the key lookup of `StorageEngine::x*` -/
namespace Cmd
open Code

inductive Reply where
  | err
  | bulk (b : Bytes)
  | int (n : Nat)
  | entries (es : List Entry)
  | streams (xs : List (Bytes × List Entry))
  deriving Repr

abbrev Keyspace := List (Bytes × Code.Stream)

def lookup (ks : Keyspace) (k : Bytes) : Option Code.Stream :=
  match ks with
  | [] => none
  | (k', s) :: r => if k = k' then some s else lookup r k

def store (ks : Keyspace) (k : Bytes) (s : Code.Stream) : Keyspace :=
  match ks with
  | [] => [(k, s)]
  | (k', s') :: r => if k = k' then (k, s) :: r else (k', s') :: store r k s

def upper (b : Nat) : Nat := if 97 ≤ b ∧ b ≤ 122 then b - 32 else b
def kwCOUNT : Bytes := [67, 79, 85, 78, 84]
def kwSTREAMS : Bytes := [83, 84, 82, 69, 65, 77, 83]
def kwMAXLEN : Bytes := [77, 65, 88, 76, 69, 78]
def kwBLOCK : Bytes := [66, 76, 79, 67, 75]

/-- `handle_xadd`; `now` is the clock reading used if the ID argument is `*`. -/
def xadd (q : Quirks) (now : Nat) (ks : Keyspace) (args : List Bytes) : Keyspace × Reply :=
  if args.length < 4 || (args.length - 3) % 2 != 0 then (ks, .err)
  else
    match args with
    | _ :: key :: idb :: rest =>
      let f := if q.fieldsList then pairsOfArgs rest else fieldsOfArgs rest []
      if idb = [42] then
        let s := (lookup ks key).getD Code.Stream.new
        match xaddAuto q now f s with
        | (s', some id) => (store ks key s', .bulk id.text)
        | (_, none) => (ks, .err)
      else
        match parseIdSeq q 0 idb with
        | none => (ks, .err)
        | some id =>
          if id.ms = 0 ∧ id.seq = 0 then (ks, .err)
          else
            let s := (lookup ks key).getD Code.Stream.new
            match addWithId id f s with
            | (s', true) => (store ks key s', .bulk id.text)
            | (_, false) => (ks, .err)
    | _ => (ks, .err)

def parseStart (q : Quirks) (b : Bytes) : Option Id := if b = [45] then some Id.zero else parseBound q true b
def parseEnd (q : Quirks) (b : Bytes) : Option Id := if b = [43] then some Id.top else parseBound q false b

/-- `Ok(None)` / `Ok(Some n)` / error of the COUNT clause of XRANGE -/
def countClause (args : List Bytes) : Option (Option Nat) :=
  if args.length ≥ 6 then
    if (args.getD 4 []).map upper = kwCOUNT then
      match parseU64 (args.getD 5 []) with
      | some n => some (some n)
      | none => none
    else some none
  else some none

def entriesOf (ks : Keyspace) (key : Bytes) : List Entry :=
  match lookup ks key with
  | some s => s.entries
  | none => []

/-- `handle_xrange` -/
def xrange (q : Quirks) (ks : Keyspace) (args : List Bytes) : Reply :=
  if args.length < 4 then .err
  else
    match parseStart q (args.getD 2 []), parseEnd q (args.getD 3 []) with
    | some s, some e =>
      match countClause args with
      | none => .err
      | some c => .entries (Code.range q (entriesOf ks (args.getD 1 [])) s e c false)
    | _, _ => .err

/-- `handle_xrevrange` (end first, then start; a bare fifth argument that is a number is a count) -/
def xrevrange (q : Quirks) (ks : Keyspace) (args : List Bytes) : Reply :=
  if args.length < 4 then .err
  else
    match parseEnd q (args.getD 2 []), parseStart q (args.getD 3 []) with
    | some e, some s =>
      let c : Option (Option Nat) :=
        if args.length ≥ 6 && (args.getD 4 []).map upper == kwCOUNT then
          match parseU64 (args.getD 5 []) with
          | some n => some (some n)
          | none => none
        else if args.length = 5 then some (parseU64 (args.getD 4 []))
        else some none
      match c with
      | none => .err
      | some c => .entries (Code.range q (entriesOf ks (args.getD 1 [])) s e c true)
    | _, _ => .err

/-- `handle_xlen` -/
def xlen (ks : Keyspace) (args : List Bytes) : Reply :=
  if args.length ≠ 2 then .err
  else match lookup ks (args.getD 1 []) with
    | some s => .int s.length
    | none => .int 0

/-- option loop of `handle_xread`: returns the count and the arguments after `STREAMS`
    (`none` = syntax error / bad number). BLOCK is parsed and then ignored by the handler. -/
def xreadOpts : Nat → List Bytes → Option Nat → Option (Option Nat × List Bytes)
  | 0, _, _ => none
  | _, [], _ => none
  | f+1, a :: r, cnt =>
    let u := a.map upper
    if u = kwCOUNT ∧ r ≠ [] then
      match r with
      | n :: r' => match parseU64 n with
        | some v => xreadOpts f r' (some v)
        | none => none
      | [] => none
    else if u = kwBLOCK ∧ r ≠ [] then
      match r with
      | n :: r' => match parseU64 n with
        | some _ => xreadOpts f r' cnt
        | none => none
      | [] => none
    else if u = kwSTREAMS then some (cnt, r)
    else none

/-- the ID argument of XREAD: `$` = the last present entry (0-0 on an empty stream) -/
def xreadId (q : Quirks) (ks : Keyspace) (key idb : Bytes) : Option Id :=
  if idb = [36] then
    match (entriesOf ks key).getLast? with
    | some x => some x.1
    | none => some Id.zero
  else if idb = [48] ∨ idb = [48, 45, 48] then some Id.zero
  else parseIdSeq q 0 idb

/-- `handle_xread` + `StorageEngine::xread` (streams without news are omitted) -/
def xread (q : Quirks) (ks : Keyspace) (args : List Bytes) : Reply :=
  if args.length < 4 then .err
  else
    match xreadOpts args.length (args.drop 1) none with
    | none => .err
    | some (cnt, rest) =>
      if rest.length % 2 != 0 || rest.length = 0 then .err
      else
        let n := rest.length / 2
        let keys := rest.take n
        let ids := rest.drop n
        match (keys.zip ids).mapM (fun (k, i) => (xreadId q ks k i).map fun a => (k, a)) with
        | none => .err
        | some kas =>
          -- with the repair a COUNT of 0 is "no limit" (the handler passes `None` on)
          let cnt := if q.readCountZeroAll && cnt == some 0 then none else cnt
          .streams ((kas.map fun (k, a) => (k, Code.rangeAfter (entriesOf ks k) a cnt)).filter fun p => !p.2.isEmpty)

/-- the `max_len` of `handle_xtrim` (`none` = error reply) -/
def xtrimLen (args : List Bytes) : Option Nat :=
  if (args.getD 2 []).map upper ≠ kwMAXLEN then none
  else if args.length = 5 then
    let m := args.getD 3 []
    if m = [126] ∨ m = [61] then parseU64 (args.getD 4 [])
    else parseU64 m
  else if args.length = 4 then
    let a := args.getD 3 []
    if a = [126] ∨ a = [61] then none else parseU64 a
  else none

/-- `handle_xtrim` + `StorageEngine::xtrim` -/
def xtrim (ks : Keyspace) (args : List Bytes) : Keyspace × Reply :=
  if args.length < 4 then (ks, .err)
  else match xtrimLen args with
    | none => (ks, .err)
    | some n =>
      let key := args.getD 1 []
      match lookup ks key with
      | none => (ks, .int 0)
      | some s => let r := trimByCount s n; (store ks key r.1, .int r.2)

/-- `handle_xdel` + `StorageEngine::xdel` -/
def xdel (q : Quirks) (ks : Keyspace) (args : List Bytes) : Keyspace × Reply :=
  if args.length < 3 then (ks, .err)
  else match (args.drop 2).mapM (parseIdSeq q 0) with
    | none => (ks, .err)
    | some ids =>
      let key := args.getD 1 []
      match lookup ks key with
      | none => (ks, .int 0)
      | some s => let r := Code.delete s ids; (store ks key r.1, .int r.2)

/-- SAVE + restart of the whole key space: every stream key comes back (an emptied one as an empty stream) -/
def restartAll (q : Quirks) (ks : Keyspace) : Keyspace := ks.map fun (k, s) => (k, Code.restart q s)

/-- dispatch on the (already upper-cased) command name, as `process_normal_command` does -/
def handle (q : Quirks) (now : Nat) (ks : Keyspace) (args : List Bytes) : Option (Keyspace × Reply) :=
  match args with
  | [] => none
  | name :: _ =>
    let n := name.map upper
    if n = [88, 65, 68, 68] then some (xadd q now ks args)
    else if n = [88, 82, 65, 78, 71, 69] then some (ks, xrange q ks args)
    else if n = [88, 82, 69, 86, 82, 65, 78, 71, 69] then some (ks, xrevrange q ks args)
    else if n = [88, 76, 69, 78] then some (ks, xlen ks args)
    else if n = [88, 82, 69, 65, 68] then some (ks, xread q ks args)
    else if n = [88, 84, 82, 73, 77] then some (xtrim ks args)
    else if n = [88, 68, 69, 76] then some (xdel q ks args)
    else none

end Cmd

end Ferrous.Stream
