/-
  C06 — no client input can crash, hang or wedge the server.

  What a theorem can carry: the arithmetic that decides whether a slice bound, a capacity or a
  time computation panics, for ALL arguments (Model/Arith.lean and the window functions of the
  other models), plus the inventory tie: every risky construct the translator finds in the
  sources is one that has been reviewed.  Process liveness itself is explored by lib/c06.py.
-/
import FerrousSpec.Model.Arith
import FerrousSpec.Gen.Arith
import FerrousSpec.Props.C03
import FerrousSpec.Props.C20
set_option linter.unusedSimpArgs false
namespace Ferrous.C06
open Ferrous Ferrous.Arith

/-- **Inventory tie**: every `with_capacity`, `vec![0; n]`, `from_secs_f64`, `now + d`, slice range,
    `BTreeMap::range` and `split_at` with a run-time operand that the translator finds in the current
    sources is in the reviewed list.  A new or altered site stops this from checking. -/
theorem every_site_reviewed : ∀ s ∈ Gen.arithSites, s ∈ reviewed := by decide

/-- GETRANGE never panics: for every length and every pair of i64 indices the slice bounds
    `a ≤ b + 1 ≤ len` hold (the pinned tree panicked on `GETRANGE k 0 -10`). -/
theorem getrange_no_panic (len : Nat) (start stop : Int) (hlen : len ≤ isizeMax) :
    isPanic (getrange len start stop) = false := by
  unfold getrange
  simp only []
  repeat' split
  all_goals (try rfl)
  all_goals (simp [usizeMax, isizeMax] at *)
  all_goals (try omega)

/-- … and what it selects is the reference window (`KS.getrangeSel`, the Spec of C01):
    the same normalisation, so a non-panicking result is exactly the Spec's window. -/
theorem getrange_window_in_bounds (len : Nat) (start stop : Int) (a c : Nat)
    (h : getrange len start stop = .ok (some (a, c))) : a ≤ c ∧ c < len := by
  unfold getrange at h
  simp only [] at h
  repeat' split at h
  all_goals (simp at h)
  all_goals omega

/-- SETRANGE never panics and never allocates more than 512 MB beyond what is stored: for every
    offset (up to usize::MAX) and value length the outcome is a refusal or a size ≤ max(cur, 512 MB). -/
theorem setrange_no_panic (cur : Option Nat) (offset vlen : Nat) (hcur : cur.getD 0 ≤ maxString) :
    isPanic (setrange cur offset vlen) = false ∧
    ∀ n, setrange cur offset vlen = .ok n → n ≤ maxString := by
  unfold setrange
  repeat' split
  all_goals (simp [isPanic, usizeMax, isizeMax, maxString] at *)
  all_goals (try omega)

/-- SRANDMEMBER with a negative count never panics and never reserves more than 10 million slots,
    down to `count = i64::MIN` (whose negation overflowed on the pinned tree). -/
theorem srandmember_no_panic (count : Int) (elemSize : Nat) (hs : elemSize ≤ 64) :
    isPanic (srandPicks count elemSize) = false ∧
    ∀ n, srandPicks count elemSize = .ok n → n ≤ 10000000 * 64 := by
  unfold srandPicks
  repeat' split
  all_goals (simp [isPanic, isizeMax] at *)
  all_goals (try omega)
  · rename_i h1 h2 h3
    have : count.natAbs * elemSize ≤ 10000000 * 64 := Nat.mul_le_mul (by omega) hs
    omega
  · rename_i h1 h2 h3
    exact Nat.mul_le_mul h2 hs

/-- EVAL/EVALSHA: whatever `numkeys` declares (up to usize::MAX) the bounds check cannot wrap and the
    key vector is never sized beyond the number of frames received. -/
theorem eval_numkeys_no_panic (parts numKeys elemSize : Nat) (hp : parts * elemSize ≤ isizeMax) :
    isPanic (evalKeys parts numKeys elemSize) = false := by
  unfold evalKeys
  repeat' split
  all_goals (simp [isPanic] at *)
  rename_i h1 h2
  have : numKeys * elemSize ≤ parts * elemSize := Nat.mul_le_mul_right _ (by omega)
  omega

/-- A time-to-live of any size never overflows the deadline computation, as long as the clock itself
    is a century away from the end of `Instant`. -/
theorem deadline_no_panic (instantMax now ttl : Nat)
    (h : now + 100 * 365 * 24 * 60 * 60 * 1000000000 ≤ instantMax) :
    isPanic (deadlineAfter instantMax now ttl) = false := by
  unfold deadlineAfter
  simp only []
  repeat' split
  all_goals (simp [isPanic] at *)
  all_goals omega

/-- LINDEX/LSET: the normalised index is inside the list or the element is reported missing. -/
theorem list_index_in_bounds (len : Nat) (index : Int) (j : Nat) (h : listIndex len index = .ok (some j)) : j < len := by
  unfold listIndex at h
  simp only [] at h
  repeat' split at h
  all_goals (simp at h)
  all_goals omega

/-- LRANGE/LTRIM windows are inside the list for all integer bounds (re-export of C03). -/
theorem lrange_in_bounds (len : Nat) (s e : Int) (a c : Nat) (h : KS.lrangeSel len s e = some (a, c)) :
    a ≤ c ∧ c < len :=
  C03.lrange_in_bounds len s e a c h

/-- The RESP parser never reserves by a declared length it has not received, never recurses deeper
    than the nesting limit, and never slices outside its buffer (re-export of C20). -/
theorem parser_bounded (d : Bytes) :
    reserveOf true (maxNesting + 1) d ≤ 2 * d.length ∧
    (∀ f r, parseBytes d = .ok f r → f.depth ≤ maxNesting + 1 ∧ r.length + 3 ≤ d.length) :=
  ⟨C20.reserve_bounded d, fun f r h => ⟨C20.nesting_bounded d f r h, C20.consumed_bounded d f r h⟩⟩

/-! ### Witnesses: what the pinned arithmetic did -/

/-- The pinned GETRANGE computed `end = max(-1, len + end) as usize` = usize::MAX for `0 -10` on 3 bytes. -/
theorem pinned_getrange_panicked : isPanic (sliceIncl 3 0 usizeMax) = true := by decide

/-- Sizing by a declared count of 2^63 slots of 24 bytes overflows the capacity computation. -/
theorem unchecked_count_panics : isPanic (alloc 9223372036854775808 24) = true := by decide

/-! ### Non-vacuity -/
example : getrange 3 0 (-10) = .ok (some (0, 0)) ∧ getrange 3 (-2) 100 = .ok (some (1, 2)) := by decide
example : setrange (some 3) 4611686018427387904 1 = .refused ∧ setrange none 5 2 = .ok 7 := by decide
example : srandPicks (-9223372036854775808) 24 = .refused ∧ srandPicks (-3) 24 = .ok 72 := by decide
example : evalKeys 3 18446744073709551615 32 = .refused ∧ evalKeys 5 2 32 = .ok 64 := by decide

end Ferrous.C06
